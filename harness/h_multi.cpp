// Correspondence harness for C16 (several hosts): 1-3 real HostPool objects sharing one
// Environment, wrapped in a real MultiHostPool, with PestHostTable / CompetencyTable built
// through Config::read_pest_host_table / read_competency_table. Landscape: 1 x 2 cells.
// For every single-host case each disperser_to is also run on a bare HostPool over an identical
// copy with an identically scripted engine (line `mh.single`).
// Usage: h_multi <mode> <seed> <first> <count>     modes: pool
#include "host_common.hpp"
#include <pops/competency_table.hpp>
#include <pops/pest_host_table.hpp>
#include <pops/config.hpp>
#include <memory>
using namespace pops;
using namespace verif;

static Stats stats;

static std::string rat(int num, int den) {  // num/den, den a power of two, reduced
    if (num == 0) return "0/1";
    while (num % 2 == 0 && den > 1) { num /= 2; den /= 2; }
    return std::to_string(num) + "/" + std::to_string(den);
}

// exact k/64 of a double that is known to be a multiple of 1/64
static std::string dbl64(double v) {
    double k = v * 64.0;
    long ki = (long)k;
    if ((double)ki != k) { char b[64]; snprintf(b, sizeof b, "%a", v); return std::string("hex:") + b; }
    return rat((int)ki, 64);
}

static bool pow2(int n) { return n > 0 && (n & (n - 1)) == 0; }
static int next_pow2(int n) { int p = 1; while (p < n) p *= 2; return p; }

// One "universe": environment, rasters of every host, pools, tables.
struct Universe {
    int H;
    Env env;
    IRaster npop, others;
    bool via_others = false;   // the environment derives the total population itself: other individuals + all hosts
    DRaster weather;
    std::vector<std::unique_ptr<HostState>> hs;
    std::vector<std::unique_ptr<Pool>> pools;
    std::unique_ptr<PestHostTable<Pool>> pht;
    std::unique_ptr<CompetencyTable<Pool>> ct;
    Universe(int H_) : H(H_), npop(1, 2, 1), others(1, 2, 0), weather(1, 2, 1.0) {}
    // total population N at cell a, through whichever path this universe uses
    void set_population(int a, int N) {
        npop(0, a) = N;
        // Environment::total_population_at = other individuals + sum over hosts of total_hosts_at, and
        // HostPool::total_hosts_at is documented to count susceptible + infected only (not exposed, not resistant)
        int hosts = 0; for (auto& h : hs) hosts += h->s(0, a) + h->i(0, a);
        others(0, a) = N - hosts;
    }
    std::string state() const {
        std::ostringstream o;
        for (auto& h : hs) o << " |" << h->cells();
        return o.str();
    }
};

struct HostCfg { bool sei; int latency, ne, nm; bool sto; int pest64; int rr4; };

static void build_pools(Universe& u, const std::vector<HostCfg>& hc, bool use_weather) {
    if (u.via_others) u.env.set_other_individuals(&u.others); else u.env.set_total_population(&u.npop);
    if (use_weather) u.env.update_weather_coefficient(u.weather);
    for (size_t k = 0; k < hc.size(); k++) {
        auto& h = *u.hs[k];
        u.pools.emplace_back(new Pool(hc[k].sei ? ModelType::SusceptibleExposedInfected : ModelType::SusceptibleInfected, h.s, h.e,
                                      (unsigned)hc[k].latency, h.i, h.te, h.r, h.m, h.died, h.th, u.env, false, hc[k].rr4 / 4.0,
                                      hc[k].sto, hc[k].pest64 / 64.0, 1, 2, h.suitable));
    }
}

static void copy_state(const HostState& from, HostState& to) {
    to.s = from.s; to.i = from.i; to.r = from.r; to.te = from.te; to.th = from.th; to.died = from.died;
    for (size_t k = 0; k < from.e.size(); k++) to.e[k] = from.e[k];
    for (size_t k = 0; k < from.m.size(); k++) to.m[k] = from.m[k];
}

static std::string row_token(const std::vector<int>& nums, const std::vector<int>& dens) {
    std::ostringstream o;
    if (nums.empty()) return "-";
    for (size_t k = 0; k < nums.size(); k++) o << (k ? "," : "") << rat(nums[k], dens[k]);
    return o.str();
}

static void pool_case(Case& c) {
    Rng& rng = c.rng;
    std::ostream& out = c.out;
    int hsel = rng.in(0, 99);
    int H = hsel < 36 ? 1 : (hsel < 70 ? 2 : 3);
    bool land = rng.coin(50);
    bool cfg_sto = rng.coin(65);
    int cfg_pest64 = rng.coin(20) ? 64 : rng.in(0, 64);
    bool use_weather = rng.coin(65);
    std::vector<HostCfg> hc;
    for (int k = 0; k < H; k++) {
        HostCfg x;
        x.sei = rng.coin(50);
        x.latency = x.sei ? rng.in(0, 2) : 0;
        x.ne = x.sei ? x.latency + 1 : (rng.coin(50) ? 0 : 1);
        x.nm = rng.in(1, 3);
        bool same = H == 1 || rng.coin(70);
        x.sto = same ? cfg_sto : rng.coin(50);
        x.pest64 = same ? cfg_pest64 : rng.in(0, 64);
        x.rr4 = rng.coin(15) ? 4 : rng.in(0, 14);
        hc.push_back(x);
    }
    Config config;
    config.set_arrival_behavior(land ? "land" : "infect");
    config.establishment_stochasticity = cfg_sto;
    config.establishment_probability = cfg_pest64 / 64.0;
    stats.add("hosts_" + std::to_string(H));
    stats.add(land ? "arrival_land" : "arrival_infect");

    // a rejected arrival behaviour now and then
    if (rng.coin(3)) {
        static const std::vector<std::string> names = {"Land", "infects", "none", "arrive", "landing", "INFECT"};
        std::string nm = rng.pick(names);
        Config c2;
        std::string err = err_kind([&] { c2.set_arrival_behavior(nm); });
        out << "mh.arrival " << nm << " => " << (err.empty() ? "ok" : err) << " " << c2.arrival_behavior() << "\n";
        stats.add("arrival_rejected");
    } else if (rng.coin(4)) {
        Config c2;
        std::string nm = rng.coin(50) ? "land" : "infect";
        std::string err = err_kind([&] { c2.set_arrival_behavior(nm); });
        out << "mh.arrival " << nm << " => " << (err.empty() ? "ok" : err) << " " << c2.arrival_behavior() << "\n";
    }

    out << "mh.begin " << H << " " << (land ? "land" : "infect") << " " << (cfg_sto ? 1 : 0) << " " << rat64(cfg_pest64) << " "
        << (use_weather ? 1 : 0) << "\n";
    for (int k = 0; k < H; k++)
        out << "mh.host " << k << " " << (hc[k].sei ? "SEI" : "SI") << " " << (hc[k].sto ? 1 : 0) << " " << rat64(hc[k].pest64) << " "
            << rat(hc[k].rr4, 4) << "\n";

    // ---- pest-host table through Config
    bool use_pht = rng.coin(78);
    if (use_pht) {
        if (rng.coin(10)) {
            int r64 = rng.in(0, 64), lag = rng.in(0, 3);
            int nh = rng.coin(85) ? H : rng.in(0, 4);
            config.mortality_rate = r64 / 64.0; config.mortality_time_lag = lag;
            config.create_pest_host_table_from_parameters(nh);
            out << "mh.mkpht " << nh << " " << rat64(r64) << " " << lag << " => ok |";
            for (auto& r : config.pest_host_table_data()) out << " " << dbl64(r.susceptibility) << "," << dbl64(r.mortality_rate) << "," << dbl64(r.mortality_time_lag);
            out << "\n";
            stats.add("pht_from_parameters");
        } else {
            int nrows = rng.coin(90) ? H : (rng.coin(50) ? H - 1 : H + 1);
            int bad = rng.coin(7) ? rng.in(0, std::max(0, nrows - 1)) : -1;
            std::vector<std::vector<double>> values;
            std::ostringstream in;
            for (int k = 0; k < nrows; k++) {
                std::vector<int> nums, dens;
                int sus = rng.coin(25) ? 64 : (rng.coin(12) ? 0 : rng.in(0, 64));
                int rate = rng.coin(20) ? 0 : rng.in(1, 64);
                int lag2 = 2 * rng.in(0, 3);  // halves
                if (rng.coin(6)) lag2 += 1;   // 0.5, 1.5: truncated by the table
                nums = {sus, rate, lag2}; dens = {64, 64, 2};
                if (k == bad) {
                    int kind = rng.in(0, 3);
                    if (kind == 0) { nums.pop_back(); dens.pop_back(); }
                    else if (kind == 1) { nums = {sus}; dens = {64}; if (rng.coin(50)) { nums.clear(); dens.clear(); } }
                    else if (kind == 2) nums[0] = 64 + rng.in(1, 4);
                    else nums[0] = -rng.in(1, 4);
                } else if (rng.coin(5)) { nums.push_back(rng.in(0, 9)); dens.push_back(1); }  // extra column: ignored
                std::vector<double> row;
                for (size_t j = 0; j < nums.size(); j++) row.push_back((double)nums[j] / dens[j]);
                values.push_back(row);
                in << " " << row_token(nums, dens);
            }
            std::string err = err_kind([&] { config.read_pest_host_table(values); });
            out << "mh.readpht" << in.str() << " => " << (err.empty() ? "ok" : err) << " |";
            for (auto& r : config.pest_host_table_data()) out << " " << dbl64(r.susceptibility) << "," << dbl64(r.mortality_rate) << "," << rat((int)(r.mortality_time_lag * 2), 2);
            out << "\n";
            stats.add(err.empty() ? "pht_read_ok" : "pht_read_rejected");
            if (nrows != H) stats.add("pht_wrong_row_count");
            if (!err.empty()) return;
        }
    } else {
        out << "mh.nopht\n";
        stats.add("pht_none");
    }

    // ---- competency table through Config
    bool use_ct = rng.coin(72);
    bool ct_complete = false;
    if (use_ct) {
        std::vector<std::vector<int>> rowsn;  // numerators: presence values then competency (/64)
        int ncols = H;
        bool complete = rng.coin(40);
        auto comp_val = [&]() { return rng.coin(6) ? -rng.in(1, 16) : (rng.coin(12) ? 0 : (rng.coin(10) ? 64 : rng.in(1, 80))); };
        if (complete) {
            for (int m = 0; m < (1 << H); m++) {
                std::vector<int> r;
                for (int k = 0; k < H; k++) r.push_back((m >> k) & 1);
                r.push_back(comp_val());
                rowsn.push_back(r);
            }
            for (int k = (int)rowsn.size() - 1; k > 0; k--) std::swap(rowsn[(size_t)k], rowsn[(size_t)rng.in(0, k)]);
            if (rng.coin(8) && rowsn.size() >= 2) {  // a repeated combination: one combination is then missing
                size_t a = (size_t)rng.in(0, (int)rowsn.size() - 1), b = (size_t)rng.in(0, (int)rowsn.size() - 1);
                if (a != b) { for (int k = 0; k < H; k++) rowsn[a][(size_t)k] = rowsn[b][(size_t)k]; stats.add("comp_complete_with_repeat"); }
            }
        } else {
            if (rng.coin(6)) ncols = H + 1;  // more columns than hosts: rejected at lookup
            int nr = rng.in(1, 6);
            int common = rng.in(1, 64);
            for (int m = 0; m < nr; m++) {
                std::vector<int> r;
                for (int k = 0; k < ncols; k++) r.push_back(rng.coin(45) ? 1 : 0);
                r.push_back(rng.coin(30) ? common : comp_val());
                rowsn.push_back(r);
            }
        }
        int bad = rng.coin(7) ? rng.in(0, (int)rowsn.size() - 1) : -1;
        if (bad >= 0) {
            int kind = rng.in(0, 2);
            if (kind == 0) rowsn[(size_t)bad].pop_back();
            else if (kind == 1) rowsn[(size_t)bad].push_back(1);
            else { rowsn[(size_t)bad].resize(1); if (bad == 0 && rng.coin(50)) for (auto& r : rowsn) r.resize(1); }
        }
        std::vector<std::vector<double>> values;
        std::ostringstream in;
        for (auto& r : rowsn) {
            std::vector<double> row; std::vector<int> nums, dens;
            for (size_t j = 0; j < r.size(); j++) {
                bool last = j + 1 == r.size();
                int num = r[j], den = last ? 64 : 1;
                if (!last && num == 1 && rng.coin(8)) { num = rng.coin(50) ? 2 : -1; if (rng.coin(30)) { num = 1; den = 2; } }  // any non-zero is presence
                nums.push_back(num); dens.push_back(den); row.push_back((double)num / den);
            }
            values.push_back(row);
            in << " " << row_token(nums, dens);
        }
        std::string err = err_kind([&] { config.read_competency_table(values); });
        ct_complete = config.competency_table_is_complete();
        out << "mh.readcomp" << in.str() << " => " << (err.empty() ? "ok" : err) << " " << (ct_complete ? 1 : 0) << " |";
        for (auto& r : config.competency_table_data()) {
            out << " ";
            if (r.presence_absence.empty()) out << "-";
            for (bool b : r.presence_absence) out << (b ? '1' : '0');
            out << ";" << dbl64(r.competency);
        }
        out << "\n";
        stats.add(err.empty() ? (ct_complete ? "comp_complete" : "comp_partial") : "comp_read_rejected");
        if (ncols != H) stats.add("comp_wrong_columns");
        if (!err.empty()) return;
        // a partial table with fewer columns than hosts would index a row out of bounds (undefined)
        if (!ct_complete && !config.competency_table_data().empty() && (int)config.competency_table_data()[0].presence_absence.size() < H) return;
    } else {
        out << "mh.nocomp\n";
        stats.add("comp_none");
    }

    // ---- pools
    Universe U(H);
    U.via_others = c.index % 3 == 1;   // a third of the cases: Environment::set_other_individuals instead of set_total_population
    stats.add(U.via_others ? "population_via_other_individuals" : "population_via_total_population");
    for (int k = 0; k < H; k++) {
        U.hs.emplace_back(new HostState(1, 2, hc[(size_t)k].ne, hc[(size_t)k].nm));
        U.hs.back()->randomize(rng, hc[(size_t)k].sei);
        if (rng.coin(12)) {  // host absent from the first cell
            auto& h = *U.hs.back();
            h.s(0, 0) = 0; h.i(0, 0) = 0; h.r(0, 0) = 0; h.te(0, 0) = 0; h.th(0, 0) = 0;
            for (auto& x : h.e) x(0, 0) = 0;
            for (auto& x : h.m) x(0, 0) = 0;
        }
    }
    build_pools(U, hc, use_weather);
    if (use_pht) U.pht.reset(new PestHostTable<Pool>(config, U.env));
    if (use_ct) U.ct.reset(new CompetencyTable<Pool>(config, U.env));
    std::vector<Pool*> ptrs; for (auto& p : U.pools) ptrs.push_back(p.get());
    MultiPool multi(ptrs, config);
    if (use_pht) multi.set_pest_host_table(*U.pht);
    if (use_ct) multi.set_competency_table(*U.ct);
    Provider prov(rng.next());

    // twin universe with the bare host (single-host cases)
    std::unique_ptr<Universe> T;
    std::unique_ptr<Provider> prov2;
    if (H == 1) {
        T.reset(new Universe(1));
        T->via_others = U.via_others;
        T->hs.emplace_back(new HostState(1, 2, hc[0].ne, hc[0].nm));
        copy_state(*U.hs[0], *T->hs[0]);
        T->hs[0]->suitable = U.hs[0]->suitable;
        build_pools(*T, hc, use_weather);
        if (use_pht) { T->pht.reset(new PestHostTable<Pool>(config, T->env)); T->pools[0]->set_pest_host_table(*T->pht); }
        if (use_ct) { T->ct.reset(new CompetencyTable<Pool>(config, T->env)); T->pools[0]->set_competency_table(*T->ct); }
        prov2.reset(new Provider(7));
    }

    out << "mh.state =>" << U.state() << "\n";
    int nops = rng.in(6, 14), kinds = 0; unsigned kindmask = 0;
    bool any_hosts = false;
    for (auto& h : U.hs) if (h->th(0, 0) > 0 || h->th(0, 1) > 0) any_hosts = true;
    for (int op = 0; op < nops; op++) {
        int a = rng.coin(75) ? 0 : 1;
        int kind = rng.in(0, 13);
        if (kind > 10) kind = 0;
        if (kind == 9 && !use_pht && rng.coin(80)) kind = 1;  // without a table the call is rejected and ends the case
        std::string err;
        std::ostringstream line, ret;
        bool stop = false;
        switch (kind) {
        case 0: case 1: case 2: {  // disperser_to
            int T_th = 0, S = 0;
            for (auto& h : U.hs) { T_th += h->th(0, a); S += h->s(0, a); }
            int N;
            int sel = rng.in(0, 99);
            if (sel < 45) N = next_pow2(std::max(1, T_th)) * (rng.coin(25) ? 2 : 1);
            else if (sel < 90) N = std::max(1, T_th + (rng.coin(50) ? 0 : rng.in(0, 10)));
            else if (sel < 95) N = std::max(1, S);               // total may reach exactly 1
            else N = std::max(1, S - rng.in(1, 3));              // total population below the susceptible: over one
            int w64 = rng.coin(16) ? 0 : (rng.coin(30) ? 64 : rng.in(0, 64));
            if (!use_weather) w64 = 64;
            int u64 = rng.in(0, 63), v64 = rng.coin(8) ? 0 : rng.in(0, 63);
            // exact weights (numerators over N * 64 * 64) to detect ties that doubles could round either way
            std::vector<long> num;
            long total = 0;
            for (int k = 0; k < H; k++) {
                long sus = 64;
                if (use_pht && (size_t)k < config.pest_host_table_data().size()) sus = (long)(config.pest_host_table_data()[(size_t)k].susceptibility * 64);
                long x = (long)U.hs[(size_t)k]->s(0, a) * sus * w64;
                num.push_back(x); total += x;
            }
            auto tie = [&](int n) {
                long one = (long)n * 4096, uu = (long)u64 * n * 64;
                if (total == one || total == uu) return true;
                for (long x : num) if (x == one || x == uu) return true;
                for (int k = 0; k < H; k++) if (!hc[(size_t)k].sto && (long)(64 - hc[(size_t)k].pest64) * n * 64 == num[(size_t)k]) return true;
                if (!cfg_sto && (long)(64 - cfg_pest64) * n * 64 == total) return true;
                for (int k = 0; k < H; k++) if (!hc[(size_t)k].sto && (long)(64 - hc[(size_t)k].pest64) * n * 64 == total) return true;
                return false;
            };
            if (!pow2(N) && tie(N)) { N = next_pow2(N); stats.add("dispto_tie_made_exact"); }
            if (pow2(N) && tie(N)) stats.add("dispto_exact_tie");
            U.set_population(a, N); U.weather(0, a) = w64 / 64.0;
            // what std::discrete_distribution returns for these weights and this uniform
            std::string pick = "-";
            if (H >= 2) {
                std::vector<double> ws; double tot = 0; bool threw = false;
                for (auto& p : U.pools) { try { double s = p->suitability_at(0, a); ws.push_back(s); tot += s; } catch (const std::exception&) { threw = true; break; } }
                if (!threw && tot > 0 && tot <= 1) {
                    std::discrete_distribution<int> dd(ws.begin(), ws.end());
                    ScriptedEngine e2; e2.push_uniform_64ths(v64);
                    pick = std::to_string(dd(e2));
                }
            }
            ScriptedEngine& eng = prov.establishment();
            eng.script.clear();
            if (H >= 2) eng.push_uniform_64ths(v64);
            eng.push_uniform_64ths(u64);
            std::string wtok = use_weather ? rat64(w64) : std::string("none");
            unsigned long mcalls = 0;
            int mv = 0;
            if (H == 1) {
                // the same call on the bare host over an identical copy
                copy_state(*U.hs[0], *T->hs[0]);
                T->set_population(a, N); T->weather(0, a) = w64 / 64.0;
                ScriptedEngine& e2 = prov2->establishment();
                e2.script.clear(); e2.push_uniform_64ths(u64);
                unsigned long b0 = e2.calls;
                int bv = 0; std::string berr = err_kind([&] { bv = T->pools[0]->disperser_to(0, a, e2); });
                unsigned long bcalls = e2.calls - b0;
                e2.script.clear();
                unsigned long m0 = eng.calls;
                err = err_kind([&] { mv = multi.disperser_to(0, a, eng); });
                mcalls = eng.calls - m0;
                out << "mh.single " << a << " " << rat64(u64) << " " << N << " " << wtok << " => " << (err.empty() ? std::to_string(mv) : err) << " "
                    << mcalls << " " << (berr.empty() ? std::to_string(bv) : berr) << " " << bcalls << U.state() << T->state() << "\n";
                stats.add("single_host_differential");
                if (U.hs[0]->s(0, a) > 0 && num[0] == 0 && err.empty()) {
                    stats.add("f19_region"); if (hc[0].sto) stats.add("f19_region_stochastic");
                    if (mcalls != bcalls) stats.add("f19_witness_call_counts_differ");
                }
                v64 = 0;
            } else {
                unsigned long m0 = eng.calls;
                err = err_kind([&] { mv = multi.disperser_to(0, a, eng); });
                mcalls = eng.calls - m0;
            }
            eng.script.clear();
            line << "mh.dispto " << a << " " << rat64(v64) << " " << rat64(u64) << " " << N << " " << wtok;
            ret << (err.empty() ? std::to_string(mv) : err) << " " << mcalls << " " << pick;
            if (err.empty() && mv) stats.add("dispto_established");
            if (pick != "-") stats.add("dispto_pick_" + pick);
            if (!err.empty()) stats.add("dispto_threw");
            err.clear();
            stats.add("op_dispto");
            if (total == 0) stats.add("dispto_total_zero");
            if (total > (long)N * 4096) stats.add("dispto_total_over_one");
            break; }
        case 3: {  // pests_from
            int I = 0; for (auto& h : U.hs) I += h->i(0, a);
            int sel = rng.in(0, 99);
            int k = sel < 65 ? rng.in(0, I + 1) : (sel < 75 ? 0 : (sel < 92 ? I + rng.in(1, 9) : -rng.in(1, 3)));
            int v = 0; err = err_kind([&] { v = multi.pests_from(0, a, k, prov.overpopulation()); });
            line << "mh.pestsfrom " << a << " " << k; ret << v; stats.add("op_pestsfrom");
            if (k < 0) stats.add("pests_negative_count"); else if (k > I) stats.add("pests_more_than_available");
            break; }
        case 4: {  // pests_to
            int S = 0; for (auto& h : U.hs) S += h->s(0, a);
            int sel = rng.in(0, 99);
            int k = sel < 65 ? rng.in(0, S + 1) : (sel < 75 ? 0 : (sel < 92 ? S + rng.in(1, 9) : -rng.in(1, 3)));
            int v = 0; err = err_kind([&] { v = multi.pests_to(0, a, k, prov.overpopulation()); });
            line << "mh.peststo " << a << " " << k; ret << v; stats.add("op_peststo");
            if (k < 0) stats.add("pests_negative_count"); else if (k > S) stats.add("pests_more_than_available");
            break; }
        case 5: case 6: {  // dispersers_from, deterministic
            int w64 = rng.coin(12) ? 0 : (rng.coin(30) ? 64 : rng.in(0, 64));
            if (!use_weather) w64 = 64;
            U.weather(0, a) = w64 / 64.0;
            int v = 0; err = err_kind([&] { v = multi.dispersers_from(0, a, prov.disperser_generation()); });
            line << "mh.dispfrom " << a << " " << (use_weather ? rat64(w64) : std::string("none")); ret << v; stats.add("op_dispfrom");
            if (!err.empty()) stats.add("dispfrom_threw");
            break; }
        case 7: {  // sums
            int inf = multi.infected_at(0, a), tot = multi.total_hosts_at(0, a);
            line << "mh.sums " << a; ret << inf << " " << tot; stats.add("op_sums"); break; }
        case 8: {  // competency of every host
            line << "mh.competency " << a;
            if (!use_ct) { ret << "none"; }
            else for (int k = 0; k < H; k++) {
                double v = 0; std::string e = err_kind([&] { v = U.ct->competency_at(0, a, U.pools[(size_t)k].get()); });
                ret << (k ? " " : "") << (e.empty() ? dbl64(v) : e);
                if (!e.empty()) stats.add("competency_threw");
            }
            stats.add("op_competency"); break; }
        case 9: {  // mortality with the rate and lag of the pest-host table
            err = err_kind([&] { multi.apply_mortality_at(0, a); });
            line << "mh.mortality " << a; ret << "ok"; stats.add("op_mortality");
            if (!err.empty()) { stats.add("mortality_threw"); stop = true; }
            break; }
        default: {  // host movement: forwarded to the first host
            int k = rng.coin(30) ? rng.in(0, 80) : rng.in(0, 12);
            int v = 0; err = err_kind([&] { v = multi.move_hosts_from_to(0, a, 0, 1 - a, k, prov.movement()); });
            line << "mh.move " << a << " " << (1 - a) << " " << k; ret << v; stats.add("op_move"); break; }
        }
        if (!(kindmask & (1u << kind))) { kindmask |= 1u << kind; kinds++; }
        out << line.str() << " => " << (err.empty() ? ret.str() : err) << U.state() << "\n";
        if (stop) break;
    }
    c.nontrivial = kinds >= 3 && any_hosts;
}

int main(int argc, char** argv) {
    std::ios::sync_with_stdio(false);
    std::string mode = argc > 1 ? argv[1] : "pool";
    uint64_t seed = argc > 2 ? std::stoull(argv[2]) : 1;
    long first = argc > 3 ? std::stol(argv[3]) : 0;
    long count = argc > 4 ? std::stol(argv[4]) : 100;
    if (!selftest_uniform()) { std::cerr << "SELFTEST FAILED: libstdc++ uniform_real_distribution does not consume one 64-bit value\n"; return 3; }
    if (mode == "pool") run_cases("h_multi", mode, seed, first, count, pool_case);
    stats.dump("h_multi");
    return 0;
}
