// Correspondence harness for the host-pool family (C01-C05, C10-C12, C17): random operation
// sequences on a real HostPool through the public pool methods and the action / treatment
// classes, all rasters printed after every operation.
// Usage: h_host <mode> <seed> <first> <count>     modes: pool
#include <pops/scheduling.hpp>
#include "host_common.hpp"
using namespace pops;
using namespace verif;

static Stats stats;

static void pool_case(Case& c) {
    Rng& rng = c.rng;
    std::ostream& out = c.out;
    static const int shapes[][2] = {{1, 1}, {1, 3}, {2, 2}, {2, 3}, {3, 1}, {3, 2}, {1, 2}};
    int si = rng.in(0, 6);
    int rows = shapes[si][0], cols = shapes[si][1];
    bool sei = rng.coin(55);
    int latency = sei ? rng.in(0, 3) : 0;
    int ne = sei ? latency + 1 : (rng.coin(50) ? 0 : rng.in(1, 2));
    int nm = rng.in(1, 4);
    HostState h(rows, cols, ne, nm);
    h.randomize(rng, sei);
    Provider prov(rng.next());
    Env env;
    IRaster npop(rows, cols, 0);
    DRaster weather(rows, cols, 1.0);
    bool use_weather = rng.coin(50);
    env.set_total_population(&npop);
    if (use_weather) env.update_weather_coefficient(weather);
    bool est_stoch = rng.coin(60);
    int pestn = odd2p20(rng);
    Pool pool(sei ? ModelType::SusceptibleExposedInfected : ModelType::SusceptibleInfected, h.s, h.e, (unsigned)latency, h.i, h.te,
              h.r, h.m, h.died, h.th, env, false, 1.0, est_stoch, pestn / 1048576.0, rows, cols, h.suitable);
    out << "hp.begin " << (sei ? "SEI" : "SI") << " " << latency << " " << rows << " " << cols << "\n";
    out << "hp.state => " << h.snapshot() << "\n";
    stats.add(sei ? "cases_sei" : "cases_si");
    stats.add("shape_" + std::to_string(rows) + "x" + std::to_string(cols));
    int nops = rng.in(5, 14), kinds = 0; unsigned kindmask = 0;
    int step = rng.in(0, 4);
    // move-heavy cases: cells are emptied and refilled, so the suitable-cell list grows out of order
    bool move_heavy = rng.coin(15);
    if (move_heavy) { nops = rng.in(8, 20); stats.add("cases_move_heavy"); }
    for (int op = 0; op < nops; op++) {
        int a = rng.in(0, rows - 1), b = rng.in(0, cols - 1);
        int kind = rng.in(0, 12);
        if (move_heavy && rng.coin(70)) kind = 5;
        std::string err;
        std::ostringstream line, ret;
        switch (kind) {
        case 0: {
            int v = 0; err = err_kind([&] { v = pool.add_disperser_at(a, b); });
            line << "hp.add " << a << " " << b; ret << v; stats.add("op_add"); break; }
        case 1: {
            npop(a, b) = h.th(a, b) + (rng.coin(50) ? 0 : rng.in(0, 10));
            if (npop(a, b) == 0) npop(a, b) = rng.in(1, 5);
            int w64 = rng.coin(15) ? 0 : (rng.coin(25) ? 64 : rng.in(0, 64));
            weather(a, b) = w64 / 64.0;
            int un = odd2p20(rng);
            if (est_stoch) prov.establishment().push_uniform_2p20(un);
            int v = 0; err = err_kind([&] { v = pool.disperser_to(a, b, prov.establishment()); });
            prov.establishment().script.clear();
            line << "hp.dispto " << a << " " << b << " " << (est_stoch ? 1 : 0) << " " << rat2p20(pestn) << " " << rat2p20(un) << " " << npop(a, b)
                 << " " << (use_weather ? rat64(w64) : std::string("none")) << " none";
            ret << v; stats.add("op_dispto"); if (v) stats.add("dispto_established"); break; }
        case 2: {
            // deterministic generation: reproductive rate 1.0 x weather
            int w64 = rng.in(0, 64); weather(a, b) = w64 / 64.0;
            int v = 0; err = err_kind([&] { v = pool.dispersers_from(a, b, prov.disperser_generation()); });
            line << "hp.dispfrom " << a << " " << b << " " << (use_weather ? rat64(w64) : std::string("1/1"));
            ret << v; stats.add("op_dispfrom"); break; }
        case 3: {
            int k = h.i(a, b) > 0 ? rng.in(0, h.i(a, b)) : 0;
            int v = 0; err = err_kind([&] { v = pool.pests_from(a, b, k, prov.overpopulation()); });
            line << "hp.pestsfrom " << a << " " << b << " " << k; ret << v; stats.add("op_pestsfrom"); break; }
        case 4: {
            int k = rng.coin(30) ? rng.in(0, 60) : rng.in(0, 8);
            int v = 0; err = err_kind([&] { v = pool.pests_to(a, b, k, prov.overpopulation()); });
            line << "hp.peststo " << a << " " << b << " " << k; ret << v; stats.add("op_peststo"); break; }
        case 5: {
            int a2 = rng.in(0, rows - 1), b2 = rng.in(0, cols - 1);
            int k = rng.coin(30) ? rng.in(0, 80) : rng.in(0, 12);
            if (move_heavy && rng.coin(60)) k = rng.in(60, 200);  // everything the cell holds
            int v = 0; err = err_kind([&] { v = pool.move_hosts_from_to(a, b, a2, b2, k, prov.movement()); });
            line << "hp.move " << a << " " << b << " " << a2 << " " << b2 << " " << k; ret << v; stats.add("op_move");
            if (a == a2 && b == b2) stats.add("move_same_cell"); break; }
        case 6: case 7: {
            bool pest = kind == 7;
            bool all = rng.coin(35);
            DRaster map(rows, cols, 0.0);
            std::ostringstream cs;
            for (int x = 0; x < rows; x++) for (int y = 0; y < cols; y++) {
                int k64 = rng.coin(25) ? 0 : (rng.coin(25) ? 64 : rng.in(1, 63));
                map(x, y) = k64 / 64.0; cs << " " << rat64(k64);
            }
            TreatmentApplication app = all ? TreatmentApplication::AllInfectedInCell : TreatmentApplication::Ratio;
            if (pest) { PesticideTreatment<Pool, DRaster> t(map, 0, 1, app); err = err_kind([&] { t.apply_treatment(pool); }); }
            else { SimpleTreatment<Pool, DRaster> t(map, 0, app); err = err_kind([&] { t.apply_treatment(pool); }); }
            line << "hp.treat " << (pest ? "pesticide" : "simple") << " " << (all ? "all_infected_in_cell" : "ratio") << cs.str();
            ret << "-"; stats.add(pest ? "op_pesticide" : "op_removal"); if (all) stats.add("treat_all_infected"); break; }
        case 8: {
            DRaster map(rows, cols, 0.0);
            std::ostringstream cs;
            for (int x = 0; x < rows; x++) for (int y = 0; y < cols; y++) { int k64 = rng.coin(30) ? 0 : rng.in(1, 64); map(x, y) = k64 / 64.0; cs << " " << rat64(k64); }
            PesticideTreatment<Pool, DRaster> t(map, 0, 1, TreatmentApplication::Ratio);
            err = err_kind([&] { t.end_treatment(pool); });
            line << "hp.treatend" << cs.str(); ret << "-"; stats.add("op_pesticide_end"); break; }
        case 9: {
            DRaster rates(rows, cols, 1.0);
            std::ostringstream cs;
            for (int x = 0; x < rows; x++) for (int y = 0; y < cols; y++) { int k64 = rng.coin(20) ? 64 : (rng.coin(15) ? 0 : rng.in(1, 63)); rates(x, y) = k64 / 64.0; cs << " " << rat64(k64); }
            SurvivalRateAction<Pool, IRaster, DRaster> act(rates);
            err = err_kind([&] { act.action(pool, prov); });
            line << "hp.survival" << cs.str(); ret << "-"; stats.add("op_survival"); break; }
        case 10: {
            DRaster temps(rows, cols, 0.0);
            int thr = rng.in(-20, 0);
            std::ostringstream cs;
            for (int x = 0; x < rows; x++) for (int y = 0; y < cols; y++) { int t = rng.coin(40) ? thr + rng.in(-1, 1) : rng.in(-30, 10); temps(x, y) = t; cs << " " << t; }
            env.update_temperature(temps);
            RemoveByTemperature<Pool, IRaster, DRaster, int, Provider> act(env, (double)thr);
            err = err_kind([&] { act.action(pool, prov); });
            line << "hp.lethal " << thr << cs.str(); ret << "-"; stats.add("op_lethal"); break; }
        case 11: {
            int r64 = rng.coin(15) ? 0 : (rng.coin(15) ? 64 : rng.in(1, 63));
            int lag = rng.in(0, nm);
            Mortality<Pool, IRaster, DRaster> act(r64 / 64.0, lag);
            err = err_kind([&] { act.action(pool); });
            line << "hp.mortality " << rat64(r64) << " " << lag; ret << "-"; stats.add("op_mortality"); break; }
        default: {
            err = err_kind([&] { pool.step_forward((unsigned)step); });
            line << "hp.stepfwd " << step; ret << "-"; step++; stats.add("op_stepfwd"); break; }
        }
        if (!(kindmask & (1u << kind))) { kindmask |= 1u << kind; kinds++; }
        out << line.str() << " => " << (err.empty() ? ret.str() : err) << " " << h.snapshot() << "\n";
        if (!err.empty()) { stats.add("op_threw"); break; }
    }
    c.nontrivial = kinds >= 3 && h.suitable.size() >= 1;
}

// Treatments container: add_treatment (date -> step), clear_after_step, manage(step) for every step.
static void treat_case(Case& c) {
    Rng& rng = c.rng;
    std::ostream& out = c.out;
    static const int shapes[][2] = {{1, 1}, {1, 3}, {2, 2}, {3, 1}, {2, 3}};
    int si = rng.in(0, 4);
    int rows = shapes[si][0], cols = shapes[si][1];
    bool sei = rng.coin(50);
    int latency = sei ? rng.in(0, 2) : 0;
    HostState h(rows, cols, sei ? latency + 1 : 0, rng.in(1, 3));
    h.randomize(rng, sei);
    Env env; Provider prov(rng.next());
    Pool pool(sei ? ModelType::SusceptibleExposedInfected : ModelType::SusceptibleInfected, h.s, h.e, (unsigned)latency, h.i, h.te,
              h.r, h.m, h.died, h.th, env, false, 1.0, false, 0.5, rows, cols, h.suitable);
    static const int ys[] = {2019, 2020, 2023, 2099, 2100};
    int unit = rng.in(0, 2);
    unsigned num = unit == 0 ? (unsigned)rng.in(1, 28) : unit == 1 ? (unsigned)rng.in(1, 6) : (unsigned)rng.in(1, 2);
    Date st(ys[rng.in(0, 4)], rng.coin(40) ? rng.in(10, 12) : rng.in(1, 12), unit == 2 ? 1 : rng.in(1, 28)); Date en(st); en.add_days((unsigned)(rng.coin(40) ? rng.in(400, 800) : rng.in(90, 420)));
    Scheduler sched(st, en, unit == 0 ? StepUnit::Day : unit == 1 ? StepUnit::Week : StepUnit::Month, num);
    unsigned nsteps = sched.get_num_steps();
    Treatments<Pool, DRaster> treatments(sched);
    out << "hp.begin " << (sei ? "SEI" : "SI") << " " << latency << " " << rows << " " << cols << "\n";
    out << "hp.state => " << h.snapshot() << "\n";
    int nt = rng.in(1, 4);
    std::ostringstream list;
    int listed = 0;
    for (int k = 0; k < nt; k++) {
        DRaster map(rows, cols, 0.0); std::ostringstream cs;
        for (int a = 0; a < rows; a++) for (int b = 0; b < cols; b++) { int k64 = rng.coin(25) ? 0 : (rng.coin(25) ? 64 : rng.in(1, 63)); map(a, b) = k64 / 64.0; cs << "," << rat64(k64); }
        unsigned stp = (unsigned)rng.in(0, (int)nsteps - 1);
        Date d = rng.coin(50) ? sched.get_step(stp).start_date() : sched.get_step(stp).end_date();
        int days = rng.coin(45) ? 0 : rng.in(10, 150);
        // durations that cross a New Year and last beyond February (the end date then depends on the leap
        // status of the NEW year) get their own share
        if (days && rng.coin(40)) { int left = 365 - (d.month() - 1) * 30 - d.day(); if (left < 1) left = 1; days = left + rng.in(61, 130); stats.add("treat_crosses_new_year_past_february"); }
        bool all = rng.coin(30);
        std::string e = err_kind([&] { treatments.add_treatment(map, d, days, all ? TreatmentApplication::AllInfectedInCell : TreatmentApplication::Ratio); });
        if (!e.empty()) { stats.add("treat_date_rejected"); continue; }
        int ey, em, ed; ::verif::civil_add_days(d.year(), d.month(), d.day(), days, ey, em, ed); Date de(ey, em, ed);  // independent of Date::add_days
        unsigned s0 = sched.schedule_action_date(d), s1 = days ? sched.schedule_action_date(de) : s0;
        list << " " << (days ? "pesticide" : "simple") << ":" << (all ? "all_infected_in_cell" : "ratio") << ":" << s0 << ":" << s1 << cs.str();
        listed++; stats.add(days ? "treat_pesticide" : "treat_simple");
        if (days && s0 == s1) stats.add("treat_pesticide_same_step");
    }
    int clear_at = rng.coin(35) ? rng.in(0, (int)nsteps - 1) : -1;
    out << "hp.treatlist " << clear_at << list.str() << " => ok\n";
    if (clear_at >= 0) { treatments.clear_after_step((unsigned)clear_at); stats.add("treat_cleared"); }
    for (unsigned step = 0; step < nsteps; step++) {
        bool changed = false;
        std::string e = err_kind([&] { changed = treatments.manage(step, pool); });
        out << "hp.manage " << step << " => " << (e.empty() ? std::to_string((int)changed) : e) << " " << h.snapshot() << "\n";
        if (!e.empty()) break;
    }
    stats.add("treat_steps", nsteps);
    c.nontrivial = listed >= 1 && h.suitable.size() >= 1;
}

// SoilPool at a single cell: dispersers sent to the soil, released, aged.
static void soil_case(Case& c) {
    Rng& rng = c.rng;
    std::ostream& out = c.out;
    int ncoh = rng.in(1, 4);
    std::vector<IRaster> rasters((size_t)ncoh, IRaster(1, 1, 0));
    for (auto& r : rasters) r(0, 0) = rng.coin(40) ? 0 : rng.in(0, 9);
    Env env; DRaster weather(1, 1, 1.0); env.update_weather_coefficient(weather);
    bool gen_stoch = rng.coin(35), est_stoch = rng.coin(60);
    int pest64 = rng.in(0, 64);
    SoilPool<IRaster, DRaster, int, Provider> soil(rasters, env, gen_stoch, est_stoch, pest64 / 64.0);
    Provider prov(rng.next());
    auto cohorts = [&] { std::ostringstream o; for (size_t k = 0; k < rasters.size(); k++) o << (k ? "," : "") << rasters[k](0, 0); return o.str(); };
    out << "hp.soil.init => " << cohorts() << "\n";
    stats.add(gen_stoch ? "soil_release_stochastic" : "soil_release_deterministic");
    int nops = rng.in(4, 12);
    for (int op = 0; op < nops; op++) {
        int w64 = rng.coin(15) ? 0 : (rng.coin(25) ? 64 : rng.in(0, 64)); weather(0, 0) = w64 / 64.0;
        int kind = rng.in(0, 2);
        if (kind == 0) {
            int n = rng.in(0, 6); std::ostringstream us;
            for (int k = 0; k < n; k++) { int u64 = rng.in(0, 63); if (est_stoch) prov.soil().push_uniform_64ths(u64); us << (k ? "," : "") << rat64(u64); }
            soil.dispersers_to(n, 0, 0, prov.soil()); prov.soil().script.clear();
            out << "hp.soil.to " << est_stoch << " " << rat64(pest64) << " " << rat64(w64) << " " << (n ? us.str() : std::string("-")) << " => " << cohorts() << "\n";
            stats.add("op_soil_to");
        } else if (kind == 1) {
            int ret = 0; std::string e = err_kind([&] { ret = soil.dispersers_from(0, 0, prov.soil()); });
            out << "hp.soil.from " << (gen_stoch ? 0 : 1) << " " << rat64(w64) << " => " << (e.empty() ? std::to_string(ret) : e) << " | " << cohorts() << "\n";
            stats.add("op_soil_from");
        } else {
            soil.next_step(op);
            out << "hp.soil.next => " << cohorts() << "\n"; stats.add("op_soil_next");
        }
    }
    c.nontrivial = true;
}

int main(int argc, char** argv) {
    std::ios::sync_with_stdio(false);
    std::string mode = argc > 1 ? argv[1] : "pool";
    uint64_t seed = argc > 2 ? std::stoull(argv[2]) : 1;
    long first = argc > 3 ? std::stol(argv[3]) : 0;
    long count = argc > 4 ? std::stol(argv[4]) : 100;
    if (!selftest_uniform()) { std::cerr << "SELFTEST FAILED: libstdc++ uniform_real_distribution does not consume one 64-bit value\n"; return 3; }
    if (mode == "pool") run_cases("h_host", mode, seed, first, count, pool_case);
    if (mode == "soil") run_cases("h_host", mode, seed, first, count, soil_case);
    if (mode == "treat") run_cases("h_host", mode, seed, first, count, treat_case);
    stats.dump("h_host");
    return 0;
}
