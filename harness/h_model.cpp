// Correspondence harness for Model::run_step (C01-C04, C09, C17 and the per-action checks of
// C05, C11, C12 through the model path): random configurations and calendars, injected
// scripted kernel, multi-stream provider over scripted engines, state printed after every action
// through the POPS_CORE_VERIF trace hook.
// Usage: h_model <mode> <seed> <first> <count>     modes: model
#include <pops/model.hpp>
#include "host_common.hpp"
using namespace pops;
using namespace ::verif;

static Stats stats;

struct KernelLog { std::vector<std::pair<int, int>> targets; };

struct ScriptedKernel {
    KernelLog* log; Rng* rng; int rows, cols;
    // "real kernel" variant: the kernel Model would build by default (create_dynamic_kernel from the Config:
    // natural radial or deterministic kernel), called for real; its results are logged and become the model's targets
    std::shared_ptr<DispersalKernel<ScriptedEngine>> real;
    template <class G> std::tuple<int, int> operator()(G& g, int row, int col) {
        if (real) { auto t = (*real)(g, row, col); log->targets.emplace_back(std::get<0>(t), std::get<1>(t)); return t; }
        int r, c, k = rng->in(0, 99);
        if (k < 60) { r = rng->in(0, rows - 1); c = rng->in(0, cols - 1); }
        else if (k < 75) { r = row; c = col; }
        else if (k < 90) { r = rng->coin() ? -1 : rows; c = rng->in(-1, cols); }
        else { r = rng->coin() ? -1000 : 1000 + rows; c = rng->coin() ? -7 : 4000; }
        log->targets.emplace_back(r, c);
        return std::make_tuple(r, c);
    }
    bool is_cell_eligible(int, int) { return true; }
    bool supports_kernel(const DispersalKernelType) { return true; }
};

struct KFactory {
    KernelLog* log; Rng* rng; bool use_real = false;
    ScriptedKernel operator()(const Config& config, const IRaster& dispersers, const Network<int>& network) const {
        ScriptedKernel k{log, rng, config.rows, config.cols, nullptr};
        if (use_real)
            k.real = std::make_shared<DispersalKernel<ScriptedEngine>>(create_dynamic_kernel<ScriptedEngine, IRaster, int>(config, dispersers, network));
        return k;
    }
};

using TModel = Model<IRaster, DRaster, int, ScriptedEngine, KFactory>;
using MPool = TModel::StandardSingleHostPool;
using MMulti = TModel::StandardMultiHostPool;
using MPests = TModel::StandardPestPool;

static std::string bits(const std::vector<bool>& v) { std::string s; for (bool b : v) s += b ? '1' : '0'; return s.empty() ? "-" : s; }
static std::string rlist(const IRaster& r) { std::ostringstream o; for (int a = 0; a < r.rows(); a++) for (int b = 0; b < r.cols(); b++) o << " " << r(a, b); return o.str(); }
static const char* DIRS[] = {"N", "NE", "E", "SE", "S", "SW", "W", "NW"};
static const int DROW[] = {-1, -1, 0, 1, 1, 1, 0, -1};
static const int DCOL[] = {0, 1, 1, 1, 0, -1, -1, -1};

static void model_case_impl(Case& c, int l0pass, std::vector<std::string>* snaps) {
    Rng& rng = c.rng;
    std::ostream& out = c.out;
    static const int shapes[][2] = {{1, 1}, {1, 3}, {2, 2}, {2, 3}, {3, 1}, {3, 2}, {1, 2}, {4, 2}};
    int si = rng.in(0, 7);
    int rows = shapes[si][0], cols = shapes[si][1];
    // l0pass: 0 = ordinary case; 1 = SI pass, 2 = SEI pass with latency 0 of the L0 = SI differential
    // (both passes consume the random stream identically: every choice is made as for SI)
    bool sei = l0pass ? false : rng.coin(55);
    int latency = sei ? rng.in(0, 3) : 0;
    int ne = sei ? latency + 1 : 0;
    bool sei_model = sei || l0pass == 2;
    if (l0pass == 2) ne = 1;
    int nm = rng.in(1, 4);
    HostState h(rows, cols, ne, nm);
    h.randomize(rng, sei);
    sei = sei_model;
    // keep infection small so that the number of dispersers stays below the scripted uniforms
    for (int a = 0; a < rows; a++) for (int b = 0; b < cols; b++) {
        int excess = 0;
        for (auto& m : h.m) { if (m(a, b) > 3) { excess += m(a, b) - 3; m(a, b) = 3; } }
        h.i(a, b) -= excess; h.s(a, b) += excess;
    }
    {   // the library's own find_suitable_cells (both overloads) against the definition: cells with a positive value, row-major
        IRaster other(rows, cols, 0); for (int a = 0; a < rows; a++) for (int b = 0; b < cols; b++) other(a, b) = rng.coin(30) ? rng.in(1, 3) : 0;
        auto one = find_suitable_cells<int>(h.th);
        std::vector<const IRaster*> two{&h.th, &other};
        auto both = find_suitable_cells<int>(two);
        out << "hp.findsuit " << rows << " " << cols << " |" << rlist(h.th) << " |" << rlist(other) << " => |";
        for (auto& c2 : one) out << " " << c2[0] << "," << c2[1];
        out << " |"; for (auto& c2 : both) out << " " << c2[0] << "," << c2[1];
        out << "\n";
    }
    Config config;
    config.rows = rows; config.cols = cols; config.ew_res = 30; config.ns_res = 30;
    config.model_type = sei ? "SEI" : "SI"; config.latency_period_steps = latency;
    bool det_gen = rng.coin(65);
    config.generate_stochasticity = !det_gen;
    config.establishment_stochasticity = rng.coin(60);
    int pestn = odd2p20(rng); config.establishment_probability = pestn / 1048576.0;
    int rr4 = rng.in(0, 8); config.reproductive_rate = rr4 / 4.0;
    int dir = rng.in(0, 7);
    bool overpop_uniform = rng.coin(30);  // (not const: the real-kernel variants override it) the natural kernel type only drives the overpopulation kernel here (the spread kernel is injected)
    // third variant: a radial natural kernel type with dispersal_stochasticity off, i.e. the overpopulation move goes
    // through the DeterministicDispersalKernel member of the switch kernel (3x3 window: Cauchy, scale 5, 30 m cells)
    bool overpop_detradial = !overpop_uniform && rng.coin(25);
    // real-kernel variants (not in the L0 differential): 1 = deterministic Cauchy kernel with a 3x3 window for spread
    // and overpopulation; 2 = stochastic exponential radial kernel (scale 20 m... cells are 30 m) for both
    int realk = (l0pass == 0 && rng.coin(22)) ? rng.in(1, 2) : 0;
    if (realk) { overpop_uniform = false; overpop_detradial = realk == 1; }
    config.natural_kernel_type = realk == 2 ? "exponential" : overpop_uniform ? "uniform" : overpop_detradial ? "cauchy" : "deterministic neighbor"; config.natural_direction = (overpop_detradial || realk) ? "none" : DIRS[dir];
    config.natural_scale = realk == 2 ? 20 : overpop_detradial ? 5 : 1;
    stats.add(realk == 0 ? "kernel_injected_scripted" : realk == 1 ? "kernel_real_deterministic" : "kernel_real_stochastic_radial"); config.natural_kappa = 0; config.anthro_kernel_type = "cauchy"; config.anthro_scale = 1;
    config.anthro_direction = "none"; config.use_anthropogenic_kernel = false; config.dispersal_percentage = 0.9;
    config.dispersal_stochasticity = !overpop_detradial;   // realk == 2: stochastic; realk == 1: deterministic
    stats.add(overpop_uniform ? "overpop_kernel_uniform" : overpop_detradial ? "overpop_kernel_deterministic_radial" : "overpop_kernel_neighbor");
    // for one host both arrival behaviours are documented to give identical results
    bool land = rng.coin(30); if (land) config.set_arrival_behavior("land");
    stats.add(land ? "arrival_land" : "arrival_infect");
    config.use_lethal_temperature = rng.coin(40); config.lethal_temperature = -5; config.lethal_temperature_month = rng.in(1, 12);
    config.use_survival_rate = rng.coin(40); config.survival_rate_month = rng.in(1, 12); config.survival_rate_day = rng.in(1, 28);
    config.use_overpopulation_movements = rng.coin(35);
    int thr64 = rng.in(0, 64), leave64 = rng.in(0, 64);
    config.overpopulation_percentage = thr64 / 64.0; config.leaving_percentage = leave64 / 64.0; config.leaving_scale_coefficient = 1;
    bool pool_entry = rng.coin(65);
    // fixed witnesses of the open findings F18 / F26 (raster entry point) so that they are exercised on every run
    bool witness_f18 = c.index % 97 == 0, witness_f26 = c.index % 97 == 1;
    if (witness_f18 || witness_f26) pool_entry = false;
    config.use_mortality = (pool_entry ? rng.coin(50) : rng.coin(12)) && !config.use_overpopulation_movements;
    static const char* mfreq[] = {"year", "month", "every_n_steps", "every_step"};
    config.mortality_frequency = mfreq[rng.in(0, 3)]; config.mortality_frequency_n = (unsigned)rng.in(1, 4);
    int mrate64 = rng.in(0, 64), mlag = rng.in(0, nm - 1);
    config.mortality_rate = mrate64 / 64.0; config.mortality_time_lag = mlag;
    if (witness_f18) { config.use_overpopulation_movements = false; config.use_mortality = true; config.mortality_frequency = "every_step"; }
    config.use_treatments = pool_entry && rng.coin(45);
    config.use_movements = rng.coin(35);
    config.use_spreadrates = pool_entry ? rng.coin(35) : rng.coin(8); config.spreadrate_frequency = mfreq[rng.in(0, 3)]; config.spreadrate_frequency_n = (unsigned)rng.in(1, 4);
    if (witness_f26) { config.use_spreadrates = true; config.spreadrate_frequency = "every_step"; config.use_mortality = false; }
    if (witness_f18) config.use_spreadrates = false;
    config.use_quarantine = rng.coin(35); config.quarantine_frequency = mfreq[rng.in(0, 3)]; config.quarantine_frequency_n = (unsigned)rng.in(1, 4);
    config.quarantine_directions = "";
    bool use_weather = rng.coin(50);
    bool use_soils = rng.coin(20);
    if (use_soils) use_weather = true;  // the soil pool reads the weather coefficient (documented requirement)
    int soil64 = rng.in(0, 64); config.dispersers_to_soils_percentage = soil64 / 64.0;
    // calendar
    static const int ys[] = {2019, 2020, 2023, 2100};
    int unit = rng.in(0, 2);
    unsigned num = unit == 0 ? (unsigned)rng.in(7, 28) : unit == 1 ? (unsigned)rng.in(1, 8) : (unsigned)rng.in(1, 3);
    int y = ys[rng.in(0, 3)], m = rng.coin(40) ? rng.in(10, 12) : rng.in(1, 12);
    Date st(y, m, unit == 2 ? 1 : rng.in(1, 28)); Date en(st); en.add_days((unsigned)rng.in(120, 500));
    config.set_date_start(st.year(), st.month(), st.day()); config.set_date_end(en.year(), en.month(), en.day());
    config.set_step_unit(unit == 0 ? StepUnit::Day : unit == 1 ? StepUnit::Week : StepUnit::Month); config.set_step_num_units(num);
    int s1 = rng.in(1, 12), s2 = rng.in(s1, 12); config.set_season_start_end_month(s1, s2);
    config.output_frequency = "every_step"; config.output_frequency_n = 1;
    std::vector<unsigned> seeds; for (int k = 0; k < 10; k++) seeds.push_back((unsigned)rng.in(1, 1000000));
    config.read_seeds(seeds);
    std::string e0 = err_kind([&] { config.create_schedules(); });
    if (!e0.empty()) { out << "# config rejected " << e0 << "\n"; stats.add("config_rejected"); return; }
    unsigned nsteps = config.scheduler().get_num_steps();
    if (nsteps > 40) nsteps = 40;
    // movements: rows with non-decreasing spread steps
    std::vector<std::vector<int>> movements;
    if (config.use_movements) {
        int nrows = rng.in(0, 6); unsigned cur = 0;
        // SEI: a herd of exposed-only hosts moved into a cell without any host, early in the run, so that its
        // cohorts mature in the NEW cell later on (the target must become a suitable cell although it never
        // holds a susceptible or infected host at the time of the move)
        if (l0pass == 0 && sei && !h.e.empty() && rows * cols >= 2 && rng.coin(45)) {  // not in the L0 = SI differential: both passes must consume the random stream identically
            int a = rng.in(0, rows * cols - 1), b = rng.in(0, rows * cols - 2); if (b >= a) b++;
            int ar = a / cols, ac = a % cols, br = b / cols, bc = b % cols;
            h.s(ar, ac) = 0; h.i(ar, ac) = 0; h.r(ar, ac) = 0; for (auto& m : h.m) m(ar, ac) = 0;
            int se = 0; for (auto& x : h.e) { int v = rng.in(0, 4); x(ar, ac) = v; se += v; }
            if (se == 0) { h.e.back()(ar, ac) = 2; se = 2; }
            h.te(ar, ac) = se; h.th(ar, ac) = se;
            h.s(br, bc) = 0; h.i(br, bc) = 0; h.r(br, bc) = 0; h.te(br, bc) = 0; h.th(br, bc) = 0;
            for (auto& m : h.m) m(br, bc) = 0; for (auto& x : h.e) x(br, bc) = 0;
            h.suitable = suitable_cells_of(h.th);
            movements.push_back({ar, ac, br, bc, rng.coin(50) ? se : se + rng.in(0, 5)});
            config.movement_schedule.push_back(cur);
            stats.add("exposed_only_herd_into_empty_cell");
        }
        for (int k = 0; k < nrows; k++) {
            cur += (unsigned)rng.in(0, 3); if (cur >= nsteps) break;
            movements.push_back({rng.in(0, rows - 1), rng.in(0, cols - 1), rng.in(0, rows - 1), rng.in(0, cols - 1), rng.coin(30) ? rng.in(0, 60) : rng.in(0, 10)});
            config.movement_schedule.push_back(cur);
        }
    }
    config.create_pest_host_table_from_parameters(1);
    KernelLog klog; KFactory factory{&klog, &rng, realk != 0};
    TModel model(config, factory);
    IRaster dispersers(rows, cols, 0), established(rows, cols, 0);
    std::vector<std::tuple<int, int>> outside;
    IRaster npop(rows, cols, 0);
    bool same_pop = config.use_movements || rng.coin(50);
    for (int a = 0; a < rows; a++) for (int b = 0; b < cols; b++) { npop(a, b) = h.th(a, b) + (rng.coin(50) ? 0 : rng.in(0, 10)); if (npop(a, b) == 0) npop(a, b) = rng.in(1, 4); }
    IRaster& total_pop = same_pop ? h.th : npop;
    std::vector<IRaster> soil_rasters((size_t)rng.in(1, 3), IRaster(rows, cols, 0));
    // the reservoir handed to activate_soils may already hold inoculum from an earlier run
    bool soil_prefilled = use_soils && rng.coin(50);
    if (soil_prefilled) { for (auto& sr : soil_rasters) for (int a = 0; a < rows; a++) for (int b = 0; b < cols; b++) sr(a, b) = rng.coin(50) ? 0 : rng.in(1, 6); stats.add("soil_prefilled"); }
    if (use_soils) model.activate_soils(soil_rasters);
    DRaster weather(rows, cols, 1.0), weather_sd0(rows, cols, 0.0);
    bool weather_dist = use_weather && rng.coin(35);
    if (weather_dist) stats.add("weather_through_distribution_sd0");
    std::vector<DRaster> temperatures, survival_rates;
    for (int k = 0; k < 6; k++) {
        DRaster t(rows, cols, 0.0), sr(rows, cols, 1.0);
        for (int a = 0; a < rows; a++) for (int b = 0; b < cols; b++) { t(a, b) = rng.coin(40) ? -5 + rng.in(-1, 1) : rng.in(-30, 10); int k64 = rng.coin(20) ? 64 : (rng.coin(15) ? 0 : rng.in(1, 63)); sr(a, b) = k64 / 64.0; }
        temperatures.push_back(t); survival_rates.push_back(sr);
    }
    QuarantineEscapeAction<IRaster> quarantine(IRaster(rows, cols, 1), config.ew_res, config.ns_res, 40, config.quarantine_directions);
    IRaster quarantine_areas(rows, cols, 1);
    Network<int> network{Network<int>::null_network()};
    // pools for the pool entry point
    MPool host_pool(sei ? ModelType::SusceptibleExposedInfected : ModelType::SusceptibleInfected, h.s, h.e, (unsigned)latency, h.i, h.te, h.r,
                    h.m, h.died, h.th, model.environment(), config.generate_stochasticity, config.reproductive_rate,
                    config.establishment_stochasticity, config.establishment_probability, rows, cols, h.suitable);
    std::vector<MPool*> pools = {&host_pool};
    MMulti multi(pools, config);
    PestHostTable<MPool> table(config, model.environment());
    multi.set_pest_host_table(table);
    MPests pests{dispersers, established, outside};
    SpreadRateAction<MMulti, int> spread_rate(multi, rows, cols, config.ew_res, config.ns_res, 40);
    Treatments<MPool, DRaster> treatments(config.scheduler());
    int ntreat = 0;
    std::ostringstream tlist;
    if (config.use_treatments) {
        ntreat = rng.in(1, 3);
        for (int k = 0; k < ntreat; k++) {
            DRaster map(rows, cols, 0.0); std::ostringstream cs;
            for (int a = 0; a < rows; a++) for (int b = 0; b < cols; b++) { int k64 = rng.coin(25) ? 0 : (rng.coin(25) ? 64 : rng.in(1, 63)); map(a, b) = k64 / 64.0; cs << "," << rat64(k64); }
            unsigned stp = (unsigned)rng.in(0, (int)nsteps - 1);
            Date d = config.scheduler().get_step(stp).start_date();
            int days = rng.coin(50) ? 0 : rng.in(20, 90);
            bool all = rng.coin(35);
            std::string te = err_kind([&] { treatments.add_treatment(map, d, days, all ? TreatmentApplication::AllInfectedInCell : TreatmentApplication::Ratio); });
            if (te.empty()) {
                int ey, em, ed; ::verif::civil_add_days(d.year(), d.month(), d.day(), days, ey, em, ed); Date de(ey, em, ed);  // independent of Date::add_days
                unsigned s0 = config.scheduler().schedule_action_date(d), s1 = days ? config.scheduler().schedule_action_date(de) : s0;
                tlist << " " << (days ? "pesticide" : "simple") << ":" << (all ? "all_infected_in_cell" : "ratio") << ":" << s0 << ":" << s1 << cs.str();
            }
        }
    }
    out << "hp.begin " << (sei ? "SEI" : "SI") << " " << latency << " " << rows << " " << cols << "\n";
    out << "hp.state => " << h.snapshot() << "\n";
    auto sched = [&](bool use, const std::vector<bool>& (Config::*get)() const) { return use ? bits((config.*get)()) : std::string("-"); };
    out << "hp.cfg entry=" << (pool_entry ? "pools" : "rasters") << " soils=" << use_soils << " lethal=" << config.use_lethal_temperature << ":" << sched(config.use_lethal_temperature, &Config::lethal_schedule)
        << " survival=" << config.use_survival_rate << ":" << sched(config.use_survival_rate, &Config::survival_rate_schedule)
        << " spread=" << bits(config.spread_schedule()) << " overpop=" << config.use_overpopulation_movements << " movements=" << config.use_movements
        << " treatments=" << config.use_treatments << " mortality=" << config.use_mortality << ":" << (config.use_mortality ? bits(config.mortality_schedule()) : "-")
        << " rates=" << config.use_spreadrates << ":" << sched(config.use_spreadrates, &Config::spread_rate_schedule)
        << " quarantine=" << config.use_quarantine << ":" << sched(config.use_quarantine, &Config::quarantine_schedule) << " => ok\n";
    out << "hp.treatlist -1" << tlist.str() << " => ok\n";
    if (use_soils) {
        out << "hp.soilstate -1 0 =>";
        for (int x = 0; x < rows; x++) for (int y2 = 0; y2 < cols; y2++) { out << " "; for (size_t k = 0; k < soil_rasters.size(); k++) out << (k ? "," : "") << soil_rasters[k](x, y2); }
        out << "\n";
    }
    stats.add(sei ? "cases_sei" : "cases_si"); stats.add(pool_entry ? "entry_pools" : "entry_rasters");
    stats.add("steps", nsteps);
    // hook: print the state after every action
    std::string trace;
    size_t outside_seen = 0; unsigned last_index_seen = 0;
    int cur_w64[64];

    pops::verif::trace_hook() = [&](const char* action, int step, int idx) {
        std::string a(action);
        trace += (trace.empty() ? "" : ",") + a + ":" + std::to_string(idx);
        stats.add("action_" + a);
        if (a == "lethal_temperature") {
            out << "hp.lethal -5"; for (int x = 0; x < rows; x++) for (int y2 = 0; y2 < cols; y2++) out << " " << (int)temperatures[(size_t)idx](x, y2);
            out << " => - " << h.snapshot() << "\n";
        } else if (a == "survival_rate") {
            out << "hp.survival"; for (int x = 0; x < rows; x++) for (int y2 = 0; y2 < cols; y2++) out << " " << rat64((int)std::lround(survival_rates[(size_t)idx](x, y2) * 64));
            out << " => - " << h.snapshot() << "\n";
        } else if (a == "step_forward") {
            out << "hp.stepfwd " << step << " => - " << h.snapshot() << "\n";
        } else if (a == "mortality") {
            out << "hp.mortality " << rat64(mrate64) << " " << mlag << " => - " << h.snapshot() << "\n";
        } else if (a == "spread") {
            out << "hp.spread det=" << det_gen << " rr=" << rr4 << "/4 soil=" << (use_soils ? rat64(soil64) : std::string("none")) << " sto=" << config.establishment_stochasticity
                << " pest=" << rat2p20(pestn) << " npop=";
            for (int x = 0; x < rows; x++) for (int y2 = 0; y2 < cols; y2++) out << (x + y2 ? "," : "") << total_pop(x, y2);
            out << " w=";
            if (!use_weather) out << "none"; else for (int x = 0; x < rows; x++) for (int y2 = 0; y2 < cols; y2++) out << (x + y2 ? "," : "") << rat64(cur_w64[x * cols + y2]);
            out << " targets=";
            if (klog.targets.empty()) out << "-"; for (size_t k = 0; k < klog.targets.size(); k++) out << (k ? ";" : "") << klog.targets[k].first << "," << klog.targets[k].second;
            out << " => - " << h.snapshot() << " | " << rlist(dispersers) << " | " << rlist(established) << " |";
            for (size_t k = outside_seen; k < outside.size(); k++) out << " " << std::get<0>(outside[k]) << "," << std::get<1>(outside[k]);
            out << "\n";
            outside_seen = outside.size(); stats.add("dispersers_total", (long)klog.targets.size());
        } else if (a == "overpopulation") {
            out << "hp.overpop " << rat64(thr64) << " " << rat64(leave64) << " " << (realk == 2 ? std::string("R R") : overpop_uniform ? std::string("U U") : overpop_detradial ? std::string("D D") : std::to_string(DROW[dir]) + " " + std::to_string(DCOL[dir])) << " => - " << h.snapshot() << " |";
            for (size_t k = outside_seen; k < outside.size(); k++) out << " " << std::get<0>(outside[k]) << "," << std::get<1>(outside[k]);
            out << "\n"; outside_seen = outside.size();
        } else if (a == "movement") {
            out << "hp.movement " << step << " " << last_index_seen;
            for (size_t k = 0; k < movements.size(); k++) out << " " << config.movement_schedule[k] << ":" << movements[k][0] << "," << movements[k][1] << "," << movements[k][2] << "," << movements[k][3] << "," << movements[k][4];
            out << " => " << idx << " " << h.snapshot() << "\n";
            last_index_seen = (unsigned)idx;
        } else if (a == "treatments") {
            out << "hp.manage " << step << " => - " << h.snapshot() << "\n";
        } else {
            out << "hp.after " << a << " " << step << " " << idx << " => - " << h.snapshot() << "\n";
        }
    };
    bool threw = false;
    // a fifth of the cases: a fresh model object continues a run at a later step (a restart from a checkpoint): every
    // action must take the input raster whose index is the number of EARLIER FIRINGS OF ITS SCHEDULE, whatever this
    // object was called for before
    unsigned first_step = (c.index % 5 == 3 && nsteps > 4) ? (unsigned)(1 + (c.index / 5) % (nsteps / 2)) : 0;
    if (first_step) stats.add("run_starts_at_a_later_step");
    for (unsigned step = first_step; step < nsteps && !threw; step++) {
        if (use_weather) {
            for (int a = 0; a < rows; a++) for (int b = 0; b < cols; b++) { int w64 = rng.coin(15) ? 0 : (rng.coin(25) ? 64 : rng.in(0, 64)); weather(a, b) = w64 / 64.0; cur_w64[a * cols + b] = w64; }
            // a third of the weather cases supply the coefficients through the probabilistic path with a standard
            // deviation of 0 (the draw returns the mean itself, C12_weather_degenerate): the same coefficients must then
            // drive generation, establishment and the soil exactly as a given raster does
            if (weather_dist) model.environment().update_weather_from_distribution(weather, weather_sd0, model.random_number_generator());
            else model.environment().update_weather_coefficient(weather);
        }
        // scripted establishment uniforms for this step
        auto& est = model.random_number_generator().establishment();
        est.script.clear();
        std::ostringstream us;
        for (int k = 0; k < 400; k++) { int un = odd2p20(rng); est.push_uniform_2p20(un); us << (k ? "," : "") << un; }
        out << "hp.uniforms " << us.str() << " => ok\n";
        klog.targets.clear(); trace.clear();
        std::string e;
        if (pool_entry)
            e = err_kind([&] { model.run_step((int)step, multi, pests, total_pop, treatments, temperatures, survival_rates, spread_rate, quarantine, quarantine_areas, movements, network); });
        else
            e = err_kind([&] { model.run_step((int)step, h.i, h.s, total_pop, h.th, dispersers, established, h.te, h.e, h.m, h.died, temperatures, survival_rates, h.r, outside, quarantine, quarantine_areas, movements, network, h.suitable); });
        est.script.clear();
        if (use_soils && e.empty()) {
            out << "hp.soilstate " << step << " " << (config.spread_schedule()[step] ? 1 : 0) << " =>";
            for (int x = 0; x < rows; x++) for (int y2 = 0; y2 < cols; y2++) { out << " "; for (size_t k = 0; k < soil_rasters.size(); k++) out << (k ? "," : "") << soil_rasters[k](x, y2); }
            out << "\n";
        }
        out << "hp.plan " << step << " => " << (e.empty() ? "ok" : e) << " " << (trace.empty() ? "-" : trace) << "\n";
        if (snaps) {
            std::ostringstream sn; sn << (e.empty() ? "ok" : e);
            for (int x = 0; x < rows; x++) for (int y2 = 0; y2 < cols; y2++) {
                sn << " " << h.s(x, y2) << "," << h.i(x, y2) << "," << h.r(x, y2) << "," << h.th(x, y2) << "," << h.died(x, y2) << ";";
                for (auto& m2 : h.m) sn << m2(x, y2) << ",";
                sn << ";" << dispersers(x, y2) << "," << established(x, y2);
            }
            sn << " outside=" << outside.size();
            snaps->push_back(sn.str());
        }
        if (!e.empty()) { threw = true; stats.add("step_threw"); }
    }
    pops::verif::trace_hook() = nullptr;
    c.nontrivial = nsteps >= 3 && h.suitable.size() >= 1;
}

static void model_case(Case& c) { model_case_impl(c, 0, nullptr); }

// C05: with L = 0 the SEI model produces exactly the SI trajectory for the same seeds, inputs,
// kernel results and uniforms - whole runs of Model::run_step compared step by step.
static void l0_case(Case& c) {
    Case c1(0, 0), c2(0, 0);
    c1.rng = c.rng; c2.rng = c.rng; c1.index = c2.index = c.index + 2;  // never a F18 / F26 witness index
    std::vector<std::string> a, b;
    model_case_impl(c1, 1, &a);
    model_case_impl(c2, 2, &b);
    c.out << c1.out.str() << c2.out.str();
    size_t n = std::min(a.size(), b.size());
    bool same = a.size() == b.size();
    size_t first_diff = n;
    for (size_t k = 0; k < n; k++) if (a[k] != b[k]) { same = false; first_diff = k; break; }
    c.out << "hp.l0 " << a.size() << " => " << (same ? "equal" : "differ") ;
    if (!same && first_diff < n) c.out << " step=" << first_diff << " SI:" << a[first_diff].substr(0, 300) << " SEI0:" << b[first_diff].substr(0, 300);
    c.out << "\n";
    stats.add("l0_pairs"); stats.add("l0_steps", (long)a.size());
    c.nontrivial = a.size() >= 3;
}

int main(int argc, char** argv) {
    std::ios::sync_with_stdio(false);
    std::string mode = argc > 1 ? argv[1] : "model";
    uint64_t seed = argc > 2 ? std::stoull(argv[2]) : 1;
    long first = argc > 3 ? std::stol(argv[3]) : 0;
    long count = argc > 4 ? std::stol(argv[4]) : 100;
    if (!selftest_uniform()) { std::cerr << "SELFTEST FAILED: libstdc++ uniform_real_distribution does not consume one 64-bit value\n"; return 3; }
    if (mode == "model") run_cases("h_model", mode, seed, first, count, model_case);
    if (mode == "l0") run_cases("h_model", mode, seed, first, count, l0_case);
    stats.dump("h_model");
    return 0;
}
