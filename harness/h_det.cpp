// Correspondence harness for C14: DeterministicDispersalKernel and the pdf / icdf members of the
// ten distance-law classes.
// Usage: h_det <mode> <seed> <first> <count>
//   mode alloc    : one random kernel per case (law = index % 10, scale/shape off the diagonal,
//                   ns != ew mostly, dyadic dispersal percentage), window dims, the normalised
//                   probability matrix (exact bit patterns), and the full pick sequence for
//                   several source cells in sequence (reset), incl. partial runs, revisits and
//                   repeated calls for an unchanged source cell
//   mode quantile : one law per case: icdf at several percentages, pdf at several points,
//                   GammaKernel::cdf, and direct constructions of the law's class with each parameter
//                   valid, 0 and negative (det.ctor <law> <scale> <shape> => ok | err:*)
//   mode factory  : the same protocol for kernels built from a Config (dispersal_stochasticity off) through
//                   create_natural_kernel / create_anthro_kernel / create_dynamic_kernel; the det.new line
//                   carries the configured parameters
//   mode witness  : fixed inputs of the open findings F21 (power law, exponential power, gamma
//                   with non-integer shape), F23 (two-sided law, percentage < 1/2) and F25 (density
//                   unbounded at the centre: Weibull shape < 1)
// Doubles that go INTO the library are dyadic rationals printed as num/den; doubles that come OUT
// are printed as their IEEE-754 bit pattern (decimal uint64) so the driver reads them exactly.
#include <pops/deterministic_kernel.hpp>
#include <pops/model.hpp>
#include <functional>
#include <cstring>
#include <cmath>
#include <random>
#include "common.hpp"
using namespace pops;
using ::verif::Rng;
typedef Raster<int> IR;

static ::verif::Stats stats;

struct Dy {  // dyadic rational num / den
    long num; long den;
    double v() const { return (double)num / (double)den; }
    std::string s() const { return std::to_string(num) + "/" + std::to_string(den); }
};
static uint64_t bits(double x) { uint64_t b; std::memcpy(&b, &x, 8); return b; }
static double frombits(uint64_t b) { double x; std::memcpy(&x, &b, 8); return x; }

static const char* LAWS[] = {"cauchy", "exponential", "weibull", "normal", "lognormal", "hypsec", "powerlaw", "logistic", "gamma", "exppower"};
static const DispersalKernelType TYPES[] = {
    DispersalKernelType::Cauchy, DispersalKernelType::Exponential, DispersalKernelType::Weibull, DispersalKernelType::Normal,
    DispersalKernelType::LogNormal, DispersalKernelType::HyperbolicSecant, DispersalKernelType::PowerLaw,
    DispersalKernelType::Logistic, DispersalKernelType::Gamma, DispersalKernelType::ExponentialPower};
static bool two_sided(int li) { return li == 0 || li == 3 || li == 5 || li == 7 || li == 9; }
static bool uses_shape(int li) { return li == 2 || li == 6 || li == 8 || li == 9; }

struct Probe : DeterministicDispersalKernel<IR> {
    using DeterministicDispersalKernel<IR>::DeterministicDispersalKernel;
    Probe(const DeterministicDispersalKernel<IR>& k) : DeterministicDispersalKernel<IR>(k) {}
    int nr() const { return number_of_rows; }
    int nc() const { return number_of_columns; }
    double md() const { return max_distance; }
    double p(int i, int j) const { return probability(i, j); }
};

// icdf / pdf of the member class the deterministic kernel would use (same constructor arguments)
static double law_icdf(int li, double scale, double shape, double p) {
    switch (li) {
    case 0: return CauchyKernel(scale).icdf(p);
    case 1: return ExponentialKernel(scale).icdf(p);
    case 2: return WeibullKernel(scale, shape).icdf(p);
    case 3: return NormalKernel(scale).icdf(p);
    case 4: return LogNormalKernel(scale).icdf(p);
    case 5: return HyperbolicSecantKernel(scale).icdf(p);
    case 6: return PowerLawKernel(scale, shape).icdf(p);
    case 7: return LogisticKernel(scale).icdf(p);
    case 8: return GammaKernel(scale, shape).icdf(p);
    default: return ExponentialPowerKernel(scale, shape).icdf(p);
    }
}
static double law_pdf(int li, double scale, double shape, double x) {
    switch (li) {
    case 0: return CauchyKernel(scale).pdf(x);
    case 1: return ExponentialKernel(scale).pdf(x);
    case 2: return WeibullKernel(scale, shape).pdf(x);
    case 3: return NormalKernel(scale).pdf(x);
    case 4: return LogNormalKernel(scale).pdf(x);
    case 5: return HyperbolicSecantKernel(scale).pdf(x);
    case 6: return PowerLawKernel(scale, shape).pdf(x);
    case 7: return LogisticKernel(scale).pdf(x);
    case 8: return GammaKernel(scale, shape).pdf(x);
    default: return ExponentialPowerKernel(scale, shape).pdf(x);
    }
}

// Direct construction of the class the deterministic kernel holds for law `li`, with the same
// constructor arguments (scale, shape) as law_icdf / law_pdf.  What each constructor validates on
// the unchanged tree (the driver's `lawCtorCheck` mirrors exactly this):
//   CauchyKernel(s)               s <= 0                     -> invalid_argument
//   ExponentialKernel(b)          b <= 0                     -> invalid_argument
//   WeibullKernel(scale, shape)   shape <= 0 || scale <= 0   -> invalid_argument
//   NormalKernel(s)               s == 0 only                -> invalid_argument (a NEGATIVE sigma is not validated: ok)
//   LogNormalKernel(s)            s <= 0                     -> invalid_argument
//   HyperbolicSecantKernel(s)     s == 0 only                -> invalid_argument (a NEGATIVE s is not validated: ok)
//   PowerLawKernel(a, xm)         xm == 0 only               -> invalid_argument (alpha is not validated at all, the check
//                                                               is commented out in the source; a NEGATIVE xmin: ok)
//   LogisticKernel(s)             s <= 0                     -> invalid_argument
//   GammaKernel(a, t)             a <= 0 || t <= 0           -> invalid_argument
//   ExponentialPowerKernel(a, b)  a <= 0 || b <= 0           -> invalid_argument
static std::string law_ctor(int li, double scale, double shape) {
    return ::verif::err_kind([&] {
        switch (li) {
        case 0: { CauchyKernel k(scale); (void)k; break; }
        case 1: { ExponentialKernel k(scale); (void)k; break; }
        case 2: { WeibullKernel k(scale, shape); (void)k; break; }
        case 3: { NormalKernel k(scale); (void)k; break; }
        case 4: { LogNormalKernel k(scale); (void)k; break; }
        case 5: { HyperbolicSecantKernel k(scale); (void)k; break; }
        case 6: { PowerLawKernel k(scale, shape); (void)k; break; }
        case 7: { LogisticKernel k(scale); (void)k; break; }
        case 8: { GammaKernel k(scale, shape); (void)k; break; }
        default: { ExponentialPowerKernel k(scale, shape); (void)k; break; }
        }
    });
}

// Random parameters in the law's domain, off the diagonal scale = shape, power-law alpha > 1.
// Densities unbounded at the centre (Weibull shape < 1, gamma alpha < 1: open finding F25) are
// sampled at a low rate.
static void random_params(Rng& rng, int li, Dy& scale, Dy& shape) {
    bool singular = rng.coin(8);
    for (;;) {
        scale = Dy{rng.in(1, 64), 8};
        shape = Dy{rng.in(1, 48), 8};
        if (li == 2 && (shape.num < 8) != singular) continue;   // Weibull shape a >= 1 (a < 1: F25 region)
        if (li == 8 && (scale.num < 8) != singular) continue;   // gamma alpha >= 1 (alpha < 1: F25 region)
        if (li == 8 && !singular && rng.coin(50)) scale.num = 8 * rng.in(1, 6);  // integer alpha half of the time
        if (li == 6 && scale.num <= 8) continue;                // power law alpha > 1
        if (li == 6 && scale.num > 32) scale.num = rng.in(9, 32);   // keep (p/xmin)^(1-alpha) finite
        if (li == 9 && shape.num < 4) continue;                 // exponential power beta >= 1/2 (tgamma(1/beta) moderate)
        if (scale.num == shape.num) continue;                   // off the diagonal
        if ((li == 2 || li == 8) && singular) stats.add("singular_density_params");
        // the normal, hyperbolic-secant and logistic classes have separate code for scale == 1
        if ((li == 3 || li == 5 || li == 7) && rng.coin(15)) { scale = Dy{8, 8}; if (shape.num == 8) shape.num = 12; stats.add("scale_exactly_one"); }
        return;
    }
}

static Dy dyadic_near(double x, long den, long lo_num) {
    double k = std::floor(x * (double)den + 0.5);
    if (!(k >= (double)lo_num)) k = (double)lo_num;
    if (k > 9.0e15) k = 9.0e15;
    return Dy{(long)k, den};
}

struct Built { bool ok; std::string err; int rows, cols; };

// Emits det.new and det.prob; returns the kernel (or null).
static Probe* emit_new(std::ostream& out, const char* lawname, DispersalKernelType type, const IR& disp, Dy pct, Dy ew, Dy ns, Dy scale, Dy shape, Built& b) {
    Probe* k = nullptr;
    out << "det.new " << lawname << " " << pct.s() << " " << ew.s() << " " << ns.s() << " " << scale.s() << " " << shape.s() << " => ";
    std::string e = ::verif::err_kind([&] { k = new Probe(type, disp, pct.v(), ew.v(), ns.v(), scale.v(), shape.v()); });
    if (!e.empty()) {
        out << e << "\n"; b.ok = false; b.err = e; stats.add("new_" + e.substr(4)); return nullptr;
    }
    b.ok = true; b.rows = k->nr(); b.cols = k->nc();
    out << "ok " << k->nr() << " " << k->nc() << " " << bits(k->md()) << "\n";
    if (k->nr() >= 1 && k->nc() >= 1) {
        out << "det.prob " << k->nr() << " " << k->nc() << " =>";
        for (int i = 0; i < k->nr(); i++) for (int j = 0; j < k->nc(); j++) out << " " << bits(k->p(i, j));
        out << "\n";
    }
    return k;
}

typedef std::function<std::tuple<int, int>(int, int)> CallFn;
static void emit_call(std::ostream& out, const CallFn& k, int row, int col, int n);
static void emit_call(std::ostream& out, Probe& k, int row, int col, int n) {
    std::default_random_engine g;
    emit_call(out, CallFn([&](int r, int c) { return k(g, r, c); }), row, col, n);
}
static void emit_call(std::ostream& out, const CallFn& k, int row, int col, int n) {
    out << "det.call " << row << " " << col << " " << n << " => ";
    int r = 0, c = 0;
    std::string e = ::verif::err_kind([&] { std::tie(r, c) = k(row, col); });
    if (e.empty()) out << r << " " << c << "\n"; else out << e << "\n";
    stats.add("calls");
}

// resolutions: the window gets 1..15 cells per axis; ns != ew most of the time
static void choose_resolutions(Rng& rng, int li, Dy scale, Dy shape, Dy pct, Dy& ns, Dy& ew) {
    double dmax = 0; bool have = false;
    std::string e0 = ::verif::err_kind([&] { dmax = law_icdf(li, scale.v(), uses_shape(li) ? shape.v() : 1.0, pct.v()); have = true; });
    (void)e0;
    for (int attempt = 0; attempt < 40; attempt++) {
        if (have && dmax > 0 && std::isfinite(dmax)) {
            double ur = rng.in(3, 75) / 10.0, uc = rng.in(3, 75) / 10.0;
            ns = dyadic_near(dmax / ur, 16, 1); ew = dyadic_near(dmax / uc, 16, 1);
        } else { ns = Dy{rng.in(1, 128), 16}; ew = Dy{rng.in(1, 128), 16}; }
        if (rng.coin(12)) ew = ns;
        if (!have || !(dmax > 0)) break;
        double hr = std::ceil(dmax / ns.v()), hc = std::ceil(dmax / ew.v());
        if (hr <= 15 && hc <= 15) break;
        if (attempt == 39) { ns = dyadic_near(dmax / 2.0, 16, 1); ew = dyadic_near(dmax / 3.0, 16, 1); }
    }
}

// several source cells in sequence (partial runs, revisits, the same cell again)
static void run_sources(::verif::Case& c, IR& disp, const CallFn& k, int& nsrc, long& total) {
    Rng& rng = c.rng; std::ostream& out = c.out;
    nsrc = rng.in(2, 4);
    int prev_r = -1, prev_c = -1; total = 0;
    std::vector<std::pair<int, int>> used;
    for (int s = 0; s < nsrc; s++) {
        int r, cc;
        if (s >= 2 && rng.coin(30)) { auto pr = used[(size_t)rng.in(0, (int)used.size() - 2)]; r = pr.first; cc = pr.second; stats.add("source_revisited"); }
        else do { r = rng.in(0, 6); cc = rng.in(0, 6); } while (r == prev_r && cc == prev_c);
        int n = rng.coin(25) ? rng.in(1, 6) : (rng.coin(60) ? rng.in(7, 90) : rng.in(91, 320));
        disp(r, cc) = n;
        int calls = n;
        bool last = s == nsrc - 1;
        if (!last && rng.coin(20)) { calls = rng.in(1, n); if (calls < n) stats.add("partial_run"); }
        for (int q = 0; q < calls; q++) emit_call(out, k, r, cc, n);
        total += calls;
        // the same source cell again without any other cell in between: no reset happens
        if (calls == n && rng.coin(12)) {
            int n2 = rng.in(1, 12); disp(r, cc) = n2;
            for (int q = 0; q < n2; q++) emit_call(out, k, r, cc, n2);
            stats.add("same_source_again"); total += n2;
        }
        used.push_back({r, cc}); prev_r = r; prev_c = cc;
        stats.add("source_runs");
    }
}

static void alloc_case(::verif::Case& c) {
    Rng& rng = c.rng; std::ostream& out = c.out;
    int li = (int)(c.index % 10);
    Dy scale, shape; random_params(rng, li, scale, shape);
    // dispersal percentage k/64; mostly above 1/2, sometimes at or below (two-sided laws: F23 region)
    Dy pct = rng.coin(82) ? Dy{rng.in(33, 63), 64} : Dy{rng.in(1, 32), 64};
    if (rng.coin(10)) pct = Dy{rng.pick(std::vector<int>{127, 253, 255}), 256};
    stats.add(std::string("law_") + LAWS[li]);
    IR disp(7, 7, 0);
    // unsupported kernel type: accepted by the constructor, operator() throws
    if (rng.coin(4)) {
        Built b; Probe* k = emit_new(out, "none", rng.coin() ? DispersalKernelType::Uniform : DispersalKernelType::None, disp, pct, Dy{16, 16}, Dy{24, 16}, scale, shape, b);
        // every call must throw, also a repeated call for the same cell after the first exception was caught, and a call
        // for another cell in between
        if (k) { disp(1, 1) = 3; disp(2, 2) = 2; emit_call(out, *k, 1, 1, 3); emit_call(out, *k, 1, 1, 3); emit_call(out, *k, 2, 2, 2); emit_call(out, *k, 1, 1, 3); emit_call(out, *k, 1, 1, 3); delete k; }
        stats.add("unsupported_type"); return;
    }
    // out-of-domain parameters: some member constructor throws invalid_argument
    if (rng.coin(3)) {
        Dy s2 = scale, h2 = shape; int w = rng.in(0, 3);
        if (w == 0) s2.num = 0; else if (w == 1) h2.num = 0; else if (w == 2) s2.num = -s2.num; else h2.num = -h2.num;
        Built b; Probe* k = emit_new(out, LAWS[li], TYPES[li], disp, pct, Dy{16, 16}, Dy{24, 16}, s2, h2, b);
        delete k; stats.add("out_of_domain_params"); return;
    }
    // dispersal percentage exactly at an end of its range (0 or 1) or outside it: the quantile is not finite
    // there, icdf() rejects it with invalid_argument and so must the kernel constructor - a window size computed
    // from an infinite distance is a float-to-int conversion out of range followed by a signed overflow
    if (rng.coin(3)) {
        Dy p2 = rng.pick(std::vector<Dy>{Dy{0, 1}, Dy{1, 1}, Dy{1, 1}, Dy{5, 4}, Dy{-1, 4}});
        Built b; Probe* k = emit_new(out, LAWS[li], TYPES[li], disp, p2, Dy{16, 16}, Dy{24, 16}, scale, shape, b);
        if (k) { disp(1, 1) = 3; if (k->nr() >= 1 && k->nc() >= 1 && k->nr() * k->nc() < 4096) emit_call(out, *k, 1, 1, 3); delete k; }
        stats.add("percentage_at_or_beyond_range_end"); return;
    }
    Dy ns{16, 16}, ew{16, 16};
    choose_resolutions(rng, li, scale, shape, pct, ns, ew);
    if (ns.num != ew.num) stats.add("ns_ne_ew");
    Built b;
    Probe* kp = emit_new(out, LAWS[li], TYPES[li], disp, pct, ew, ns, scale, uses_shape(li) || rng.coin(50) ? shape : Dy{8, 8}, b);
    if (!kp) return;
    Probe& k = *kp;
    stats.add("window_cells", (long)std::max(0, k.nr()) * std::max(0, k.nc()));
    if (k.nr() < 1 || k.nc() < 1) {  // no window (F23 region): a few calls only
        disp(2, 3) = 4; for (int q = 0; q < 3; q++) emit_call(out, k, 2, 3, 4);
        stats.add("no_window"); delete kp; return;
    }
    if (k.nr() != k.nc()) stats.add("window_nonsquare");
    int nsrc = 0; long total = 0;
    run_sources(c, disp, CallFn([&](int r, int cc) { std::default_random_engine g; return k(g, r, cc); }), nsrc, total);
    c.nontrivial = k.nr() * k.nc() >= 9 && nsrc >= 2 && total >= 10;
    delete kp;
}

// ------------------------------------------------------------------------------ factory mode
// The deterministic kernel as a user gets it: Config with dispersal_stochasticity = false, built by
// create_natural_kernel / create_anthro_kernel / create_dynamic_kernel (the latter is what Model
// uses by default).  The det.new line carries the CONFIGURED parameters, so the window, weight and
// allotment predicates of C14 are evaluated against what the configuration asks for.
static const char* CFGNAMES[] = {"cauchy", "exponential", "weibull", "normal", "log-normal", "hyperbolic-secant", "power-law", "logistic", "gamma", "exponential-power"};
typedef std::default_random_engine FGen;
template <class K, class G> struct WrapProbe : DynamicWrapperKernel<K, G> {
    static K& get(DynamicWrapperKernel<K, G>& w) { return w.*(&WrapProbe::kernel_); }
};
template <class G> struct DynProbe : DispersalKernel<G> {
    using Base = DispersalKernel<G>;
    static KernelInterface<G>* nat(Base& k) { return (k.*(&DynProbe::natural_kernel_)).get(); }
    static KernelInterface<G>* ant(Base& k) { return (k.*(&DynProbe::anthropogenic_kernel_)).get(); }
};

static void factory_case(::verif::Case& c) {
    Rng& rng = c.rng; std::ostream& out = c.out;
    int li = (int)(c.index % 10);
    int side = (int)((c.index / 10) % 2);          // 0: natural kernel under test, 1: anthropogenic
    int via = (int)((c.index / 20) % 2);           // 0: create_*_kernel, 1: create_dynamic_kernel
    Dy scale, shape; random_params(rng, li, scale, shape);
    Dy pct = Dy{rng.in(33, 63), 64};
    Dy ns{16, 16}, ew{16, 16};
    choose_resolutions(rng, li, scale, shape, pct, ns, ew);
    if (ns.num == ew.num && rng.coin(85)) ew.num = ns.num + rng.in(1, 24);
    // the kernel on the other side is built too (create_dynamic_kernel builds both): an exponential law whose
    // window stays small at these resolutions (a heavy-tailed law at a fine resolution asks for a window of
    // billions of cells, whose size overflows int - outside any usable configuration, see DESIGN 8.4)
    int lo = 1; Dy oscale{std::max(1L, std::min(ns.num, ew.num)), 8};
    if (oscale.num * scale.den == scale.num * oscale.den) oscale.num += 1;
    stats.add(std::string("factory_law_") + LAWS[li]); stats.add(side ? "factory_anthro" : "factory_natural"); stats.add(via ? "factory_dynamic" : "factory_direct");
    if (ns.num != ew.num) stats.add("ns_ne_ew");
    Config config;
    config.rows = 7; config.cols = 7;
    config.ew_res = ew.v(); config.ns_res = ns.v();
    config.dispersal_stochasticity = false;
    config.dispersal_percentage = pct.v();
    config.shape = shape.v();
    config.natural_kernel_type = side == 0 ? CFGNAMES[li] : CFGNAMES[lo];
    config.anthro_kernel_type = side == 1 ? CFGNAMES[li] : CFGNAMES[lo];
    config.natural_scale = side == 0 ? scale.v() : oscale.v();
    config.anthro_scale = side == 1 ? scale.v() : oscale.v();
    config.natural_direction = "none"; config.anthro_direction = "none";
    config.natural_kappa = 0; config.anthro_kappa = 0;
    config.use_anthropogenic_kernel = side == 1 || rng.coin(50);
    config.percent_natural_dispersal = side == 1 ? 0.0 : 1.0;   // the mix always selects the kernel under test
    IR disp(7, 7, 0);
    BBox<double> bbox; bbox.north = 100; bbox.south = 0; bbox.east = 100; bbox.west = 0;
    Network<int> net(bbox, 10, 10);
    std::unique_ptr<KernelInterface<FGen>> direct;
    std::unique_ptr<DispersalKernel<FGen>> dyn;
    KernelInterface<FGen>* under_test = nullptr;
    typedef DynamicWrapperKernel<DeterministicDispersalKernel<IR>, FGen> Wrap;
    out << "det.new " << LAWS[li] << " " << pct.s() << " " << ew.s() << " " << ns.s() << " " << scale.s() << " " << shape.s() << " => ";
    std::string e = ::verif::err_kind([&] {
        if (via == 0) {
            if (side == 0) direct = create_natural_kernel<FGen, IR, int>(config, disp);
            else direct = create_anthro_kernel<FGen, IR, int>(config, disp, net);
            under_test = direct.get();
        } else {
            dyn.reset(new DispersalKernel<FGen>(create_dynamic_kernel<FGen, IR, int>(config, disp, net)));
            under_test = side == 0 ? DynProbe<FGen>::nat(*dyn) : DynProbe<FGen>::ant(*dyn);
        }
    });
    if (!e.empty()) { out << e << "\n"; stats.add("factory_new_" + e.substr(4)); return; }
    Wrap* w = dynamic_cast<Wrap*>(under_test);
    if (!w) { out << "err:other\n"; stats.add("factory_not_deterministic"); return; }
    Probe k(WrapProbe<DeterministicDispersalKernel<IR>, FGen>::get(*w));
    out << "ok " << k.nr() << " " << k.nc() << " " << bits(k.md()) << "\n";
    if (k.nr() >= 1 && k.nc() >= 1) {
        out << "det.prob " << k.nr() << " " << k.nc() << " =>";
        for (int i = 0; i < k.nr(); i++) for (int j = 0; j < k.nc(); j++) out << " " << bits(k.p(i, j));
        out << "\n";
    } else { stats.add("no_window"); return; }
    stats.add("window_cells", (long)k.nr() * k.nc());
    FGen g((unsigned)rng.next());
    RandomNumberGeneratorProvider<FGen> prov((unsigned)rng.next());
    // calls go through the object a user holds: the wrapper, or the natural/anthropogenic mix
    CallFn call = via == 0 ? CallFn([&](int r, int cc) { return (*direct)(g, r, cc); })
                           : CallFn([&](int r, int cc) { return (*dyn)(prov, r, cc); });
    int nsrc = 0; long total = 0;
    run_sources(c, disp, call, nsrc, total);
    c.nontrivial = k.nr() * k.nc() >= 9 && nsrc >= 2 && total >= 10;
}

static void quantile_case(::verif::Case& c) {
    Rng& rng = c.rng; std::ostream& out = c.out;
    int li = (int)(c.index % 10);
    Dy scale, shape; random_params(rng, li, scale, shape);
    if (!uses_shape(li)) shape = Dy{8, 8};
    stats.add(std::string("qlaw_") + LAWS[li]);
    std::vector<double> xs;
    for (int t = 0; t < 6; t++) {
        Dy p = t == 0 ? Dy{1, 2} : (rng.coin(70) ? Dy{rng.in(1, 63), 64} : Dy{rng.in(1, 1023), 1024});
        out << "det.q " << LAWS[li] << " " << scale.s() << " " << shape.s() << " " << p.s() << " => ";
        double x = 0;
        std::string e = ::verif::err_kind([&] { x = law_icdf(li, scale.v(), shape.v(), p.v()); });
        if (e.empty()) { out << bits(x) << "\n"; xs.push_back(x); } else { out << e << "\n"; stats.add("icdf_" + e.substr(4)); }
        stats.add("icdf_evaluations");
    }
    // out-of-range percentages are rejected
    for (Dy p : {Dy{0, 1}, Dy{1, 1}, Dy{-1, 4}, Dy{5, 4}}) {
        out << "det.q " << LAWS[li] << " " << scale.s() << " " << shape.s() << " " << p.s() << " => ";
        double x = 0;
        std::string e = ::verif::err_kind([&] { x = law_icdf(li, scale.v(), shape.v(), p.v()); });
        if (e.empty()) out << bits(x) << "\n"; else out << e << "\n";
    }
    for (int t = 0; t < 5; t++) xs.push_back(rng.in(0, 640) / 32.0);
    xs.push_back(0.0);
    for (double x : xs) {
        if (x < 0 && (li == 9 || li == 6 || li == 1 || li == 2 || li == 4 || li == 8)) x = -x;  // pow of a negative base / guarded laws
        out << "det.pdf " << LAWS[li] << " " << scale.s() << " " << shape.s() << " " << bits(x) << " => ";
        double v = 0;
        std::string e = ::verif::err_kind([&] { v = law_pdf(li, scale.v(), shape.v(), x); });
        if (e.empty()) out << bits(v) << "\n"; else out << e << "\n";
        stats.add("pdf_evaluations");
    }
    if (li == 8) for (int t = 0; t < 4; t++) {
        double x = rng.in(1, 640) / 32.0;
        out << "det.gcdf " << scale.s() << " " << shape.s() << " " << bits(x) << " => " << bits(GammaKernel(scale.v(), shape.v()).cdf(x)) << "\n";
    }
    // the deterministic kernel built with the percentage exactly at an end of its range (0, 1): the quantile is not
    // finite there; icdf() rejects it and so must the constructor (a window computed from an infinite distance is an
    // out-of-range float-to-int conversion followed by a signed overflow)
    {
        IR disp0(5, 5, 0);
        for (Dy p2 : {Dy{0, 1}, Dy{1, 1}}) {
            Built b; Probe* k = emit_new(out, LAWS[li], TYPES[li], disp0, p2, Dy{16, 16}, Dy{24, 16}, scale, shape, b);
            delete k; stats.add("kernel_built_with_percentage_at_range_end");
        }
    }
    // constructor validation: every parameter valid / 0 / negative, one at a time and both
    {
        Dy sv[3] = {scale, Dy{0, scale.den}, Dy{-scale.num, scale.den}};
        Dy hv[3] = {shape, Dy{0, shape.den}, Dy{-shape.num, shape.den}};
        int nh = uses_shape(li) ? 3 : 1;   // one-parameter classes do not receive the shape
        for (int a = 0; a < 3; a++) for (int b = 0; b < nh; b++) {
            std::string e = law_ctor(li, sv[a].v(), hv[b].v());
            out << "det.ctor " << LAWS[li] << " " << sv[a].s() << " " << hv[b].s() << " => " << (e.empty() ? "ok" : e) << "\n";
            stats.add(e.empty() ? "ctor_accepted" : "ctor_rejected");
        }
    }
    c.nontrivial = true;
}

static void q_line(std::ostream& out, int li, Dy scale, Dy shape, Dy p) {
    out << "det.q " << LAWS[li] << " " << scale.s() << " " << shape.s() << " " << p.s() << " => ";
    double x = 0;
    std::string e = ::verif::err_kind([&] { x = law_icdf(li, scale.v(), shape.v(), p.v()); });
    if (e.empty()) out << bits(x) << "\n"; else out << e << "\n";
}

static void witness_case(::verif::Case& c) {
    std::ostream& out = c.out; IR disp(5, 5, 0); Built b;
    switch (c.index % 7) {
    case 0: {  // F21: power law alpha = 2, xmin = 1, p = 1/2: icdf = 2, cdf(2) = 2/3
        q_line(out, 6, Dy{2, 1}, Dy{1, 1}, Dy{1, 2});
        q_line(out, 6, Dy{2, 1}, Dy{1, 1}, Dy{1, 4});
        Probe* k = emit_new(out, "powerlaw", DispersalKernelType::PowerLaw, disp, Dy{1, 2}, Dy{1, 1}, Dy{1, 2}, Dy{2, 1}, Dy{1, 1}, b);
        if (k) { disp(2, 2) = 9; for (int q = 0; q < 9; q++) emit_call(out, *k, 2, 2, 9); delete k; }
        break; }
    case 1: {  // F21: exponential power alpha = 2, beta = 3/2, p = 3/4: icdf = 0.391, cdf = 0.605
        q_line(out, 9, Dy{2, 1}, Dy{3, 2}, Dy{3, 4});
        q_line(out, 9, Dy{2, 1}, Dy{3, 2}, Dy{9, 16});
        Probe* k = emit_new(out, "exppower", DispersalKernelType::ExponentialPower, disp, Dy{3, 4}, Dy{1, 8}, Dy{1, 4}, Dy{2, 1}, Dy{3, 2}, b);
        if (k) { disp(2, 2) = 12; for (int q = 0; q < 12; q++) emit_call(out, *k, 2, 2, 12); delete k; }
        break; }
    case 2: {  // F21: gamma alpha = 5/2, theta = 3/2, p = 1/2: icdf = 4.015, cdf = 0.626
        q_line(out, 8, Dy{5, 2}, Dy{3, 2}, Dy{1, 2});
        Probe* k = emit_new(out, "gamma", DispersalKernelType::Gamma, disp, Dy{1, 2}, Dy{2, 1}, Dy{3, 2}, Dy{5, 2}, Dy{3, 2}, b);
        if (k) { disp(1, 3) = 20; for (int q = 0; q < 20; q++) emit_call(out, *k, 1, 3, 20); delete k; }
        break; }
    case 3: {  // F23 (a): Cauchy pct = 3/8, ew = 1, ns = 2, scale = 3: rows = 1, cols = -1, bad_array_new_length
        Probe* k = emit_new(out, "cauchy", DispersalKernelType::Cauchy, disp, Dy{3, 8}, Dy{1, 1}, Dy{2, 1}, Dy{3, 1}, Dy{1, 1}, b);
        delete k; break; }
    case 5: {  // F25: Weibull pct = 3/4, ew = 1, ns = 3/2, scale = 2, shape = 1/2: NaN at the centre, zeros elsewhere
        Probe* k = emit_new(out, "weibull", DispersalKernelType::Weibull, disp, Dy{3, 4}, Dy{1, 1}, Dy{3, 2}, Dy{2, 1}, Dy{1, 2}, b);
        if (k) { disp(1, 1) = 6; for (int q = 0; q < 6; q++) emit_call(out, *k, 1, 1, 6); delete k; }
        break; }
    case 6: {  // F33: Weibull scale 3/4, shape 41/8, pct 255/256, cells 7/2: every density of the 3x3 window is 0 in doubles
        Probe* k = emit_new(out, "weibull", DispersalKernelType::Weibull, disp, Dy{255, 256}, Dy{7, 2}, Dy{7, 2}, Dy{3, 4}, Dy{41, 8}, b);
        if (k) { disp(2, 2) = 6; for (int q = 0; q < 6; q++) emit_call(out, *k, 2, 2, 6); delete k; }
        break; }
    default: {  // F23 (b): Cauchy pct = 1/4: rows = -1, cols = -3; every call returns the source cell
        Probe* k = emit_new(out, "cauchy", DispersalKernelType::Cauchy, disp, Dy{1, 4}, Dy{1, 1}, Dy{2, 1}, Dy{3, 1}, Dy{1, 1}, b);
        if (k) { disp(1, 1) = 5; for (int q = 0; q < 2; q++) emit_call(out, *k, 1, 1, 5); delete k; }
        break; }
    }
    stats.add("witness_cases");
    c.nontrivial = true;
}

int main(int argc, char** argv) {
    std::ios::sync_with_stdio(false);
    std::string mode = argc > 1 ? argv[1] : "alloc";
    uint64_t seed = argc > 2 ? std::stoull(argv[2]) : 1;
    long first = argc > 3 ? std::stol(argv[3]) : 0;
    long count = argc > 4 ? std::stol(argv[4]) : 100;
    // self-test of the exact transport of doubles
    if (frombits(bits(0.1)) != 0.1 || bits(1.0) != 0x3FF0000000000000ULL) { std::cerr << "bit transport self-test failed\n"; return 3; }
    if (mode == "alloc") ::verif::run_cases("h_det", mode, seed, first, count, alloc_case);
    else if (mode == "quantile") ::verif::run_cases("h_det", mode, seed, first, count, quantile_case);
    else if (mode == "factory") ::verif::run_cases("h_det", mode, seed, first, count, factory_case);
    else if (mode == "witness") ::verif::run_cases("h_det", mode, seed, first, count, witness_case);
    else { std::cerr << "unknown mode " << mode << "\n"; return 2; }
    stats.dump("h_det");
    return 0;
}
