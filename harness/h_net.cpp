// Correspondence harness for C15: Network (load / walk / jump / teleport) and NetworkDispersalKernel.
// Usage: h_net <mode> <seed> <first> <count>
//   mode net       : random small network text, loaded by the real Network<int>; the loaded structure is
//                    printed canonically, then point queries, next_node calls and trips (walk, jump,
//                    teleport, through the kernel and directly) with several generator seeds.
//                    Cases 0 and 1 are fixed witnesses of finding F17.
//   mode malformed : a well-formed text with exactly one malformed element (or header variant);
//                    load result (exception class or structure) only.
//   mode f17       : as net, with 14% of the end nodes in the extra row / column beyond the south / east edge
//                    (region of the open finding F17); cases 0 and 1 are the fixed witnesses.
//   mode witness   : only the fixed F17 witnesses (index modulo 2).
// All doubles are dyadic; they are printed as num/den. Text is printed with '\n' -> '|', ' ' -> '~'.
#include <pops/network.hpp>
#include <pops/network_kernel.hpp>
#include "common.hpp"
#include <cmath>
#include <functional>
#include <random>
#include <set>
using namespace pops;
using verif::Rng;

static verif::Stats stats;

// exact dyadic -> "num/den"
static std::string rat(double v) {
    if (v == 0) return "0";
    if (!std::isfinite(v)) return "inexact";
    long den = 1; int k = 0;
    while (v != std::floor(v) && k < 40) { v *= 2; den *= 2; k++; }
    if (v != std::floor(v) || std::fabs(v) > 9e15) return "inexact";
    std::ostringstream o; o << (long long)v; if (den != 1) o << "/" << den; return o.str();
}
// exact decimal text of a multiple of 1/64
static std::string dec(double v, int style = 0) {
    char buf[64]; std::snprintf(buf, sizeof buf, "%.6f", v);
    std::string s(buf);
    if (style == 1) return s;                       // keep all zeros
    while (!s.empty() && s.back() == '0') s.pop_back();
    if (!s.empty() && s.back() == '.') { if (style == 2) s += "0"; else s.pop_back(); }
    return s;
}
static std::string enc(const std::string& t) {
    if (t.empty()) return "<empty>";
    std::string o;
    for (char ch : t) o += ch == '\n' ? '|' : ch == ' ' ? '~' : ch;
    return o;
}

struct TNet : Network<int> {
    using Network<int>::Network;
    template <class G> int t_next(int node, const std::set<int>& ignore, G& g) const { return this->next_node(node, ignore, g); }
    bool has_matrix_node(int node) const { return this->node_matrix_.count(node) > 0; }
    std::vector<int> matrix_nodes() const { std::vector<int> v; for (auto& kv : this->node_matrix_) v.push_back(kv.first); return v; }
    std::vector<std::pair<int, int>> keys() const { std::vector<std::pair<int, int>> v; for (auto& kv : this->segments_by_nodes_) v.push_back(kv.first); return v; }
    double min_cost() const { double m = -1; for (auto& kv : this->segments_by_nodes_) { double c = kv.second.cost(); if (m < 0 || c < m) m = c; } return m; }
    bool all_costs_positive() const { for (auto& kv : this->segments_by_nodes_) if (!(kv.second.cost() > 0)) return false; return true; }
    double seg_cost(std::pair<int, int> k) const { return this->segments_by_nodes_.at(k).cost(); }
    size_t num_segs() const { return this->segments_by_nodes_.size(); }
    void print_structure(std::ostream& out) const {
        auto nodes = this->get_all_nodes();
        std::sort(nodes.begin(), nodes.end());
        out << "ok nodes " << nodes.size();
        for (auto& n : nodes) out << " " << n.first << " " << n.second.first << " " << n.second.second;
        out << " segs " << this->segments_by_nodes_.size();
        for (auto& kv : this->segments_by_nodes_) {
            out << " " << kv.first.first << " " << kv.first.second << " " << rat(kv.second.cost()) << " " << rat(kv.second.probability())
                << " " << kv.second.size();
            for (auto& c : kv.second) out << " " << c.first << " " << c.second;
        }
        out << " adj " << this->node_matrix_.size();
        for (auto& kv : this->node_matrix_) {
            out << " " << kv.first << " " << kv.second.second.size();
            for (int m : kv.second.second) out << " " << m;
            out << " " << kv.second.first.size();
            for (double p : kv.second.first) out << " " << rat(p);
        }
        out << " stats";
        if (this->node_matrix_.empty()) out << " none";   // collect_statistics dereferences end() on an empty network
        else {
            auto st = this->collect_statistics();
            out << " " << st["num_nodes"] << " " << st["num_segments"] << " " << st["num_nodes_with_segments"] << " "
                << st["num_standalone_nodes"] << " " << st["min_node_id"] << " " << st["max_node_id"];
        }
    }
    // get_segment in both senses
    void print_segview(std::ostream& out, int a, int b) const {
        out << "net.segview " << a << " " << b << " => ";
        std::string e = verif::err_kind([&] {
            auto v = this->get_segment(a, b);
            std::ostringstream o;
            o << "ok " << rat(v.cost());
            int n = 0; std::ostringstream cells;
            for (auto it = v.begin(); it != v.end(); ++it) { cells << " " << (*it).first << " " << (*it).second; n++; }
            o << " " << n << cells.str() << " front " << v.front().first << " " << v.front().second << " back " << v.back().first << " " << v.back().second;
            out << o.str();
        });
        if (!e.empty()) out << e;
        out << "\n";
    }
};

struct GridSpec { double north, south, east, west, ew, ns; int nrows, ncols; };
struct NodeP { int id; double x, y; };
struct EdgeP { int a, b; std::vector<std::pair<double, double>> pts; double cost = 0; double prob = 0; };

static double r8(double v) { return std::round(v * 8) / 8; }

// Share (per mille) of end nodes placed in the extra row / column beyond the south / east edge, i.e. in the
// region of the open finding F17. Kept small in the bulk modes (every such network yields one KNOWN line);
// mode f17 raises it so that trips through that region are exercised densely.
static int g_ring_permille = 3;

static GridSpec random_grid(Rng& rng) {
    static const std::vector<double> res = {1, 1, 1, 2, 0.5, 4, 3, 10, 1.5};
    GridSpec g;
    g.ew = rng.pick(res); g.ns = rng.coin(70) ? g.ew : rng.pick(res);
    g.ncols = rng.in(3, 8); g.nrows = rng.in(3, 8);
    static const std::vector<double> origins = {0, 0, 20, -5, 100.5, -12.5, 7};
    g.west = rng.pick(origins); g.south = rng.pick(origins);
    g.east = g.west + g.ncols * g.ew; g.north = g.south + g.nrows * g.ns;
    int partial = g_ring_permille > 100 ? 12 : 2;   // a partial last row / column also puts nodes into the F17 region
    if (rng.coin(partial)) { g.east -= g.ew / 2; stats.add("grid_partial_last_col"); }
    if (rng.coin(partial)) { g.south += g.ns / 2; stats.add("grid_partial_last_row"); }
    return g;
}

// a point in raster cell (r, c) (cells counted from the north-west corner, may be outside)
static std::pair<double, double> point_in_cell(Rng& rng, const GridSpec& g, int r, int c) {
    static const std::vector<double> fr = {0.125, 0.25, 0.5, 0.5, 0.75, 0.875, 0};
    return {g.west + (c + rng.pick(fr)) * g.ew, g.north - (r + rng.pick(fr)) * g.ns};
}

static NodeP random_node(Rng& rng, const GridSpec& g, int id) {
    int k = rng.in(0, 99); int r, c;
    bool ring = rng.in(0, 999) < g_ring_permille;
    if (ring) k = 70;
    if (k < 80 && !ring) { r = rng.in(0, g.nrows - 1); c = rng.in(0, g.ncols - 1); stats.add("node_inside"); }
    else if (k < 80) {  // the extra row / column beyond the south / east edge (F17 region)
        if (rng.coin()) { r = g.nrows; c = rng.in(0, g.ncols); } else { r = rng.in(0, g.nrows); c = g.ncols; }
        stats.add("node_one_cell_beyond_south_east");
    }
    else if (k < 90) {  // further out, any side
        r = rng.in(-3, g.nrows + 3); c = rng.in(-3, g.ncols + 3);
        if (rng.coin()) r = rng.coin() ? -1 - rng.in(0, 2) : g.nrows + 1 + rng.in(0, 2); else c = rng.coin() ? -1 - rng.in(0, 2) : g.ncols + 1 + rng.in(0, 2);
        stats.add("node_far_outside");
    }
    else {  // exactly on an edge of the box
        NodeP n{id, 0, 0};
        int e = rng.in(0, 3);
        auto p = point_in_cell(rng, g, rng.in(0, g.nrows - 1), rng.in(0, g.ncols - 1));
        n.x = e == 0 ? g.east : e == 1 ? g.west : p.first;
        n.y = e == 2 ? g.south : e == 3 ? g.north : p.second;
        stats.add("node_on_box_edge");
        return n;
    }
    auto p = point_in_cell(rng, g, r, c);
    return NodeP{id, p.first, p.second};
}

struct NetSpec {
    GridSpec g; std::vector<NodeP> nodes; std::vector<EdgeP> edges;
    bool has_cost = false, has_prob = false; int cost_mode = 0;  // 1 exact per-cell, 2 arbitrary
    int header = 0; bool trailing_newline = true; bool leading_blank = false;
};

static std::vector<std::pair<double, double>> geometry(Rng& rng, const GridSpec& g, const NodeP& a, const NodeP& b) {
    std::vector<std::pair<double, double>> pts;
    pts.push_back({a.x, a.y});
    int style = rng.in(0, 9);
    int k = style < 2 ? 1 : style < 7 ? rng.in(2, 5) : rng.in(6, 12);   // number of steps; many steps -> repeated cells
    for (int i = 1; i < k; i++) {
        double t = (double)i / k;
        double x = r8(a.x + t * (b.x - a.x)), y = r8(a.y + t * (b.y - a.y));
        if (rng.coin(25)) { x += (rng.in(-2, 2)) * g.ew / 2; y += (rng.in(-2, 2)) * g.ns / 2; }
        if (rng.coin(4)) { x = g.east + 3 * g.ew; stats.add("geometry_detour_outside"); }
        pts.push_back({x, y});
        if (rng.coin(10)) pts.push_back({x, y});   // literally repeated point
    }
    pts.push_back({b.x, b.y});
    return pts;
}

static NetSpec random_spec(Rng& rng) {
    NetSpec s; s.g = random_grid(rng);
    int nn = rng.in(2, 6);
    std::vector<int> ids;
    while ((int)ids.size() < nn) { int id = rng.coin(85) ? rng.in(1, 12) : rng.in(100, 100000); if (std::find(ids.begin(), ids.end(), id) == ids.end()) ids.push_back(id); }
    for (int id : ids) s.nodes.push_back(random_node(rng, s.g, id));
    if (rng.coin(35) && nn >= 2) {  // several nodes in one cell
        int i = rng.in(0, nn - 1), j = rng.in(0, nn - 1);
        if (i != j) { s.nodes[j].x = s.nodes[i].x; s.nodes[j].y = s.nodes[i].y; if (rng.coin()) s.nodes[j].x += s.g.ew / 16; stats.add("two_nodes_one_cell"); }
    }
    int topo = rng.in(0, 3);
    std::vector<std::pair<int, int>> pairs;
    if (topo == 0) { for (int i = 0; i + 1 < nn; i++) pairs.push_back({i, i + 1}); stats.add("topo_chain"); }
    else if (topo == 1) { for (int i = 0; i < nn; i++) if (nn > 2 || i == 0) pairs.push_back({i, (i + 1) % nn}); stats.add("topo_cycle"); }
    else if (topo == 2) { for (int i = 1; i < nn; i++) pairs.push_back({0, i}); stats.add("topo_star"); }
    else { int m = rng.in(1, 8); for (int i = 0; i < m; i++) { int a = rng.in(0, nn - 1), b = rng.in(0, nn - 1); if (a == b && !rng.coin(15)) b = (a + 1) % nn; pairs.push_back({a, b}); } stats.add("topo_random"); }
    if (rng.coin(20) && nn > 2) { pairs.push_back({rng.in(0, nn - 1), rng.in(0, nn - 1)}); }
    if (rng.coin(12)) { pairs.push_back(pairs[(size_t)rng.in(0, (int)pairs.size() - 1)]); stats.add("duplicate_key"); }
    if (rng.coin(12)) { auto p = pairs[(size_t)rng.in(0, (int)pairs.size() - 1)]; pairs.push_back({p.second, p.first}); stats.add("reversed_duplicate_key"); }
    for (auto& p : pairs) if (rng.coin()) std::swap(p.first, p.second);
    for (size_t i = pairs.size(); i > 1; i--) std::swap(pairs[i - 1], pairs[(size_t)rng.in(0, (int)i - 1)]);
    int r = rng.in(0, 9);
    s.has_cost = r < 4; s.has_prob = rng.coin(40);
    s.cost_mode = s.has_cost ? (rng.coin(60) ? 1 : 2) : 0;
    static const std::vector<double> probs = {0.25, 0.5, 1, 2, 0.125, 3, 0.75, 0};
    for (auto& p : pairs) {
        EdgeP e; NodeP a = s.nodes[(size_t)p.first], b = s.nodes[(size_t)p.second];
        if (p.first == p.second) stats.add("self_loop");
        if (rng.coin(4)) { a.x += s.g.ew; stats.add("node_id_at_two_places"); }
        e.a = a.id; e.b = b.id; e.pts = geometry(rng, s.g, a, b);
        e.prob = rng.pick(probs);
        s.edges.push_back(e);
    }
    s.header = (s.has_cost || s.has_prob) ? 1 : rng.in(0, 2);
    s.trailing_newline = rng.coin(80); s.leading_blank = !s.has_cost && !s.has_prob && s.header == 0 && rng.coin(3);
    return s;
}

// number of cells the library will store for these points (its own xy_to_row_col, merged, completed)
static size_t merged_size(const TNet& net, const std::vector<std::pair<double, double>>& pts) {
    size_t n = 0; std::pair<int, int> last{0, 0};
    for (auto& p : pts) { auto c = net.xy_to_row_col(p.first, p.second); if (n == 0 || c != last) { n++; last = c; } }
    return n == 1 ? 2 : n;
}

static void assign_costs(Rng& rng, NetSpec& s, const TNet& probe) {
    static const std::vector<double> per_cell = {0.25, 0.5, 1, 1.5, 2, 2.5, 3};
    for (auto& e : s.edges) {
        size_t steps = merged_size(probe, e.pts) - 1;
        if (s.cost_mode == 2 && steps <= 7) { e.cost = rng.in(1, 48) / 4.0; stats.add("cost_arbitrary"); }
        else { e.cost = rng.pick(per_cell) * (double)steps; stats.add("cost_per_cell_exact"); }
    }
}

static std::string edge_line(Rng& rng, const NetSpec& s, const EdgeP& e) {
    std::ostringstream o;
    o << e.a << "," << e.b;
    if (s.has_prob) o << "," << dec(e.prob, rng.in(0, 2));
    if (s.has_cost) o << "," << dec(e.cost, rng.in(0, 2));
    o << ",";
    int style = rng.in(0, 2);
    for (size_t i = 0; i < e.pts.size(); i++) { if (i) o << ";"; o << dec(e.pts[i].first, style) << ";" << dec(e.pts[i].second, style); }
    if (rng.coin(5)) o << ";";
    return o.str();
}

static std::string header_line(const NetSpec& s) {
    if (s.has_cost && s.has_prob) return "node_1,node_2,probability,cost,geometry";
    if (s.has_cost) return "node_1,node_2,cost,geometry";
    if (s.has_prob) return "node_1,node_2,probability,geometry";
    if (s.header == 1) return "node_1,node_2,geometry";
    if (s.header == 2) return "node_1,node_2,segment";
    return "";
}

static std::string join_lines(const std::vector<std::string>& lines, bool trailing) {
    std::string t;
    for (size_t i = 0; i < lines.size(); i++) { t += lines[i]; if (i + 1 < lines.size() || trailing) t += "\n"; }
    return t;
}

static TNet make_net(const GridSpec& g) {
    BBox<double> b; b.north = g.north; b.south = g.south; b.east = g.east; b.west = g.west;
    return TNet(b, g.ew, g.ns);
}

// prints the net.load line; returns true if loaded
static bool do_load(std::ostream& out, TNet& net, const GridSpec& g, const std::string& text, bool allow_empty) {
    out << "net.load " << rat(g.north) << " " << rat(g.south) << " " << rat(g.east) << " " << rat(g.west) << " " << rat(g.ew) << " " << rat(g.ns)
        << " " << (allow_empty ? 1 : 0) << " " << enc(text) << " => ";
    std::stringstream ss(text);
    std::string e = verif::err_kind([&] { net.load(ss, allow_empty); });
    if (!e.empty()) { out << e << "\n"; stats.add("load_" + e.substr(4)); return false; }
    net.print_structure(out); out << "\n";
    stats.add("load_ok");
    return true;
}

static void trip_line(std::ostream& out, const char* cmd, const std::string& args, const std::function<std::tuple<int, int>()>& f) {
    out << cmd << " " << args << " => ";
    std::tuple<int, int> r{0, 0};
    std::string e = verif::err_kind([&] { r = f(); });
    if (e.empty()) out << std::get<0>(r) << " " << std::get<1>(r) << "\n"; else out << e << "\n";
    stats.add(std::string(cmd + 4) + (e.empty() ? "_ok" : "_rejected"));
}

static void queries_and_trips(verif::Case& c, TNet& net, const NetSpec& s, bool odd64, int ntrips) {
    Rng& rng = c.rng; std::ostream& out = c.out; const GridSpec& g = s.g;
    auto nodes = net.get_all_nodes();
    auto keys = net.keys();
    // coordinate conversion and the two out-of-box tests on the box corners and on end points
    std::vector<std::pair<double, double>> pts = {{g.east, g.south}, {g.west, g.north}, {g.east, g.north}};
    for (auto& e : s.edges) if (rng.coin(40)) { pts.push_back(e.pts.front()); pts.push_back(e.pts.back()); }
    for (auto& p : pts) {
        auto rc = net.xy_to_row_col(p.first, p.second);
        out << "net.xy " << rat(p.first) << " " << rat(p.second) << " => " << rc.first << " " << rc.second << " " << (net.xy_out_of_bbox(p.first, p.second) ? 1 : 0)
            << " " << (net.cell_out_of_bbox(rc) ? 1 : 0) << (net.row_col_out_of_bbox(rc.first, rc.second) ? 1 : 0) << "\n";
    }
    // node presence
    NetworkDispersalKernel<int> probe_kernel(net, 0, 0);
    for (int t = 0; t < 5; t++) {
        int r, cc;
        if (!nodes.empty() && rng.coin(60)) { auto& n = nodes[(size_t)rng.in(0, (int)nodes.size() - 1)]; r = n.second.first; cc = n.second.second; }
        else { r = rng.in(-1, g.nrows + 1); cc = rng.in(-1, g.ncols + 1); }
        out << "net.has " << r << " " << cc << " => " << (net.has_node_at(r, cc) ? 1 : 0) << " " << net.get_nodes_at(r, cc).size() << " " << (probe_kernel.is_cell_eligible(r, cc) ? 1 : 0) << "\n";
    }
    for (auto& n : nodes) if (rng.coin(50)) {
        out << "net.nodecell " << n.first << " => ";
        std::pair<int, int> rc; std::string e = verif::err_kind([&] { rc = net.get_node_row_col(n.first); });
        if (e.empty()) out << rc.first << " " << rc.second << "\n"; else out << e << "\n";
    }
    { out << "net.nodecell 424242 => "; std::pair<int, int> rc; std::string e = verif::err_kind([&] { rc = net.get_node_row_col(424242); });
      if (e.empty()) out << rc.first << " " << rc.second << "\n"; else out << e << "\n"; }
    // segments seen from both ends
    for (auto& k : keys) { net.print_segview(out, k.first, k.second); net.print_segview(out, k.second, k.first); }
    net.print_segview(out, 424242, 1);
    // next_node with random ignore sets
    auto mnodes = net.matrix_nodes();
    for (int t = 0; t < 6 && !mnodes.empty(); t++) {
        int node = mnodes[(size_t)rng.in(0, (int)mnodes.size() - 1)];
        std::set<int> ignore;
        int style = rng.in(0, 3);
        for (int m : mnodes) if (style == 3 ? true : style == 0 ? false : rng.coin(50)) ignore.insert(m);
        unsigned seed = (unsigned)rng.in(0, 999);
        std::default_random_engine gen(seed);
        out << "net.next " << node << " " << seed << " " << ignore.size();
        for (int m : ignore) out << " " << m;
        out << " => " << net.t_next(node, ignore, gen) << "\n";
        stats.add("next_node_calls");
    }
    if (!net.all_costs_positive()) { stats.add("no_trips_nonpositive_cost"); return; }
    double minc = net.min_cost();
    long minc64 = std::lround(minc * 64);
    for (int t = 0; t < ntrips; t++) {
        int r, cc;
        if (!nodes.empty() && rng.coin(85)) { auto& n = nodes[(size_t)rng.in(0, (int)nodes.size() - 1)]; r = n.second.first; cc = n.second.second; }
        else { r = rng.in(-1, g.nrows + 1); cc = rng.in(-1, g.ncols + 1); }
        // distance in 64ths
        long d64;
        int ds = rng.in(0, 9);
        if (ds == 0) d64 = 0;
        else if (ds <= 2 && !keys.empty()) {   // exactly a segment cost, half of it, or a bit more / less
            double cst = net.seg_cost(keys[(size_t)rng.in(0, (int)keys.size() - 1)]);
            long c64 = std::lround(cst * 64);
            int v = rng.in(0, 4);
            d64 = v == 0 ? c64 : v == 1 ? c64 / 2 : v == 2 ? c64 + 16 : v == 3 ? (c64 / 2 > 16 ? c64 / 2 - 16 : 0) : c64 + c64 / 2;
            if (d64 > 8 * minc64) d64 = rng.in(0, (int)(8 * minc64));
        }
        else if (ds == 3) d64 = rng.coin(50) ? -16 : -1;
        else d64 = (long)rng.in(0, (int)std::min<long>(8 * minc64, 64L * 200)) / 8 * 8 + (rng.coin(30) ? rng.in(0, 7) : 0);
        if (odd64 && d64 >= 0) d64 |= 1;
        double d = d64 / 64.0;
        int mode = rng.in(0, 9);
        int nseeds = rng.in(2, 4);
        for (int k = 0; k < nseeds; k++) {
            unsigned seed = (unsigned)rng.in(0, 9999);
            std::ostringstream a;
            if (mode <= 2 || mode == 3) {   // walk / jump directly
                bool jump = mode == 3 || (mode == 2);
                a << r << " " << cc << " " << d64 << "/64 " << (jump ? 1 : 0) << " " << seed;
                trip_line(out, "net.walk", a.str(), [&] { std::default_random_engine gen(seed); return net.walk(r, cc, d, gen, jump); });
            }
            else if (mode <= 6) {   // through the kernel (distance range [d, d])
                bool jump = mode >= 5;
                a << r << " " << cc << " " << d64 << "/64 " << (jump ? 1 : 0) << " " << seed;
                trip_line(out, "net.kwalk", a.str(), [&] { std::default_random_engine gen(seed); NetworkDispersalKernel<int> kern(net, d, d, jump); return kern(gen, r, cc); });
            }
            else if (mode == 7) {
                int steps = rng.in(0, 3);
                a << r << " " << cc << " " << steps << " " << seed;
                trip_line(out, "net.teleport", a.str(), [&] { std::default_random_engine gen(seed); return net.teleport(r, cc, gen, steps); });
            }
            else {
                a << r << " " << cc << " " << seed;
                trip_line(out, "net.kteleport", a.str(), [&] { std::default_random_engine gen(seed); NetworkDispersalKernel<int> kern(net); return kern(gen, r, cc); });
            }
        }
    }
}

static void fixed_witness(verif::Case& c, int which) {
    NetSpec s;
    std::string text;
    if (which == 0) {
        s.g = GridSpec{10, 0, 10, 0, 1, 1, 10, 10};
        // node 2 at x = 10.5 (east = 10), node 3 at y = -0.5 (south = 0): kept; node 4 at x = 11.5: dropped
        text = "1,2,8.5;5.5;9.5;5.5;10.5;5.5\n2,3,10.5;5.5;10.5;2.5;10.5;-0.5\n3,4,10.5;-0.5;11.5;-0.5\n5,1,8.5;7.5;8.5;5.5\n";
    } else {
        s.g = GridSpec{100, 40, 105, 5, 10, 20, 3, 10};
        // box x 5..105 (10 columns of 10), y 40..100 (3 rows of 20); node 7 at x = 110, node 9 at y = 25
        text = "node_1,node_2,cost,geometry\n3,7,8,95;90;110;90\n7,9,6,110;90;110;50;110;25\n9,11,2,110;25;130;25\n3,5,4,95;90;55;70;15;50\n";
        s.has_cost = true;
    }
    TNet net = make_net(s.g);
    if (!do_load(c.out, net, s.g, text, false)) return;
    stats.add("f17_witness_cases");
    c.nontrivial = true;
    queries_and_trips(c, net, s, false, 6);
}

static void net_case(verif::Case& c) {
    Rng& rng = c.rng;
    NetSpec s = random_spec(rng);
    TNet probe = make_net(s.g);
    if (s.has_cost) assign_costs(rng, s, probe);
    std::vector<std::string> lines;
    if (s.leading_blank) lines.push_back("");
    std::string h = header_line(s);
    if (!h.empty()) lines.push_back(h);
    for (auto& e : s.edges) lines.push_back(edge_line(rng, s, e));
    std::string text = join_lines(lines, s.trailing_newline);
    bool allow_empty = rng.coin(15);
    TNet net = make_net(s.g);
    stats.add(s.has_cost ? (s.has_prob ? "columns_cost_prob" : "columns_cost") : (s.has_prob ? "columns_prob" : "columns_plain"));
    if (!do_load(c.out, net, s.g, text, allow_empty)) return;
    stats.add("segments_loaded", (long)net.num_segs());
    if (net.num_segs() < s.edges.size()) stats.add("networks_with_clipped_or_duplicate_edges");
    c.nontrivial = net.num_segs() >= 2;
    queries_and_trips(c, net, s, s.cost_mode == 2, rng.in(4, 8));
}

static void malformed_case(verif::Case& c) {
    Rng& rng = c.rng;
    NetSpec s = random_spec(rng);
    TNet probe = make_net(s.g);
    if (s.has_cost) assign_costs(rng, s, probe);
    std::vector<std::string> lines;
    std::string h = header_line(s);
    for (auto& e : s.edges) lines.push_back(edge_line(rng, s, e));
    size_t li = (size_t)rng.in(0, (int)lines.size() - 1);
    // fields of the chosen line
    std::vector<std::string> f; { std::stringstream ls(lines[li]); std::string t; while (std::getline(ls, t, ',')) f.push_back(t); }
    auto join = [](const std::vector<std::string>& v, char d) { std::string o; for (size_t i = 0; i < v.size(); i++) { if (i) o += d; o += v[i]; } return o; };
    size_t gi = 2 + (s.has_prob ? 1 : 0) + (s.has_cost ? 1 : 0);
    static const std::vector<std::string> bad_id = {"", "abc", "\"1\"", "'1'", "0", "-3", "99999999999", "1.7", " 2", "2x", "+2", "-", "x1"};
    static const std::vector<std::string> bad_prob = {"", "abc", "-0.5", "1e400", "'0.5'", "0.5x", "-0", ".5", "5.", "."};
    static const std::vector<std::string> bad_cost = {"", "abc", "1e400", "\"3\"", "1e-400", "2.5e0", "7e", "+4", " 3"};
    static const std::vector<std::string> bad_xy = {"", "abc", "1e400", "'5'", "\"5\"", "e5", "-"};
    int kind = rng.in(0, 13);
    std::string what;
    switch (kind) {
    case 0: f[0] = rng.pick(bad_id); what = "node1_text"; break;
    case 1: f[1] = rng.pick(bad_id); what = "node2_text"; break;
    case 2: if (s.has_prob) { f[2] = rng.pick(bad_prob); what = "probability_text"; } else { f[0] = rng.pick(bad_id); what = "node1_text"; } break;
    case 3: if (s.has_cost) { f[gi - 1] = rng.pick(bad_cost); what = "cost_text"; } else { f[1] = rng.pick(bad_id); what = "node2_text"; } break;
    case 4: f[gi] = ""; what = "no_coordinates"; break;
    case 5: { std::stringstream gs(f[gi]); std::string x, y; std::getline(gs, x, ';'); std::getline(gs, y, ';'); f[gi] = x + ";" + y + (rng.coin() ? "" : ";" + x); what = "one_coordinate_pair"; break; }
    case 6: { std::vector<std::string> t; std::stringstream gs(f[gi]); std::string x; while (std::getline(gs, x, ';')) t.push_back(x);
              t[(size_t)rng.in(0, (int)t.size() - 1)] = rng.pick(bad_xy); f[gi] = join(t, ';'); what = "coordinate_text"; break; }
    case 7: f.resize(rng.coin() ? 2 : 1); what = "missing_columns"; break;
    case 8: lines.insert(lines.begin() + (long)li, ""); what = "blank_line"; break;
    case 9: { static const std::vector<std::string> hs = {"node_1,node_2,cost,probability,geometry", "node_1,cost,node_2,geometry", "node_1,node_2,geometry,probability",
                  "node_1,node_2,geometry,cost", "node_1,node_2,probability,probability,geometry", "Node_1,node_2,geometry", "node_1,probability", "node_1",
                  "node_1,node_2,geometry,x,cost", "node_1,node_2,probability,cost,cost,geometry", ",node_2,cost"};
              h = rng.pick(hs); what = "header_variant"; break; }
    case 10: { std::vector<std::string> t; std::stringstream gs(f[gi]); std::string x; while (std::getline(gs, x, ';')) t.push_back(x);
               t.push_back(t[0]); f[gi] = join(t, ';'); what = "dangling_coordinate"; break; }   // odd number of texts: accepted, last ignored
    case 11: f.push_back("extra"); what = "extra_column"; break;                                 // accepted
    case 12: for (auto& e : s.edges) for (auto& p : e.pts) p.first += 100 * s.g.ew;            // everything outside
             lines.clear(); for (auto& e : s.edges) lines.push_back(edge_line(rng, s, e)); li = lines.size(); what = "all_outside"; break;
    default: lines.clear(); li = 0; what = rng.coin() ? "empty_input" : "header_only"; if (what == "empty_input") h = ""; break;
    }
    if (li < lines.size() && kind != 8 && kind != 9) lines[li] = join(f, ',');
    stats.add("malformed_" + what);
    std::vector<std::string> all;
    if (!h.empty()) all.push_back(h);
    for (auto& l : lines) all.push_back(l);
    std::string text = join_lines(all, rng.coin(80));
    TNet net = make_net(s.g);
    bool ok = do_load(c.out, net, s.g, text, rng.coin(30));
    c.nontrivial = true;
    if (ok && net.num_segs() > 0) {   // a few look-ups on what was accepted
        for (auto& k : net.keys()) { net.print_segview(c.out, k.first, k.second); net.print_segview(c.out, k.second, k.first); }
    }
}

int main(int argc, char** argv) {
    std::ios::sync_with_stdio(false);
    std::string mode = argc > 1 ? argv[1] : "net";
    uint64_t seed = argc > 2 ? std::stoull(argv[2]) : 1;
    long first = argc > 3 ? std::stol(argv[3]) : 0;
    long count = argc > 4 ? std::stol(argv[4]) : 100;
    if (mode == "f17") g_ring_permille = 140;
    if (mode == "net" || mode == "f17") {
        verif::run_cases("h_net", mode, seed, first, count, [&](verif::Case& c) {
            if (c.index < 2) fixed_witness(c, (int)c.index); else net_case(c);
        });
    } else if (mode == "malformed") {
        verif::run_cases("h_net", mode, seed, first, count, [&](verif::Case& c) { malformed_case(c); });
    } else if (mode == "witness") {
        verif::run_cases("h_net", mode, seed, first, count, [&](verif::Case& c) { fixed_witness(c, (int)(c.index % 2)); });
    } else {
        std::cerr << "unknown mode " << mode << "\n"; return 2;
    }
    stats.dump("h_net");
    return 0;
}
