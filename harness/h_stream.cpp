// Correspondence harness for C06 (same seed, same result; random streams are isolated).
//   twice  : a random Model simulation (library kernels from create_dynamic_kernel or an injected
//            kernel factory; 1-3 hosts; soils, weather, movements, ...) is run several times in one
//            process: alone, again after an unrelated run, interleaved step by step with an
//            unrelated model instance, and as two simultaneous instances stepped in alternating
//            order; a digest of every raster, the outside dispersers and the suitable cells is
//            printed per step for every run.
//   uses   : the same simulations over a multi-stream provider of counting engines
//            (ScriptedEngine::calls); per action block (POPS_CORE_VERIF trace hook) the streams
//            whose counters moved.
//   vary   : named seeds; each of the ten seeds is changed in turn and the run repeated. A good third of
//            the cases is focused on a process that its flag declares deterministic while a random
//            choice remains (FOCUS_*): two or three hosts with establishment_stochasticity = false and
//            landings that establish; host movements with movement_stochasticity = false from cells
//            that hold several host classes; natural + anthropogenic kernel with
//            dispersal_stochasticity = false (the choice between the two kernels is still drawn).
//   order  : provider construction (seed + multi flag, named seeds, Config) over std engines; draws
//            through the accessors next to the draws of fresh engines seeded with every seed involved.
//   reject : missing keys, single-generator use of a multi-stream provider, SingleGeneratorProvider
//            with several seeds, read_seeds with a wrong number of seeds, seed texts.
// Usage: h_stream <mode> <seed> <first> <count>
#include <pops/model.hpp>
#include <pops/pest_host_table.hpp>
#include "host_common.hpp"
#include <cstring>
#include <memory>
#include <random>
#include <type_traits>
using namespace pops;
using namespace ::verif;

static Stats stats;

static const char* NAMES[10] = {"disperser_generation", "natural_dispersal", "anthropogenic_dispersal", "establishment", "weather",
                                "lethal_temperature", "movement", "overpopulation", "survival_rate", "soil"};
static const char* DIRS[] = {"N", "NE", "E", "SE", "S", "SW", "W", "NW"};

template <class P> typename P::Generator& stream_of(P& p, int k) {
    switch (k) {
    case 0: return p.disperser_generation();
    case 1: return p.natural_dispersal();
    case 2: return p.anthropogenic_dispersal();
    case 3: return p.establishment();
    case 4: return p.weather();
    case 5: return p.lethal_temperature();
    case 6: return p.movement();
    case 7: return p.overpopulation();
    case 8: return p.survival_rate();
    default: return p.soil();
    }
}

// ------------------------------------------------------------------------------ simulations

// Injected kernel: draws only from the natural-dispersal stream of the provider it is handed.
struct InjKernel {
    template <class G> std::tuple<int, int> operator()(G& provider, int row, int col) {
        std::uniform_int_distribution<int> d(-2, 2);
        auto& g = provider.natural_dispersal();
        int r = row + d(g);
        int c = col + d(g);
        return std::make_tuple(r, c);
    }
    bool is_cell_eligible(int, int) { return true; }
    static bool supports_kernel(const DispersalKernelType) { return true; }
};
struct InjFactory {
    InjKernel operator()(const Config&, const IRaster&, const Network<int>&) const { return InjKernel{}; }
};
template <class E> using LibFactory = DispersalKernel<E>(const Config&, const IRaster&, const Network<int>&);

struct SeedSpec {
    int mode = 0;  // 0 single seed, 1 single seed with multiple streams, 2 named seeds
    unsigned s = 1;
    std::vector<unsigned> v;
    void apply(Config& c) const {
        c.random_seeds.clear();
        if (mode == 0) { c.random_seed = (int)s; c.multiple_random_seeds = false; }
        else if (mode == 1) { c.random_seed = (int)s; c.multiple_random_seeds = true; }
        else c.read_seeds(v);
    }
    std::string str() const {
        if (mode == 0) return "single:" + std::to_string(s);
        if (mode == 1) return "multi:" + std::to_string(s);
        std::string o = "named:";
        for (size_t k = 0; k < v.size(); k++) o += (k ? "," : "") + std::to_string(v[k]);
        return o;
    }
};

struct Treat { DRaster map; unsigned step; int days; bool all; };

// Everything a run needs except the seeds; immutable once built.
struct Setup {
    int rows = 1, cols = 1, latency = 0, ne = 0, nm = 1, nhosts = 1, nsoil = 1;
    bool sei = false, pool_entry = true, injected = false, use_soils = false, weather_det = false, weather_dist = false, same_pop = false;
    std::vector<HostState> hosts;
    Config config;
    unsigned nsteps = 0;
    std::vector<DRaster> weather_seq, temperatures, survival_rates;
    DRaster wmean, wsd;
    std::vector<std::vector<int>> movements;
    IRaster npop;
    std::vector<Treat> treatments;
    std::string nat_kind, ant_kind;
    int thr64 = 0, leave64 = 0, focus = 0;
    std::string cfgline() const {
        std::ostringstream o;
        o << "gen=" << config.generate_stochasticity << " est=" << config.establishment_stochasticity << " hosts=" << nhosts << " soils=" << use_soils
          << " anthro=" << config.use_anthropogenic_kernel << " dsto=" << config.dispersal_stochasticity << " nat=" << nat_kind << " ant=" << ant_kind
          << " inj=" << injected << " lethal=" << config.use_lethal_temperature << " survival=" << config.use_survival_rate
          << " overpop=" << config.use_overpopulation_movements << " movements=" << config.use_movements << " wdist=" << weather_dist
          << " msto=" << config.movement_stochasticity << " pnat=" << std::lround(config.percent_natural_dispersal * 16) << "/16";
        return o.str();
    }
};

// log normal and power law are left out: their icdf(0.9) at these scales is astronomically large and the
// deterministic kernel, which Model builds on every spread step, overflows int when sizing its window.
static const char* RADIAL[] = {"cauchy", "exponential", "weibull", "normal", "hyperbolic secant", "logistic", "gamma", "exponential power"};

static void pick_kernel(Rng& rng, bool allow_other, std::string& type, std::string& kind) {
    int k = rng.in(0, 99);
    if (k < 20) { type = "deterministic neighbor"; kind = "neighbor"; }
    else if (k < 35) { type = "uniform"; kind = "uniform"; }
    else if (k < 75 || !allow_other) { type = rng.coin(60) ? "cauchy" : "exponential"; kind = "radial"; }
    else { type = RADIAL[rng.in(2, 7)]; kind = "radial"; }
}

// Focus of a `vary` case: a configuration in which a process is switched to deterministic by its flag
// and still has work to do. The random choices of make_setup are made as always (same number of draws)
// and then overridden, so focus 0 generates exactly what it generated before.
enum { FOCUS_NONE = 0, FOCUS_HOSTS_DET_EST = 1, FOCUS_MOVEMENT_DET = 2, FOCUS_KERNEL_CHOICE_DET = 3 };

static std::unique_ptr<Setup> make_setup(Rng& rng, int max_steps, int focus = FOCUS_NONE) {
    std::unique_ptr<Setup> sp(new Setup());
    Setup& S = *sp;
    S.focus = focus;
    static const int shapes[][2] = {{1, 1}, {1, 3}, {2, 2}, {2, 3}, {3, 1}, {3, 2}, {1, 2}, {4, 2}, {3, 3}, {4, 4}};
    int si = rng.in(0, 9);
    S.rows = shapes[si][0]; S.cols = shapes[si][1];
    int rows = S.rows, cols = S.cols;
    S.sei = rng.coin(50);
    S.latency = S.sei ? rng.in(0, 3) : 0;
    S.ne = S.sei ? S.latency + 1 : 0;
    S.nm = rng.in(1, 4);
    S.pool_entry = rng.coin(70);
    S.nhosts = S.pool_entry ? (rng.coin(55) ? 1 : rng.in(2, 3)) : 1;
    if (focus == FOCUS_HOSTS_DET_EST) { S.pool_entry = true; S.nhosts = 2 + (int)(rng.s & 1); }
    IRaster total(rows, cols, 0);
    for (int k = 0; k < S.nhosts; k++) {
        S.hosts.emplace_back(rows, cols, S.ne, S.nm);
        HostState& h = S.hosts.back();
        h.randomize(rng, S.sei);
        if (focus == FOCUS_HOSTS_DET_EST || focus == FOCUS_KERNEL_CHOICE_DET) {
            // every cell holds susceptible hosts of every host species, the first cell of the first host is infected
            for (int a = 0; a < rows; a++) for (int b = 0; b < cols; b++) if (h.s(a, b) < 3) { h.th(a, b) += 6 + k - h.s(a, b); h.s(a, b) = 6 + k; }
            if (k == 0 && h.i(0, 0) == 0) { h.m[0](0, 0) = 3; h.i(0, 0) = 3; h.th(0, 0) += 3; }
        }
        if (focus == FOCUS_MOVEMENT_DET && k == 0) {
            // every cell of the host that is moved holds at least two classes
            for (int a = 0; a < rows; a++) for (int b = 0; b < cols; b++) {
                if (h.s(a, b) < 2) { h.th(a, b) += 4 - h.s(a, b); h.s(a, b) = 4; }
                if (h.i(a, b) == 0) { h.m[0](a, b) = 3; h.i(a, b) = 3; h.th(a, b) += 3; }
            }
        }
        for (int a = 0; a < rows; a++) for (int b = 0; b < cols; b++) {
            int excess = 0;
            for (auto& m : h.m) { if (m(a, b) > 4) { excess += m(a, b) - 4; m(a, b) = 4; } }
            h.i(a, b) -= excess; h.s(a, b) += excess;
            total(a, b) += h.th(a, b);
        }
    }
    auto suit = suitable_cells_of(total);
    for (auto& h : S.hosts) h.suitable = suit;
    Config& config = S.config;
    config.rows = rows; config.cols = cols; config.ew_res = 30; config.ns_res = 30;
    config.model_type = S.sei ? "SEI" : "SI"; config.latency_period_steps = S.latency;
    config.generate_stochasticity = rng.coin(60);
    config.establishment_stochasticity = rng.coin(60);
    config.establishment_probability = rng.in(0, 64) / 64.0;
    config.reproductive_rate = rng.in(0, 8) / 4.0;
    if (focus == FOCUS_HOSTS_DET_EST) {
        // deterministic establishment that does establish: the tester 1 - p is below the suitability of a cell with susceptible hosts
        config.establishment_stochasticity = false;
        config.establishment_probability = (60 + (int)(rng.s % 5)) / 64.0;
        if (config.reproductive_rate < 1) config.reproductive_rate = 1.5;
    }
    if (focus == FOCUS_KERNEL_CHOICE_DET && config.reproductive_rate < 1) config.reproductive_rate = 2.0;
    // libstdc++'s poisson_distribution switches to a rejection algorithm with internal state (a cached
    // normal deviate) at mean >= 12: high rates make hidden distribution state visible to the run-twice check
    if (config.generate_stochasticity && rng.coin(20)) { static const double hi[] = {12.0, 13.5, 20.0, 40.0}; config.reproductive_rate = hi[rng.in(0, 3)]; stats.add("reproductive_rate_ge_12"); }
    if (S.nhosts > 1 && rng.coin(50)) config.set_arrival_behavior("land");
    // kernels
    S.injected = rng.coin(20);
    std::string nat, ant;
    pick_kernel(rng, true, nat, S.nat_kind);
    pick_kernel(rng, true, ant, S.ant_kind);
    config.natural_kernel_type = nat; config.anthro_kernel_type = ant;
    config.natural_direction = (S.nat_kind == "neighbor" || rng.coin(40)) ? DIRS[rng.in(0, 7)] : "none";
    config.anthro_direction = (S.ant_kind == "neighbor" || rng.coin(40)) ? DIRS[rng.in(0, 7)] : "none";
    config.natural_kappa = rng.coin(50) ? 0 : rng.in(1, 4) / 2.0;
    config.anthro_kappa = rng.coin(50) ? 0 : rng.in(1, 4) / 2.0;
    config.natural_scale = rng.in(10, 60); config.anthro_scale = rng.in(10, 60);
    config.shape = rng.in(2, 6) / 2.0;
    config.use_anthropogenic_kernel = rng.coin(40);
    config.percent_natural_dispersal = rng.in(0, 16) / 16.0;
    config.dispersal_percentage = 0.9;
    config.dispersal_stochasticity = rng.coin(70);
    if (focus == FOCUS_KERNEL_CHOICE_DET) {
        // both kernels deterministic (radial type through the deterministic kernel, or the neighbour kernel), different
        // from each other, and a proper mixture of the two
        S.injected = false;
        config.dispersal_stochasticity = false;
        config.use_anthropogenic_kernel = true;
        config.percent_natural_dispersal = (4 + (int)(rng.s % 9)) / 16.0;
        if (S.nat_kind == "uniform") { config.natural_kernel_type = "cauchy"; S.nat_kind = "radial"; }
        if (S.ant_kind == "uniform" || S.ant_kind == S.nat_kind) {
            if (S.nat_kind == "neighbor") { config.anthro_kernel_type = "exponential"; S.ant_kind = "radial"; config.anthro_direction = "none"; }
            else { config.anthro_kernel_type = "deterministic neighbor"; S.ant_kind = "neighbor"; config.anthro_direction = DIRS[rng.s % 8]; }
        }
    }
    config.use_lethal_temperature = rng.coin(40); config.lethal_temperature = -5; config.lethal_temperature_month = rng.in(1, 12);
    config.use_survival_rate = rng.coin(40); config.survival_rate_month = rng.in(1, 12); config.survival_rate_day = rng.in(1, 28);
    config.use_overpopulation_movements = rng.coin(35);
    S.thr64 = rng.in(0, 64); S.leave64 = rng.in(0, 64);
    config.overpopulation_percentage = S.thr64 / 64.0; config.leaving_percentage = S.leave64 / 64.0; config.leaving_scale_coefficient = 1;
    config.use_mortality = S.pool_entry && rng.coin(40) && !config.use_overpopulation_movements;
    static const char* mfreq[] = {"year", "month", "every_n_steps", "every_step"};
    config.mortality_frequency = mfreq[rng.in(0, 3)]; config.mortality_frequency_n = (unsigned)rng.in(1, 4);
    config.mortality_rate = rng.in(0, 64) / 64.0; config.mortality_time_lag = rng.in(0, S.nm - 1);
    config.use_treatments = S.pool_entry && rng.coin(35);
    config.use_movements = rng.coin(35);
    if (focus == FOCUS_MOVEMENT_DET) { config.use_movements = true; config.movement_stochasticity = false; }
    config.use_spreadrates = S.pool_entry && rng.coin(30);  // the raster entry point sizes its rate tracker for 0 steps config.spreadrate_frequency = mfreq[rng.in(0, 3)]; config.spreadrate_frequency_n = (unsigned)rng.in(1, 4);
    config.use_quarantine = rng.coin(30); config.quarantine_frequency = mfreq[rng.in(0, 3)]; config.quarantine_frequency_n = (unsigned)rng.in(1, 4);
    config.quarantine_directions = "";
    int wk = rng.in(0, 99);
    S.weather_det = wk < 35; S.weather_dist = wk >= 35 && wk < 60;
    S.use_soils = rng.coin(25);
    if (S.use_soils && !S.weather_det && !S.weather_dist) S.weather_det = true;  // the soil pool reads the weather coefficient
    S.nsoil = rng.in(1, 3);
    config.dispersers_to_soils_percentage = rng.in(0, 64) / 64.0;
    // calendar
    static const int ys[] = {2019, 2020, 2023, 2100};
    int unit = rng.in(0, 2);
    unsigned num = unit == 0 ? (unsigned)rng.in(7, 28) : unit == 1 ? (unsigned)rng.in(1, 8) : (unsigned)rng.in(1, 3);
    int y = ys[rng.in(0, 3)], m = rng.in(1, 12);
    Date st(y, m, unit == 2 ? 1 : rng.in(1, 28)); Date en(st); en.add_days((unsigned)rng.in(120, 400));
    config.set_date_start(st.year(), st.month(), st.day()); config.set_date_end(en.year(), en.month(), en.day());
    config.set_step_unit(unit == 0 ? StepUnit::Day : unit == 1 ? StepUnit::Week : StepUnit::Month); config.set_step_num_units(num);
    int s1 = rng.in(1, 12), s2 = rng.in(s1, 12);
    if (focus != FOCUS_NONE && rng.s % 4 != 0) { s1 = 1; s2 = 12; }  // mostly: the spread action runs in every step
    config.set_season_start_end_month(s1, s2);
    config.output_frequency = "every_step"; config.output_frequency_n = 1;
    std::string e0 = err_kind([&] { config.create_schedules(); });
    if (!e0.empty()) { stats.add("config_rejected"); return nullptr; }
    S.nsteps = config.scheduler().get_num_steps();
    if ((int)S.nsteps > max_steps) S.nsteps = (unsigned)max_steps;
    if (focus == FOCUS_MOVEMENT_DET) {
        // rows in steps in which the spread action (which carries the movements) runs, each taking some but not all hosts
        // of a cell that holds several classes
        std::vector<unsigned> spread_steps;
        for (unsigned k = 0; k < S.nsteps; k++) if (config.spread_schedule()[k]) spread_steps.push_back(k);
        int nrows = spread_steps.empty() ? 0 : rng.in(1, 4);
        std::vector<unsigned> when;
        for (int k = 0; k < nrows; k++) when.push_back(spread_steps[(size_t)rng.in(0, k == 0 ? 0 : (int)spread_steps.size() - 1)]);  // one row in the first spread step
        std::sort(when.begin(), when.end());
        for (unsigned k : when) {
            int a = rng.in(0, rows - 1), b = rng.in(0, cols - 1);
            int a2 = rng.in(0, rows - 1), b2 = rng.in(0, cols - 1);
            if (a2 == a && b2 == b && rows * cols > 1) { if (cols > 1) b2 = (b + 1) % cols; else a2 = (a + 1) % rows; }
            int n = rng.in(1, std::max(1, S.hosts[0].th(a, b) / 3));
            S.movements.push_back({a, b, a2, b2, n});
            config.movement_schedule.push_back(k);
        }
    } else if (config.use_movements) {
        int nrows = rng.in(0, 6); unsigned cur = 0;
        for (int k = 0; k < nrows; k++) {
            cur += (unsigned)rng.in(0, 3); if (cur >= S.nsteps) break;
            S.movements.push_back({rng.in(0, rows - 1), rng.in(0, cols - 1), rng.in(0, rows - 1), rng.in(0, cols - 1), rng.coin(30) ? rng.in(0, 40) : rng.in(0, 10)});
            config.movement_schedule.push_back(cur);
        }
    }
    config.create_pest_host_table_from_parameters(S.nhosts);
    // total population: the host total itself (single host with movements), or hosts + others
    S.same_pop = S.nhosts == 1 && (config.use_movements || rng.coin(40));
    S.npop = IRaster(rows, cols, 0);
    for (int a = 0; a < rows; a++) for (int b = 0; b < cols; b++) {
        int inflow = 0;
        for (auto& mv : S.movements) if (mv[2] == a && mv[3] == b) inflow += mv[4];
        S.npop(a, b) = total(a, b) + (rng.coin(50) ? 0 : rng.in(0, 10)) + (S.nhosts > 1 ? inflow : 0);
        if (S.npop(a, b) == 0) S.npop(a, b) = rng.in(1, 4);
    }
    for (unsigned k = 0; k < S.nsteps; k++) {
        DRaster w(rows, cols, 1.0);
        for (int a = 0; a < rows; a++) for (int b = 0; b < cols; b++) w(a, b) = (rng.coin(15) ? 0 : (rng.coin(25) ? 64 : rng.in(0, 64))) / 64.0;
        S.weather_seq.push_back(w);
    }
    S.wmean = DRaster(rows, cols, 0.5); S.wsd = DRaster(rows, cols, 0.25);
    for (int a = 0; a < rows; a++) for (int b = 0; b < cols; b++) { S.wmean(a, b) = rng.in(8, 56) / 64.0; S.wsd(a, b) = rng.in(1, 32) / 64.0; }
    for (int k = 0; k < 8; k++) {
        DRaster t(rows, cols, 0.0), sr(rows, cols, 1.0);
        for (int a = 0; a < rows; a++) for (int b = 0; b < cols; b++) {
            t(a, b) = rng.coin(40) ? -5 + rng.in(-1, 1) : rng.in(-30, 10);
            sr(a, b) = (rng.coin(20) ? 64 : (rng.coin(15) ? 0 : rng.in(1, 63))) / 64.0;
        }
        S.temperatures.push_back(t); S.survival_rates.push_back(sr);
    }
    if (config.use_treatments) {
        int nt = rng.in(1, 3);
        for (int k = 0; k < nt; k++) {
            DRaster map(rows, cols, 0.0);
            for (int a = 0; a < rows; a++) for (int b = 0; b < cols; b++) map(a, b) = (rng.coin(25) ? 0 : (rng.coin(25) ? 64 : rng.in(1, 63))) / 64.0;
            S.treatments.push_back(Treat{map, (unsigned)rng.in(0, (int)S.nsteps - 1), rng.coin(50) ? 0 : rng.in(20, 90), rng.coin(35)});
        }
    }
    stats.add(S.sei ? "setup_sei" : "setup_si"); stats.add(S.pool_entry ? "entry_pools" : "entry_rasters");
    stats.add("hosts_" + std::to_string(S.nhosts)); stats.add(S.injected ? "kernel_injected" : "kernel_library");
    if (!S.injected) { stats.add("natural_" + S.nat_kind); if (config.use_anthropogenic_kernel) stats.add("anthro_" + S.ant_kind); }
    if (S.use_soils) stats.add("soils"); if (S.weather_dist) stats.add("weather_dist"); if (S.weather_det) stats.add("weather_det");
    if (!config.generate_stochasticity) stats.add("generate_deterministic");
    if (!config.establishment_stochasticity) stats.add("establishment_deterministic");
    if (!config.establishment_stochasticity && S.nhosts >= 2) stats.add("establishment_deterministic_hosts_ge_2");
    if (config.use_movements && !config.movement_stochasticity) stats.add("movement_deterministic_rows", (long)S.movements.size());
    if (config.use_anthropogenic_kernel && !config.dispersal_stochasticity && !S.injected && S.ant_kind != "uniform") stats.add("kernel_choice_deterministic");
    stats.add("focus_" + std::to_string(focus));
    if (!config.dispersal_stochasticity) stats.add("dispersal_deterministic");
    stats.add("setup_steps", S.nsteps);
    return sp;
}

struct Fnv {
    uint64_t h = 1469598103934665603ULL;
    void add(uint64_t v) { for (int k = 0; k < 8; k++) { h ^= (v >> (8 * k)) & 0xff; h *= 1099511628211ULL; } }
    void add(const IRaster& r) { add((uint64_t)r.rows() * 1000 + (uint64_t)r.cols()); for (int a = 0; a < r.rows(); a++) for (int b = 0; b < r.cols(); b++) add((uint64_t)(int64_t)r(a, b)); }
    void add(const DRaster& r) { for (int a = 0; a < r.rows(); a++) for (int b = 0; b < r.cols(); b++) { double d = r(a, b); uint64_t u; std::memcpy(&u, &d, 8); add(u); } }
    std::string hex() const { char b[20]; snprintf(b, sizeof b, "%016llx", (unsigned long long)h); return b; }
};

// Per-action observation in `uses` mode.
struct ActionObs { std::string action; int step; std::string moved; int work; };

struct SimBase {
    unsigned nsteps = 0;
    std::vector<ActionObs> obs;   // filled when `watch` is set
    bool watch = false;
    virtual std::string step(unsigned k) = 0;
    // the caller goes on using the Config VARIABLE the model was built from (fills it for another model): a model
    // owns its configuration, so this must not reach it
    virtual void caller_reuses_config_variable(const Config& other) = 0;
    virtual const Config& own_config() const = 0;
    virtual ~SimBase() {}
};

template <class E, class F>
struct Sim : SimBase {
    using TModel = Model<IRaster, DRaster, int, E, F>;
    using MPool = typename TModel::StandardSingleHostPool;
    using MMulti = typename TModel::StandardMultiHostPool;
    using MPests = typename TModel::StandardPestPool;
    const Setup& S;
    Config config;        // what the harness itself reads
    Config model_config;  // the variable handed to the Model constructor (equal to `config` at that moment)
    TModel model;
    std::vector<HostState> hs, prev;
    IRaster dispersers, established, npop;
    std::vector<std::tuple<int, int>> outside;
    std::vector<IRaster> soil_rasters;
    IRaster quarantine_areas;
    QuarantineEscapeAction<IRaster> quarantine;
    Network<int> network;
    std::vector<std::unique_ptr<MPool>> pools;
    std::vector<MPool*> pool_ptrs;
    std::unique_ptr<MMulti> multi;
    std::unique_ptr<PestHostTable<MPool>> table;
    std::unique_ptr<MPests> pests;
    std::unique_ptr<SpreadRateAction<MMulti, int>> spread_rate;
    std::unique_ptr<Treatments<MPool, DRaster>> treatments;
    bool dead = false;
    unsigned long last_calls[10];
    unsigned last_index_seen = 0;

    static Config seeded(const Config& base, const SeedSpec& seeds) { Config c(base); seeds.apply(c); return c; }
    void caller_reuses_config_variable(const Config& other) override { model_config = other; }
    const Config& own_config() const override { return config; }

    Sim(const Setup& S_, const SeedSpec& seeds, F& factory)
        : S(S_), config(seeded(S_.config, seeds)), model_config(config), model(model_config, factory), hs(S_.hosts), dispersers(S_.rows, S_.cols, 0),
          established(S_.rows, S_.cols, 0), npop(S_.npop), quarantine_areas(S_.rows, S_.cols, 1),
          quarantine(IRaster(S_.rows, S_.cols, 1), S_.config.ew_res, S_.config.ns_res, 64, S_.config.quarantine_directions),
          network(Network<int>::null_network()) {
        nsteps = S.nsteps;
        soil_rasters.assign((size_t)S.nsoil, IRaster(S.rows, S.cols, 0));
        if (S.use_soils) model.activate_soils(soil_rasters);
        if (S.pool_entry) {
            for (auto& h : hs) {
                pools.emplace_back(new MPool(S.sei ? ModelType::SusceptibleExposedInfected : ModelType::SusceptibleInfected, h.s, h.e, (unsigned)S.latency,
                                             h.i, h.te, h.r, h.m, h.died, h.th, model.environment(), config.generate_stochasticity,
                                             config.reproductive_rate, config.establishment_stochasticity, config.establishment_probability,
                                             S.rows, S.cols, h.suitable));
                pool_ptrs.push_back(pools.back().get());
            }
            multi.reset(new MMulti(pool_ptrs, config));
            table.reset(new PestHostTable<MPool>(config, model.environment()));
            multi->set_pest_host_table(*table);
            pests.reset(new MPests{dispersers, established, outside});
            spread_rate.reset(new SpreadRateAction<MMulti, int>(*multi, S.rows, S.cols, config.ew_res, config.ns_res, 64));
            treatments.reset(new Treatments<MPool, DRaster>(config.scheduler()));
            for (auto& t : S.treatments) {
                Date d = config.scheduler().get_step(t.step).start_date();
                err_kind([&] { treatments->add_treatment(t.map, d, t.days, t.all ? TreatmentApplication::AllInfectedInCell : TreatmentApplication::Ratio); });
            }
        }
        for (int k = 0; k < 10; k++) last_calls[k] = 0;
    }

    IRaster& total_pop() { return S.same_pop ? hs[0].th : npop; }

    std::string digest() {
        Fnv f;
        for (auto& h : hs) {
            f.add(h.s); f.add(h.i); f.add(h.r); f.add(h.te); f.add(h.th); f.add(h.died);
            for (auto& x : h.e) f.add(x);
            for (auto& x : h.m) f.add(x);
            f.add((uint64_t)h.suitable.size());
            for (auto& c : h.suitable) { f.add((uint64_t)(int64_t)c[0]); f.add((uint64_t)(int64_t)c[1]); }
        }
        f.add(dispersers); f.add(established); f.add(npop);
        f.add((uint64_t)outside.size());
        for (auto& o : outside) { f.add((uint64_t)(int64_t)std::get<0>(o)); f.add((uint64_t)(int64_t)std::get<1>(o)); }
        if (S.use_soils) for (auto& r : soil_rasters) f.add(r);
        if (S.weather_dist) f.add(model.environment().weather_coefficient());
        return f.hex();
    }

    // --- observation of the counting engines (ScriptedEngine only)
    unsigned long calls_of(int k) { return calls_impl(k, std::is_same<E, ScriptedEngine>()); }
    unsigned long calls_impl(int k, std::true_type) { return stream_of(model.random_number_generator(), k).calls; }
    unsigned long calls_impl(int, std::false_type) { return 0; }
    std::string moved() {
        std::string o;
        for (int k = 0; k < 10; k++) {
            unsigned long c = calls_of(k);
            if (c != last_calls[k]) { o += (o.empty() ? "" : ",") + std::string(NAMES[k]); last_calls[k] = c; }
        }
        return o.empty() ? "-" : o;
    }
    static int cohort_sum(const std::vector<IRaster>& v, int a, int b) { int s = 0; for (auto& r : v) s += r(a, b); return s; }
    // Did the action have work that must draw (evaluated on the state before the action)?
    int work_of(const std::string& a, int step, int idx) {
        if (prev.empty()) return 0;
        const auto& suit = prev[0].suitable;
        if (a == "lethal_temperature") {
            const DRaster& t = S.temperatures[(size_t)idx];
            for (auto& c : suit) if (t(c[0], c[1]) < config.lethal_temperature)
                for (auto& h : prev) if (h.i(c[0], c[1]) > 0 && cohort_sum(h.m, c[0], c[1]) >= 2) return 1;
        } else if (a == "survival_rate") {
            const DRaster& r = S.survival_rates[(size_t)idx];
            for (auto& c : suit) if (r(c[0], c[1]) < 1)
                for (auto& h : prev) { int i = h.i(c[0], c[1]); if (i - std::lround(i * r(c[0], c[1])) > 0 && cohort_sum(h.m, c[0], c[1]) >= 2) return 1; }
        } else if (a == "overpopulation") {
            for (auto& c : suit) {
                int i = 0, th = 0;
                for (auto& h : prev) { i += h.i(c[0], c[1]); th += h.th(c[0], c[1]); }
                if (i > 1 && th > 0 && i / double(th) >= config.overpopulation_percentage) return 1;
            }
        } else if (a == "movement") {
            unsigned k = last_index_seen;
            if (k < S.movements.size() && config.movement_schedule[k] == (unsigned)step) {
                auto& mv = S.movements[k]; auto& h = prev[0];
                if (h.i(mv[0], mv[1]) + h.s(mv[0], mv[1]) + h.te(mv[0], mv[1]) + h.r(mv[0], mv[1]) >= 2) return 1;
            }
        } else if (a == "spread") {
            if (config.generate_stochasticity)
                for (auto& c : suit) for (auto& h : prev) if (h.i(c[0], c[1]) > 0) return 1;
        }
        return 0;
    }

    std::string step(unsigned k) override {
        if (dead) return "dead";
        bool single_generator_misuse = false;
        std::string e = err_kind([&] {
          try {
            if (S.weather_det) model.environment().update_weather_coefficient(S.weather_seq[k]);
            if (S.weather_dist) {
                if (watch) moved();
                model.environment().update_weather_from_distribution(S.wmean, S.wsd, model.random_number_generator());
                if (watch) obs.push_back(ActionObs{"weather", (int)k, moved(), 1});
            }
            if (watch) {
                prev = hs; moved();
                pops::verif::trace_hook() = [&](const char* action, int step, int idx) {
                    std::string a(action);
                    obs.push_back(ActionObs{a, step, moved(), work_of(a, step, idx)});
                    if (a == "movement") last_index_seen = (unsigned)idx;
                    prev = hs;
                };
            }
            if (S.pool_entry)
                model.run_step((int)k, *multi, *pests, total_pop(), *treatments, S.temperatures, S.survival_rates, *spread_rate, quarantine,
                               quarantine_areas, S.movements, network);
            else
                model.run_step((int)k, hs[0].i, hs[0].s, total_pop(), hs[0].th, dispersers, established, hs[0].te, hs[0].e, hs[0].m, hs[0].died,
                               S.temperatures, S.survival_rates, hs[0].r, outside, quarantine, quarantine_areas, S.movements, network, hs[0].suitable);
          } catch (const std::runtime_error& ex) {
              // the provider's own complaint about being used as one generator while it holds several
              if (std::string(ex.what()).find("used as a single generator") != std::string::npos) single_generator_misuse = true;
              throw;
          }
        });
        if (watch) pops::verif::trace_hook() = nullptr;
        if (!e.empty()) { dead = true; stats.add("step_threw"); return single_generator_misuse ? e + ":single_generator" : e; }
        return digest();
    }
};

static InjFactory g_inj;

template <class E> std::unique_ptr<SimBase> make_sim(const Setup& S, const SeedSpec& seeds) {
    if (S.injected) return std::unique_ptr<SimBase>(new Sim<E, InjFactory>(S, seeds, g_inj));
    return std::unique_ptr<SimBase>(new Sim<E, LibFactory<E>>(S, seeds, create_dynamic_kernel<E, IRaster, int>));
}

// A sim whose construction may throw (bad kernel parameters, ...): the error replaces every digest.
struct Run {
    std::unique_ptr<SimBase> sim;
    std::string ctor_err;
    unsigned nsteps = 0;
    std::string step(unsigned k) { return sim ? sim->step(k) : (ctor_err.empty() ? std::string("dead") : ctor_err); }
};
template <class E> Run start(const Setup& S, const SeedSpec& seeds, bool watch = false) {
    Run r; r.nsteps = S.nsteps;
    r.ctor_err = err_kind([&] { r.sim = make_sim<E>(S, seeds); });
    if (r.sim) r.sim->watch = watch;
    return r;
}
template <class E> std::vector<std::string> run_alone(const Setup& S, const SeedSpec& seeds) {
    Run r = start<E>(S, seeds);
    std::vector<std::string> d;
    for (unsigned k = 0; k < S.nsteps; k++) d.push_back(r.step(k));
    return d;
}

static SeedSpec random_seeds(Rng& rng, int mode = -1) {
    SeedSpec s;
    s.mode = mode >= 0 ? mode : rng.in(0, 2);
    s.s = (unsigned)rng.in(0, 2000000);
    for (int k = 0; k < 10; k++) s.v.push_back((unsigned)rng.in(1, 1000000));
    return s;
}

using StdE = std::default_random_engine;

// ------------------------------------------------------------------------------ twice
static void twice_case(Case& c) {
    Rng& rng = c.rng;
    std::ostream& out = c.out;
    auto Sp = make_setup(rng, 14);
    auto Tp = make_setup(rng, 10);
    if (!Sp || !Tp) { out << "# config rejected\n"; return; }
    const Setup& S = *Sp; const Setup& T = *Tp;
    SeedSpec ss = random_seeds(rng), ts = random_seeds(rng);
    out << "rng.setup S " << S.cfgline() << " seeds=" << ss.str() << " steps=" << S.nsteps << " => ok\n";
    out << "rng.setup T " << T.cfgline() << " seeds=" << ts.str() << " steps=" << T.nsteps << " => ok\n";
    stats.add("seedmode_" + std::to_string(ss.mode));
    // (1) S alone; (2) the unrelated T alone; (3) S again
    auto ref = run_alone<StdE>(S, ss);
    auto tref = run_alone<StdE>(T, ts);
    auto after = run_alone<StdE>(S, ss);
    // (4) S interleaved with a second instance of the unrelated model
    std::vector<std::string> inter, tinter(T.nsteps, "-");
    {
        Run a = start<StdE>(S, ss), b = start<StdE>(T, ts);
        // ... and the caller reuses the Config variable of `a` for the unrelated configuration (a parameter sweep
        // written as  Model a(cfg); cfg = ...; Model b(cfg);)
        if (a.sim && b.sim) { a.sim->caller_reuses_config_variable(b.sim->own_config()); stats.add("config_variable_reused_after_construction"); }
        for (unsigned k = 0; k < std::max(S.nsteps, T.nsteps); k++) {
            if (k < S.nsteps) inter.push_back(a.step(k));
            if (k < T.nsteps) tinter[k] = b.step(k);
        }
    }
    // (5) two simultaneous instances of S, stepped in alternating order
    std::vector<std::string> xs, ys;
    {
        Run x = start<StdE>(S, ss), y = start<StdE>(S, ss);
        for (unsigned k = 0; k < S.nsteps; k++) {
            if (k % 2 == 0) { xs.push_back(x.step(k)); ys.push_back(y.step(k)); }
            else { ys.push_back(y.step(k)); xs.push_back(x.step(k)); }
        }
    }
    // (6) T once more, now after everything else
    auto tafter = run_alone<StdE>(T, ts);
    bool threw = false;
    for (unsigned k = 0; k < S.nsteps; k++) {
        out << "rng.twice S " << k << " " << ref[k] << " => " << after[k] << " " << inter[k] << " " << xs[k] << " " << ys[k] << "\n";
        if (ref[k].compare(0, 4, "err:") == 0) threw = true;
    }
    for (unsigned k = 0; k < T.nsteps; k++) out << "rng.twice T " << k << " " << tref[k] << " => " << tinter[k] << " " << tafter[k] << "\n";
    stats.add("twice_steps", (long)(S.nsteps + T.nsteps));
    if (threw) stats.add("twice_run_threw");
    c.nontrivial = S.nsteps >= 3 && !S.hosts[0].suitable.empty() && !threw;
}

// ------------------------------------------------------------------------------ uses
static void uses_case(Case& c) {
    Rng& rng = c.rng;
    std::ostream& out = c.out;
    auto Sp = make_setup(rng, 12);
    if (!Sp) { out << "# config rejected\n"; return; }
    const Setup& S = *Sp;
    SeedSpec ss = random_seeds(rng, rng.coin(70) ? 2 : 1);
    out << "rng.cfg " << S.cfgline() << " seeds=" << ss.str() << " => ok\n";
    Run r = start<ScriptedEngine>(S, ss, true);
    if (!r.sim) { out << "rng.step ctor => " << r.ctor_err << "\n"; return; }
    int actions = 0, drew = 0;
    for (unsigned k = 0; k < S.nsteps; k++) {
        r.sim->obs.clear();
        std::string d = r.step(k);
        for (auto& o : r.sim->obs) {
            out << "rng.uses " << o.action << " " << o.step << " w=" << o.work << " => " << o.moved << "\n";
            stats.add("uses_" + o.action); actions++;
            if (o.moved != "-") { drew++; stats.add("drew_" + o.action); }
        }
        std::string tok = d.compare(0, 4, "err:") == 0 ? d : std::string("ok");
        size_t sg = tok.find(":single_generator");
        if (sg != std::string::npos) tok = tok.substr(0, sg) + " single_generator";
        out << "rng.step " << k << " => " << tok << "\n";
        if (d.compare(0, 4, "err:") == 0) break;
    }
    c.nontrivial = actions >= 3 && drew >= 1;
}

// ------------------------------------------------------------------------------ vary
static std::string fold(const std::vector<std::string>& d) { Fnv f; for (auto& s : d) for (char ch : s) f.add((uint64_t)(unsigned char)ch); return f.hex(); }

static void vary_case(Case& c) {
    Rng& rng = c.rng;
    std::ostream& out = c.out;
    int fk = rng.in(0, 99);
    int focus = fk < 22 ? FOCUS_HOSTS_DET_EST : fk < 44 ? FOCUS_MOVEMENT_DET : fk < 58 ? FOCUS_KERNEL_CHOICE_DET : FOCUS_NONE;
    auto Sp = make_setup(rng, 10, focus);
    if (!Sp) { out << "# config rejected\n"; return; }
    const Setup& S = *Sp;
    SeedSpec ss = random_seeds(rng, 2);
    out << "rng.cfg " << S.cfgline() << " seeds=" << ss.str() << " => ok\n";
    out << "# focus=" << S.focus << " steps=" << S.nsteps << " arrival=" << S.config.arrival_behavior() << " movement rows (from to count @step):";
    for (size_t k = 0; k < S.movements.size(); k++) out << " " << S.movements[k][0] << "," << S.movements[k][1] << ">" << S.movements[k][2] << "," << S.movements[k][3] << ":" << S.movements[k][4] << "@" << S.config.movement_schedule[k];
    out << "\n";
    auto ref = run_alone<StdE>(S, ss);
    std::string refd = fold(ref);
    bool threw = false;
    for (auto& s : ref) if (s.compare(0, 4, "err:") == 0) threw = true;
    int same = 0;
    for (int k = 0; k < 10; k++) {
        SeedSpec v = ss;
        v.v[(size_t)k] = ss.v[(size_t)k] + 7919u + (unsigned)rng.in(1, 100000);
        std::string d = fold(run_alone<StdE>(S, v));
        out << "rng.vary " << NAMES[k] << " " << refd << " => " << d << "\n";
        if (d == refd) { same++; stats.add(std::string("vary_same_") + NAMES[k]); } else stats.add(std::string("vary_differs_") + NAMES[k]);
        // a process switched to deterministic by its flag whose seed still matters
        if (d != refd) {
            if (k == 3 && !S.config.establishment_stochasticity && S.nhosts >= 2) stats.add("vary_differs_establishment_deterministic_hosts_ge_2");
            if (k == 6 && S.config.use_movements && !S.config.movement_stochasticity) stats.add("vary_differs_movement_deterministic");
            if (k == 2 && S.config.use_anthropogenic_kernel && !S.config.dispersal_stochasticity && !S.injected && S.ant_kind != "uniform") stats.add("vary_differs_kernel_choice_deterministic");
        }
    }
    if (threw) stats.add("vary_run_threw");
    c.nontrivial = S.nsteps >= 3 && !threw && same < 10;
}

// ------------------------------------------------------------------------------ order
static std::string pairs_str(const std::vector<std::pair<std::string, unsigned>>& kv) {
    if (kv.empty()) return "-";
    std::string o;
    for (size_t k = 0; k < kv.size(); k++) o += (k ? "," : "") + kv[k].first + "=" + std::to_string(kv[k].second);
    return o;
}

template <class E> std::string fresh_draws(unsigned seed, int n) {
    E e; e.seed(seed);
    std::string o = std::to_string(seed) + ":";
    for (int k = 0; k < n; k++) o += (k ? "," : "") + std::to_string((unsigned long long)e());
    return o;
}

struct Ctor {
    int kind = 0;  // 0 seed+multi, 1 map, 2 config
    unsigned s = 0; bool multi = false;
    std::vector<std::pair<std::string, unsigned>> kv;
    int random_seed = 0; bool multiple = false;
    std::string str() const {
        if (kind == 0) return "seed:" + std::to_string(s) + ":" + (multi ? "1" : "0");
        if (kind == 1) return "map:" + pairs_str(kv);
        return "config:" + std::string(multiple ? "1" : "0") + ":" + std::to_string(random_seed) + ":" + pairs_str(kv);
    }
    std::map<std::string, unsigned> map() const { std::map<std::string, unsigned> m; for (auto& p : kv) m[p.first] = p.second; return m; }
    template <class E> std::unique_ptr<RandomNumberGeneratorProvider<E>> make() const {
        using P = RandomNumberGeneratorProvider<E>;
        if (kind == 0) return std::unique_ptr<P>(new P(s, multi));
        if (kind == 1) return std::unique_ptr<P>(new P(map()));
        Config c; c.random_seed = random_seed; c.multiple_random_seeds = multiple; c.random_seeds = map();
        return std::unique_ptr<P>(new P(c));
    }
    // every seed value a stream could legitimately or by mistake be seeded with
    std::vector<unsigned> candidates() const {
        std::vector<unsigned> v;
        unsigned base = kind == 0 ? s : (unsigned)random_seed;
        for (unsigned k = 0; k < 10; k++) v.push_back(base + k);
        for (auto& p : kv) v.push_back(p.second);
        std::sort(v.begin(), v.end()); v.erase(std::unique(v.begin(), v.end()), v.end());
        return v;
    }
};

template <class E> void provider_line(std::ostream& out, const char* cmd, const Ctor& ct, const std::vector<int>& ops, const char* ename) {
    std::string table;
    for (unsigned v : ct.candidates()) table += (table.empty() ? "" : ";") + fresh_draws<E>(v, (int)ops.size() + 1);
    std::string opstr;
    for (size_t k = 0; k < ops.size(); k++) opstr += (k ? "," : "") + std::to_string(ops[k]);
    out << cmd << " " << ename << " " << ct.str() << " ops=" << (opstr.empty() ? "-" : opstr) << " table=" << table << " =>";
    std::unique_ptr<RandomNumberGeneratorProvider<E>> p;
    std::string e = err_kind([&] { p = ct.make<E>(); });
    if (!e.empty()) { out << " " << e << "\n"; stats.add("provider_rejected"); return; }
    out << " ok";
    for (int op : ops) out << " " << (unsigned long long)stream_of(*p, op)();
    out << "\n";
}

static std::vector<std::pair<std::string, unsigned>> ten_pairs(Rng& rng) {
    std::vector<std::pair<std::string, unsigned>> kv;
    for (int k = 0; k < 10; k++) kv.emplace_back(NAMES[k], rng.coin(10) ? (unsigned)rng.next() : (unsigned)rng.in(0, 5000));
    for (int k = 9; k > 0; k--) std::swap(kv[(size_t)k], kv[(size_t)rng.in(0, k)]);  // the order of insertion is irrelevant for a map
    return kv;
}

static unsigned edge_seed(Rng& rng) {
    static const unsigned edges[] = {0u, 1u, 42u, 4294967295u, 4294967290u, 4294967287u, 2147483647u, 2147483646u};
    return rng.coin(35) ? edges[rng.in(0, 7)] : (rng.coin(50) ? (unsigned)rng.next() : (unsigned)rng.in(0, 100000));
}

template <class E> void order_engine(Case& c, const char* ename) {
    Rng& rng = c.rng;
    std::ostream& out = c.out;
    int kind = rng.in(0, 99);
    std::vector<int> ops;
    Ctor ct;
    if (kind < 30) {  // seed order: three draws of every stream of a multi-stream provider
        ct.kind = 0; ct.s = edge_seed(rng); ct.multi = true;
        for (int k = 0; k < 10; k++) for (int j = 0; j < 3; j++) ops.push_back(k);
        provider_line<E>(out, "rng.order", ct, ops, ename); stats.add("order_lines");
    } else if (kind < 45) {  // single generator: every accessor is the same engine
        ct.kind = 0; ct.s = edge_seed(rng); ct.multi = false;
        int n = rng.in(10, 30);
        for (int k = 0; k < n; k++) ops.push_back(k < 10 ? k : rng.in(0, 9));
        provider_line<E>(out, "rng.alias", ct, ops, ename); stats.add("alias_lines");
    } else if (kind < 65) {  // isolation: random interleaving of draws in multi-stream mode
        ct.kind = 0; ct.s = edge_seed(rng); ct.multi = true;
        int n = rng.in(5, 30);
        for (int k = 0; k < n; k++) ops.push_back(rng.coin(40) && k ? ops.back() : rng.in(0, 9));
        provider_line<E>(out, "rng.iso", ct, ops, ename); stats.add("iso_lines");
    } else if (kind < 85) {  // named seeds
        ct.kind = 1; ct.kv = ten_pairs(rng);
        if (rng.coin(30)) ct.kv.emplace_back("extra_key", (unsigned)rng.in(0, 99));
        if (rng.coin(20)) ct.kv.erase(ct.kv.begin() + rng.in(0, 9));
        int n = rng.in(10, 30);
        for (int k = 0; k < n; k++) ops.push_back(k < 10 ? k : rng.in(0, 9));
        provider_line<E>(out, "rng.named", ct, ops, ename); stats.add("named_lines");
    } else {  // Config-driven choice
        ct.kind = 2; ct.multiple = rng.coin(60); ct.random_seed = rng.coin(20) ? -rng.in(1, 50) : (int)(edge_seed(rng) & 0x7fffffffu);
        if (rng.coin(55)) ct.kv = ten_pairs(rng);
        if (!ct.kv.empty() && rng.coin(25)) ct.kv.erase(ct.kv.begin() + rng.in(0, 9));
        int n = rng.in(10, 24);
        for (int k = 0; k < n; k++) ops.push_back(k < 10 ? k : rng.in(0, 9));
        provider_line<E>(out, "rng.config", ct, ops, ename); stats.add("config_lines");
    }
}

static void order_case(Case& c) {
    int e = c.rng.in(0, 3);
    if (e == 0) order_engine<std::mt19937>(c, "mt19937");
    else if (e == 1) order_engine<std::default_random_engine>(c, "default");
    else if (e == 2) order_engine<std::mt19937_64>(c, "mt19937_64");
    else order_engine<ScriptedEngine>(c, "scripted");
    stats.add("engine_" + std::to_string(e));
    c.nontrivial = true;
}

// ------------------------------------------------------------------------------ reject
static std::string hex_of(const std::string& s) {
    static const char* d = "0123456789abcdef";
    std::string o;
    for (unsigned char ch : s) { o += d[ch >> 4]; o += d[ch & 15]; }
    return o.empty() ? "-" : o;
}
static std::string map_str(const std::map<std::string, unsigned>& m) {
    if (m.empty()) return "-";
    std::string o;
    for (auto& p : m) o += (o.empty() ? "" : ",") + p.first + "=" + std::to_string(p.second);
    return o;
}

static std::string random_word(Rng& rng) {
    static const char* alpha = "abcxyz_019";
    std::string w;
    int n = rng.in(1, 5);
    for (int k = 0; k < n; k++) w += alpha[rng.in(0, 9)];
    return w;
}

static std::string seed_text(Rng& rng, char sep, char kv, bool& wellformed_names) {
    std::string t;
    wellformed_names = false;
    int kind = rng.in(0, 99);
    auto blanks = [&](int pct) { std::string b; while (rng.coin(pct)) b += ' '; return b; };
    if (kind < 35) {  // the ten names, well-formed, possibly with blanks and a trailing separator
        wellformed_names = true;
        std::vector<int> order; for (int k = 0; k < 10; k++) order.push_back(k);
        for (int k = 9; k > 0; k--) std::swap(order[(size_t)k], order[(size_t)rng.in(0, k)]);
        bool sp = rng.coin(40);
        for (int k = 0; k < 10; k++) {
            if (k) t += sep;
            t += (sp ? blanks(30) : "") + NAMES[order[(size_t)k]] + (sp ? blanks(30) : "") + kv + (sp ? blanks(30) : "") + std::to_string(rng.coin(10) ? (unsigned)rng.next() : (unsigned)rng.in(0, 100000));
        }
        if (rng.coin(25)) t += sep;
        return t;
    }
    int n = rng.in(0, 5);
    for (int k = 0; k < n; k++) {
        if (k) t += sep;
        int r = rng.in(0, 99);
        std::string key = rng.coin(50) ? std::string(NAMES[rng.in(0, 9)]) : random_word(rng);
        std::string val = std::to_string(rng.in(0, 99999));
        if (r < 45) t += blanks(25) + key + blanks(25) + kv + blanks(25) + val + blanks(25);
        else if (r < 52) t += key + kv;                                   // no value
        else if (r < 58) t += std::string(1, kv) + val;                   // no key
        else if (r < 64) t += key + " " + val;                            // no separator
        else if (r < 70) t += "";                                         // empty record
        else if (r < 75) t += key + kv + "x" + val;                       // value without a leading digit
        else if (r < 80) t += key + kv + val + "x7";                      // trailing garbage after the digits
        else if (r < 84) t += key + kv + "-" + std::to_string(rng.in(1, 9));
        else if (r < 87) t += key + kv + "+" + val;
        else if (r < 90) t += key + kv + "99999999999999999999999";       // beyond unsigned long
        else if (r < 93) t += key + kv + "4294967296";                    // beyond unsigned, within unsigned long
        else if (r < 96) t += random_word(rng) + " " + key + kv + val + " " + random_word(rng);
        else t += key + kv + kv + val;
    }
    if (rng.coin(20)) t += sep;
    return t;
}

static void reject_case(Case& c) {
    Rng& rng = c.rng;
    std::ostream& out = c.out;
    using P = RandomNumberGeneratorProvider<std::mt19937>;
    long idx = c.index;
    // table cases first: 0-9 one key removed, 10-13 single-generator use, 14-16 empty / near-miss only / complete map
    int kind = idx < 10 ? 0 : (idx < 14 ? 30 : (idx < 17 ? 0 : (int)(rng.in(0, 99))));
    c.nontrivial = true;
    if (kind < 22) {
        // named seeds with a subset of the keys: every key removed in turn, then random subsets
        int mask = idx < 10 ? (1023 & ~(1 << idx)) : (idx == 14 || idx == 15) ? 0 : idx == 16 ? 1023 : (rng.coin(15) ? 1023 : (rng.coin(5) ? 0 : rng.in(0, 1023)));
        std::map<std::string, unsigned> m;
        for (int k = 0; k < 10; k++) if (mask & (1 << k)) m[NAMES[k]] = (unsigned)rng.in(1, 1000);
        bool extra = idx == 14 ? false : idx == 15 ? true : rng.coin(25);
        if (extra) m["soils"] = 3;  // a near-miss key does not count (but makes the map non-empty)
        std::string bits; for (int k = 0; k < 10; k++) bits += (mask & (1 << k)) ? '1' : '0';
        std::string what;
        std::string e = err_kind([&] { try { P p(m); } catch (const std::exception& ex) { what = ex.what(); throw; } });
        std::string key = "-";
        size_t a = what.find('\''), b = what.rfind('\'');
        if (a != std::string::npos && b > a) key = what.substr(a + 1, b - a - 1);
        out << "rng.missing provider " << bits << " " << extra << " => " << (e.empty() ? "ok" : e) << " " << key << "\n";
        std::string e2 = err_kind([&] { validate_random_number_generator_provider_seeds(m); });
        out << "rng.missing validate_seeds " << bits << " " << extra << " => " << (e2.empty() ? "ok" : e2) << " -\n";
        Config cfg; cfg.random_seeds = m; cfg.multiple_random_seeds = true; cfg.random_seed = 5;
        std::string e3 = err_kind([&] { validate_random_number_generator_provider_config(cfg); });
        out << "rng.missing validate_config " << bits << " " << extra << " => " << (e3.empty() ? "ok" : e3) << " -\n";
        // the Model constructor builds its provider from the configuration
        cfg.rows = 1; cfg.cols = 1; cfg.natural_kernel_type = "cauchy"; cfg.anthro_kernel_type = "cauchy";
        cfg.natural_direction = "none"; cfg.anthro_direction = "none";
        std::string e4 = err_kind([&] { Model<IRaster, DRaster, int> model(cfg); });
        out << "rng.missing model " << bits << " " << extra << " => " << (e4.empty() ? "ok" : e4) << " -\n";
        stats.add(mask == 1023 ? "missing_none" : "missing_some");
    } else if (kind < 40) {
        // the provider used as one generator
        int sub = idx < 14 ? (int)(idx - 10) : rng.in(0, 3);
        bool multi = sub & 1, disc = sub & 2;
        int how = rng.in(0, 2);  // how the provider was made
        Ctor ct;
        if (how == 0) { ct.kind = 0; ct.s = edge_seed(rng); ct.multi = multi; }
        else if (how == 1 && multi) { ct.kind = 1; ct.kv = ten_pairs(rng); }
        else { ct.kind = 2; ct.multiple = multi; ct.random_seed = rng.in(0, 1000); if (rng.coin(50)) ct.kv = ten_pairs(rng); }
        auto p = ct.make<std::mt19937>();
        unsigned long long n = (unsigned long long)rng.in(0, 5);
        unsigned long long v = 0;
        std::string e = err_kind([&] { if (disc) { p->discard(n); v = (*p)(); } else v = (*p)(); });
        unsigned base = ct.kind == 0 ? ct.s : (unsigned)ct.random_seed;
        out << "rng.call " << ct.str() << " " << (disc ? "discard:" + std::to_string(n) : std::string("call")) << " table=" << fresh_draws<std::mt19937>(base, 8)
            << " => " << (e.empty() ? "ok " + std::to_string(v) : e) << "\n";
        stats.add(multi ? "call_on_multi" : "call_on_single");
    } else if (kind < 52) {
        // SingleGeneratorProvider with several seeds
        SingleGeneratorProvider<std::mt19937> sp(7);
        int sub = rng.in(0, 3);
        if (sub == 0) {
            std::map<std::string, unsigned> m; for (auto& p : ten_pairs(rng)) m[p.first] = p.second;
            if (rng.coin(30)) m.clear();
            std::string e = err_kind([&] { sp.seed(m); });
            out << "rng.single map " << m.size() << " => " << (e.empty() ? "ok" : e) << "\n";
        } else {
            Config cfg; cfg.random_seed = rng.in(0, 100000); cfg.multiple_random_seeds = sub == 1 || (sub == 3 && rng.coin());
            if (sub >= 2) for (auto& p : ten_pairs(rng)) cfg.random_seeds[p.first] = p.second;
            std::string e = err_kind([&] { sp.seed(cfg); });
            out << "rng.single config:" << cfg.multiple_random_seeds << ":" << cfg.random_seed << ":" << cfg.random_seeds.size() << " table=" << fresh_draws<std::mt19937>((unsigned)cfg.random_seed, 2)
                << " => " << (e.empty() ? "ok " + std::to_string((unsigned long long)sp()) : e) << "\n";
        }
        stats.add("single_provider");
    } else if (kind < 70) {
        // read_seeds(vector)
        int n = rng.coin(40) ? 10 : (rng.coin(50) ? (rng.coin() ? 9 : 11) : rng.in(0, 14));
        std::vector<unsigned> v; for (int k = 0; k < n; k++) v.push_back(rng.coin(10) ? (unsigned)rng.next() : (unsigned)rng.in(0, 9999));
        Config cfg;
        if (rng.coin(30)) { cfg.random_seeds["soil"] = 77; cfg.random_seeds["other"] = 5; }
        std::string pre = map_str(cfg.random_seeds);
        std::string e = err_kind([&] { cfg.read_seeds(v); });
        std::string vs; for (size_t k = 0; k < v.size(); k++) vs += (k ? "," : "") + std::to_string(v[k]);
        out << "rng.vec " << (vs.empty() ? "-" : vs) << " " << pre << " => " << (e.empty() ? "ok" : e) << " " << cfg.multiple_random_seeds << " " << map_str(cfg.random_seeds) << "\n";
        stats.add(n == 10 ? "vec_ten" : "vec_wrong");
    } else {
        // read_seeds(text)
        static const char seps[] = {',', ';', '\n', '|'};
        static const char kvs[] = {'=', ':'};
        char sep = seps[rng.in(0, 3)], kv = kvs[rng.in(0, 1)];
        bool wf = false;
        std::string t = seed_text(rng, sep, kv, wf);
        Config cfg;
        if (rng.coin(30)) cfg.random_seeds["movement"] = 123;
        std::string pre = map_str(cfg.random_seeds);
        std::string e = err_kind([&] { cfg.read_seeds(t, sep, kv); });
        out << "rng.text " << (int)sep << " " << (int)kv << " " << hex_of(t) << " " << pre << " => " << (e.empty() ? "ok" : e) << " " << cfg.multiple_random_seeds << " " << map_str(cfg.random_seeds) << "\n";
        // a text with all ten names must give a working multi-stream provider with exactly those seeds
        if (e.empty() && wf) {
            Ctor ct; ct.kind = 2; ct.multiple = cfg.multiple_random_seeds; ct.random_seed = 0;
            for (auto& p : cfg.random_seeds) ct.kv.emplace_back(p.first, p.second);
            std::vector<int> ops; for (int k = 0; k < 10; k++) ops.push_back(k);
            provider_line<std::mt19937>(out, "rng.config", ct, ops, "mt19937");
        }
        stats.add(e.empty() ? "text_accepted" : "text_" + e.substr(4));
    }
}

int main(int argc, char** argv) {
    std::ios::sync_with_stdio(false);
    std::string mode = argc > 1 ? argv[1] : "twice";
    uint64_t seed = argc > 2 ? std::stoull(argv[2]) : 1;
    long first = argc > 3 ? std::stol(argv[3]) : 0;
    long count = argc > 4 ? std::stol(argv[4]) : 20;
    if (mode == "twice") run_cases("h_stream", mode, seed, first, count, twice_case);
    else if (mode == "uses") run_cases("h_stream", mode, seed, first, count, uses_case);
    else if (mode == "vary") run_cases("h_stream", mode, seed, first, count, vary_case);
    else if (mode == "order") run_cases("h_stream", mode, seed, first, count, order_case);
    else if (mode == "reject") run_cases("h_stream", mode, seed, first, count, reject_case);
    else { std::cerr << "unknown mode " << mode << "\n"; return 2; }
    stats.dump("h_stream");
    return 0;
}
