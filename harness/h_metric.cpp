// Correspondence harness for C18: SpreadRateAction / average_spread_rate (spread_rate.hpp),
// QuarantineEscapeAction and its reports (quarantine.hpp), sum_of_infected / area_of_infected
// (statistics.hpp). Every line is one call of the real library:
//
//   metric.grid <rows> <cols> <ew> <ns> <k> <i j>*k                       => -
//   metric.sr.new <run> <numsteps> <infected>                              => <n s e w>
//   metric.sr.act <run> <step> <infected>                                  => <n s e w> <rn rs re rw> | err:*
//   metric.sr.avg <step> <nruns> <rn rs re rw>*nruns                       => <an as ae aw>
//   metric.q.new <nruns> <dirs> <numsteps> <areas>                         => ok <k> <id n s e w>*k | err:*
//   metric.q.act <run> <step> <same|diff> <infected> [<areas2>]            => ok <esc> <dist> <dirname> <dircode> | err:*
//   metric.q.prob <step> <nruns> <esc>*nruns                               => <p> | err:*
//   metric.q.dd <step> <nruns>                                             => <dist dircode>*nruns | err:*
//   metric.q.csv <numsteps> <nruns>                                        => <text, newline as |>
//   metric.stat <infected>                                                 => <sum> <area>
//
// Rasters are printed row-major. Doubles are printed as exact rationals `num/den` (`nan`, `max`).
// The bounding boxes (private members) are read through an explicit-instantiation accessor.
//
// Usage: h_metric <mode> <seed> <first> <count>      mode: mix
#include <cfloat>
#include <cmath>
#include <algorithm>
#include <pops/raster.hpp>
#include <pops/spread_rate.hpp>
#include <pops/quarantine.hpp>
#include <pops/statistics.hpp>
#include "common.hpp"
using namespace pops;
using verif::Rng;

struct HP {
    const Raster<int>* inf;
    const std::vector<std::vector<int>>* cells;
    int infected_at(int r, int c) const { return (*inf)(r, c); }
    const std::vector<std::vector<int>>& suitable_cells() const { return *cells; }
};
typedef SpreadRateAction<HP, int> SR;
typedef QuarantineEscapeAction<Raster<int>> QE;

// read-only access to private data members (explicit instantiation may name private members)
template <typename Tag, typename Tag::type M> struct Rob { friend typename Tag::type get(Tag) { return M; } };
struct SRb { typedef std::vector<BBoxInt> SR::*type; friend type get(SRb); };
template struct Rob<SRb, &SR::boundaries_>;
struct QEb { typedef std::vector<BBoxInt> QE::*type; friend type get(QEb); };
template struct Rob<QEb, &QE::boundaries>;
struct QEm { typedef std::map<int, int> QE::*type; friend type get(QEm); };
template struct Rob<QEm, &QE::boundary_id_idx_map>;

static verif::Stats stats;

static std::string u128(unsigned __int128 v) {
    if (v == 0) return "0";
    std::string s; while (v) { s += char('0' + (int)(v % 10)); v /= 10; }
    std::reverse(s.begin(), s.end()); return s;
}
// exact value of a finite double as num/den
static std::string drat(double x) {
    if (std::isnan(x)) return "nan";
    if (x == DBL_MAX) return "max";
    if (x == 0) return "0";
    bool neg = x < 0; if (neg) x = -x;
    int e; double m = std::frexp(x, &e);
    unsigned long long mant = (unsigned long long)std::ldexp(m, 53); e -= 53;
    while (e < 0 && (mant & 1ULL) == 0) { mant >>= 1; e++; }
    std::string s = neg ? "-" : "";
    if (e >= 0) { if (e > 60) return "huge"; return s + u128((unsigned __int128)mant << e); }
    if (-e > 120) return "tiny";
    return s + u128(mant) + "/" + u128((unsigned __int128)1 << (-e));
}
static std::string box(const BBoxInt& b) {
    return std::to_string(std::get<0>(b)) + " " + std::to_string(std::get<1>(b)) + " " + std::to_string(std::get<2>(b)) + " " + std::to_string(std::get<3>(b));
}
static std::string rates(const BBoxFloat& r) {
    return drat(std::get<0>(r)) + " " + drat(std::get<1>(r)) + " " + drat(std::get<2>(r)) + " " + drat(std::get<3>(r));
}
static std::string data(const Raster<int>& r) {
    std::string s;
    for (int i = 0; i < r.rows(); i++) for (int j = 0; j < r.cols(); j++) { if (!s.empty()) s += ' '; s += std::to_string(r(i, j)); }
    return s;
}

struct Grid {
    int rows, cols; double ew, ns; bool int_res;
    std::vector<std::vector<int>> cells;   // suitable cells as handed to the library
    std::vector<char> suit;                // mask rows*cols
    bool restrict_to_suitable;             // infections only inside suitable cells
};

static double pick_res(Rng& rng, bool integer) {
    static const std::vector<double> ints = {1, 1, 2, 3, 5, 10, 10, 30, 100, 250};
    if (integer) return rng.pick(ints);
    int k = rng.in(0, 3);
    if (k == 0) return rng.in(1, 19) / 2.0;          // x.5
    if (k == 1) return rng.in(1, 63) / 4.0;
    if (k == 2) return rng.in(1, 640) / 64.0;
    return 2.5;
}

static Grid gen_grid(Rng& rng) {
    Grid g;
    int cls = rng.in(0, 99);
    const char* cname;
    if (cls < 3) { g.rows = 1; g.cols = 1; cname = "shape_1x1"; }
    else if (cls < 13) { g.rows = 1; g.cols = rng.in(2, 9); cname = "shape_1xN"; }
    else if (cls < 23) { g.rows = rng.in(2, 9); g.cols = 1; cname = "shape_Nx1"; }
    else if (cls < 53) { g.cols = rng.in(1, 6); g.rows = g.cols + rng.in(1, 5); cname = "shape_tall"; }
    else if (cls < 83) { g.rows = rng.in(1, 6); g.cols = g.rows + rng.in(1, 5); cname = "shape_wide"; }
    else { g.rows = g.cols = rng.in(2, 7); cname = "shape_square"; }
    stats.add(cname);
    g.int_res = rng.coin(70);
    g.ew = pick_res(rng, g.int_res); g.ns = rng.coin(35) ? g.ew : pick_res(rng, g.int_res);
    stats.add(g.int_res ? "res_integer" : "res_dyadic");
    if (g.ew != g.ns) stats.add("res_ew_ne_ns");
    int n = g.rows * g.cols;
    g.suit.assign((size_t)n, 1);
    g.restrict_to_suitable = true;
    int k = rng.in(0, 99);
    if (k < 70) { stats.add("cells_all"); }
    else if (k < 90) { for (int t = 0; t < n; t++) g.suit[(size_t)t] = rng.coin(70); stats.add("cells_subset"); }
    else if (k < 95) { stats.add("cells_shuffled"); }
    else { for (int t = 0; t < n; t++) g.suit[(size_t)t] = rng.coin(60); g.restrict_to_suitable = false; stats.add("cells_not_covering"); }
    for (int i = 0; i < g.rows; i++) for (int j = 0; j < g.cols; j++) if (g.suit[(size_t)(i * g.cols + j)]) g.cells.push_back({i, j});
    if (k >= 90 && k < 95) for (size_t t = g.cells.size(); t > 1; t--) std::swap(g.cells[t - 1], g.cells[(size_t)rng.in(0, (int)t - 1)]);
    return g;
}

static bool allowed(const Grid& g, int i, int j) { return !g.restrict_to_suitable || g.suit[(size_t)(i * g.cols + j)]; }
static int val(Rng& rng, bool neg) { if (neg && rng.coin(30)) return -rng.in(1, 3); return rng.coin(85) ? rng.in(1, 9) : rng.in(10, 5000); }

static void put_edge(Rng& rng, const Grid& g, Raster<int>& r, bool neg) {
    int side = rng.in(0, 3); int i, j;
    if (side == 0) { i = 0; j = rng.in(0, g.cols - 1); }
    else if (side == 1) { i = g.rows - 1; j = rng.in(0, g.cols - 1); }
    else if (side == 2) { i = rng.in(0, g.rows - 1); j = g.cols - 1; }
    else { i = rng.in(0, g.rows - 1); j = 0; }
    if (allowed(g, i, j)) r(i, j) = val(rng, neg);
}

static Raster<int> gen_inf(Rng& rng, const Grid& g, bool neg) {
    Raster<int> r(g.rows, g.cols, 0);
    int k = rng.in(0, 99);
    if (k < 8) return r;                                        // no infection
    if (k < 28) { int i = rng.in(0, g.rows - 1), j = rng.in(0, g.cols - 1); if (allowed(g, i, j)) r(i, j) = val(rng, neg); return r; }
    if (k < 43) { int m = rng.in(1, 3); for (int t = 0; t < m; t++) put_edge(rng, g, r, neg); return r; }
    int pct = k < 70 ? 15 : (k < 90 ? 40 : 90);
    for (int i = 0; i < g.rows; i++) for (int j = 0; j < g.cols; j++) if (allowed(g, i, j) && rng.coin(pct)) r(i, j) = val(rng, neg);
    return r;
}

static Raster<int> mutate(Rng& rng, const Grid& g, const Raster<int>& prev, bool neg) {
    Raster<int> r(prev);
    int k = rng.in(0, 99);
    if (k < 20) return r;                                       // unchanged: zero displacement everywhere
    if (k < 55) { int m = rng.in(1, 3); for (int t = 0; t < m; t++) { int i = rng.in(0, g.rows - 1), j = rng.in(0, g.cols - 1); if (allowed(g, i, j)) r(i, j) = val(rng, neg); } return r; }
    if (k < 65) { put_edge(rng, g, r, neg); return r; }
    if (k < 80) { for (int i = 0; i < g.rows; i++) for (int j = 0; j < g.cols; j++) if (r(i, j) != 0 && rng.coin(40)) r(i, j) = 0; return r; }
    if (k < 85) return Raster<int>(g.rows, g.cols, 0);          // dies out
    return gen_inf(rng, g, neg);
}

static bool any_inf(const Raster<int>& r) { for (int i = 0; i < r.rows(); i++) for (int j = 0; j < r.cols(); j++) if (r(i, j) > 0) return true; return false; }

static void emit_spread(verif::Case& c, const Grid& g, bool neg) {
    Rng& rng = c.rng; std::ostream& out = c.out;
    int nruns = rng.coin(85) ? rng.in(1, 4) : rng.in(5, 8);
    unsigned K = (unsigned)rng.in(1, 5);                        // 2..6 measurements per run
    std::vector<SR> runs;
    for (int run = 0; run < nruns; run++) {
        Raster<int> cur = gen_inf(rng, g, neg);
        HP hp{&cur, &g.cells};
        runs.emplace_back(hp, g.rows, g.cols, g.ew, g.ns, K);
        SR& sr = runs.back();
        out << "metric.sr.new " << run << " " << K << " " << data(cur) << " => " << box((sr.*get(SRb())).at(0)) << "\n";
        if (any_inf(cur) && g.rows * g.cols > 1) c.nontrivial = true;
        bool odd = rng.coin(6);
        for (unsigned s = 0; s < K; s++) {
            unsigned step = s;
            if (odd && rng.coin(40)) { step = (unsigned)rng.in(0, (int)K + 1); stats.add("sr_step_out_of_sequence"); }
            bool prev_inf = any_inf(cur);
            cur = mutate(rng, g, cur, neg);
            hp.inf = &cur;
            out << "metric.sr.act " << run << " " << step << " " << data(cur) << " => ";
            std::string e = verif::err_kind([&] { sr.action(hp, step); });
            if (!e.empty()) { out << e << "\n"; stats.add("sr_act_rejected"); continue; }
            BBoxFloat r = sr.step_rate(step);
            out << box((sr.*get(SRb())).at(step + 1)) << " " << rates(r) << "\n";
            bool now_inf = any_inf(cur);
            if (now_inf && g.rows * g.cols > 1) c.nontrivial = true;
            if (!now_inf) stats.add("rate_undefined_no_infection");
            else if (!prev_inf) stats.add("rate_previous_measurement_empty");
            else {
                double v[4] = {std::get<0>(r), std::get<1>(r), std::get<2>(r), std::get<3>(r)};
                for (double x : v) stats.add(std::isnan(x) ? "rate_undefined_edge" : (x == 0 ? "rate_zero" : (x < 0 ? "rate_negative" : "rate_positive")));
            }
        }
    }
    for (unsigned s = 0; s < K; s++) {
        out << "metric.sr.avg " << s << " " << nruns;
        for (auto& sr : runs) out << " " << rates(sr.step_rate(s));
        BBoxFloat a = average_spread_rate(runs, s);
        out << " => " << rates(a) << "\n";
        stats.add(std::isnan(std::get<0>(a)) ? "avg_undefined" : "avg_defined");
    }
}

static std::string gen_dirs(Rng& rng, bool& valid) {
    valid = true;
    int k = rng.in(0, 99);
    if (k < 10) { stats.add("dirs_empty_string_all"); return ""; }
    if (k < 14) {
        valid = false; stats.add("dirs_invalid");
        static const std::vector<std::string> bad = {"X", "N,,S", "n", "NS", ",", "N;S", "NE", ",N", "N,E,Q", "None"};
        return rng.pick(bad);
    }
    int mask = rng.in(1, 15);
    stats.add("dirs_mask_" + std::to_string(mask));
    std::vector<std::string> t;
    if (mask & 1) t.push_back("N");
    if (mask & 2) t.push_back("S");
    if (mask & 4) t.push_back("E");
    if (mask & 8) t.push_back("W");
    for (size_t i = t.size(); i > 1; i--) std::swap(t[i - 1], t[(size_t)rng.in(0, (int)i - 1)]);
    if (rng.coin(10)) t.push_back(t[0]);                        // duplicate
    std::string s;
    for (auto& x : t) { if (!s.empty()) s += ","; s += x; }
    if (rng.coin(8)) s += ",";                                   // trailing delimiter: no extra token
    return s;
}

static Raster<int> gen_areas(Rng& rng, const Grid& g, bool negids) {
    Raster<int> a(g.rows, g.cols, 0);
    static const std::vector<int> ids = {1, 2, 3, 4, 7, 12};
    int k = rng.in(0, 99);
    int nareas = k < 10 ? 0 : (k < 45 ? 1 : (k < 75 ? 2 : 3));
    stats.add("areas_" + std::to_string(nareas));
    for (int t = 0; t < nareas; t++) {
        int id = rng.pick(ids);
        if (t == 0 && rng.coin(15)) { for (int i = 0; i < g.rows; i++) for (int j = 0; j < g.cols; j++) a(i, j) = id; continue; }
        int i0 = rng.in(0, g.rows - 1), i1 = rng.in(i0, g.rows - 1), j0 = rng.in(0, g.cols - 1), j1 = rng.in(j0, g.cols - 1);
        for (int i = i0; i <= i1; i++) for (int j = j0; j <= j1; j++) a(i, j) = id;
    }
    if (nareas > 0 && rng.coin(40)) {                           // ragged outlines, holes, scattered cells
        int m = rng.in(1, 4);
        for (int t = 0; t < m; t++) a(rng.in(0, g.rows - 1), rng.in(0, g.cols - 1)) = rng.coin(40) ? 0 : rng.pick(ids);
    }
    if (negids) a(rng.in(0, g.rows - 1), rng.in(0, g.cols - 1)) = -rng.in(1, 3);
    return a;
}

static Raster<int> gen_qinf(Rng& rng, const Grid& g, const Raster<int>& areas, bool neg) {
    if (rng.coin(35)) return gen_inf(rng, g, neg);
    Raster<int> r(g.rows, g.cols, 0);
    std::vector<std::pair<int, int>> in;
    for (int i = 0; i < g.rows; i++) for (int j = 0; j < g.cols; j++) if (areas(i, j) != 0 && allowed(g, i, j)) in.push_back({i, j});
    if (in.empty()) return r;
    int m = rng.coin(50) ? 1 : rng.in(2, 6);
    for (int t = 0; t < m; t++) { auto p = rng.pick(in); r(p.first, p.second) = val(rng, neg); }
    return r;
}

// definitional nearest distance (brute force) and the set of sides that attain it; used only for the
// statistics about non-integer resolutions (which C18_nearest excludes)
static bool brute_nearest(const Grid& g, const Raster<int>& areas, const Raster<int>& inf, const std::string& dirs, double& best, int& sides) {
    bool dn = dirs.empty() || dirs.find('N') != std::string::npos, dS = dirs.empty() || dirs.find('S') != std::string::npos,
         de = dirs.empty() || dirs.find('E') != std::string::npos, dw = dirs.empty() || dirs.find('W') != std::string::npos;
    bool found = false; best = 0; sides = 0;
    for (auto& cell : g.cells) {
        int i = cell[0], j = cell[1];
        if (!inf(i, j)) continue;
        int id = areas(i, j); if (id <= 0) return false;
        int n = g.rows, s = -1, e = -1, w = g.cols;
        for (int a = 0; a < g.rows; a++) for (int b = 0; b < g.cols; b++) if (areas(a, b) == id) { n = std::min(n, a); s = std::max(s, a); e = std::max(e, b); w = std::min(w, b); }
        double d[4] = {(i - n) * g.ns, (s - i) * g.ns, (e - j) * g.ew, (j - w) * g.ew}; bool en[4] = {dn, dS, de, dw};
        for (int t = 0; t < 4; t++) if (en[t]) {
            if (!found || d[t] < best) { best = d[t]; found = true; sides = 1 << t; }
            else if (d[t] == best) sides |= 1 << t;
        }
    }
    return found;
}

static void emit_quarantine(verif::Case& c, const Grid& g, bool neg) {
    Rng& rng = c.rng; std::ostream& out = c.out;
    bool negids = rng.coin(2);
    if (negids) stats.add("areas_with_negative_id");
    Raster<int> areas = gen_areas(rng, g, negids);
    bool valid; std::string dirs = gen_dirs(rng, valid);
    int nruns = rng.coin(85) ? rng.in(1, 4) : rng.in(5, 8);
    unsigned K = (unsigned)rng.in(1, 4);
    out << "metric.q.new " << nruns << " " << (dirs.empty() ? "<empty>" : dirs) << " " << K << " " << data(areas) << " => ";
    QE* proto = nullptr;
    std::string e0 = verif::err_kind([&] { proto = new QE(areas, g.ew, g.ns, K, dirs); });
    if (!e0.empty()) { out << e0 << "\n"; stats.add("q_new_rejected"); return; }
    {
        const auto& bs = (*proto).*get(QEb()); const auto& mp = (*proto).*get(QEm());
        std::vector<std::pair<int, int>> byidx;                 // (idx, id)
        for (auto& kv : mp) byidx.push_back({kv.second, kv.first});
        std::sort(byidx.begin(), byidx.end());
        out << "ok " << byidx.size();
        for (auto& p : byidx) out << " " << p.second << " " << box(bs.at((size_t)p.first));
        out << "\n";
    }
    std::vector<QE> runs((size_t)nruns, *proto);
    delete proto;
    for (int run = 0; run < nruns; run++) {
        bool odd = rng.coin(5);
        for (unsigned s = 0; s < K; s++) {
            unsigned step = s;
            if (odd && rng.coin(40)) { step = (unsigned)rng.in(0, (int)K + 1); stats.add("q_step_out_of_sequence"); }
            Raster<int> inf = gen_qinf(rng, g, areas, neg);
            HP hp{&inf, &g.cells};
            bool diff = rng.coin(2);
            Raster<int> areas2 = diff ? gen_areas(rng, g, false) : areas;
            if (diff) stats.add("q_act_with_other_areas_raster");
            out << "metric.q.act " << run << " " << step << " " << (diff ? "diff " : "same ") << data(inf);
            if (diff) out << " " << data(areas2);
            out << " => ";
            std::string e = verif::err_kind([&] { runs[(size_t)run].action(hp, areas2, step); });
            if (!e.empty()) { out << e << "\n"; stats.add("q_act_rejected"); continue; }
            const QE& q = runs[(size_t)run];
            out << "ok " << (q.escaped(step) ? 1 : 0) << " " << drat(q.distance(step)) << " " << quarantine_enum_to_string(q.direction(step)) << " " << q.direction(step) << "\n";
            if (q.escaped(step)) stats.add("q_escaped");
            else if (q.direction(step) == Direction::None) stats.add("q_no_infected_cell");
            else {
                stats.add("q_contained"); if (g.rows * g.cols > 1) c.nontrivial = true;
                stats.add(std::string("q_dir_") + quarantine_enum_to_string(q.direction(step)));
                double best; int sides;
                if (!g.int_res && !diff && !negids && brute_nearest(g, areas, inf, dirs, best, sides)) {
                    stats.add("nonint_res_contained");
                    Direction d = q.direction(step);
                    int bit = d == Direction::N ? 1 : d == Direction::S ? 2 : d == Direction::E ? 4 : 8;
                    if (q.distance(step) != (double)std::lround(best)) stats.add("nonint_res_distance_not_rounded_nearest");
                    if (!(sides & bit)) stats.add("nonint_res_direction_not_of_a_nearest_side");
                }
            }
        }
    }
    for (unsigned s = 0; s <= K; s++) {
        if (s == K && !rng.coin(10)) break;                     // sometimes one step past the end
        out << "metric.q.prob " << s << " " << nruns;
        if (s < K) for (auto& q : runs) out << " " << (std::get<0>(q.escape_info(s)) ? 1 : 0);
        out << " => ";
        double p = 0; std::string e = verif::err_kind([&] { p = quarantine_escape_probability(runs, s); });
        if (e.empty()) out << drat(p) << "\n"; else out << e << "\n";
        out << "metric.q.dd " << s << " " << nruns << " => ";
        std::vector<DistDir> dd; e = verif::err_kind([&] { dd = distance_direction_to_quarantine(runs, s); });
        if (e.empty()) { bool first = true; for (auto& x : dd) { out << (first ? "" : " ") << drat(std::get<0>(x)) << " " << std::get<1>(x); first = false; } out << "\n"; }
        else out << e << "\n";
    }
    {
        std::string csv = write_quarantine_escape(runs, K);
        for (auto& ch : csv) if (ch == '\n') ch = '|';
        out << "metric.q.csv " << K << " " << nruns << " => " << csv << "\n";
        stats.add("csv_texts");
    }
}

static void emit_case(verif::Case& c) {
    Rng& rng = c.rng; std::ostream& out = c.out;
    Grid g = gen_grid(rng);
    bool neg = rng.coin(3);
    if (neg) stats.add("rasters_with_negative_values");
    out << "metric.grid " << g.rows << " " << g.cols << " " << drat(g.ew) << " " << drat(g.ns) << " " << g.cells.size();
    for (auto& cell : g.cells) out << " " << cell[0] << " " << cell[1];
    out << " => -\n";
    emit_spread(c, g, neg);
    emit_quarantine(c, g, neg);
    int m = rng.in(1, 3);
    for (int t = 0; t < m; t++) {
        Raster<int> inf = gen_inf(rng, g, neg);
        unsigned sum = sum_of_infected(inf, g.cells);
        double area = area_of_infected(inf, g.ew, g.ns, g.cells);
        out << "metric.stat " << data(inf) << " => " << sum << " " << drat(area) << "\n";
        stats.add("stat_calls");
    }
}

int main(int argc, char** argv) {
    std::ios::sync_with_stdio(false);
    std::string mode = argc > 1 ? argv[1] : "mix";
    uint64_t seed = argc > 2 ? std::stoull(argv[2]) : 1;
    long first = argc > 3 ? std::stol(argv[3]) : 0;
    long count = argc > 4 ? std::stol(argv[4]) : 1000;
    if (mode == "mix") verif::run_cases("h_metric", mode, seed, first, count, [&](verif::Case& c) { emit_case(c); });
    stats.dump("h_metric");
    return 0;
}
