// Correspondence harness for C18: SpreadRateAction / average_spread_rate (spread_rate.hpp),
// QuarantineEscapeAction and its reports (quarantine.hpp), sum_of_infected / area_of_infected
// (statistics.hpp). Every line is one call of the real library:
//
//   metric.grid <rows> <cols> <ew> <ns> <k> <i j>*k                       => -
//   metric.sr.new <run> <numsteps> <infected>                              => <n s e w>
//   metric.sr.act <run> <step> <infected>                                  => <n s e w> <rn rs re rw> | err:*
//   metric.sr.avg <step> <nruns> <rn rs re rw>*nruns                       => <an as ae aw>
//   metric.q.new <nruns> <dirs> <numsteps> <areas>                         => ok <k> <id n s e w>*k | err:*
//   metric.q.act <run> <step> <same|diff> <infected> [<areas2>]            => ok <esc> <dist> <dirname> <dircode> | err:*
//   metric.q.prob <step> <nruns> <esc>*nruns                               => <p> | err:*
//   metric.q.dd <step> <nruns>                                             => <dist dircode>*nruns | err:*
//   metric.q.csv <numsteps> <nruns>                                        => <text, newline as |>
//   metric.stat <infected>                                                 => <sum> <area>
//
// Rasters are printed row-major. Doubles are printed as exact rationals `num/den` (`nan`, `max`).
// The bounding boxes (private members) are read through an explicit-instantiation accessor.
//
// Case 0 of the mode is fixed (the same for every seed): three quarantine layouts with non-integer
// resolutions on which the side that is really the nearest differs from the side a comparison of
// ROUNDED distances would pick (finding F27), then three layouts with NEGATIVE area ids (finding F30):
// (a) 1x5 areas [-1,-1,1,1,1] with the infected cell on id -1, (b) a raster of -1 only, (c) the layout
// of (a) with the infection inside area 1 (negative ids at non-infected cells only). All other cases
// are random; about 12 % of them carry negative area ids (-1, -2, -3, -9999: single cells, a margin
// strip, every cell outside the areas, or the whole raster), half of those with an infected cell on one.
//
// Usage: h_metric <mode> <seed> <first> <count>      mode: mix
#include <cfloat>
#include <cmath>
#include <algorithm>
#include <pops/raster.hpp>
#include <pops/spread_rate.hpp>
#include <pops/quarantine.hpp>
#include <pops/statistics.hpp>
#include "common.hpp"
using namespace pops;
using verif::Rng;

struct HP {
    const Raster<int>* inf;
    const std::vector<std::vector<int>>* cells;
    int infected_at(int r, int c) const { return (*inf)(r, c); }
    const std::vector<std::vector<int>>& suitable_cells() const { return *cells; }
};
typedef SpreadRateAction<HP, int> SR;
typedef QuarantineEscapeAction<Raster<int>> QE;

// read-only access to private data members (explicit instantiation may name private members)
template <typename Tag, typename Tag::type M> struct Rob { friend typename Tag::type get(Tag) { return M; } };
struct SRb { typedef std::vector<BBoxInt> SR::*type; friend type get(SRb); };
template struct Rob<SRb, &SR::boundaries_>;
struct QEb { typedef std::vector<BBoxInt> QE::*type; friend type get(QEb); };
template struct Rob<QEb, &QE::boundaries>;
struct QEm { typedef std::map<int, int> QE::*type; friend type get(QEm); };
template struct Rob<QEm, &QE::boundary_id_idx_map>;

static verif::Stats stats;

static std::string u128(unsigned __int128 v) {
    if (v == 0) return "0";
    std::string s; while (v) { s += char('0' + (int)(v % 10)); v /= 10; }
    std::reverse(s.begin(), s.end()); return s;
}
// exact value of a finite double as num/den
static std::string drat(double x) {
    if (std::isnan(x)) return "nan";
    if (x == DBL_MAX) return "max";
    if (x == 0) return "0";
    bool neg = x < 0; if (neg) x = -x;
    int e; double m = std::frexp(x, &e);
    unsigned long long mant = (unsigned long long)std::ldexp(m, 53); e -= 53;
    while (e < 0 && (mant & 1ULL) == 0) { mant >>= 1; e++; }
    std::string s = neg ? "-" : "";
    if (e >= 0) { if (e > 60) return "huge"; return s + u128((unsigned __int128)mant << e); }
    if (-e > 120) return "tiny";
    return s + u128(mant) + "/" + u128((unsigned __int128)1 << (-e));
}
static std::string box(const BBoxInt& b) {
    return std::to_string(std::get<0>(b)) + " " + std::to_string(std::get<1>(b)) + " " + std::to_string(std::get<2>(b)) + " " + std::to_string(std::get<3>(b));
}
static std::string rates(const BBoxFloat& r) {
    return drat(std::get<0>(r)) + " " + drat(std::get<1>(r)) + " " + drat(std::get<2>(r)) + " " + drat(std::get<3>(r));
}
static std::string data(const Raster<int>& r) {
    std::string s;
    for (int i = 0; i < r.rows(); i++) for (int j = 0; j < r.cols(); j++) { if (!s.empty()) s += ' '; s += std::to_string(r(i, j)); }
    return s;
}

struct Grid {
    int rows, cols; double ew, ns; bool int_res;   // int_res: both resolutions are integers
    std::vector<std::vector<int>> cells;   // suitable cells as handed to the library
    std::vector<char> suit;                // mask rows*cols
    bool restrict_to_suitable;             // infections only inside suitable cells
};

// Resolutions are dyadic (k/2, k/4, k/8, k/16 with k odd when not an integer), so every product
// cells x resolution the library forms is exact in double precision.
static double pick_res(Rng& rng, bool integer) {
    static const std::vector<double> ints = {1, 1, 2, 3, 5, 10, 10, 30, 100, 250};
    if (integer) return rng.pick(ints);
    if (rng.coin(55)) {   // below one map unit: neighbouring cells differ by less than 1/2 after rounding
        static const std::vector<double> small = {1 / 2., 1 / 4., 3 / 4., 1 / 8., 3 / 8., 5 / 8., 7 / 8.,
                                                  1 / 16., 3 / 16., 5 / 16., 7 / 16., 9 / 16., 13 / 16.};
        return rng.pick(small);
    }
    int den = 2 << rng.in(0, 3);                       // 2, 4, 8, 16
    int k = 2 * rng.in(0, den * 6 - 1) + 1;            // odd, value below 12
    return (double)k / den;
}

static Grid gen_grid(Rng& rng) {
    Grid g;
    int cls = rng.in(0, 99);
    const char* cname;
    if (cls < 3) { g.rows = 1; g.cols = 1; cname = "shape_1x1"; }
    else if (cls < 13) { g.rows = 1; g.cols = rng.in(2, 9); cname = "shape_1xN"; }
    else if (cls < 23) { g.rows = rng.in(2, 9); g.cols = 1; cname = "shape_Nx1"; }
    else if (cls < 48) { g.cols = rng.in(1, 6); g.rows = g.cols + rng.in(1, 5); cname = "shape_tall"; }
    else if (cls < 73) { g.rows = rng.in(1, 6); g.cols = g.rows + rng.in(1, 5); cname = "shape_wide"; }
    else if (cls < 85) { g.rows = rng.in(6, 12); do g.cols = rng.in(6, 12); while (g.cols == g.rows); cname = "shape_large_nonsquare"; }
    else { g.rows = g.cols = rng.in(2, 7); cname = "shape_square"; }
    stats.add(cname);
    int rc = rng.in(0, 99);                             // 45 % both integer, 35 % both non-integer, 20 % mixed
    bool ew_int = rc < 45 || (rc >= 80 && rc < 90), ns_int = rc < 45 || rc >= 90;
    g.ew = pick_res(rng, ew_int);
    g.ns = (ew_int == ns_int && rng.coin(35)) ? g.ew : pick_res(rng, ns_int);
    if (!ew_int && !ns_int && rng.coin(30)) {           // two close values with fractions below 1/2: a x ns and a x ew differ by little
        int a = rng.in(0, 4), f1 = rng.in(1, 7), f2 = rng.in(1, 7);
        g.ew = a + f1 / 16.0; g.ns = a + f2 / 16.0;
        stats.add("res_close_pair");
    }
    g.int_res = ew_int && ns_int;
    stats.add(g.int_res ? "res_both_integer" : (!ew_int && !ns_int ? "res_both_noninteger" : "res_one_noninteger"));
    if (g.ew < 1 || g.ns < 1) stats.add("res_below_one");
    if (g.ew != g.ns) stats.add("res_ew_ne_ns");
    int n = g.rows * g.cols;
    g.suit.assign((size_t)n, 1);
    g.restrict_to_suitable = true;
    int k = rng.in(0, 99);
    if (k < 70) { stats.add("cells_all"); }
    else if (k < 90) { for (int t = 0; t < n; t++) g.suit[(size_t)t] = rng.coin(70); stats.add("cells_subset"); }
    else if (k < 95) { stats.add("cells_shuffled"); }
    else { for (int t = 0; t < n; t++) g.suit[(size_t)t] = rng.coin(60); g.restrict_to_suitable = false; stats.add("cells_not_covering"); }
    for (int i = 0; i < g.rows; i++) for (int j = 0; j < g.cols; j++) if (g.suit[(size_t)(i * g.cols + j)]) g.cells.push_back({i, j});
    if (k >= 90 && k < 95) for (size_t t = g.cells.size(); t > 1; t--) std::swap(g.cells[t - 1], g.cells[(size_t)rng.in(0, (int)t - 1)]);
    return g;
}

static bool allowed(const Grid& g, int i, int j) { return !g.restrict_to_suitable || g.suit[(size_t)(i * g.cols + j)]; }
static int val(Rng& rng, bool neg) { if (neg && rng.coin(30)) return -rng.in(1, 3); return rng.coin(85) ? rng.in(1, 9) : rng.in(10, 5000); }

static void put_edge(Rng& rng, const Grid& g, Raster<int>& r, bool neg) {
    int side = rng.in(0, 3); int i, j;
    if (side == 0) { i = 0; j = rng.in(0, g.cols - 1); }
    else if (side == 1) { i = g.rows - 1; j = rng.in(0, g.cols - 1); }
    else if (side == 2) { i = rng.in(0, g.rows - 1); j = g.cols - 1; }
    else { i = rng.in(0, g.rows - 1); j = 0; }
    if (allowed(g, i, j)) r(i, j) = val(rng, neg);
}

static Raster<int> gen_inf(Rng& rng, const Grid& g, bool neg) {
    Raster<int> r(g.rows, g.cols, 0);
    int k = rng.in(0, 99);
    if (k < 8) return r;                                        // no infection
    if (k < 28) { int i = rng.in(0, g.rows - 1), j = rng.in(0, g.cols - 1); if (allowed(g, i, j)) r(i, j) = val(rng, neg); return r; }
    if (k < 43) { int m = rng.in(1, 3); for (int t = 0; t < m; t++) put_edge(rng, g, r, neg); return r; }
    int pct = k < 70 ? 15 : (k < 90 ? 40 : 90);
    for (int i = 0; i < g.rows; i++) for (int j = 0; j < g.cols; j++) if (allowed(g, i, j) && rng.coin(pct)) r(i, j) = val(rng, neg);
    return r;
}

static Raster<int> mutate(Rng& rng, const Grid& g, const Raster<int>& prev, bool neg) {
    Raster<int> r(prev);
    int k = rng.in(0, 99);
    if (k < 20) return r;                                       // unchanged: zero displacement everywhere
    if (k < 55) { int m = rng.in(1, 3); for (int t = 0; t < m; t++) { int i = rng.in(0, g.rows - 1), j = rng.in(0, g.cols - 1); if (allowed(g, i, j)) r(i, j) = val(rng, neg); } return r; }
    if (k < 65) { put_edge(rng, g, r, neg); return r; }
    if (k < 80) { for (int i = 0; i < g.rows; i++) for (int j = 0; j < g.cols; j++) if (r(i, j) != 0 && rng.coin(40)) r(i, j) = 0; return r; }
    if (k < 85) return Raster<int>(g.rows, g.cols, 0);          // dies out
    return gen_inf(rng, g, neg);
}

static bool any_inf(const Raster<int>& r) { for (int i = 0; i < r.rows(); i++) for (int j = 0; j < r.cols(); j++) if (r(i, j) > 0) return true; return false; }

static void emit_spread(verif::Case& c, const Grid& g, bool neg) {
    Rng& rng = c.rng; std::ostream& out = c.out;
    int nruns = rng.coin(85) ? rng.in(1, 4) : rng.in(5, 8);
    unsigned K = (unsigned)rng.in(1, 5);                        // 2..6 measurements per run
    std::vector<SR> runs;
    for (int run = 0; run < nruns; run++) {
        Raster<int> cur = gen_inf(rng, g, neg);
        HP hp{&cur, &g.cells};
        runs.emplace_back(hp, g.rows, g.cols, g.ew, g.ns, K);
        SR& sr = runs.back();
        out << "metric.sr.new " << run << " " << K << " " << data(cur) << " => " << box((sr.*get(SRb())).at(0)) << "\n";
        if (any_inf(cur) && g.rows * g.cols > 1) c.nontrivial = true;
        bool odd = rng.coin(6);
        for (unsigned s = 0; s < K; s++) {
            unsigned step = s;
            if (odd && rng.coin(40)) { step = (unsigned)rng.in(0, (int)K + 1); stats.add("sr_step_out_of_sequence"); }
            bool prev_inf = any_inf(cur);
            cur = mutate(rng, g, cur, neg);
            hp.inf = &cur;
            out << "metric.sr.act " << run << " " << step << " " << data(cur) << " => ";
            std::string e = verif::err_kind([&] { sr.action(hp, step); });
            if (!e.empty()) { out << e << "\n"; stats.add("sr_act_rejected"); continue; }
            BBoxFloat r = sr.step_rate(step);
            out << box((sr.*get(SRb())).at(step + 1)) << " " << rates(r) << "\n";
            bool now_inf = any_inf(cur);
            if (now_inf && g.rows * g.cols > 1) c.nontrivial = true;
            if (!now_inf) stats.add("rate_undefined_no_infection");
            else if (!prev_inf) stats.add("rate_previous_measurement_empty");
            else {
                double v[4] = {std::get<0>(r), std::get<1>(r), std::get<2>(r), std::get<3>(r)};
                for (double x : v) stats.add(std::isnan(x) ? "rate_undefined_edge" : (x == 0 ? "rate_zero" : (x < 0 ? "rate_negative" : "rate_positive")));
            }
        }
    }
    for (unsigned s = 0; s < K; s++) {
        out << "metric.sr.avg " << s << " " << nruns;
        for (auto& sr : runs) out << " " << rates(sr.step_rate(s));
        BBoxFloat a = average_spread_rate(runs, s);
        out << " => " << rates(a) << "\n";
        stats.add(std::isnan(std::get<0>(a)) ? "avg_undefined" : "avg_defined");
    }
}

static std::string gen_dirs(Rng& rng, bool& valid) {
    valid = true;
    int k = rng.in(0, 99);
    if (k < 10) { stats.add("dirs_empty_string_all"); return ""; }
    if (k < 14) {
        valid = false; stats.add("dirs_invalid");
        static const std::vector<std::string> bad = {"X", "N,,S", "n", "NS", ",", "N;S", "NE", ",N", "N,E,Q", "None"};
        return rng.pick(bad);
    }
    int mask = rng.in(1, 15);
    stats.add("dirs_mask_" + std::to_string(mask));
    std::vector<std::string> t;
    if (mask & 1) t.push_back("N");
    if (mask & 2) t.push_back("S");
    if (mask & 4) t.push_back("E");
    if (mask & 8) t.push_back("W");
    for (size_t i = t.size(); i > 1; i--) std::swap(t[i - 1], t[(size_t)rng.in(0, (int)i - 1)]);
    if (rng.coin(10)) t.push_back(t[0]);                        // duplicate
    std::string s;
    for (auto& x : t) { if (!s.empty()) s += ","; s += x; }
    if (rng.coin(8)) s += ",";                                   // trailing delimiter: no extra token
    return s;
}

static Raster<int> gen_areas(Rng& rng, const Grid& g, bool negids) {
    Raster<int> a(g.rows, g.cols, 0);
    static const std::vector<int> ids = {1, 2, 3, 4, 7, 12};
    int k = rng.in(0, 99);
    int nareas = k < 10 ? 0 : (k < 45 ? 1 : (k < 75 ? 2 : 3));
    stats.add("areas_" + std::to_string(nareas));
    for (int t = 0; t < nareas; t++) {
        int id = rng.pick(ids);
        if (t == 0 && rng.coin(25)) { for (int i = 0; i < g.rows; i++) for (int j = 0; j < g.cols; j++) a(i, j) = id; continue; }
        int i0 = rng.in(0, g.rows - 1), i1 = rng.in(i0, g.rows - 1), j0 = rng.in(0, g.cols - 1), j1 = rng.in(j0, g.cols - 1);
        if (rng.coin(40)) { i0 = rng.in(0, g.rows / 3); i1 = rng.in(g.rows - 1 - g.rows / 3, g.rows - 1); j0 = rng.in(0, g.cols / 3); j1 = rng.in(g.cols - 1 - g.cols / 3, g.cols - 1); }   // a large rectangle
        for (int i = i0; i <= i1; i++) for (int j = j0; j <= j1; j++) a(i, j) = id;
    }
    if (nareas > 0 && rng.coin(40)) {                           // ragged outlines, holes, scattered cells
        int m = rng.in(1, 4);
        for (int t = 0; t < m; t++) a(rng.in(0, g.rows - 1), rng.in(0, g.cols - 1)) = rng.coin(40) ? 0 : rng.pick(ids);
    }
    if (negids) {                                               // ids below 0 (nodata values and the like)
        static const std::vector<int> nids = {-1, -1, -9999, -9999, -2, -3};
        int nid = rng.pick(nids);
        int how = rng.in(0, 99);
        if (how < 40) {                                         // one to three single cells
            int m = rng.in(1, 3);
            for (int t = 0; t < m; t++) a(rng.in(0, g.rows - 1), rng.in(0, g.cols - 1)) = rng.coin(80) ? nid : rng.pick(nids);
            stats.add("negids_single_cells");
        }
        else if (how < 70) {                                    // a margin strip: one border row or column
            int side = rng.in(0, 3);
            if (side < 2) { int i = side == 0 ? 0 : g.rows - 1; for (int j = 0; j < g.cols; j++) a(i, j) = nid; }
            else { int j = side == 2 ? 0 : g.cols - 1; for (int i = 0; i < g.rows; i++) a(i, j) = nid; }
            stats.add("negids_margin_strip");
        }
        else if (how < 90) {                                    // every cell outside the areas carries the nodata value
            bool any = false;
            for (int i = 0; i < g.rows; i++) for (int j = 0; j < g.cols; j++) if (a(i, j) == 0) { a(i, j) = nid; any = true; }
            if (!any) a(rng.in(0, g.rows - 1), rng.in(0, g.cols - 1)) = nid;
            stats.add("negids_instead_of_zero");
        }
        else {                                                  // no positive id at all
            for (int i = 0; i < g.rows; i++) for (int j = 0; j < g.cols; j++) a(i, j) = rng.coin(85) ? nid : 0;
            a(rng.in(0, g.rows - 1), rng.in(0, g.cols - 1)) = nid;
            stats.add("negids_no_positive_id");
        }
    }
    return a;
}

static void dirs_enabled(const std::string& dirs, bool en[4]) {   // N, S, E, W; the empty string enables all
    static const char name[4] = {'N', 'S', 'E', 'W'};
    for (int t = 0; t < 4; t++) en[t] = dirs.empty() || dirs.find(name[t]) != std::string::npos;
}

static void area_box(const Grid& g, const Raster<int>& areas, int id, int& n, int& s, int& e, int& w) {
    n = g.rows; s = -1; e = -1; w = g.cols;
    for (int a = 0; a < g.rows; a++) for (int b = 0; b < g.cols; b++) if (areas(a, b) == id) { n = std::min(n, a); s = std::max(s, a); e = std::max(e, b); w = std::min(w, b); }
}

static Raster<int> gen_qinf_plain(Rng& rng, const Grid& g, const Raster<int>& areas, const std::string& dirs, bool neg);

// on_neg: -1 the area raster has no negative id; 0 no infected cell on a negative id (those cells are
// cleared); 1 at least one infected listed cell on a negative id (when a listed cell has one).
static Raster<int> gen_qinf(Rng& rng, const Grid& g, const Raster<int>& areas, const std::string& dirs, bool neg, int on_neg) {
    Raster<int> r = gen_qinf_plain(rng, g, areas, dirs, neg);
    if (on_neg < 0) return r;
    std::vector<std::pair<int, int>> negcells;
    for (auto& cell : g.cells) if (areas(cell[0], cell[1]) < 0) negcells.push_back({cell[0], cell[1]});
    if (on_neg == 0) { for (int i = 0; i < g.rows; i++) for (int j = 0; j < g.cols; j++) if (areas(i, j) < 0) r(i, j) = 0; return r; }
    if (negcells.empty()) return r;
    int m = rng.coin(70) ? 1 : rng.in(2, 3);
    for (int t = 0; t < m; t++) { auto p = rng.pick(negcells); r(p.first, p.second) = val(rng, neg); }
    if (rng.coin(35)) {                                         // and nothing else infected: the cell on the negative id decides alone
        for (int i = 0; i < g.rows; i++) for (int j = 0; j < g.cols; j++) if (areas(i, j) >= 0) r(i, j) = 0;
    }
    return r;
}

static Raster<int> gen_qinf_plain(Rng& rng, const Grid& g, const Raster<int>& areas, const std::string& dirs, bool neg) {
    if (rng.coin(30)) return gen_inf(rng, g, neg);
    Raster<int> r(g.rows, g.cols, 0);
    std::vector<std::pair<int, int>> in, deep;      // deep: at least one cell away from every enabled side of its area's box
    bool en[4]; dirs_enabled(dirs, en);
    for (int i = 0; i < g.rows; i++) for (int j = 0; j < g.cols; j++) if (areas(i, j) != 0 && allowed(g, i, j)) {
        in.push_back({i, j});
        if (areas(i, j) < 0) continue;
        int n, s, e, w; area_box(g, areas, areas(i, j), n, s, e, w);
        if ((!en[0] || i > n) && (!en[1] || i < s) && (!en[2] || j < e) && (!en[3] || j > w)) deep.push_back({i, j});
    }
    if (in.empty()) return r;
    // several infected cells, all with non-zero distances: with a non-integer resolution their exact
    // distances often differ by less than 1/2, and the nearest side is decided by the fractions
    bool use_deep = !deep.empty() && rng.coin(70);
    if (use_deep) stats.add("q_infection_away_from_enabled_sides");
    const auto& pool = use_deep ? deep : in;
    int m = rng.coin(25) ? 1 : rng.in(2, 8);
    for (int t = 0; t < m; t++) { auto p = rng.pick(pool); r(p.first, p.second) = val(rng, neg); }
    return r;
}

// Input-distribution survey of one contained report (never a verdict; the driver judges): all
// (infected cell, enabled side) pairs in scan order with their exact distances.
struct Survey { bool ok = false; int cells = 0; int min_sides = 0; bool other_side_within_half = false; bool rounded_compare_picks_other_side = false; };
static Survey survey_nearest(const Grid& g, const Raster<int>& areas, const Raster<int>& inf, const std::string& dirs) {
    bool en[4]; dirs_enabled(dirs, en);
    Survey sv;
    std::vector<std::pair<double, int>> cand;
    // what a comparison of rounded values would keep: `x < (int)min` inside a cell, rounded results across cells
    bool r_any = false; long r_best = 0; int r_side = -1;
    for (auto& cell : g.cells) {
        int i = cell[0], j = cell[1];
        if (!inf(i, j)) continue;
        int id = areas(i, j); if (id <= 0) return sv;
        sv.cells++;
        int n, s, e, w; area_box(g, areas, id, n, s, e, w);
        double d[4] = {(i - n) * g.ns, (s - i) * g.ns, (e - j) * g.ew, (j - w) * g.ew};
        bool c_any = false; long c_min = 0; int c_side = -1;
        for (int t = 0; t < 4; t++) if (en[t]) {
            cand.push_back({d[t], t});
            if (!c_any || d[t] < (double)c_min) { c_any = true; c_min = std::lround(d[t]); c_side = t; }
        }
        if (c_any && (!r_any || c_min < r_best)) { r_any = true; r_best = c_min; r_side = c_side; }
    }
    if (cand.empty()) return sv;
    sv.ok = true;
    double best = cand[0].first;
    for (auto& x : cand) best = std::min(best, x.first);
    for (auto& x : cand) if (x.first == best) sv.min_sides |= 1 << x.second;
    for (auto& x : cand) if (!(sv.min_sides & (1 << x.second)) && x.first - best < 0.5) sv.other_side_within_half = true;
    sv.rounded_compare_picks_other_side = !(sv.min_sides & (1 << r_side));
    return sv;
}

static void print_table(std::ostream& out, const QE& q) {
    const auto& bs = q.*get(QEb()); const auto& mp = q.*get(QEm());
    std::vector<std::pair<int, int>> byidx;                 // (idx, id)
    for (auto& kv : mp) byidx.push_back({kv.second, kv.first});
    std::sort(byidx.begin(), byidx.end());
    out << "ok " << byidx.size();
    for (auto& p : byidx) out << " " << p.second << " " << box(bs.at((size_t)p.first));
    out << "\n";
}

static void print_report(std::ostream& out, const QE& q, unsigned step) {
    out << "ok " << (q.escaped(step) ? 1 : 0) << " " << drat(q.distance(step)) << " " << quarantine_enum_to_string(q.direction(step)) << " " << q.direction(step) << "\n";
}

static void print_aggregates(std::ostream& out, const std::vector<QE>& runs, unsigned K, unsigned upto) {
    int nruns = (int)runs.size();
    for (unsigned s = 0; s < upto; s++) {
        out << "metric.q.prob " << s << " " << nruns;
        if (s < K) for (auto& q : runs) out << " " << (std::get<0>(q.escape_info(s)) ? 1 : 0);
        out << " => ";
        double p = 0; std::string e = verif::err_kind([&] { p = quarantine_escape_probability(runs, s); });
        if (e.empty()) out << drat(p) << "\n"; else out << e << "\n";
        out << "metric.q.dd " << s << " " << nruns << " => ";
        std::vector<DistDir> dd; e = verif::err_kind([&] { dd = distance_direction_to_quarantine(runs, s); });
        if (e.empty()) { bool first = true; for (auto& x : dd) { out << (first ? "" : " ") << drat(std::get<0>(x)) << " " << std::get<1>(x); first = false; } out << "\n"; }
        else out << e << "\n";
    }
    std::string csv = write_quarantine_escape(runs, K);
    for (auto& ch : csv) if (ch == '\n') ch = '|';
    out << "metric.q.csv " << K << " " << nruns << " => " << csv << "\n";
    stats.add("csv_texts");
}

static void print_grid(std::ostream& out, const Grid& g) {
    out << "metric.grid " << g.rows << " " << g.cols << " " << drat(g.ew) << " " << drat(g.ns) << " " << g.cells.size();
    for (auto& cell : g.cells) out << " " << cell[0] << " " << cell[1];
    out << " => -\n";
}

// One fixed layout: a single area (id 1) covering the whole raster, all cells suitable, the given
// infected cells, one run, one measurement.
static void emit_fixed(verif::Case& c, int rows, int cols, double ew, double ns, const std::string& dirs,
                       const std::vector<std::pair<int, int>>& infected) {
    std::ostream& out = c.out;
    Grid g; g.rows = rows; g.cols = cols; g.ew = ew; g.ns = ns; g.int_res = false; g.restrict_to_suitable = true;
    g.suit.assign((size_t)(rows * cols), 1);
    for (int i = 0; i < rows; i++) for (int j = 0; j < cols; j++) g.cells.push_back({i, j});
    print_grid(out, g);
    Raster<int> areas(rows, cols, 1), inf(rows, cols, 0);
    for (auto& p : infected) inf(p.first, p.second) = 1;
    out << "metric.q.new 1 " << dirs << " 1 " << data(areas) << " => ";
    QE q(areas, ew, ns, 1, dirs);
    print_table(out, q);
    HP hp{&inf, &g.cells};
    out << "metric.q.act 0 0 same " << data(inf) << " => ";
    q.action(hp, areas, 0);
    print_report(out, q, 0);
    std::vector<QE> runs(1, q);
    print_aggregates(out, runs, 1, 1);
    c.nontrivial = true;
    stats.add("fixed_rounding_order_layouts");
    Survey sv = survey_nearest(g, areas, inf, dirs);
    if (sv.ok && sv.rounded_compare_picks_other_side) stats.add("q_rounded_comparison_would_pick_a_farther_side");
}

// One fixed layout with a given area raster (row-major ids), all cells suitable, one run, one
// measurement; the constructor or the action may throw.
static void emit_fixed_areas(verif::Case& c, int rows, int cols, double ew, double ns, const std::string& dirs,
                             const std::vector<int>& ids, const std::vector<std::pair<int, int>>& infected, const char* tag) {
    std::ostream& out = c.out;
    Grid g; g.rows = rows; g.cols = cols; g.ew = ew; g.ns = ns; g.int_res = true; g.restrict_to_suitable = true;
    g.suit.assign((size_t)(rows * cols), 1);
    for (int i = 0; i < rows; i++) for (int j = 0; j < cols; j++) g.cells.push_back({i, j});
    print_grid(out, g);
    Raster<int> areas(rows, cols, 0), inf(rows, cols, 0);
    for (int i = 0; i < rows; i++) for (int j = 0; j < cols; j++) areas(i, j) = ids.at((size_t)(i * cols + j));
    for (auto& p : infected) inf(p.first, p.second) = 1;
    out << "metric.q.new 1 " << (dirs.empty() ? "<empty>" : dirs) << " 1 " << data(areas) << " => ";
    QE q(areas, ew, ns, 1, dirs);
    print_table(out, q);
    HP hp{&inf, &g.cells};
    out << "metric.q.act 0 0 same " << data(inf) << " => ";
    std::string e = verif::err_kind([&] { q.action(hp, areas, 0); });
    if (!e.empty()) out << e << "\n"; else print_report(out, q, 0);
    std::vector<QE> runs(1, q);
    print_aggregates(out, runs, 1, 1);
    c.nontrivial = true;
    stats.add(tag);
}

// Case 0. (a) 52 x 1, ns = 0.4 (the only non-dyadic value the harness uses; 26 x 0.4 and 25 x 0.4 round
// to 10.4 and exactly 10.0 in double precision), infected cell in row 26, sides N and S: north edge at
// 10.4, south edge at 10.0 - the nearest side is S. (b) the same shape of example with dyadic numbers:
// 10 x 1, ns = 1/4, infected row 5: north 1.25, south 1.0. (c) two infected cells, 1 x 12, ew = 1/4,
// sides E and W: column 5 is 1.25 from W, column 7 is 1.0 from E - each cell alone rounds to 1.
static void emit_case0(verif::Case& c) {
    emit_fixed(c, 52, 1, 1.0, 0.4, "N,S", {{26, 0}});
    emit_fixed(c, 10, 1, 1.0, 0.25, "N,S", {{5, 0}});
    emit_fixed(c, 1, 12, 0.25, 1.0, "E,W", {{0, 5}, {0, 7}});
    // finding F30: an infected cell whose area id is negative lies outside every quarantine area
    // (a) measured against the box of area 1 (columns 2..4): reported (-2, W) instead of an escape
    emit_fixed_areas(c, 1, 5, 1.0, 1.0, "E,W", {-1, -1, 1, 1, 1}, {{0, 0}}, "fixed_negative_id_measured_against_first_area");
    // (b) no positive id at all: boundaries.at(0) throws std::out_of_range
    emit_fixed_areas(c, 2, 3, 1.0, 1.0, "", {-1, -1, -1, -1, -1, -1}, {{1, 1}}, "fixed_negative_id_no_area_registered");
    // (c) the layout of (a), infection inside area 1: negative ids at non-infected cells change nothing
    emit_fixed_areas(c, 1, 5, 1.0, 1.0, "E,W", {-1, -1, 1, 1, 1}, {{0, 3}}, "fixed_negative_id_at_uninfected_cells");
}

static void emit_quarantine(verif::Case& c, const Grid& g, bool neg) {
    Rng& rng = c.rng; std::ostream& out = c.out;
    bool negids = rng.coin(12);
    bool neg_infected = negids && rng.coin(50);                 // an infected cell sits on a negative id (finding F30)
    if (negids) stats.add(neg_infected ? "areas_with_negative_id_infected_there" : "areas_with_negative_id_infection_elsewhere");
    Raster<int> areas = gen_areas(rng, g, negids);
    bool valid; std::string dirs = gen_dirs(rng, valid);
    int nruns = rng.coin(85) ? rng.in(1, 4) : rng.in(5, 8);
    unsigned K = (unsigned)rng.in(1, 4);
    out << "metric.q.new " << nruns << " " << (dirs.empty() ? "<empty>" : dirs) << " " << K << " " << data(areas) << " => ";
    QE* proto = nullptr;
    std::string e0 = verif::err_kind([&] { proto = new QE(areas, g.ew, g.ns, K, dirs); });
    if (!e0.empty()) { out << e0 << "\n"; stats.add("q_new_rejected"); return; }
    print_table(out, *proto);
    std::vector<QE> runs((size_t)nruns, *proto);
    delete proto;
    for (int run = 0; run < nruns; run++) {
        bool odd = rng.coin(5);
        for (unsigned s = 0; s < K; s++) {
            unsigned step = s;
            if (odd && rng.coin(40)) { step = (unsigned)rng.in(0, (int)K + 1); stats.add("q_step_out_of_sequence"); }
            // with negative ids: half of the cases keep the infection off them in every measurement, the
            // other half put an infected cell on one in most measurements
            Raster<int> inf = gen_qinf(rng, g, areas, dirs, neg, !negids ? -1 : (neg_infected && rng.coin(85) ? 1 : 0));
            HP hp{&inf, &g.cells};
            bool diff = rng.coin(2);
            Raster<int> areas2 = diff ? gen_areas(rng, g, false) : areas;
            if (diff) stats.add("q_act_with_other_areas_raster");
            out << "metric.q.act " << run << " " << step << " " << (diff ? "diff " : "same ") << data(inf);
            if (diff) out << " " << data(areas2);
            out << " => ";
            bool on_negative = false;                           // an infected listed cell with a negative id
            for (auto& cell : g.cells) if (inf(cell[0], cell[1]) != 0 && areas2(cell[0], cell[1]) < 0) on_negative = true;
            if (on_negative) stats.add("q_infected_cell_on_negative_id");
            else if (negids && !diff) stats.add("q_negative_ids_at_uninfected_cells_only");
            std::string e = verif::err_kind([&] { runs[(size_t)run].action(hp, areas2, step); });
            if (!e.empty()) { out << e << "\n"; stats.add("q_act_rejected"); if (on_negative) stats.add("q_on_negative_id_threw"); continue; }
            const QE& q = runs[(size_t)run];
            print_report(out, q, step);
            if (on_negative) stats.add(q.escaped(step) ? "q_on_negative_id_escape_reported" : "q_on_negative_id_no_escape_reported");
            if (q.escaped(step)) stats.add("q_escaped");
            else if (q.direction(step) == Direction::None) stats.add("q_no_infected_cell");
            else {
                stats.add("q_contained"); if (g.rows * g.cols > 1) c.nontrivial = true;
                stats.add(std::string("q_dir_") + quarantine_enum_to_string(q.direction(step)));
                Survey sv;
                if (!diff) sv = survey_nearest(g, areas, inf, dirs);   // not ok when an infected cell has an id <= 0
                if (sv.ok) {                                    // in the domain of the nearest-cell statement
                    stats.add(g.int_res ? "q_contained_integer_res" : "q_contained_noninteger_res");
                    if (sv.cells > 1) stats.add("q_contained_several_infected_cells");
                    if ((sv.min_sides & (sv.min_sides - 1)) != 0) stats.add("q_nearest_attained_by_several_sides");
                    if (sv.other_side_within_half) stats.add("q_other_side_within_half_of_nearest");
                    if (sv.rounded_compare_picks_other_side) stats.add("q_rounded_comparison_would_pick_a_farther_side");
                }
            }
        }
    }
    print_aggregates(out, runs, K, rng.coin(10) ? K + 1 : K);     // sometimes one step past the end
}

static void emit_case(verif::Case& c) {
    Rng& rng = c.rng; std::ostream& out = c.out;
    if (c.index == 0) { emit_case0(c); return; }
    Grid g = gen_grid(rng);
    bool neg = rng.coin(3);
    if (neg) stats.add("rasters_with_negative_values");
    print_grid(out, g);
    emit_spread(c, g, neg);
    emit_quarantine(c, g, neg);
    int m = rng.in(1, 3);
    for (int t = 0; t < m; t++) {
        Raster<int> inf = gen_inf(rng, g, neg);
        unsigned sum = sum_of_infected(inf, g.cells);
        double area = area_of_infected(inf, g.ew, g.ns, g.cells);
        out << "metric.stat " << data(inf) << " => " << sum << " " << drat(area) << "\n";
        stats.add("stat_calls");
    }
}

int main(int argc, char** argv) {
    std::ios::sync_with_stdio(false);
    std::string mode = argc > 1 ? argv[1] : "mix";
    uint64_t seed = argc > 2 ? std::stoull(argv[2]) : 1;
    long first = argc > 3 ? std::stol(argv[3]) : 0;
    long count = argc > 4 ? std::stol(argv[4]) : 1000;
    if (mode == "mix") verif::run_cases("h_metric", mode, seed, first, count, [&](verif::Case& c) { emit_case(c); });
    stats.dump("h_metric");
    return 0;
}
