// Correspondence harness for the deprecated pops::Simulation wrapper (simulation.hpp, anchor of
// C09): random consistent landscapes driven only through the public methods of Simulation
// (remove, remove_percentage, mortality, movement, generate, disperse, disperse_and_infect,
// move_overpopulated_pests, activate_soils). After every call the harness prints exactly the
// protocol line the equivalent direct operation prints in h_host.cpp / h_model.cpp, so that the
// host-pool driver engine checks Simulation's results against the same L1 model and property
// predicates. Every call is also repeated with the wrapped action class on a full HostPool over
// an identical copy of the landscape with an identical provider; when the host rasters or the
// suitable cells differ, the pair  hp.state (Simulation) / hp.after simulation_wrapper_differs
// (direct run)  is printed, which the driver reports as PROPFAIL C09.
// Usage: h_sim <mode> <seed> <first> <count>     modes: sim
#include <algorithm>
#include <pops/simulation.hpp>
#include <pops/neighbor_kernel.hpp>
#include "host_common.hpp"
using namespace pops;
using namespace verif;

static Stats stats;

using Sim = Simulation<IRaster, DRaster, int, Provider>;
using Soil = SoilPool<IRaster, DRaster, int, Provider>;

// Everything a Simulation call reads or writes; copyable, so that the direct run starts from an
// identical landscape, identical pest rasters and an identical provider (scripts included).
struct World {
    HostState h;
    IRaster npop;  // total_populations argument when it is not the total host raster
    DRaster weather, temps;
    IRaster disp, est;
    std::vector<std::tuple<int, int>> outside;
    std::vector<IRaster> soil;
    Provider prov;
    World(int rows, int cols, int ne, int nm, int nsoil, uint64_t pseed)
        : h(rows, cols, ne, nm), npop(rows, cols, 0), weather(rows, cols, 1.0), temps(rows, cols, 0.0), disp(rows, cols, 0),
          est(rows, cols, 0), soil((size_t)nsoil, IRaster(rows, cols, 0)), prov(pseed) {}
};

// Overpopulation kernel with one destination per source cell (a table), every call logged.
struct TableKernel {
    const std::vector<std::pair<int, int>>* table; int cols; std::vector<std::pair<int, int>>* log;
    template <class G> std::tuple<int, int> operator()(G&, int row, int col) {
        auto t = (*table)[(size_t)(row * cols + col)]; if (log) log->push_back(t); return std::make_tuple(t.first, t.second);
    }
};

struct KernelLog { std::vector<std::pair<int, int>> targets; };

// Injected dispersal kernel (same target mix as h_model.cpp): inside / at the source / just
// outside / far outside, every result logged.
//  * spread mode: the establishment uniforms of the call are scripted before the call; the L1
//    spread of the driver models the landing of Model::run_step (MultiHostPool: a landing with
//    suitability 0 draws nothing) while Simulation lands on a plain HostPool (draws whenever a
//    susceptible host is present). In exactly that situation (stochastic establishment,
//    susceptible > 0, weather coefficient 0) one unlogged uniform is put in front of the script.
//  * landing mode (Simulation without environment in an SEI model: the total population is
//    computed as s + i and changes while dispersers land): every landing is printed as one
//    hp.dispto line, state observed at the next kernel call.
struct SimKernel {
    World* w; Rng rng; KernelLog* log; int rows, cols;
    bool est_stoch, weather_on, landing;
    std::ostream* out; int pestn;
    struct Pending { bool active = false; int r = 0, c = 0, orow = 0, ocol = 0, est_before = 0, n = 0, un = 1; } pend;
    SimKernel(World* w_, uint64_t seed, KernelLog* log_, int rows_, int cols_, bool est_stoch_, bool weather_on_, bool landing_, std::ostream* out_, int pestn_)
        : w(w_), rng(seed), log(log_), rows(rows_), cols(cols_), est_stoch(est_stoch_), weather_on(weather_on_), landing(landing_), out(out_), pestn(pestn_) {}
    template <class G> std::tuple<int, int> operator()(G&, int row, int col) {
        if (landing) flush(w->h.snapshot());
        int r, c, k = rng.in(0, 99);
        if (k < 60) { r = rng.in(0, rows - 1); c = rng.in(0, cols - 1); }
        else if (k < 75) { r = row; c = col; }
        else if (k < 90) { r = rng.coin() ? -1 : rows; c = rng.in(-1, cols); }
        else { r = rng.coin() ? -1000 : 1000 + rows; c = rng.coin() ? -7 : 4000; }
        log->targets.emplace_back(r, c);
        bool inside = r >= 0 && r < rows && c >= 0 && c < cols;
        ScriptedEngine& eng = w->prov.establishment();
        if (landing) {
            eng.script.clear();
            int un = odd2p20(rng);
            if (inside) {
                if (est_stoch) eng.push_uniform_2p20(un);
                pend.active = true; pend.r = r; pend.c = c; pend.orow = row; pend.ocol = col;
                pend.est_before = w->est(row, col); pend.n = w->h.s(r, c) + w->h.i(r, c); pend.un = un;
            }
        } else if (inside && est_stoch && weather_on && w->h.s(r, c) > 0 && w->weather(r, c) == 0.0) {
            eng.script.push_front((uint64_t)odd2p20(rng) << 44);
            if (out) stats.add("unlogged_uniform_for_zero_suitability_landing");
        }
        return std::make_tuple(r, c);
    }
    void flush(const std::string& snap) {
        if (!pend.active) return;
        pend.active = false;
        if (!out) return;
        int ret = w->est(pend.orow, pend.ocol) - pend.est_before;
        *out << "hp.dispto " << pend.r << " " << pend.c << " " << (est_stoch ? 1 : 0) << " " << rat2p20(pestn) << " " << rat2p20(pend.un) << " " << pend.n
             << " none none => " << ret << " " << snap << "\n";
        stats.add("landing_lines");
    }
    bool is_cell_eligible(int, int) { return true; }
    bool supports_kernel(const DispersalKernelType) { return true; }
};

static std::string rlist(const IRaster& r) { std::ostringstream o; for (int a = 0; a < r.rows(); a++) for (int b = 0; b < r.cols(); b++) o << " " << r(a, b); return o.str(); }
static const Direction DIRS[] = {Direction::N, Direction::NE, Direction::E, Direction::SE, Direction::S, Direction::SW, Direction::W, Direction::NW};
static const int DROW[] = {-1, -1, 0, 1, 1, 1, 0, -1};
static const int DCOL[] = {0, 1, 1, 1, 0, -1, -1, -1};

// full host pool for the direct run (as h_host.cpp builds it)
#define DIRECT_POOL(name, d, denv)                                                                                                    \
    Pool name(mt, (d).h.s, (d).h.e, (unsigned)latency, (d).h.i, (d).h.te, (d).h.r, (d).h.m, (d).h.died, (d).h.th, (denv), disp_stoch, \
              rr4 / 4.0, est_stoch, pestn / 1048576.0, rows, cols, (d).h.suitable)

static void sim_case(Case& c) {
    Rng& rng = c.rng;
    std::ostream& out = c.out;
    static const int shapes[][2] = {{1, 1}, {1, 3}, {2, 2}, {2, 3}, {3, 1}, {3, 2}, {1, 2}};
    int si = rng.in(0, 6);
    int rows = shapes[si][0], cols = shapes[si][1];
    bool sei = rng.coin(55);
    int latency = sei ? rng.in(0, 3) : 0;
    int ne = sei ? latency + 1 : (rng.coin(50) ? 0 : rng.in(1, 2));
    int nm = rng.in(1, 4);
    ModelType mt = sei ? ModelType::SusceptibleExposedInfected : ModelType::SusceptibleInfected;
    bool env_set = rng.coin(75);             // Simulation::set_environment called?
    bool use_weather = env_set && rng.coin(55);
    bool soils = use_weather && rng.coin(20);  // the soil pool reads the weather coefficient
    bool same_pop = rng.coin(50);            // total_populations argument = total host raster
    bool landing_mode = !env_set && sei;     // see SimKernel
    World w(rows, cols, ne, nm, rng.in(1, 3), rng.next());
    w.h.randomize(rng, sei);
    bool capped = rng.coin(50);
    if (capped) {  // small infection: many dispersers per infected host stay tractable
        for (int a = 0; a < rows; a++) for (int b = 0; b < cols; b++) {
            int excess = 0;
            for (auto& m : w.h.m) { if (m(a, b) > 3) { excess += m(a, b) - 3; m(a, b) = 3; } }
            w.h.i(a, b) -= excess; w.h.s(a, b) += excess;
        }
    }
    bool disp_stoch = rng.coin(35), est_stoch = rng.coin(60), move_stoch = rng.coin(50);
    int pestn = odd2p20(rng);
    int rr4 = capped ? rng.in(0, 8) : rng.in(0, 2);
    int soil64 = rng.in(0, 64);
    Sim sim(rows, cols, mt, (unsigned)latency, disp_stoch, est_stoch, move_stoch);
    Env env;
    if (env_set) {
        if (use_weather) env.update_weather_coefficient(w.weather);
        env.update_temperature(w.temps);
        sim.set_environment(&env);
    } else {
        // the environment of a Simulation without set_environment is one function-local static
        // object shared by all Simulation objects of the type: start from a clean one
        sim.environment(true)->remove_hosts();
    }
    std::shared_ptr<Soil> soil_pool;
    bool soil_gen_stoch = rng.coin(35), soil_est_stoch = rng.coin(60);
    if (soils) {
        soil_pool = std::make_shared<Soil>(w.soil, env, soil_gen_stoch, soil_est_stoch, pestn / 1048576.0);
        sim.activate_soils(soil_pool, soil64 / 64.0);
        stats.add("cases_soils");
    }
    // movements: rows with non-decreasing steps, mostly one row per step
    int mstep = rng.in(0, 3);
    unsigned last = 0;
    std::vector<std::vector<int>> movements;
    std::vector<unsigned> schedule;
    {
        int nrows = rng.in(0, 6); unsigned cur = (unsigned)mstep;
        for (int k = 0; k < nrows; k++) {
            int q = rng.in(0, 99);
            if (k > 0 || q < 50) cur += q < 65 ? 1u : (q < 85 ? 0u : 2u);
            movements.push_back({rng.in(0, rows - 1), rng.in(0, cols - 1), rng.in(0, rows - 1), rng.in(0, cols - 1), rng.coin(30) ? rng.in(0, 60) : rng.in(0, 10)});
            schedule.push_back(cur);
        }
    }
    auto bind_direct = [&](Env& denv, World& d) {
        if (!env_set) return;  // direct counterpart of "no environment": an environment without any data
        if (use_weather) denv.update_weather_coefficient(d.weather);
        denv.update_temperature(d.temps);
        denv.set_total_population(same_pop ? &d.h.th : &d.npop);
    };
    out << "hp.begin " << (sei ? "SEI" : "SI") << " " << latency << " " << rows << " " << cols << "\n";
    out << "hp.state => " << w.h.snapshot() << "\n";
    stats.add(sei ? "cases_sei" : "cases_si");
    stats.add(env_set ? "cases_env_set" : "cases_no_env");
    if (landing_mode) stats.add("cases_landing_mode");
    stats.add("shape_" + std::to_string(rows) + "x" + std::to_string(cols));
    int nops = rng.in(5, 14), kinds = 0; unsigned kindmask = 0;
    int step = rng.in(0, 4);
    bool overpop_done = false;
    int cur_w64[16];
    for (int k = 0; k < 16; k++) cur_w64[k] = 64;

    // differential verdict: only printed when the two runs differ
    auto simdiff = [&](const char* method, int op, World& d, const std::string& e_sim, const std::string& e_dir) {
        bool same = w.h.cells() == d.h.cells() && w.h.suit() == d.h.suit();
        if (!same) {
            out << "hp.state => " << w.h.snapshot() << "\n";
            out << "hp.after simulation_wrapper_differs " << method << " " << op << " => - " << d.h.snapshot() << "\n";
            out << "hp.state => " << w.h.snapshot() << "\n";
            stats.add("simdiff_differ");
        } else stats.add("simdiff_equal");
        if (e_sim != e_dir) stats.add("simdiff_error_kind_differs");
    };

    for (int op = 0; op < nops; op++) {
        int kind = rng.in(0, 11);
        if (kind == 9) kind = 3;              // more movement
        if (kind == 10) kind = 6;             // more disperse_and_infect
        if (kind == 11) kind = 2;             // more mortality
        if (kind == 5 && sei) kind = 4;       // the compatibility overload has no exposed rasters: SI only
        if (kind == 2 && !env_set && overpop_done) kind = 1;  // mortality may throw after overpopulation moves; a throw leaves the shared static environment dirty
        std::string err;
        if (kind == 0 && !env_set) {
            // Simulation::remove needs the environment for the temperature
            std::string before = w.h.snapshot();
            err = err_kind([&] { sim.remove(w.h.i, w.h.s, w.h.e, w.h.te, w.h.m, -5.0, w.h.suitable, w.prov); });
            sim.environment(true)->remove_hosts();  // the throw skipped Simulation's own clean-up
            stats.add(err == "err:logic_error" && before == w.h.snapshot() ? "remove_without_environment_logic_error" : "remove_without_environment_UNEXPECTED");
            continue;
        }
        if (!(kindmask & (1u << kind))) { kindmask |= 1u << kind; kinds++; }
        World d = w;  // identical copy, weather / npop / temperatures of this call are set below on both
        Env denv;
        std::string derr;
        switch (kind) {
        case 0: {  // remove = lethal temperature
            int thr = rng.in(-20, 0);
            std::ostringstream cs;
            for (int x = 0; x < rows; x++) for (int y = 0; y < cols; y++) { int t = rng.coin(40) ? thr + rng.in(-1, 1) : rng.in(-30, 10); w.temps(x, y) = t; d.temps(x, y) = t; cs << " " << t; }
            bind_direct(denv, d);
            err = err_kind([&] { sim.remove(w.h.i, w.h.s, w.h.e, w.h.te, w.h.m, (double)thr, w.h.suitable, w.prov); });
            out << "hp.lethal " << thr << cs.str() << " => " << (err.empty() ? "-" : err) << " " << w.h.snapshot() << "\n";
            { DIRECT_POOL(dpool, d, denv); RemoveByTemperature<Pool, IRaster, DRaster, int, Provider> act(denv, (double)thr); derr = err_kind([&] { act.action(dpool, d.prov); }); }
            simdiff("remove", op, d, err, derr); stats.add("op_remove"); break; }
        case 1: {  // remove_percentage = survival rate
            DRaster rates(rows, cols, 1.0);
            std::ostringstream cs;
            for (int x = 0; x < rows; x++) for (int y = 0; y < cols; y++) { int k64 = rng.coin(20) ? 64 : (rng.coin(15) ? 0 : rng.in(1, 63)); rates(x, y) = k64 / 64.0; cs << " " << rat64(k64); }
            bind_direct(denv, d);
            err = err_kind([&] { sim.remove_percentage(w.h.i, w.h.s, w.h.m, w.h.e, w.h.te, rates, w.h.suitable, w.prov); });
            out << "hp.survival" << cs.str() << " => " << (err.empty() ? "-" : err) << " " << w.h.snapshot() << "\n";
            { DIRECT_POOL(dpool, d, denv); SurvivalRateAction<Pool, IRaster, DRaster> act(rates); derr = err_kind([&] { act.action(dpool, d.prov); }); }
            simdiff("remove_percentage", op, d, err, derr); stats.add("op_remove_percentage"); break; }
        case 2: {  // mortality
            int r64 = rng.coin(15) ? 0 : (rng.coin(15) ? 64 : rng.in(1, 63));
            int lag = rng.in(0, nm);
            bind_direct(denv, d);
            err = err_kind([&] { sim.mortality(w.h.i, w.h.th, r64 / 64.0, lag, w.h.died, w.h.m, w.h.suitable); });
            out << "hp.mortality " << rat64(r64) << " " << lag << " => " << (err.empty() ? "-" : err) << " " << w.h.snapshot() << "\n";
            { DIRECT_POOL(dpool, d, denv); Mortality<Pool, IRaster, DRaster> act(r64 / 64.0, lag); derr = err_kind([&] { act.action(dpool); }); }
            simdiff("mortality", op, d, err, derr); stats.add("op_mortality"); break; }
        case 3: {  // movement: the moved count is not exposed, only the new cursor
            bind_direct(denv, d);
            unsigned ret = 0, dret = 0;
            err = err_kind([&] { ret = sim.movement(w.h.i, w.h.s, w.h.m, w.h.e, w.h.r, w.h.th, w.h.te, (unsigned)mstep, last, movements, schedule, w.h.suitable, w.prov); });
            out << "hp.movement " << mstep << " " << last;
            int due = 0;
            for (size_t k = 0; k < movements.size(); k++) {
                out << " " << schedule[k] << ":" << movements[k][0] << "," << movements[k][1] << "," << movements[k][2] << "," << movements[k][3] << "," << movements[k][4];
                if (k >= last && schedule[k] == (unsigned)mstep) due++;
            }
            out << " => " << (err.empty() ? std::to_string(ret) : err) << " " << w.h.snapshot() << "\n";
            { DIRECT_POOL(dpool, d, denv); HostMovement<Pool, IRaster, DRaster, int> act((unsigned)mstep, last, movements, schedule); derr = err_kind([&] { dret = act.action(dpool, d.prov); }); }
            simdiff("movement", op, d, err, derr);
            if (ret != dret) stats.add("movement_cursor_differs_from_direct");
            stats.add("op_movement"); stats.add(due == 0 ? "movement_rows_0" : due == 1 ? "movement_rows_1" : "movement_rows_many");
            last = ret; mstep++; break; }
        case 4: case 5: case 6: case 7: {  // generate + disperse / disperse_and_infect
            bool dai = kind >= 6;
            if (use_weather)
                for (int a = 0; a < rows; a++) for (int b = 0; b < cols; b++) { int w64 = rng.coin(15) ? 0 : (rng.coin(25) ? 64 : rng.in(0, 64)); w.weather(a, b) = w64 / 64.0; d.weather(a, b) = w64 / 64.0; cur_w64[a * cols + b] = w64; }
            for (int a = 0; a < rows; a++) for (int b = 0; b < cols; b++) {
                int v = w.h.th(a, b) + (rng.coin(50) ? 0 : rng.in(0, 10)); if (v == 0) v = rng.in(1, 4);
                w.npop(a, b) = v; d.npop(a, b) = v;
            }
            // the `weather` flag only selects whether a missing environment is an error
            bool wflag = env_set ? rng.coin(50) : false;
            bind_direct(denv, d);
            IRaster& total_pop = same_pop ? w.h.th : w.npop;
            uint64_t kseed = rng.next();
            KernelLog klog, dlog;
            SimKernel k1(&w, kseed, &klog, rows, cols, est_stoch, use_weather, landing_mode, &out, pestn);
            SimKernel k2(&d, kseed, &dlog, rows, cols, est_stoch, use_weather, landing_mode, nullptr, pestn);
            // population seen by the landing when no environment is set: s + i, constant in SI
            std::ostringstream np;
            for (int x = 0; x < rows; x++) for (int y = 0; y < cols; y++) np << (x + y ? "," : "") << (env_set ? total_pop(x, y) : w.h.s(x, y) + w.h.i(x, y));
            // 1. generate
            err = err_kind([&] { sim.generate(w.disp, w.est, w.h.i, wflag, rr4 / 4.0, w.h.suitable, w.prov); });
            DIRECT_POOL(dpool, d, denv);
            Pests dpests(d.disp, d.est, d.outside);
            SpreadAction<Pool, Pests, IRaster, DRaster, int, SimKernel, Provider> dspread(k2);
            std::shared_ptr<Soil> dsoil;
            if (soils) { dsoil = std::make_shared<Soil>(d.soil, denv, soil_gen_stoch, soil_est_stoch, pestn / 1048576.0); dspread.activate_soils(dsoil, soil64 / 64.0); }
            derr = err_kind([&] { dspread.generate(dpool, dpests, d.prov); });
            if (landing_mode && !disp_stoch && err.empty())
                for (auto& cell : w.h.suitable)
                    out << "hp.dispfrom " << cell[0] << " " << cell[1] << " " << rr4 << "/4 => " << w.disp(cell[0], cell[1]) << " " << w.h.snapshot() << "\n";
            // 2. scripted establishment uniforms: one per disperser that will be thrown
            std::vector<int> us;
            if (!landing_mode && err.empty()) {
                long total = 0;
                for (auto& cell : w.h.suitable) total += std::max(0, w.disp(cell[0], cell[1]));
                w.prov.establishment().script.clear(); d.prov.establishment().script.clear();
                for (long k = 0; k < total; k++) { int un = odd2p20(rng); us.push_back(un); w.prov.establishment().push_uniform_2p20(un); d.prov.establishment().push_uniform_2p20(un); }
            }
            size_t outside_seen = w.outside.size();
            size_t scripted = w.prov.establishment().script.size();
            // 3. disperse
            const char* method = "disperse";
            if (err.empty()) {
                if (kind == 4) err = err_kind([&] { sim.disperse(w.disp, w.est, w.h.s, w.h.e, w.h.i, w.h.m, total_pop, w.h.te, w.outside, wflag, k1, w.h.suitable, pestn / 1048576.0, w.prov); });
                else if (kind == 5) { method = "disperse_single_mortality_raster"; err = err_kind([&] { sim.disperse(w.disp, w.est, w.h.s, w.h.i, w.h.m.back(), total_pop, w.h.te, w.outside, wflag, k1, w.h.suitable, pestn / 1048576.0, w.prov); }); }
                else if (kind == 6) { method = "disperse_and_infect"; err = err_kind([&] { sim.disperse_and_infect((unsigned)step, w.disp, w.est, w.h.s, w.h.e, w.h.i, w.h.m, total_pop, w.h.te, w.outside, wflag, k1, w.h.suitable, pestn / 1048576.0, w.prov); }); }
                else { method = "disperse_and_infect_single_mortality_raster"; err = err_kind([&] { sim.disperse_and_infect((unsigned)step, w.disp, w.est, w.h.s, w.h.e, w.h.i, w.h.m.back(), total_pop, w.h.te, w.outside, wflag, k1, w.h.suitable, pestn / 1048576.0, w.prov); }); }
            }
            size_t consumed = scripted - std::min(scripted, w.prov.establishment().script.size());
            // direct run: SpreadAction::disperse on the full pool, then HostPool::step_forward
            std::string inter;
            if (derr.empty()) derr = err_kind([&] { dspread.disperse(dpool, dpests, d.prov); });
            inter = d.h.snapshot();  // state between disperse and step_forward: not observable through Simulation
            if (dai && derr.empty()) derr = err_kind([&] { dpool.step_forward((unsigned)step); });
            w.prov.establishment().script.clear(); d.prov.establishment().script.clear();
            // in an SI model step_forward changes nothing, the state after the call is the state after disperse
            std::string after_disperse = (dai && sei) ? inter : w.h.snapshot();
            if (landing_mode) {
                k1.flush(after_disperse);
            } else {
                out << "hp.uniforms ";
                if (consumed == 0) out << odd2p20(rng);
                for (size_t k = 0; k < consumed && k < us.size(); k++) out << (k ? "," : "") << us[k];
                out << " => ok\n";
                out << "hp.spread det=" << !disp_stoch << " rr=" << rr4 << "/4 soil=" << (soils ? rat64(soil64) : std::string("none")) << " sto=" << est_stoch
                    << " pest=" << rat2p20(pestn) << " npop=" << np.str() << " w=";
                if (!use_weather) out << "none"; else for (int x = 0; x < rows; x++) for (int y = 0; y < cols; y++) out << (x + y ? "," : "") << rat64(cur_w64[x * cols + y]);
                out << " targets=";
                if (klog.targets.empty()) out << "-";
                for (size_t k = 0; k < klog.targets.size(); k++) out << (k ? ";" : "") << klog.targets[k].first << "," << klog.targets[k].second;
                out << " => " << (err.empty() ? "-" : err) << " " << after_disperse << " | " << rlist(w.disp) << " | " << rlist(w.est) << " |";
                for (size_t k = outside_seen; k < w.outside.size(); k++) out << " " << std::get<0>(w.outside[k]) << "," << std::get<1>(w.outside[k]);
                out << "\n";
            }
            stats.add("dispersers_total", (long)klog.targets.size());
            if (dai) {
                if (err.empty()) out << "hp.stepfwd " << step << " => - " << w.h.snapshot() << "\n";
                step++;
            }
            simdiff(method, op, d, err, derr);
            if (rlist(w.disp) != rlist(d.disp) || rlist(w.est) != rlist(d.est) || w.outside != d.outside) stats.add("pest_rasters_differ_from_direct");
            stats.add(std::string("op_") + method); break; }
        default: {  // move_overpopulated_pests
            int thr64 = rng.coin(40) ? rng.in(0, 24) : rng.in(0, 64), leave64 = rng.in(0, 64);
            bind_direct(denv, d);
            size_t outside_seen = w.outside.size();
            if (rng.coin(55)) {
                // injected kernel with one destination PER SOURCE CELL (a table): several qualifying cells can send
                // their pests to the same destination in one call (a hub inside the raster, rarely outside), which
                // the library's neighbour kernel (one shift for all sources) never does. Every call is logged; the
                // protocol line carries the destinations in call order.
                std::vector<std::pair<int, int>> table((size_t)(rows * cols));
                // a third of these calls first take the susceptible hosts away from up to two cells that will send pests
                // (both landscapes alike, announced with a state line): a destination without room whose own departure
                // makes room is where "all departures before any arrival" matters
                if (rng.coin(35)) {
                    int done = 0;
                    for (int a = 0; a < rows && done < 2; a++) for (int b = 0; b < cols && done < 2; b++)
                        if (w.h.i(a, b) >= 2 && w.h.s(a, b) > 0 && rng.coin(50)) {
                            w.h.th(a, b) -= w.h.s(a, b); w.h.s(a, b) = 0; d.h.th(a, b) -= d.h.s(a, b); d.h.s(a, b) = 0; done++;
                        }
                    if (done) { out << "hp.state => " << w.h.snapshot() << "\n"; stats.add("overpop_sources_saturated_first"); }
                }
                std::pair<int, int> hub1{rng.in(0, rows - 1), rng.in(0, cols - 1)};
                // often the first hub is itself a cell that will send pests away, preferably one without susceptible
                // hosts: its own departure frees hosts only in the first stage, arrivals are decided in the second
                if (rng.coin(60)) {
                    std::vector<std::pair<int, int>> srcs, sat;
                    for (int a = 0; a < rows; a++) for (int b = 0; b < cols; b++) if (w.h.i(a, b) >= 2) { srcs.push_back({a, b}); if (w.h.s(a, b) == 0) sat.push_back({a, b}); }
                    if (!sat.empty() && rng.coin(70)) { hub1 = rng.pick(sat); stats.add("overpop_hub_is_saturated_source"); }
                    else if (!srcs.empty()) { hub1 = rng.pick(srcs); stats.add("overpop_hub_is_source"); }
                }
                std::pair<int, int> hub2{rng.coin(25) ? rows + rng.in(0, 1) : rng.in(0, rows - 1), rng.coin(25) ? -1 - rng.in(0, 1) : rng.in(0, cols - 1)};
                for (auto& t : table) { int k = rng.in(0, 99); t = k < 50 ? hub1 : k < 80 ? hub2 : std::make_pair(rng.in(-1, rows), rng.in(-1, cols)); }
                std::vector<std::pair<int, int>> calls;
                TableKernel kern{&table, cols, &calls}, dkern{&table, cols, nullptr};
                err = err_kind([&] { sim.move_overpopulated_pests(w.h.s, w.h.i, w.h.th, w.outside, kern, w.h.suitable, thr64 / 64.0, leave64 / 64.0, w.prov); });
                out << "hp.overpop " << rat64(thr64) << " " << rat64(leave64) << " T ";
                if (calls.empty()) out << "-"; for (size_t k = 0; k < calls.size(); k++) out << (k ? ";" : "") << calls[k].first << "," << calls[k].second;
                out << " => " << (err.empty() ? "-" : err) << " " << w.h.snapshot() << " |";
                for (size_t k = outside_seen; k < w.outside.size(); k++) out << " " << std::get<0>(w.outside[k]) << "," << std::get<1>(w.outside[k]);
                out << "\n";
                { std::vector<std::pair<int, int>> in; for (auto& t : calls) if (t.first >= 0 && t.first < rows && t.second >= 0 && t.second < cols) in.push_back(t);
                  std::sort(in.begin(), in.end()); if (std::adjacent_find(in.begin(), in.end()) != in.end()) stats.add("overpop_shared_destination");
                  if (calls.size() >= 2) stats.add("overpop_two_or_more_sources"); }
                { DIRECT_POOL(dpool, d, denv); Pests dpests(d.disp, d.est, d.outside);
                  MoveOverpopulatedPests<Pool, Pests, IRaster, DRaster, int, TableKernel> act(dkern, thr64 / 64.0, leave64 / 64.0, rows, cols);
                  derr = err_kind([&] { act.action(dpool, dpests, d.prov); }); }
                stats.add("op_move_overpopulated_pests_table_kernel");
            } else {
                // the library's deterministic neighbour kernel
                int dir = rng.in(0, 7);
                DeterministicNeighborDispersalKernel kern(DIRS[dir]), dkern(DIRS[dir]);
                err = err_kind([&] { sim.move_overpopulated_pests(w.h.s, w.h.i, w.h.th, w.outside, kern, w.h.suitable, thr64 / 64.0, leave64 / 64.0, w.prov); });
                out << "hp.overpop " << rat64(thr64) << " " << rat64(leave64) << " " << DROW[dir] << " " << DCOL[dir] << " => " << (err.empty() ? "-" : err) << " " << w.h.snapshot() << " |";
                for (size_t k = outside_seen; k < w.outside.size(); k++) out << " " << std::get<0>(w.outside[k]) << "," << std::get<1>(w.outside[k]);
                out << "\n";
                { DIRECT_POOL(dpool, d, denv); Pests dpests(d.disp, d.est, d.outside);
                  MoveOverpopulatedPests<Pool, Pests, IRaster, DRaster, int, DeterministicNeighborDispersalKernel> act(dkern, thr64 / 64.0, leave64 / 64.0, rows, cols);
                  derr = err_kind([&] { act.action(dpool, dpests, d.prov); }); }
            }
            simdiff("move_overpopulated_pests", op, d, err, derr);
            if (w.outside != d.outside) stats.add("pest_rasters_differ_from_direct");
            overpop_done = true; stats.add("op_move_overpopulated_pests"); break; }
        }
        if (!err.empty()) { stats.add("op_threw"); break; }
    }
    if (!env_set) sim.environment(true)->remove_hosts();
    c.nontrivial = kinds >= 3 && w.h.suitable.size() >= 1;
}

int main(int argc, char** argv) {
    std::ios::sync_with_stdio(false);
    std::string mode = argc > 1 ? argv[1] : "sim";
    uint64_t seed = argc > 2 ? std::stoull(argv[2]) : 1;
    long first = argc > 3 ? std::stol(argv[3]) : 0;
    long count = argc > 4 ? std::stol(argv[4]) : 100;
    if (!selftest_uniform()) { std::cerr << "SELFTEST FAILED: libstdc++ uniform_real_distribution does not consume one 64-bit value\n"; return 3; }
    if (mode == "sim") run_cases("h_sim", mode, seed, first, count, sim_case);
    stats.dump("h_sim");
    return 0;
}
