// Shared pieces of the host-pool harnesses: scripted engine, stream provider, landscape state.
#ifndef VERIF_HOST_COMMON_HPP
#define VERIF_HOST_COMMON_HPP
#include <pops/raster.hpp>
#include <pops/host_pool.hpp>
#include <pops/multi_host_pool.hpp>
#include <pops/pest_pool.hpp>
#include <pops/environment.hpp>
#include <pops/actions.hpp>
#include <pops/treatments.hpp>
#include <deque>
#include "common.hpp"

namespace verif {

// 64-bit uniform random bit generator: returns scripted values first, then a splitmix stream.
// With a 64-bit engine libstdc++'s uniform_real_distribution<double>(0,1) consumes exactly one
// value v and returns v / 2^64 (self-tested in selftest_uniform()).
struct ScriptedEngine {
    using result_type = uint64_t;
    static constexpr result_type min() { return 0; }
    static constexpr result_type max() { return UINT64_MAX; }
    uint64_t state = 0x1234567;
    std::deque<uint64_t> script;
    unsigned long calls = 0;
    ScriptedEngine() {}
    explicit ScriptedEngine(uint64_t s) : state(s) {}
    void seed(uint64_t s) { state = s; script.clear(); }
    result_type operator()() {
        calls++;
        if (!script.empty()) { uint64_t v = script.front(); script.pop_front(); return v; }
        uint64_t z = (state += 0x9E3779B97F4A7C15ULL);
        z = (z ^ (z >> 30)) * 0xBF58476D1CE4E5B9ULL;
        z = (z ^ (z >> 27)) * 0x94D049BB133111EBULL;
        return z ^ (z >> 31);
    }
    void discard(unsigned long long n) { for (unsigned long long i = 0; i < n; i++) (*this)(); }
    // next uniform_real draw will be k/64
    void push_uniform_64ths(int k) { script.push_back((uint64_t)k << 58); }
    // next uniform_real draw will be num / 2^20; with an odd numerator it can never tie with a
    // product of small fractions such as s/N * k/64 (a tie would be decided by double rounding)
    void push_uniform_2p20(int num) { script.push_back((uint64_t)num << 44); }
};

// Provider with one engine per named stream, as RandomNumberGeneratorProvider exposes them.
struct Provider {
    using Generator = ScriptedEngine;
    ScriptedEngine g[10];
    explicit Provider(uint64_t seed) { for (int i = 0; i < 10; i++) g[i].seed(seed * 16 + i); }
    Generator& disperser_generation() { return g[0]; }
    Generator& natural_dispersal() { return g[1]; }
    Generator& anthropogenic_dispersal() { return g[2]; }
    Generator& establishment() { return g[3]; }
    Generator& weather() { return g[4]; }
    Generator& lethal_temperature() { return g[5]; }
    Generator& movement() { return g[6]; }
    Generator& overpopulation() { return g[7]; }
    Generator& survival_rate() { return g[8]; }
    Generator& soil() { return g[9]; }
};

inline bool selftest_uniform() {
    ScriptedEngine e;
    std::uniform_real_distribution<double> d(0.0, 1.0);
    for (int k = 0; k < 64; k++) {
        unsigned long before = e.calls;
        e.push_uniform_64ths(k);
        double u = d(e);
        if (u != k / 64.0 || e.calls != before + 1) return false;
        e.push_uniform_2p20(2 * k + 1);
        u = d(e);
        if (u != (2 * k + 1) / 1048576.0) return false;
    }
    std::bernoulli_distribution b(0.5);
    e.push_uniform_64ths(31); if (!b(e)) return false;
    e.push_uniform_64ths(32); if (b(e)) return false;
    return true;
}

using IRaster = pops::Raster<int>;
using DRaster = pops::Raster<double>;
using Env = pops::Environment<IRaster, DRaster, int, Provider>;
using Pool = pops::HostPool<IRaster, DRaster, int, Provider>;
using MultiPool = pops::MultiHostPool<Pool, IRaster, DRaster, int, Provider>;
using Pests = pops::PestPool<IRaster, DRaster, int>;

inline std::string rat2p20(int num) { return std::to_string(num) + "/1048576"; }  // odd numerators only
inline int odd2p20(Rng& rng) { return 2 * rng.in(0, (1 << 19) - 1) + 1; }

inline std::string rat64(int k) {  // k/64 reduced
    int d = 64;
    while (k % 2 == 0 && d > 1 && k != 0) { k /= 2; d /= 2; }
    if (k == 0) return "0/1";
    return std::to_string(k) + "/" + std::to_string(d);
}

// Cells with at least one host, row-major: computed here, not with the library's find_suitable_cells
// (expected values and inputs are never produced by code under test).
inline std::vector<std::vector<int>> suitable_cells_of(const IRaster& total) {
    std::vector<std::vector<int>> cells;
    for (int a = 0; a < total.rows(); a++) for (int b = 0; b < total.cols(); b++) if (total(a, b) > 0) cells.push_back({a, b});
    return cells;
}
inline std::vector<std::vector<int>> suitable_cells_of(const std::vector<const IRaster*>& totals) {
    std::vector<std::vector<int>> cells;
    if (totals.empty()) return cells;
    for (int a = 0; a < totals[0]->rows(); a++) for (int b = 0; b < totals[0]->cols(); b++)
        for (auto* t : totals) if ((*t)(a, b) > 0) { cells.push_back({a, b}); break; }
    return cells;
}

// All rasters of one host.
struct HostState {
    int rows, cols;
    IRaster s, i, r, te, th, died;
    std::vector<IRaster> e, m;
    std::vector<std::vector<int>> suitable;
    HostState(int rows_, int cols_, int ne, int nm)
        : rows(rows_), cols(cols_), s(rows_, cols_, 0), i(rows_, cols_, 0), r(rows_, cols_, 0), te(rows_, cols_, 0),
          th(rows_, cols_, 0), died(rows_, cols_, 0), e((size_t)ne, IRaster(rows_, cols_, 0)), m((size_t)nm, IRaster(rows_, cols_, 0)) {}
    void randomize(Rng& rng, bool sei) {
        for (int a = 0; a < rows; a++) for (int b = 0; b < cols; b++) {
            if (rng.coin(20)) continue;  // empty cell
            s(a, b) = rng.coin(15) ? 0 : rng.in(0, 30);
            r(a, b) = rng.coin(60) ? 0 : rng.in(0, 5);
            died(a, b) = rng.coin(70) ? 0 : rng.in(0, 3);
            int sum_e = 0, sum_m = 0;
            if (sei) for (auto& x : e) { int v = rng.coin(40) ? 0 : rng.in(0, 6); x(a, b) = v; sum_e += v; }
            bool infected = rng.coin(70);
            for (auto& x : m) { int v = (!infected || rng.coin(35)) ? 0 : rng.in(0, 8); x(a, b) = v; sum_m += v; }
            i(a, b) = sum_m; te(a, b) = sum_e;
            th(a, b) = s(a, b) + sum_e + sum_m + r(a, b);
        }
        suitable = suitable_cells_of(th);
    }
    std::string cells() const {
        std::ostringstream o;
        for (int a = 0; a < rows; a++) for (int b = 0; b < cols; b++) {
            o << " " << s(a, b) << "," << i(a, b) << "," << r(a, b) << "," << te(a, b) << "," << th(a, b) << "," << died(a, b) << ";";
            if (e.empty()) o << "-"; for (size_t k = 0; k < e.size(); k++) o << (k ? "," : "") << e[k](a, b);
            o << ";";
            if (m.empty()) o << "-"; for (size_t k = 0; k < m.size(); k++) o << (k ? "," : "") << m[k](a, b);
        }
        return o.str();
    }
    std::string suit() const {
        std::ostringstream o;
        for (auto& c : suitable) o << " " << c[0] << "," << c[1];
        return o.str();
    }
    std::string snapshot() const { return "|" + cells() + " |" + suit(); }
};

}  // namespace verif
#endif
