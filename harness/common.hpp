// Shared helpers for the correspondence harnesses. Every random choice derives from one
// 64-bit state seeded with VERIF_SEED so that a disagreement replays exactly.
#ifndef VERIF_COMMON_HPP
#define VERIF_COMMON_HPP
#include <cstdint>
#include <cstdio>
#include <cstdlib>
#include <iostream>
#include <map>
#include <sstream>
#include <stdexcept>
#include <string>
#include <vector>

namespace verif {

struct Rng {
    uint64_t s;
    explicit Rng(uint64_t seed) : s(seed * 0x9E3779B97F4A7C15ULL + 0xD1B54A32D192ED03ULL) { next(); next(); }
    uint64_t next() {  // splitmix64
        uint64_t z = (s += 0x9E3779B97F4A7C15ULL);
        z = (z ^ (z >> 30)) * 0xBF58476D1CE4E5B9ULL;
        z = (z ^ (z >> 27)) * 0x94D049BB133111EBULL;
        return z ^ (z >> 31);
    }
    int in(int lo, int hi) { return lo + (int)(next() % (uint64_t)(hi - lo + 1)); }
    bool coin(int pct = 50) { return in(0, 99) < pct; }
    template <class T> const T& pick(const std::vector<T>& v) { return v[(size_t)in(0, (int)v.size() - 1)]; }
};

// Run f and map a thrown standard exception to the four-value enum of the model.
inline void debug_what(const std::exception& e) {
    if (std::getenv("VERIF_DEBUG")) std::cerr << "EXCEPTION " << e.what() << std::endl;
}
template <class F> std::string err_kind(F&& f) {
    try { f(); return ""; }
    catch (const std::invalid_argument& e) { debug_what(e); return "err:invalid_argument"; }
    catch (const std::out_of_range& e) { debug_what(e); return "err:out_of_range"; }
    catch (const std::logic_error& e) { debug_what(e); return "err:logic_error"; }
    catch (const std::runtime_error& e) { debug_what(e); return "err:runtime_error"; }
    catch (const std::exception& e) { debug_what(e); return "err:other"; }
}

struct Stats {
    std::map<std::string, long> c;
    void add(const std::string& k, long n = 1) { c[k] += n; }
    void dump(const char* engine) const {
        std::ostringstream o;
        o << "{\"engine\":\"" << engine << "\"";
        for (auto& kv : c) o << ",\"" << kv.first << "\":" << kv.second;
        o << "}";
        std::cerr << "STATS " << o.str() << std::endl;
    }
};

// One replayable case: its own RNG derived from (seed, index); output buffered so that the
// header/trailer frame it. `nontrivial` is set by the engine according to its stated rule.
struct Case {
    Rng rng;
    long index;
    std::ostringstream out;
    bool nontrivial = false;
    Case(uint64_t seed, long idx) : rng(seed * 1000003ULL + (uint64_t)idx * 7919ULL + 17ULL), index(idx) {}
};

template <class F>
void run_cases(const char* engine, const std::string& mode, uint64_t seed, long first, long count, F&& body) {
    for (long i = first; i < first + count; i++) {
        Case c(seed, i);
        body(c);
        std::cout << "# case " << engine << " " << mode << " " << seed << " " << i << "\n"
                  << c.out.str() << "# endcase nt=" << (c.nontrivial ? 1 : 0) << "\n";
        std::cout.flush();  // a sanitizer abort in the next case must not lose the cases already completed
    }
    std::cout.flush();
}

inline long env_long(const char* name, long dflt) {
    const char* v = std::getenv(name);
    return v && *v ? std::atol(v) : dflt;
}
inline std::string env_str(const char* name, const char* dflt) {
    const char* v = std::getenv(name);
    return v && *v ? std::string(v) : std::string(dflt);
}

// Independent Gregorian arithmetic (days-from-civil / civil-from-days): expected dates are never
// computed with the library's own Date::add_days, so that a defect there cannot hide itself.
inline long days_from_civil(long y, unsigned m, unsigned d) {
    y -= m <= 2;
    const long era = (y >= 0 ? y : y - 399) / 400;
    const unsigned yoe = (unsigned)(y - era * 400);
    const unsigned doy = (153 * (m + (m > 2 ? -3 : 9)) + 2) / 5 + d - 1;
    const unsigned doe = yoe * 365 + yoe / 4 - yoe / 100 + doy;
    return era * 146097 + (long)doe - 719468;
}
inline void civil_from_days(long z, int& y, int& m, int& d) {
    z += 719468;
    const long era = (z >= 0 ? z : z - 146096) / 146097;
    const unsigned doe = (unsigned)(z - era * 146097);
    const unsigned yoe = (doe - doe / 1460 + doe / 36524 - doe / 146096) / 365;
    const long yy = (long)yoe + era * 400;
    const unsigned doy = doe - (365 * yoe + yoe / 4 - yoe / 100);
    const unsigned mp = (5 * doy + 2) / 153;
    d = (int)(doy - (153 * mp + 2) / 5 + 1);
    m = (int)(mp < 10 ? mp + 3 : mp - 9);
    y = (int)(yy + (m <= 2));
}
inline void civil_add_days(int y, int m, int d, long n, int& y2, int& m2, int& d2) {
    civil_from_days(days_from_civil(y, (unsigned)m, (unsigned)d) + n, y2, m2, d2);
}

}  // namespace verif
#endif
