// Correspondence harness for C19: pops::Raster arithmetic, equality and storage.
// Usage: h_raster <mode> <seed> <first> <count>
//   mode ops  : one operator per case: {+,-,*,/} x {raster op scalar, scalar op raster, raster op raster,
//               raster op= scalar, raster op= raster} x {int,double} operand kinds, pow, sqrt;
//               shape classes 1x1, 1xN, Nx1, NxM (N != M); operands are re-read after the call
//   mode eq   : operator== / operator!= on equal rasters, one differing cell (biased to the last row /
//               last column), same cells with different shape, prefix shapes
//   mode heap : a random sequence of constructions, wraps of caller arrays, copies, moves, assignments,
//               cell writes, arithmetic and destructions over 6 variables and 2 caller arrays;
//               after each operation every live raster and both arrays are printed (under ASan a
//               double free / use after free / free of a caller array aborts the run).
//               Assignments and destructions also print `st:<null|ext<e>|heap>:<kept|freed|na>`: where the
//               data pointer the variable gives up pointed to, and whether that memory is still an allocated
//               block afterwards (asked from the ASan allocator; `na` without ASan or for a null pointer).
//               Case 0 is a fixed sequence with assignments INTO rasters that wrap caller arrays (finding F31).
// Line protocol: `raster.<cmd> <inputs> => <observed>`; a raster is `rows cols cell...`,
// int cells in decimal, double cells as `num/den` (only dyadic values are generated).
#include <pops/raster.hpp>
#include "common.hpp"
#include <cmath>
#include <memory>
using namespace pops;
using verif::Rng;
typedef Raster<int> RI;
typedef Raster<double> RD;

static verif::Stats stats;

// ---------------------------------------------------------------- printing
static std::string dq(double v) {
    if (!std::isfinite(v)) return "nonfinite";
    double den = 1;
    int guard = 0;
    while (v * den != std::floor(v * den) && guard < 60) { den *= 2; guard++; }
    long long n = (long long)(v * den);
    long long d = (long long)den;
    if (d == 1) return std::to_string(n);
    return std::to_string(n) + "/" + std::to_string(d);
}
static std::string cell(int v) { return std::to_string(v); }
static std::string cell(double v) { return dq(v); }

template <class T> static std::string rs(const Raster<T>& a) {
    std::string s = std::to_string(a.rows()) + " " + std::to_string(a.cols());
    const T* p = a.data();
    long n = (long)a.rows() * a.cols();
    for (long k = 0; k < n; k++) s += " " + cell(p[k]);
    return s;
}

// ---------------------------------------------------------------- generators
static void shape(Rng& rng, int cls, int& r, int& c) {
    if (cls == 0) { r = 1; c = 1; }
    else if (cls == 1) { r = 1; c = rng.in(2, 6); }
    else if (cls == 2) { r = rng.in(2, 6); c = 1; }
    else { r = rng.in(2, 5); do { c = rng.in(2, 5); } while (c == r); }
}
static const char* cls_name(int cls) { return cls == 0 ? "shape_1x1" : cls == 1 ? "shape_1xN" : cls == 2 ? "shape_Nx1" : "shape_NxM"; }

static int gen_int(Rng& rng, bool nonzero) {
    int v = rng.coin(15) ? rng.in(-2, 2) : rng.in(-12, 12);
    if (nonzero && v == 0) v = rng.coin() ? 3 : -2;
    return v;
}
static double gen_dbl(Rng& rng, bool nonzero) {
    int k = rng.coin(25) ? 32 * rng.in(-12, 12) : rng.coin(30) ? 8 * rng.in(-40, 40) : rng.in(-640, 640);
    if (nonzero && k == 0) k = rng.coin() ? 96 : -32;
    return k / 64.0;
}
static double gen_pow2(Rng& rng) {
    static const double p[] = {0.25, 0.5, 1, 2, 4, 8};
    double v = p[rng.in(0, 5)];
    return rng.coin() ? v : -v;
}
static double gen_eighth(Rng& rng, bool nonzero) {
    int k = rng.in(-40, 40);
    if (nonzero && k == 0) k = 5;
    return k / 8.0;
}
static RI make_i(Rng& rng, int r, int c, bool nonzero) {
    RI a(r, c);
    for (int i = 0; i < r; i++) for (int j = 0; j < c; j++) a(i, j) = gen_int(rng, nonzero);
    return a;
}
static RD make_d(Rng& rng, int r, int c, bool nonzero) {
    RD a(r, c);
    for (int i = 0; i < r; i++) for (int j = 0; j < c; j++) a(i, j) = gen_dbl(rng, nonzero);
    return a;
}
static bool exact_div(double n, double d) {
    if (d == 0) return false;
    double q = n / d;
    return std::isfinite(q) && std::fma(q, d, -n) == 0;
}

static const char* OPS[] = {"add", "sub", "mul", "div"};

template <class A, class B> static auto apply_bin(int op, const A& a, const B& b) -> decltype(a + b) {
    switch (op) { case 0: return a + b; case 1: return a - b; case 2: return a * b; default: return a / b; }
}
template <class A, class B> static void apply_asg(int op, A& a, const B& b) {
    switch (op) { case 0: a += b; break; case 1: a -= b; break; case 2: a *= b; break; default: a /= b; }
}

// mismatching shape for a raster-raster operator (sometimes with fewer, sometimes with more cells,
// sometimes with the same number of cells)
static void other_shape(Rng& rng, int r, int c, int& r2, int& c2) {
    int k = rng.in(0, 3);
    if (k == 0 && r != c) { r2 = c; c2 = r; return; }          // transposed: same number of cells
    if (k == 1) { r2 = r + rng.in(1, 2); c2 = c; return; }
    if (k == 2) { r2 = r; c2 = c + rng.in(1, 2); return; }
    r2 = 1; c2 = 1;
    if (r == 1 && c == 1) c2 = 2;
}

// ---------------------------------------------------------------- mode ops
// combos: form 0 rs, 1 sr, 2 rr, 3 as, 4 ar (kinds II ID DI DD; ar has no ID), 5 pow/sqrt
static void emit_ops(verif::Case& cs) {
    std::cout.flush();
    Rng& rng = cs.rng; std::ostream& out = cs.out;
    long idx = cs.index;
    int combo = (int)(idx % 80);
    int cls = (int)((idx / 80) % 4);
    int r, c; shape(rng, cls, r, c);
    stats.add(cls_name(cls));
    cs.nontrivial = cls != 0;
    int form, kind, op;
    if (combo < 76) {
        // 19 (form, kind) pairs x 4 operators
        int fk = combo / 4; op = combo % 4;
        static const int F[19] = {0,0,0,0, 1,1,1,1, 2,2,2,2, 3,3,3,3, 4,4,4};
        static const int K[19] = {0,1,2,3, 0,1,2,3, 0,1,2,3, 0,1,2,3, 0,2,3};
        form = F[fk]; kind = K[fk];
    } else { form = 5; kind = combo - 76; op = 0; }   // 0 pow I, 1 pow D, 2 sqrt I, 3 sqrt D
    static const char* KN[] = {"II", "ID", "DI", "DD"};
    bool div = op == 3;
    if (form == 0 || form == 3) {           // raster op scalar, raster op= scalar; kind = (raster, scalar)
        const char* cmd = form == 0 ? "raster.rs" : "raster.as";
        stats.add(std::string(form == 0 ? "rs_" : "as_") + KN[kind] + "_" + OPS[op]);
        bool rasterD = kind >= 2, scalarD = kind == 1 || kind == 3;
        int vi = gen_int(rng, div); double vd = gen_dbl(rng, div);
        if (!rasterD) {
            RI a = make_i(rng, r, c, false);
            out << cmd << " " << OPS[op] << " " << KN[kind] << " " << rs(a) << " " << (scalarD ? cell(vd) : cell(vi)) << " => ";
            if (form == 0) {
                RI res = scalarD ? apply_bin(op, a, vd) : apply_bin(op, a, vi);
                out << rs(res) << " " << rs(a) << "\n";
            } else {
                RI keep(a);
                if (scalarD) apply_asg(op, a, vd); else apply_asg(op, a, vi);
                out << rs(a) << " " << rs(keep) << "\n";
            }
        } else {
            RD a = make_d(rng, r, c, false);
            if (div) {   // make every quotient exact: cell = (k/8) * divisor
                if (scalarD) vd = gen_eighth(rng, true);
                double dv = scalarD ? vd : (double)vi;
                for (int i = 0; i < r; i++) for (int j = 0; j < c; j++) {
                    a(i, j) = gen_eighth(rng, false) * dv;
                    if (!exact_div(a(i, j), dv)) a(i, j) = dv;
                }
            }
            out << cmd << " " << OPS[op] << " " << KN[kind] << " " << rs(a) << " " << (scalarD ? cell(vd) : cell(vi)) << " => ";
            if (form == 0) {
                RD res = scalarD ? apply_bin(op, a, vd) : apply_bin(op, a, vi);
                out << rs(res) << " " << rs(a) << "\n";
            } else {
                RD keep(a);
                if (scalarD) apply_asg(op, a, vd); else apply_asg(op, a, vi);
                out << rs(a) << " " << rs(keep) << "\n";
            }
        }
    } else if (form == 1) {                 // scalar op raster; kind = (raster, scalar)
        stats.add(std::string("sr_") + KN[kind] + "_" + OPS[op]);
        bool rasterD = kind >= 2, scalarD = kind == 1 || kind == 3;
        int vi = gen_int(rng, false); double vd = gen_dbl(rng, false);
        if (!rasterD) {
            RI a = make_i(rng, r, c, div);
            out << "raster.sr " << OPS[op] << " " << KN[kind] << " " << (scalarD ? cell(vd) : cell(vi)) << " " << rs(a) << " => ";
            RI res = scalarD ? apply_bin(op, vd, a) : apply_bin(op, vi, a);
            out << rs(res) << " " << rs(a) << "\n";
        } else {
            RD a = make_d(rng, r, c, div);
            if (div) {   // divisors are powers of two, the scalar has few bits: exact
                if (scalarD) vd = gen_eighth(rng, false);
                for (int i = 0; i < r; i++) for (int j = 0; j < c; j++) a(i, j) = gen_pow2(rng);
            }
            out << "raster.sr " << OPS[op] << " " << KN[kind] << " " << (scalarD ? cell(vd) : cell(vi)) << " " << rs(a) << " => ";
            RD res = scalarD ? apply_bin(op, vd, a) : apply_bin(op, vi, a);
            out << rs(res) << " " << rs(a) << "\n";
        }
    } else if (form == 2 || form == 4) {    // raster op raster, raster op= raster; kind = (left, right)
        const char* cmd = form == 2 ? "raster.rr" : "raster.ar";
        stats.add(std::string(form == 2 ? "rr_" : "ar_") + KN[kind] + "_" + OPS[op]);
        bool leftD = kind >= 2, rightD = kind == 1 || kind == 3;
        bool mismatch = rng.coin(25);
        int r2 = r, c2 = c;
        if (mismatch) { other_shape(rng, r, c, r2, c2); stats.add("shape_mismatch_cases"); }
        RI ai = make_i(rng, r, c, false), bi = make_i(rng, r2, c2, div);
        RD ad = make_d(rng, r, c, false), bd = make_d(rng, r2, c2, div);
        if (div && !mismatch) {
            for (int i = 0; i < r; i++) for (int j = 0; j < c; j++) {
                if (!leftD && rightD) bd(i, j) = gen_pow2(rng);                         // int / double
                if (leftD && !rightD) ad(i, j) = gen_eighth(rng, false) * bi(i, j);     // double / int
                if (leftD && rightD) { bd(i, j) = gen_eighth(rng, true); ad(i, j) = gen_eighth(rng, false) * bd(i, j); }
                double n = leftD ? ad(i, j) : (double)ai(i, j), d = rightD ? bd(i, j) : (double)bi(i, j);
                if ((leftD || rightD) && !exact_div(n, d)) { if (rightD) bd(i, j) = 1; else ad(i, j) = bi(i, j); }
            }
        }
        out << cmd << " " << OPS[op] << " " << KN[kind] << " " << (leftD ? rs(ad) : rs(ai)) << " " << (rightD ? rs(bd) : rs(bi)) << " => ";
        std::string res, e;
        if (form == 2) {
            e = verif::err_kind([&] {
                if (!leftD && !rightD) res = rs(apply_bin(op, ai, bi));
                else if (!leftD && rightD) res = rs(apply_bin(op, ai, bd));
                else if (leftD && !rightD) res = rs(apply_bin(op, ad, bi));
                else res = rs(apply_bin(op, ad, bd));
            });
            out << (e.empty() ? "ok " + res : e) << " " << (leftD ? rs(ad) : rs(ai)) << " " << (rightD ? rs(bd) : rs(bi)) << "\n";
        } else {
            RI keepi(ai); RD keepd(ad);
            e = verif::err_kind([&] {
                if (!leftD && !rightD) apply_asg(op, ai, bi);
                else if (leftD && !rightD) apply_asg(op, ad, bi);
                else apply_asg(op, ad, bd);
            });
            out << (e.empty() ? "ok" : e) << " " << (leftD ? rs(ad) : rs(ai)) << " " << (rightD ? rs(bd) : rs(bi)) << " "
                << (leftD ? rs(keepd) : rs(keepi)) << "\n";
        }
        if (!e.empty()) stats.add("rejected_" + e.substr(4));
    } else {                                // pow / sqrt, exact cases
        if (kind == 0) {
            RI a(r, c); for (int i = 0; i < r; i++) for (int j = 0; j < c; j++) a(i, j) = rng.in(-6, 6);
            int k = rng.in(0, 3);
            out << "raster.pow I " << rs(a) << " " << k << " => "; RI res = pow(a, (double)k); out << rs(res) << " " << rs(a) << "\n";
            stats.add("pow_I");
        } else if (kind == 1) {
            RD a(r, c); for (int i = 0; i < r; i++) for (int j = 0; j < c; j++) a(i, j) = gen_eighth(rng, false);
            int k = rng.in(0, 3);
            out << "raster.pow D " << rs(a) << " " << k << " => "; RD res = pow(a, (double)k); out << rs(res) << " " << rs(a) << "\n";
            stats.add("pow_D");
        } else if (kind == 2) {
            RI a(r, c); for (int i = 0; i < r; i++) for (int j = 0; j < c; j++) a(i, j) = rng.coin(30) ? rng.in(0, 14) * rng.in(0, 14) : rng.in(0, 200);
            out << "raster.sqrt I " << rs(a) << " => "; RI res = sqrt(a); out << rs(res) << " " << rs(a) << "\n";
            stats.add("sqrt_I");
        } else {
            RD a(r, c); for (int i = 0; i < r; i++) for (int j = 0; j < c; j++) { double q = std::fabs(gen_eighth(rng, false)); a(i, j) = q * q; }
            out << "raster.sqrt D " << rs(a) << " => "; RD res = sqrt(a); out << rs(res) << " " << rs(a) << "\n";
            stats.add("sqrt_D");
        }
    }
}

// ---------------------------------------------------------------- mode eq
template <class T> static void eq_line(std::ostream& out, const char* kind, const Raster<T>& a, const Raster<T>& b) {
    out << "raster.eq " << kind << " " << rs(a) << " " << rs(b) << " => ";
    bool e = a == b, n = a != b;
    out << (e ? '1' : '0') << (n ? '1' : '0') << " " << rs(a) << " " << rs(b) << "\n";
    stats.add(e ? "eq_true" : "eq_false");
}
template <class T, class G> static void emit_eq_t(verif::Case& cs, const char* kind, G gen) {
    Rng& rng = cs.rng; std::ostream& out = cs.out;
    int cls = (int)(cs.index % 4);
    int r, c; shape(rng, cls, r, c);
    stats.add(cls_name(cls));
    Raster<T> a(r, c);
    for (int i = 0; i < r; i++) for (int j = 0; j < c; j++) a(i, j) = gen(rng);
    Raster<T> b(a);
    eq_line(out, kind, a, b);                       // equal
    eq_line(out, kind, a, a);                       // same object
    // one differing cell; positions biased to the last row / last column / last cell
    for (int t = 0; t < 3; t++) {
        Raster<T> d(a);
        int i = rng.in(0, r - 1), j = rng.in(0, c - 1);
        if (t == 0) { i = r - 1; j = c - 1; }
        else if (t == 1) { if (rng.coin()) i = r - 1; else j = c - 1; }
        d(i, j) = d(i, j) + 1;
        eq_line(out, kind, a, d);
        stats.add(i == r - 1 ? "eq_diff_in_last_row" : "eq_diff_elsewhere");
    }
    // same cells, other shape (transposed dimensions, same buffer contents)
    if (r != c) {
        Raster<T> tr(c, r);
        for (int k = 0; k < r * c; k++) tr.data()[k] = a.data()[k];
        eq_line(out, kind, a, tr);
        stats.add("eq_transposed_shape");
    }
    // prefix shapes: fewer rows / fewer columns / more rows, common cells equal
    {
        int r2 = r, c2 = c;
        int k = rng.in(0, 2);
        if (k == 0 && r > 1) r2 = r - 1; else if (k == 1 && c > 1) c2 = c - 1; else r2 = r + 1;
        Raster<T> p(r2, c2);
        for (int i = 0; i < r2; i++) for (int j = 0; j < c2; j++) p(i, j) = (i < r && j < c) ? a(i, j) : gen(rng);
        eq_line(out, kind, a, p);
        eq_line(out, kind, p, a);
        stats.add("eq_other_shape");
    }
    cs.nontrivial = true;
}
static void emit_eq(verif::Case& cs) {
    std::cout.flush();
    if ((cs.index / 4) % 2 == 0) emit_eq_t<int>(cs, "I", [](Rng& g) { return gen_int(g, false); });
    else emit_eq_t<double>(cs, "D", [](Rng& g) { return gen_dbl(g, false); });
}

// ---------------------------------------------------------------- mode heap
static const int NS = 6;
static const int EXT_LEN[2] = {6, 4};

// Is the block at p still allocated? The harness's only view of new[] / delete[]: the ASan allocator's own books.
#if defined(__SANITIZE_ADDRESS__)
#define VERIF_HAVE_ASAN 1
#elif defined(__has_feature)
#if __has_feature(address_sanitizer)
#define VERIF_HAVE_ASAN 1
#endif
#endif
#ifdef VERIF_HAVE_ASAN
extern "C" int __sanitizer_get_ownership(const volatile void* p);
static const char* block_state(const void* p) { return !p ? "na" : __sanitizer_get_ownership(p) ? "kept" : "freed"; }
#else
static const char* block_state(const void*) { return "na"; }
#endif

struct Pool {
    RI* v[NS];
    int* ext[2];
    Pool() { for (auto& p : v) p = nullptr; for (int e = 0; e < 2; e++) ext[e] = new int[EXT_LEN[e]]; }
    std::string obs() const {
        std::string s;
        for (int i = 0; i < NS; i++) {
            if (!v[i]) s += " -";
            else if (!v[i]->data()) s += " n " + std::to_string(v[i]->rows()) + " " + std::to_string(v[i]->cols());
            else s += " d " + rs(*v[i]);
        }
        for (int e = 0; e < 2; e++) { s += " x " + std::to_string(EXT_LEN[e]); for (int k = 0; k < EXT_LEN[e]; k++) s += " " + std::to_string(ext[e][k]); }
        return s;
    }
    // where a data pointer points: null, the start of caller array e, or anything else (heap storage of a raster)
    std::string cls(const int* p) const { if (!p) return "null"; for (int e = 0; e < 2; e++) if (p == ext[e]) return "ext" + std::to_string(e); return "heap"; }
    std::string gave_up(const int* p) const { return "st:" + cls(p) + ":" + block_state(p); }
    bool occ(int s) const { return v[s] != nullptr; }
    bool has(int s) const { return v[s] && v[s]->data(); }
    long maxabs(int s) const { long m = 0; if (has(s)) for (long k = 0; k < (long)v[s]->rows() * v[s]->cols(); k++) m = std::max(m, std::labs((long)v[s]->data()[k])); return m; }
    bool nonneg(int s) const { if (has(s)) for (long k = 0; k < (long)v[s]->rows() * v[s]->cols(); k++) if (v[s]->data()[k] < 0) return false; return true; }
};

// the three operations in which a variable gives up storage; each returns its protocol line up to the status token
static std::string do_copyassign(Pool& P, int s, int t) {
    const int* old = P.v[s]->data();
    *P.v[s] = *P.v[t];
    if (s != t && P.cls(old).compare(0, 3, "ext") == 0) stats.add("h_assign_into_wrapper");
    stats.add(s == t ? "h_copyassign_self" : "h_copyassign");
    return "raster.h.copyassign " + std::to_string(s) + " " + std::to_string(t) + " => " + P.gave_up(old);
}
static std::string do_moveassign(Pool& P, int s, int t) {
    const int* old = P.v[s]->data();
    RI& src = *P.v[t];
    *P.v[s] = std::move(src);
    if (s != t && P.cls(old).compare(0, 3, "ext") == 0) stats.add("h_assign_into_wrapper");
    stats.add(s == t ? "h_moveassign_self" : "h_moveassign");
    return "raster.h.moveassign " + std::to_string(s) + " " + std::to_string(t) + " => " + P.gave_up(old);
}
static std::string do_destroy(Pool& P, int s) {
    const int* old = P.v[s]->data();
    delete P.v[s]; P.v[s] = nullptr;
    stats.add("h_destroy");
    return "raster.h.destroy " + std::to_string(s) + " => " + P.gave_up(old);
}
static void tear_down(Pool& P, std::ostream& out) {
    // destroy what is left, then the caller reads its arrays once more and frees them
    for (int s = 0; s < NS; s++) if (P.v[s]) { std::string l = do_destroy(P, s); out << l << P.obs() << "\n"; }
    for (int e = 0; e < 2; e++) delete[] P.ext[e];
}

// Case 0: assignments INTO rasters that wrap caller arrays (F31), fixed.
//   v0 wraps array 0 (2x3); v0 = v1 (copy): detached, new buffer not owned; writes and the caller's own write no
//   longer meet; v0 = v2 (another shape): the first buffer is dropped unreleased; v3 wraps array 1, v3 = move(v1):
//   detached, now an owner; the detached v0 is moved to v4 and destroyed (buffer stays allocated); the moved-from
//   v0 (still not owning) is assigned again and destroyed at the end; v5: self-assignments keep a wrapper a wrapper.
static void emit_heap_witness(verif::Case& cs) {
    std::cout.flush();
    std::ostream& out = cs.out;
    Pool P;
    static const int A0[6] = {1, 2, 3, 4, 5, 6}, A1[4] = {10, 20, 30, 40};
    for (int k = 0; k < 6; k++) P.ext[0][k] = A0[k];
    for (int k = 0; k < 4; k++) P.ext[1][k] = A1[k];
    out << "raster.h.init " << NS;
    for (int e = 0; e < 2; e++) { out << " " << EXT_LEN[e]; for (int k = 0; k < EXT_LEN[e]; k++) out << " " << P.ext[e][k]; }
    out << " =>" << P.obs() << "\n";
    int done = 0;
    auto emit = [&](const std::string& l) { out << l << (l.find(" => ") == std::string::npos ? " =>" : "") << P.obs() << "\n"; done++; };
    auto wrap = [&](int s, int e, int r, int c) { P.v[s] = new RI(P.ext[e], r, c); stats.add("h_wrap");
        emit("raster.h.wrap " + std::to_string(s) + " " + std::to_string(e) + " " + std::to_string(r) + " " + std::to_string(c)); };
    auto construct = [&](int s, int r, int c, int v) { P.v[s] = new RI(r, c, v); stats.add("h_construct");
        emit("raster.h.construct " + std::to_string(s) + " " + std::to_string(r) + " " + std::to_string(c) + " " + std::to_string(v) + " 0"); };
    auto write = [&](int s, int r, int c, int v) { (*P.v[s])(r, c) = v; stats.add("h_write");
        emit("raster.h.write " + std::to_string(s) + " " + std::to_string(r) + " " + std::to_string(c) + " " + std::to_string(v)); };
    auto extwrite = [&](int e, int i, int v) { P.ext[e][i] = v; stats.add("h_extwrite");
        emit("raster.h.extwrite " + std::to_string(e) + " " + std::to_string(i) + " " + std::to_string(v)); };
    auto movector = [&](int s, int t) { P.v[s] = new RI(std::move(*P.v[t])); stats.add("h_movector");
        emit("raster.h.movector " + std::to_string(s) + " " + std::to_string(t)); };
    wrap(0, 0, 2, 3);
    construct(1, 2, 3, 7);
    emit(do_copyassign(P, 0, 1));      // F31: array 0 does not receive the sevens
    write(0, 0, 0, 9);                 // F31: not visible in array 0
    extwrite(0, 5, 42);                // F31: not visible through v0
    construct(2, 1, 2, 8);
    emit(do_copyassign(P, 0, 2));      // F31: the buffer of the first assignment stays allocated, unreachable
    wrap(3, 1, 2, 2);
    emit(do_moveassign(P, 3, 1));      // F31 (move): v3 takes v1's buffer and ownership, array 1 is dropped
    write(3, 1, 1, 5);                 // F31: not visible in array 1
    movector(4, 0);                    // the detached, not owned buffer travels to v4
    emit(do_destroy(P, 4));            // F31: not released
    emit(do_copyassign(P, 0, 2));      // v0 is a moved-from wrapper (null, not owning): new buffer, not owned
    wrap(5, 0, 1, 3);
    emit(do_copyassign(P, 5, 5));      // self-assignments: nothing happens
    emit(do_moveassign(P, 5, 5));
    write(5, 0, 1, 11);                // still writes through
    tear_down(P, out);                 // destroy 0: F31 (not released); destroy 3: released once; destroy 5: array kept
    stats.add("h_ops_total", done);
    stats.add("h_witness_f31");
    cs.nontrivial = true;
}

static void emit_heap(verif::Case& cs) {
    if (cs.index == 0) { emit_heap_witness(cs); return; }
    std::cout.flush();
    Rng& rng = cs.rng; std::ostream& out = cs.out;
    Pool P;
    for (int e = 0; e < 2; e++) for (int k = 0; k < EXT_LEN[e]; k++) P.ext[e][k] = rng.in(-9, 9);
    out << "raster.h.init " << NS;
    for (int e = 0; e < 2; e++) { out << " " << EXT_LEN[e]; for (int k = 0; k < EXT_LEN[e]; k++) out << " " << P.ext[e][k]; }
    out << " =>" << P.obs() << "\n";
    int nops = rng.in(25, 45), done = 0;
    auto pick = [&](auto pred) -> int {   // random variable satisfying pred, -1 if none
        std::vector<int> c; for (int s = 0; s < NS; s++) if (pred(s)) c.push_back(s);
        return c.empty() ? -1 : rng.pick(c);
    };
    auto any = [&](int) { return true; };
    auto empty = [&](int s) { return !P.occ(s); };
    auto occ = [&](int s) { return P.occ(s); };
    auto has = [&](int s) { return P.has(s); };
    auto small = [&](int s) { return P.has(s) && P.maxabs(s) <= 1000; };
    auto tiny = [&](int s) { return P.has(s) && P.maxabs(s) <= 30; };
    (void)any;
    static const int SH[][2] = {{1, 1}, {1, 2}, {2, 1}, {1, 3}, {3, 1}, {2, 2}, {2, 3}, {3, 2}, {1, 4}, {4, 1}, {1, 6}, {6, 1}};
    for (int step = 0; step < nops * 3 && done < nops; step++) {
        int k = rng.in(0, 99);
        std::ostringstream line;
        if (k < 9) {                                     // construct
            int s = pick(empty); if (s < 0) continue;
            int fl = rng.in(0, 2), r, c, v = rng.in(-9, 9);
            int t = pick(occ);
            if (fl == 2 && t < 0) fl = 0;
            if (fl == 2) { r = P.v[t]->rows(); c = P.v[t]->cols(); P.v[s] = new RI(*P.v[t], v); }
            else { const int* sh = SH[rng.in(0, 9)]; r = sh[0]; c = sh[1];
                   if (fl == 0) P.v[s] = new RI(r, c, v); else { P.v[s] = new RI(r, c); if (v == 0) P.v[s]->zero(); else P.v[s]->fill(v); } }
            line << "raster.h.construct " << s << " " << r << " " << c << " " << v << " " << fl;
            stats.add("h_construct");
        } else if (k < 17) {                             // wrap a caller array
            int s = pick(empty); if (s < 0) continue;
            int e = rng.in(0, 1);
            const int* sh; do { sh = SH[rng.in(0, 11)]; } while (sh[0] * sh[1] > EXT_LEN[e]);
            P.v[s] = new RI(P.ext[e], sh[0], sh[1]);
            line << "raster.h.wrap " << s << " " << e << " " << sh[0] << " " << sh[1];
            stats.add("h_wrap");
        } else if (k < 25) {                             // copy construct
            int s = pick(empty), t = pick(has); if (s < 0 || t < 0) continue;
            P.v[s] = new RI(*P.v[t]);
            line << "raster.h.copyctor " << s << " " << t;
            stats.add("h_copyctor");
        } else if (k < 32) {                             // move construct
            int s = pick(empty), t = pick(occ); if (s < 0 || t < 0) continue;
            if (!P.has(t) && rng.coin(70)) continue;     // mostly from live objects
            P.v[s] = new RI(std::move(*P.v[t]));
            line << "raster.h.movector " << s << " " << t;
            stats.add("h_movector");
        } else if (k < 41) {                             // copy assign (self-assignment included)
            int s = pick(occ), t = pick(has); if (s < 0 || t < 0) continue;
            line << do_copyassign(P, s, t);
        } else if (k < 49) {                             // move assign
            int s = pick(occ), t = pick(occ); if (s < 0 || t < 0) continue;
            if (!P.has(t) && rng.coin(70)) continue;
            if (s == t && rng.coin(70)) continue;
            line << do_moveassign(P, s, t);
        } else if (k < 62) {                             // write a cell
            int s = pick(has); if (s < 0) continue;
            int r = rng.in(0, P.v[s]->rows() - 1), c = rng.in(0, P.v[s]->cols() - 1), v = rng.in(-20, 20);
            if (rng.coin(40)) { r = P.v[s]->rows() - 1; c = P.v[s]->cols() - 1; }
            (*P.v[s])(r, c) = v;
            line << "raster.h.write " << s << " " << r << " " << c << " " << v;
            stats.add("h_write");
        } else if (k < 69) {                             // destroy
            int s = pick(occ); if (s < 0) continue;
            line << do_destroy(P, s);
        } else if (k < 74) {                             // the caller writes its own array
            int e = rng.in(0, 1), i = rng.in(0, EXT_LEN[e] - 1), v = rng.in(-20, 20);
            P.ext[e][i] = v;
            line << "raster.h.extwrite " << e << " " << i << " " << v;
            stats.add("h_extwrite");
        } else if (k < 80) {                             // in-place scalar: += -= *= fill
            int f = rng.in(0, 3), v = rng.in(-4, 4);
            int s = f == 2 ? pick(tiny) : f == 3 ? pick(has) : pick(small); if (s < 0) continue;
            if (f == 0) *P.v[s] += v; else if (f == 1) *P.v[s] -= v; else if (f == 2) *P.v[s] *= v; else P.v[s]->fill(v);
            static const char* FN[] = {"add", "sub", "mul", "fill"};
            line << "raster.h.map " << s << " " << FN[f] << " " << v;
            stats.add("h_inplace_scalar");
        } else if (k < 86) {                             // in-place raster: += -= *= (also with itself, also mismatching)
            int f = rng.in(0, 2);
            int s = f == 2 ? pick(tiny) : pick(small), t = f == 2 ? pick(tiny) : pick(small); if (s < 0 || t < 0) continue;
            std::string e = verif::err_kind([&] { if (f == 0) *P.v[s] += *P.v[t]; else if (f == 1) *P.v[s] -= *P.v[t]; else *P.v[s] *= *P.v[t]; });
            line << "raster.h.zip " << s << " " << t << " " << OPS[f] << " => " << (e.empty() ? "ok" : e);
            stats.add(e.empty() ? "h_inplace_raster" : "h_inplace_raster_rejected");
        } else if (k < 91) {                             // d = a op k, d = k op a
            int f = rng.in(0, 2), v = rng.in(-4, 4), left = rng.in(0, 1);
            int d = pick(empty), a = f == 2 ? pick(tiny) : pick(small); if (d < 0 || a < 0) continue;
            if (left) P.v[d] = new RI(f == 0 ? v + *P.v[a] : f == 1 ? v - *P.v[a] : v * *P.v[a]);
            else P.v[d] = new RI(f == 0 ? *P.v[a] + v : f == 1 ? *P.v[a] - v : *P.v[a] * v);
            line << "raster.h.mapnew " << d << " " << a << " " << OPS[f] << " " << v << " " << (left ? "sr" : "rs");
            stats.add("h_scalar_result");
        } else if (k < 96) {                             // d = a op b
            int f = rng.in(0, 2);
            int d = pick(empty), a = f == 2 ? pick(tiny) : pick(small), b = f == 2 ? pick(tiny) : pick(small); if (d < 0 || a < 0 || b < 0) continue;
            std::string e = verif::err_kind([&] { P.v[d] = new RI(f == 0 ? *P.v[a] + *P.v[b] : f == 1 ? *P.v[a] - *P.v[b] : *P.v[a] * *P.v[b]); });
            line << "raster.h.zipnew " << d << " " << a << " " << b << " " << OPS[f] << " => " << (e.empty() ? "ok" : e);
            stats.add(e.empty() ? "h_raster_result" : "h_raster_result_rejected");
        } else {                                         // d = pow(a, k), d = sqrt(a)
            int d = pick(empty), a = pick(tiny); if (d < 0 || a < 0) continue;
            if (rng.coin() && P.nonneg(a)) { P.v[d] = new RI(sqrt(*P.v[a])); line << "raster.h.sqrtnew " << d << " " << a; }
            else { int e = rng.in(0, 2); P.v[d] = new RI(pow(*P.v[a], (double)e)); line << "raster.h.pownew " << d << " " << a << " " << e; }
            stats.add("h_pow_sqrt");
        }
        std::string l = line.str();
        out << l << (l.find(" => ") == std::string::npos ? " =>" : "") << P.obs() << "\n";
        done++;
    }
    tear_down(P, out);
    stats.add("h_ops_total", done);
    cs.nontrivial = done >= 10;
}

int main(int argc, char** argv) {
    std::ios::sync_with_stdio(false);
    std::string mode = argc > 1 ? argv[1] : "ops";
    uint64_t seed = argc > 2 ? std::stoull(argv[2]) : 1;
    long first = argc > 3 ? std::stol(argv[3]) : 0;
    long count = argc > 4 ? std::stol(argv[4]) : 1000;
    if (mode == "ops") verif::run_cases("h_raster", mode, seed, first, count, [&](verif::Case& c) { emit_ops(c); });
    else if (mode == "eq") verif::run_cases("h_raster", mode, seed, first, count, [&](verif::Case& c) { emit_eq(c); });
    else if (mode == "heap") verif::run_cases("h_raster", mode, seed, first, count, [&](verif::Case& c) { emit_heap(c); });
    stats.dump("h_raster");
    return 0;
}
