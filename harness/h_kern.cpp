// Correspondence harness for C13: stochastic dispersal kernels.
// Usage: h_kern <mode> <seed> <first> <count>
//   mode tables  : finite tables, case index selects the table (35 cases, see main)
//                  0 kernel names, 1 direction names, 2 neighbour kernel, 3 self-test + switch kernel +
//                  is_cell_eligible / supports_kernel of every kernel class (kern.elig, kern.supports),
//                  4..28 uniform kernel on every landscape rows x cols in 1..5 x 1..5,
//                  29..34 natural/anthropogenic mix for six values of percent_natural
//   mode radial  : random radial kernels (law = index % 10, direction = (index / 10) % 9),
//                  geometry via a copied kernel + copied engine (probe subclass)
//   mode laws    : the ten distribution classes: sampler parameters (probe subclasses), pdf,
//                  inverse-transform sampling with a scripted engine, von Mises with scripted uniforms
//   mode factory : kernels created through create_natural_kernel / create_anthro_kernel /
//                  create_dynamic_kernel and probed; eligibility and supports_kernel of the built kernel
//                  (kern.built); the mix end to end with neighbour, network (source cells with and
//                  without a node) and uniform anthropogenic kernels (kern.mix factory|network|uniform)
// kern.elig <who> <row> <col> <hasnode> => <0|1>     who: uniform | neighbor | radial | deterministic | network |
//                                                    network-walk | wrap-<class> | switch:<Type>:<stoch>
// kern.supports <who> <Type> => <0|1>                who: a class as above, switch, mix-radial-network, mix-radial-radial
// kern.built <natural|anthro> <name> => <class> sup=<0|1> elig=<bits for the cells of ELIG_CELLS>
//   mode overpop : (C17) the SwitchDispersalKernel that Model::create_overpopulation_movement_kernel
//                  builds (protected factory called from a derived class), every member probed
// Doubles that are inputs are dyadic rationals printed as num/den; observed doubles are C hex floats.
#include <pops/model.hpp>
#include <pops/kernel.hpp>
#include <pops/switch_kernel.hpp>
#include <cinttypes>
#include <cmath>
#include <memory>
#include <set>
#include <sstream>
#include "common.hpp"
using namespace pops;
using ::verif::Rng;

static ::verif::Stats stats;

// ---------------------------------------------------------------------------------- helpers

struct Q {  // dyadic rational
    long num, den;
    double v() const { return (double)num / (double)den; }
};
static std::string qs(const Q& q) { return std::to_string(q.num) + "/" + std::to_string(q.den); }
static std::string hx(double d) {
    char b[64];
    std::snprintf(b, sizeof b, "%a", d);
    return b;
}
static std::string tok(const std::string& s) {  // protocol token for a free-form name
    if (s.empty()) return "<empty>";
    std::string r = s;
    for (auto& c : r) if (c == ' ') c = '~';
    return r;
}

// 64-bit engine: scripted values first, then a splitmix stream; counts its calls.
struct Scripted {
    using result_type = uint64_t;
    static constexpr result_type min() { return 0; }
    static constexpr result_type max() { return UINT64_MAX; }
    std::vector<uint64_t> script;
    size_t pos = 0;
    uint64_t state = 0x9E3779B97F4A7C15ULL;
    long calls = 0;
    Scripted() {}
    explicit Scripted(uint64_t s) : state(s) {}
    explicit Scripted(std::vector<uint64_t> sc) : script(std::move(sc)) {}
    void seed(uint64_t s) { state = s; }
    result_type operator()() {
        calls++;
        if (pos < script.size()) return script[pos++];
        uint64_t z = (state += 0x9E3779B97F4A7C15ULL);
        z = (z ^ (z >> 30)) * 0xBF58476D1CE4E5B9ULL;
        z = (z ^ (z >> 27)) * 0x94D049BB133111EBULL;
        return z ^ (z >> 31);
    }
    bool operator==(const Scripted& o) const { return pos == o.pos && state == o.state && calls == o.calls; }
};
// engine value that makes uniform_real_distribution<double>(0,1) return num/2^bits
static uint64_t uval(uint64_t num, int bits) { return num << (64 - bits); }

static const char* type_tok(DispersalKernelType t) {
    switch (t) {
    case DispersalKernelType::Cauchy: return "Cauchy";
    case DispersalKernelType::Exponential: return "Exponential";
    case DispersalKernelType::Uniform: return "Uniform";
    case DispersalKernelType::DeterministicNeighbor: return "DeterministicNeighbor";
    case DispersalKernelType::PowerLaw: return "PowerLaw";
    case DispersalKernelType::HyperbolicSecant: return "HyperbolicSecant";
    case DispersalKernelType::Gamma: return "Gamma";
    case DispersalKernelType::ExponentialPower: return "ExponentialPower";
    case DispersalKernelType::Weibull: return "Weibull";
    case DispersalKernelType::Normal: return "Normal";
    case DispersalKernelType::LogNormal: return "LogNormal";
    case DispersalKernelType::Logistic: return "Logistic";
    case DispersalKernelType::Network: return "Network";
    case DispersalKernelType::None: return "None";
    }
    return "?";
}
static const char* dir_tok(Direction d) {
    switch (d) {
    case Direction::N: return "N";
    case Direction::NE: return "NE";
    case Direction::E: return "E";
    case Direction::SE: return "SE";
    case Direction::S: return "S";
    case Direction::SW: return "SW";
    case Direction::W: return "W";
    case Direction::NW: return "NW";
    case Direction::None: return "NONE";
    }
    return "?";
}
static const std::vector<DispersalKernelType> LAWS = {
    DispersalKernelType::Cauchy, DispersalKernelType::Exponential, DispersalKernelType::Weibull,
    DispersalKernelType::Normal, DispersalKernelType::LogNormal, DispersalKernelType::PowerLaw,
    DispersalKernelType::HyperbolicSecant, DispersalKernelType::Gamma,
    DispersalKernelType::ExponentialPower, DispersalKernelType::Logistic};
static const std::vector<DispersalKernelType> ALLTYPES = {
    DispersalKernelType::Cauchy, DispersalKernelType::Exponential, DispersalKernelType::Uniform,
    DispersalKernelType::DeterministicNeighbor, DispersalKernelType::PowerLaw,
    DispersalKernelType::HyperbolicSecant, DispersalKernelType::Gamma,
    DispersalKernelType::ExponentialPower, DispersalKernelType::Weibull, DispersalKernelType::Normal,
    DispersalKernelType::LogNormal, DispersalKernelType::Logistic, DispersalKernelType::Network,
    DispersalKernelType::None};
static const std::vector<Direction> DIRS = {Direction::N, Direction::NE, Direction::E, Direction::SE, Direction::S,
                                            Direction::SW, Direction::W, Direction::NW, Direction::None};

// ---------------------------------------------------------------------------------- probes

using IntRaster = Raster<int>;
using Radial = RadialDispersalKernel<IntRaster>;

struct CauchyP : CauchyKernel { CauchyP(const CauchyKernel& k) : CauchyKernel(k) {} std::cauchy_distribution<double>& d() { return cauchy_distribution; } };
struct ExponentialP : ExponentialKernel { ExponentialP(const ExponentialKernel& k) : ExponentialKernel(k) {} std::exponential_distribution<double>& d() { return exponential_distribution; } };
struct WeibullP : WeibullKernel { WeibullP(const WeibullKernel& k) : WeibullKernel(k) {} std::weibull_distribution<double>& d() { return weibull_distribution; } };
struct NormalP : NormalKernel { NormalP(const NormalKernel& k) : NormalKernel(k) {} std::normal_distribution<double>& d() { return normal_distribution; } };
struct LogNormalP : LogNormalKernel { LogNormalP(const LogNormalKernel& k) : LogNormalKernel(k) {} std::lognormal_distribution<double>& d() { return lognormal_distribution; } };
struct GammaP : GammaKernel { GammaP(const GammaKernel& k) : GammaKernel(k) {} std::gamma_distribution<double>& d() { return gamma_distribution; } };
struct PowerLawP : PowerLawKernel { PowerLawP(const PowerLawKernel& k) : PowerLawKernel(k) {} std::uniform_real_distribution<double>& d() { return distribution; } };
struct HypSecP : HyperbolicSecantKernel { HypSecP(const HyperbolicSecantKernel& k) : HyperbolicSecantKernel(k) {} std::uniform_real_distribution<double>& d() { return distribution; } };
struct ExpPowerP : ExponentialPowerKernel { ExpPowerP(const ExponentialPowerKernel& k) : ExponentialPowerKernel(k) {} std::uniform_real_distribution<double>& d() { return distribution; } };
struct LogisticP : LogisticKernel { LogisticP(const LogisticKernel& k) : LogisticKernel(k) {} std::uniform_real_distribution<double>& d() { return distribution; } };

// What one distribution class owns and does, observed on a copy: sampler kind and parameters,
// pdf(x), and whether random() equals the draw of a standard distribution with those parameters
// (or icdf of a uniform value) on an identical engine.
struct LawObs {
    std::string kind;
    double p1 = 0, p2 = 0;
    std::string pdf;
    int same = -1;
};
template <class F> static std::string try_double(F&& f) {
    double r = 0;
    std::string e = ::verif::err_kind([&] { r = f(); });
    return e.empty() ? hx(r) : e;
}
template <class K, class D> static int same_std(K k, D dist, uint64_t s) {
    Scripted e1(s), e2(s);
    int ok = 1;
    for (int i = 0; i < 4; i++) {
        double a = k.random(e1);
        double b = std::abs(dist(e2));
        if (!(a == b)) ok = 0;
    }
    return ok && e1 == e2;
}
template <class K> static int same_icdf(K k, uint64_t s) {
    Scripted e1(s), e2(s);
    std::uniform_real_distribution<double> u(0.0, 1.0);
    int ok = 1;
    for (int i = 0; i < 4; i++) {
        std::string a = try_double([&] { return k.random(e1); });
        double x = u(e2);
        std::string b = try_double([&] { return k.icdf(x); });
        if (a != b) ok = 0;
    }
    return ok && e1 == e2;
}

struct RadialProbe : Radial {
    RadialProbe(const Radial& k) : Radial(k) {}
    DispersalKernelType type() const { return dispersal_kernel_type_; }
    double ew() const { return east_west_resolution; }
    double ns() const { return north_south_resolution; }
    VonMisesDistribution& vm() { return von_mises; }
    double scale_seen() { return CauchyP(cauchy_distribution).d().b(); }  // distance_scale as CauchyKernel received it
    double shape_seen() { return WeibullP(weibull_distribution).d().a(); }  // shape as WeibullKernel received it
    // the distance and the angle operator() will draw next, from this copy's distribution members
    template <class G> void draw(G& g, double& dist, double& theta) {
        draw_distance(g, dist);
        theta = von_mises(g);
    }
    template <class G> void draw_distance(G& g, double& dist) {
        switch (dispersal_kernel_type_) {
        case DispersalKernelType::Cauchy: dist = std::abs(cauchy_distribution.random(g)); break;
        case DispersalKernelType::Exponential: dist = std::abs(exponential_distribution.random(g)); break;
        case DispersalKernelType::Weibull: dist = std::abs(weibull_distribution.random(g)); break;
        case DispersalKernelType::Normal: dist = std::abs(normal_distribution.random(g)); break;
        case DispersalKernelType::LogNormal: dist = std::abs(lognormal_distribution.random(g)); break;
        case DispersalKernelType::PowerLaw: dist = std::abs(power_law_distribution.random(g)); break;
        case DispersalKernelType::HyperbolicSecant: dist = std::abs(hyperbolic_secant_distribution.random(g)); break;
        case DispersalKernelType::Gamma: dist = std::abs(gamma_distribution.random(g)); break;
        case DispersalKernelType::ExponentialPower: dist = std::abs(exponential_power_distribution.random(g)); break;
        case DispersalKernelType::Logistic: dist = std::abs(logistic_distribution.random(g)); break;
        default: throw std::invalid_argument("probe: unsupported");
        }
    }
    LawObs law(DispersalKernelType t, double x, uint64_t s) {
        LawObs o;
        switch (t) {
        case DispersalKernelType::Cauchy: { CauchyP p(cauchy_distribution); o.kind = "cauchy"; o.p1 = p.d().a(); o.p2 = p.d().b();
            o.pdf = try_double([&] { return p.pdf(x); }); o.same = same_std(p, std::cauchy_distribution<double>(o.p1, o.p2), s); break; }
        case DispersalKernelType::Exponential: { ExponentialP p(exponential_distribution); o.kind = "exponential"; o.p1 = p.d().lambda();
            o.pdf = try_double([&] { return p.pdf(x); }); o.same = same_std(p, std::exponential_distribution<double>(o.p1), s); break; }
        case DispersalKernelType::Weibull: { WeibullP p(weibull_distribution); o.kind = "weibull"; o.p1 = p.d().a(); o.p2 = p.d().b();
            o.pdf = try_double([&] { return p.pdf(x); }); o.same = same_std(p, std::weibull_distribution<double>(o.p1, o.p2), s); break; }
        case DispersalKernelType::Normal: { NormalP p(normal_distribution); o.kind = "normal"; o.p1 = p.d().mean(); o.p2 = p.d().stddev();
            o.pdf = try_double([&] { return p.pdf(x); }); o.same = same_std(p, std::normal_distribution<double>(o.p1, o.p2), s); break; }
        case DispersalKernelType::LogNormal: { LogNormalP p(lognormal_distribution); o.kind = "lognormal"; o.p1 = p.d().m(); o.p2 = p.d().s();
            o.pdf = try_double([&] { return p.pdf(x); }); o.same = same_std(p, std::lognormal_distribution<double>(o.p1, o.p2), s); break; }
        case DispersalKernelType::Gamma: { GammaP p(gamma_distribution); o.kind = "gamma"; o.p1 = p.d().alpha(); o.p2 = p.d().beta();
            o.pdf = try_double([&] { return p.pdf(x); }); o.same = same_std(p, std::gamma_distribution<double>(o.p1, o.p2), s); break; }
        case DispersalKernelType::PowerLaw: { PowerLawP p(power_law_distribution); o.kind = "uniform"; o.p1 = p.d().a(); o.p2 = p.d().b();
            o.pdf = try_double([&] { return p.pdf(x); }); o.same = same_icdf(p, s); break; }
        case DispersalKernelType::HyperbolicSecant: { HypSecP p(hyperbolic_secant_distribution); o.kind = "uniform"; o.p1 = p.d().a(); o.p2 = p.d().b();
            o.pdf = try_double([&] { return p.pdf(x); }); o.same = same_icdf(p, s); break; }
        case DispersalKernelType::ExponentialPower: { ExpPowerP p(exponential_power_distribution); o.kind = "uniform"; o.p1 = p.d().a(); o.p2 = p.d().b();
            o.pdf = try_double([&] { return p.pdf(x); }); o.same = same_icdf(p, s); break; }
        case DispersalKernelType::Logistic: { LogisticP p(logistic_distribution); o.kind = "uniform"; o.p1 = p.d().a(); o.p2 = p.d().b();
            o.pdf = try_double([&] { return p.pdf(x); }); o.same = same_icdf(p, s); break; }
        default: o.kind = "none"; o.pdf = "na"; break;
        }
        return o;
    }
    // random() of the selected member on a scripted engine, and icdf of the uniform it must have used
    std::string random_of(DispersalKernelType t, Scripted& e) {
        switch (t) {
        case DispersalKernelType::PowerLaw: return try_double([&] { return power_law_distribution.random(e); });
        case DispersalKernelType::HyperbolicSecant: return try_double([&] { return hyperbolic_secant_distribution.random(e); });
        case DispersalKernelType::ExponentialPower: return try_double([&] { return exponential_power_distribution.random(e); });
        case DispersalKernelType::Logistic: return try_double([&] { return logistic_distribution.random(e); });
        default: return "na";
        }
    }
    std::string icdf_of(DispersalKernelType t, double u) {
        switch (t) {
        case DispersalKernelType::Cauchy: return try_double([&] { return cauchy_distribution.icdf(u); });
        case DispersalKernelType::Exponential: return try_double([&] { return exponential_distribution.icdf(u); });
        case DispersalKernelType::Weibull: return try_double([&] { return weibull_distribution.icdf(u); });
        case DispersalKernelType::Normal: return try_double([&] { return normal_distribution.icdf(u); });
        case DispersalKernelType::LogNormal: return try_double([&] { return lognormal_distribution.icdf(u); });
        case DispersalKernelType::PowerLaw: return try_double([&] { return power_law_distribution.icdf(u); });
        case DispersalKernelType::HyperbolicSecant: return try_double([&] { return hyperbolic_secant_distribution.icdf(u); });
        case DispersalKernelType::Gamma: return try_double([&] { return gamma_distribution.icdf(u); });
        case DispersalKernelType::ExponentialPower: return try_double([&] { return exponential_power_distribution.icdf(u); });
        case DispersalKernelType::Logistic: return try_double([&] { return logistic_distribution.icdf(u); });
        default: return "na";
        }
    }
};

struct UniformProbe : UniformDispersalKernel {
    UniformProbe(const UniformDispersalKernel& k) : UniformDispersalKernel(k) {}
    // the two member distributions, when the class still has them (a rewrite of the internals must not stop the
    // harness from compiling: the behavioural lines kern.uniform.draw / .sweep / .real judge the landing law)
    template <class K> static auto ranges_of(K& k, int) -> decltype(k.row_distribution.a(), k.col_distribution.b(), std::string()) {
        std::ostringstream o;
        o << k.row_distribution.a() << " " << k.row_distribution.b() << " " << k.col_distribution.a() << " " << k.col_distribution.b();
        return o.str();
    }
    template <class K> static std::string ranges_of(K&, long) { return "na na na na"; }
    std::string ranges() { return ranges_of(*this, 0); }
};
struct NeighborProbe : DeterministicNeighborDispersalKernel {
    NeighborProbe(const DeterministicNeighborDispersalKernel& k) : DeterministicNeighborDispersalKernel(k) {}
    Direction dir() const { return direction_; }
};
struct DetProbe : DeterministicDispersalKernel<IntRaster> {
    DetProbe(const DeterministicDispersalKernel<IntRaster>& k) : DeterministicDispersalKernel<IntRaster>(k) {}
    std::string desc() { return std::string(type_tok(kernel_type_)) + " ew=" + hx(east_west_resolution) + " ns=" + hx(north_south_resolution); }
    // distance_scale and shape as the member distributions received them (Cauchy s, Weibull a)
    std::string params() { return "scale=" + hx(CauchyP(cauchy).d().b()) + " shape=" + hx(WeibullP(weibull).d().a()); }
};
struct NetKProbe : NetworkDispersalKernel<int> {
    NetKProbe(const NetworkDispersalKernel<int>& k) : NetworkDispersalKernel<int>(k) {}
    std::string desc() {
        std::ostringstream o;
        o << "teleport=" << teleport_ << " jump=" << jump_ << " min=" << hx(distance_distribution_.a()) << " max=" << hx(distance_distribution_.b());
        return o.str();
    }
};
// protected member of a wrapper object that cannot be copied into a subclass: pointer to member
template <class K, class G> struct WrapProbe : DynamicWrapperKernel<K, G> {
    static K& get(DynamicWrapperKernel<K, G>& w) { return w.*(&WrapProbe::kernel_); }
};
template <class G> struct DynProbe : DispersalKernel<G> {
    using Base = DispersalKernel<G>;
    static bool use(Base& k) { return k.*(&DynProbe::use_anthropogenic_kernel_); }
    static double p(Base& k) { return (k.*(&DynProbe::bernoulli_distribution)).p(); }
    static KernelInterface<G>* nat(Base& k) { return (k.*(&DynProbe::natural_kernel_)).get(); }
    static KernelInterface<G>* ant(Base& k) { return (k.*(&DynProbe::anthropogenic_kernel_)).get(); }
};

// von Mises member observed through scripted uniforms (mu and kappa are private): the angle for
// (u1, u2, u3) and the number of engine values consumed
static std::string vm_obs(VonMisesDistribution vm, const std::vector<uint64_t>& vals) {
    Scripted e(vals);
    double th = vm(e);
    return hx(th) + ":" + std::to_string(e.calls);
}
static const int UB = 24;  // uniforms are multiples of 2^-24
static std::vector<uint64_t> uvals(const std::vector<long>& nums) {
    std::vector<uint64_t> v;
    for (long n : nums) v.push_back(uval((uint64_t)n, UB));
    return v;
}
static std::string describe_radial(const Radial& k, double x, uint64_t s) {
    RadialProbe p(k);
    std::ostringstream o;
    o << "radial ew=" << hx(p.ew()) << " ns=" << hx(p.ns()) << " type=" << type_tok(p.type());
    LawObs l = p.law(p.type(), x, s);
    o << " sampler=" << l.kind << ":" << hx(l.p1) << ":" << hx(l.p2) << " pdf=" << l.pdf << " same=" << l.same;
    // two behavioural observations of the von Mises member: u1 = 2^-20 (angle next to mu) and u1 = 1/2
    o << " vmA=" << vm_obs(p.vm(), uvals({1L << (UB - 20), 0, 3L << (UB - 2)}));
    o << " vmB=" << vm_obs(p.vm(), uvals({1L << (UB - 1), 0, 1L << (UB - 2)}));
    return o.str();
}

// ---------------------------------------------------------------------------------- generators

static Q pick_scale(Rng& r) {
    static const std::vector<Q> v = {{1, 2}, {1, 1}, {3, 2}, {2, 1}, {5, 1}, {10, 1}, {30, 1}, {91, 2}, {100, 1}, {7, 4}};
    return r.pick(v);
}
static Q pick_shape(Rng& r) {
    static const std::vector<Q> v = {{1, 2}, {1, 1}, {3, 2}, {2, 1}, {3, 1}, {5, 4}};
    return r.pick(v);
}
static Q pick_res(Rng& r) {
    static const std::vector<Q> v = {{1, 1}, {5, 2}, {10, 1}, {30, 1}, {100, 1}, {133, 4}, {1, 2}, {7, 1}};
    return r.pick(v);
}
static Q pick_kappa(Rng& r) {
    static const std::vector<Q> v = {{0, 1}, {1, 1048576}, {1, 2}, {2, 1}, {10, 1}, {50, 1}, {3, 1}};
    return r.pick(v);
}
static Q pick_x(Rng& r) {
    static const std::vector<Q> v = {{0, 1}, {1, 4}, {1, 1}, {5, 2}, {10, 1}, {151, 4}, {3, 1}, {1, 16}, {-1, 1}, {60, 1}};
    return r.pick(v);
}

// ---------------------------------------------------------------------------------- test network
// One segment on a 10 x 10 grid (bbox 0..100, resolution 10): nodes 1 and 2 at the cells (8, 1) and
// (1, 5), row != col for both and NO node at the transposed cells (1, 8) and (5, 1).  `hasnode` in
// the protocol is this table (the harness's own knowledge), not an answer of the library.
static const int ELIG_CELLS[][3] = {{8, 1, 1}, {1, 5, 1}, {1, 8, 0}, {5, 1, 0}, {0, 0, 0}, {1, 1, 0}, {8, 8, 0}, {5, 5, 0}};
static const int N_ELIG_CELLS = 8;
static void load_test_network(Network<int>& net) {
    std::stringstream ns("1,2,16.7;16.7;50.0;16.7;50.0;50.0;50.0;83.3\n");
    net.load(ns);
}

// ---------------------------------------------------------------------------------- tables

static void names_kernel(std::ostream& out) {
    std::vector<std::string> base = {
        "cauchy", "Cauchy", "exponential", "Exponential", "uniform", "Uniform", "deterministic neighbor",
        "deterministic-neighbor", "Deterministic-neighbor", "Deterministic-Neighbor", "Deterministic neighbor",
        "Deterministic Neighbor", "power law", "power-law", "Power-law", "Power-Law", "Power Law", "Power law",
        "hyperbolic secant", "hyperbolic-secant", "Hyperbolic-secant", "Hyperbolic-Secant", "Hyperbolic secant",
        "Hyperbolic Secant", "gamma", "Gamma", "exponential power", "exponential-power", "Exponential-power",
        "Exponential-Power", "Exponential power", "Exponential Power", "weibull", "Weibull", "normal", "Normal",
        "log normal", "log-normal", "Log-normal", "Log-Normal", "Log normal", "Log Normal", "logistic", "Logistic",
        "network", "Network", "none", "None", "NONE", ""};
    std::set<std::string> all(base.begin(), base.end());
    for (auto& b : base) {
        std::string u = b, l = b, us = b, sp = b + " ", nosp;
        for (auto& c : u) c = (char)std::toupper((unsigned char)c);
        for (auto& c : l) c = (char)std::tolower((unsigned char)c);
        for (auto& c : us) if (c == ' ' || c == '-') c = '_';
        for (auto c : b) if (c != ' ' && c != '-') nosp += c;
        all.insert(u); all.insert(l); all.insert(us); all.insert(sp); all.insert(nosp);
        if (!b.empty()) { all.insert(b.substr(0, b.size() - 1)); all.insert(b + "s"); std::string sw = b; sw[0] = (char)(std::isupper((unsigned char)sw[0]) ? std::tolower((unsigned char)sw[0]) : std::toupper((unsigned char)sw[0])); all.insert(sw); }
    }
    for (auto& x : {"lognormal", "hyperbolicsecant", "powerlaw", "exponentialpower", "deterministic", "neighbor", "radial", "von mises", "0", "null", "N"}) all.insert(x);
    for (auto& s : all) {
        DispersalKernelType t = DispersalKernelType::None;
        std::string e = ::verif::err_kind([&] { t = kernel_type_from_string(s); });
        out << "kern.name " << tok(s) << " => " << (e.empty() ? std::string("ok ") + type_tok(t) : e) << "\n";
        stats.add(e.empty() ? "kernel_names_accepted" : "kernel_names_rejected");
    }
    {  // C string overload with nullptr
        DispersalKernelType t = kernel_type_from_string((const char*)nullptr);
        out << "kern.name <empty> => ok " << type_tok(t) << "\n";
    }
}
static void names_direction(std::ostream& out) {
    std::vector<std::string> base = {"N", "NE", "E", "SE", "S", "SW", "W", "NW", "NONE", "None", "none", ""};
    std::set<std::string> all(base.begin(), base.end());
    for (auto& b : base) {
        std::string l = b, u = b;
        for (auto& c : l) c = (char)std::tolower((unsigned char)c);
        for (auto& c : u) c = (char)std::toupper((unsigned char)c);
        all.insert(l); all.insert(u); all.insert(b + " "); all.insert(" " + b);
        if (b.size() == 2) { std::string r = b; std::swap(r[0], r[1]); all.insert(r); }
    }
    for (auto& x : {"North", "north", "EN", "NNE", "0", "45", "nONE", "NoNe", "X", "NS", "EW"}) all.insert(x);
    for (auto& s : all) {
        Direction d = Direction::None;
        std::string e = ::verif::err_kind([&] { d = direction_from_string(s); });
        out << "kern.dir " << tok(s) << " => " << (e.empty() ? std::string("ok ") + dir_tok(d) : e) << "\n";
        stats.add(e.empty() ? "direction_names_accepted" : "direction_names_rejected");
    }
    { Direction d = direction_from_string((const char*)nullptr); out << "kern.dir <empty> => ok " << dir_tok(d) << "\n"; }
    for (auto d : DIRS) out << "kern.dirdeg " << dir_tok(d) << " => " << static_cast<int>(d) << "\n";
}
static void neighbor_table(std::ostream& out) {
    std::default_random_engine g(1);
    for (auto d : DIRS)
        for (int row : {-1, 0, 1, 5, 1000000})
            for (int col : {-1, 0, 2, 7}) {
                DeterministicNeighborDispersalKernel k(d);
                int r = 0, c = 0;
                auto before = g;
                std::string e = ::verif::err_kind([&] { std::tie(r, c) = k(g, row, col); });
                out << "kern.neighbor " << dir_tok(d) << " " << row << " " << col << " => ";
                if (e.empty()) out << r << " " << c << " gen=" << (g == before ? 0 : 1) << "\n"; else out << e << "\n";
                stats.add("neighbor_calls");
            }
}

static bool selftest(std::ostream& out) {
    // assumptions about libstdc++ with a 64-bit engine: one value per uniform / Bernoulli draw,
    // uniform = v / 2^64, Bernoulli(p) true iff uniform < p
    bool canon = true, bern = true;
    for (uint64_t num : {0ULL, 1ULL, 3ULL << 20, (1ULL << UB) - 1, 1ULL << (UB - 1)}) {
        Scripted e(std::vector<uint64_t>{uval(num, UB)});
        std::uniform_real_distribution<double> u(0.0, 1.0);
        double x = u(e);
        if (x != std::ldexp((double)num, -UB) || e.calls != 1) canon = false;
        for (double p : {0.0, 0.25, 0.375, 1.0}) {
            Scripted e2(std::vector<uint64_t>{uval(num, UB)});
            std::bernoulli_distribution b(p);
            bool r = b(e2);
            if (r != (std::ldexp((double)num, -UB) < p) || e2.calls != 1) bern = false;
        }
    }
    out << "kern.selftest => canonical=" << canon << " bernoulli=" << bern << "\n";
    return canon && bern;
}

static void switch_table(std::ostream& out) {
    // members that can be told apart by behaviour from source cell (8, 1) of a 10 x 10 grid, res 10:
    //   uniform(1,1) -> (0,0); neighbour E -> (8,2); network teleport -> (1,5);
    //   deterministic -> no engine value consumed, never the E neighbour on the first call;
    //   radial -> engine values consumed (and none of the above)
    BBox<double> bbox; bbox.north = 100; bbox.south = 0; bbox.east = 100; bbox.west = 0;
    Network<int> net(bbox, 10, 10);
    std::stringstream ns("1,2,16.7;16.7;50.0;16.7;50.0;50.0;50.0;83.3\n");
    net.load(ns);
    IntRaster dispersers(10, 10, 1);
    for (auto t : ALLTYPES)
        for (int stoch = 0; stoch <= 1; stoch++) {
            out << "kern.switch " << type_tok(t) << " " << stoch << " => ";
            std::string res;
            std::string e = ::verif::err_kind([&] {
                Radial radial(10, 10, t, 1.0 / 1024, Direction::None, 0, 1);
                DispersalKernelType dt = Radial::supports_kernel(t) ? t : DispersalKernelType::Cauchy;
                DeterministicDispersalKernel<IntRaster> det(dt, dispersers, 0.5, 10, 10, 1.0 / 1024, 1);
                UniformDispersalKernel uni(1, 1);
                NetworkDispersalKernel<int> netk(net);
                DeterministicNeighborDispersalKernel nb(Direction::E);
                SwitchDispersalKernel<IntRaster, int> sw(t, radial, det, uni, netk, nb, stoch == 1);
                Scripted g(7);
                int r = -1, c = -1;
                std::string e2 = ::verif::err_kind([&] { std::tie(r, c) = sw(g, 8, 1); });
                std::ostringstream o;
                if (!e2.empty()) o << "call-" << e2;
                else if (r == 0 && c == 0) o << "uniform";
                else if (r == 8 && c == 2 && g.calls == 0) o << "neighbor";
                else if (r == 1 && c == 5) o << "network";
                else if (g.calls == 0) o << "deterministic";
                else o << "radial";
                o << " elig=" << sw.is_cell_eligible(8, 1) << sw.is_cell_eligible(0, 0)
                  << " supports=" << SwitchDispersalKernel<IntRaster, int>::supports_kernel(t);
                res = o.str();
            });
            out << (e.empty() ? res : "ctor-" + e) << "\n";
            stats.add("switch_entries");
        }
}

static void uniform_case(::verif::Case& c, int rows, int cols) {
    std::ostream& out = c.out;
    UniformDispersalKernel k(rows, cols);
    out << "kern.uniform.ranges " << rows << " " << cols << " => " << UniformProbe(k).ranges() << "\n";
    // every pair of mid-bucket engine values (one per cell) and the extreme values
    std::set<std::pair<int, int>> seen;
    long outside = 0;
    auto mid = [](int kk, int n) { return (uint64_t)((((unsigned __int128)kk << 64) + ((unsigned __int128)1 << 63)) / (unsigned)n); };
    std::vector<uint64_t> rv, cv;
    for (int i = 0; i < rows; i++) rv.push_back(mid(i, rows));
    for (int j = 0; j < cols; j++) cv.push_back(mid(j, cols));
    rv.push_back(UINT64_MAX); cv.push_back(UINT64_MAX);
    rv.push_back(UINT64_MAX - 1000); cv.push_back(1ULL << 63);
    for (uint64_t a : rv)
        for (uint64_t b : cv) {
            Scripted g(std::vector<uint64_t>{a, b});
            int srow = c.rng.in(-2, rows + 1), scol = c.rng.in(-2, cols + 1);
            int r, cc;
            UniformDispersalKernel kk(rows, cols);
            std::tie(r, cc) = kk(g, srow, scol);
            out << "kern.uniform.draw " << rows << " " << cols << " " << srow << " " << scol << " " << a << " " << b << " => " << r
                << " " << cc << " calls=" << g.calls << "\n";
            seen.insert({r, cc});
            if (r < 0 || r >= rows || cc < 0 || cc >= cols) outside++;
            stats.add("uniform_scripted_draws");
        }
    long inside_distinct = 0;
    for (auto& p : seen) if (p.first >= 0 && p.first < rows && p.second >= 0 && p.second < cols) inside_distinct++;
    out << "kern.uniform.cover " << rows << " " << cols << " => distinct_inside=" << inside_distinct << " outside=" << outside << "\n";
    // the library's usual engine: extremes over many draws
    std::default_random_engine g((unsigned)c.rng.in(1, 1 << 30));
    int n = 400 * rows * cols, rmin = 1 << 30, rmax = -1, cmin = 1 << 30, cmax = -1;
    for (int i = 0; i < n; i++) {
        int r, cc;
        std::tie(r, cc) = k(g, 0, 0);
        rmin = std::min(rmin, r); rmax = std::max(rmax, r); cmin = std::min(cmin, cc); cmax = std::max(cmax, cc);
    }
    out << "kern.uniform.sample " << rows << " " << cols << " " << n << " => " << rmin << " " << rmax << " " << cmin << " " << cmax << "\n";
    stats.add("uniform_sampled_draws", n);
    stats.add("uniform_landscapes");
    c.nontrivial = true;
}

// stub kernels for the mix: record what was asked and which engine they were handed
struct MixLog {
    int called = -1;       // 0 natural, 1 anthropogenic
    const void* gen = nullptr;
    bool asked = false;
    int ar = 0, ac = 0;
};
struct StubKernel {
    int id;
    MixLog* log;
    template <class G> std::tuple<int, int> operator()(G& g, int row, int col) {
        log->called = id; log->gen = &g;
        return id == 0 ? std::make_tuple(row + 100, col) : std::make_tuple(row, col + 100);
    }
    bool is_cell_eligible(int r, int c) { log->asked = true; log->ar = r; log->ac = c; return ((r + c) % 2 + 2) % 2 == 0; }
    static bool supports_kernel(const DispersalKernelType) { return true; }
};
struct Provider {
    Scripted nat, ant;
    Scripted& natural_dispersal() { return nat; }
    Scripted& anthropogenic_dispersal() { return ant; }
};
using StubMix = NaturalAnthropogenicDispersalKernel<StubKernel, StubKernel>;
// One decision of an existing kernel object (the object is re-used along a case, so a decision that
// depended on earlier source cells would show).
static void mix_line(std::ostream& out, StubMix& k, MixLog& log, bool enabled, int row, int col, long unum, Q p) {
    log = MixLog();
    Provider prov;
    prov.ant.script = {uval((uint64_t)unum, UB)};
    int r, c;
    std::tie(r, c) = k(prov, row, col);
    bool eligible = ((row + col) % 2 + 2) % 2 == 0;
    out << "kern.mix stub " << enabled << " " << eligible << " " << unum << "/" << (1L << UB) << " " << qs(p) << " " << row << " " << col << " => "
        << (log.called == 0 ? "natural" : log.called == 1 ? "anthro" : "?") << " asked=";
    if (log.asked) out << log.ar << "," << log.ac; else out << "none";
    out << " calls_ant=" << prov.ant.calls << " calls_nat=" << prov.nat.calls << " gen=" << (log.gen == &prov.nat ? "nat" : log.gen == &prov.ant ? "ant" : "?")
        << " " << r << " " << c << "\n";
    stats.add("mix_decisions");
}
static void mix_case(::verif::Case& c, Q p) {
    long one = 1L << UB;
    long pn = p.num * (one / p.den);
    std::vector<long> us = {0, 1, one / 2, one - 1, pn - 1, pn, pn + 1, pn / 2, (pn + one) / 2};
    for (int enabled = 0; enabled <= 1; enabled++) {
        MixLog log;
        StubMix k(std::unique_ptr<StubKernel>(new StubKernel{0, &log}), std::unique_ptr<StubKernel>(new StubKernel{1, &log}), enabled == 1, p.v());
        for (int parity = 0; parity <= 1; parity++)
            for (long u : us) {
                if (u < 0 || u >= one) continue;
                int row = c.rng.in(-3, 40), col = c.rng.in(-3, 40);
                if ((((row + col) % 2) + 2) % 2 != parity) col++;
                mix_line(c.out, k, log, enabled == 1, row, col, u, p);
            }
        // source cells in the order the disperser loop visits them (row-major sweep of a small grid,
        // several dispersers per cell), then the same cells again and in reverse
        int rows = c.rng.in(1, 4), cols = c.rng.in(1, 4);
        std::vector<std::pair<int, int>> order;
        for (int a = 0; a < rows; a++) for (int b = 0; b < cols; b++) if (!c.rng.coin(25)) order.push_back({a, b});
        size_t n0 = order.size();
        for (size_t x = 0; x < n0; x++) order.push_back(order[x]);
        for (size_t x = n0; x-- > 0;) order.push_back(order[x]);
        for (auto& rc : order) {
            int reps = c.rng.in(1, 2);
            for (int t = 0; t < reps; t++) {
                long u = c.rng.coin(50) ? one - 1 : (c.rng.coin(50) ? 0 : (long)c.rng.in(0, (1 << UB) - 1));
                mix_line(c.out, k, log, enabled == 1, rc.first, rc.second, u, p);
            }
        }
        stats.add("mix_sweeps");
    }
    c.nontrivial = true;
}

// ---------------------------------------------------------------------------------- radial mode

// A quotient distance / resolution beyond the range of long makes lround() and the following
// `row -= ...` undefined (observed: log-normal with sigma = 100 aborts under UBSan); such draws are
// reported as "skip" without calling the kernel (finding for C20, outside C13's predicates).
template <class E> static void radial_calls(::verif::Case& c, Radial& k, E& eng, const std::string& head, int n, double minres) {
    for (int i = 0; i < n; i++) {
        int row = c.rng.in(-50, 500), col = c.rng.in(-50, 500);
        RadialProbe probe(k);
        E ecopy = eng;
        double d = 0, th = 0;
        std::string pe = ::verif::err_kind([&] { probe.draw(ecopy, d, th); });
        int r = 0, cc = 0;
        if (pe.empty() && !(std::fabs(d) / minres < 1e9)) {
            eng = ecopy;
            c.out << head << " " << row << " " << col << " d=" << hx(d) << " theta=" << hx(th) << " sync=1 => skip\n";
            stats.add("radial_calls_skipped_overflow");
            continue;
        }
        std::string e = ::verif::err_kind([&] { std::tie(r, cc) = k(eng, row, col); });
        c.out << head << " " << row << " " << col << " d=" << (pe.empty() ? hx(d) : pe) << " theta=" << (pe.empty() ? hx(th) : pe)
              << " sync=" << (eng == ecopy ? 1 : 0) << " => ";
        if (e.empty()) c.out << r << " " << cc << "\n"; else c.out << e << "\n";
        stats.add(e.empty() ? "radial_calls" : "radial_calls_rejected");
    }
}

static void radial_case(::verif::Case& c) {
    Rng& rng = c.rng;
    DispersalKernelType t = LAWS[(size_t)(c.index % 10)];
    Direction dir = DIRS[(size_t)((c.index / 10) % 9)];
    if (rng.coin(4)) {  // types the radial class does not support, now and then
        static const std::vector<DispersalKernelType> other = {DispersalKernelType::Uniform, DispersalKernelType::DeterministicNeighbor,
                                                               DispersalKernelType::Network, DispersalKernelType::None};
        t = rng.pick(other);
    }
    Q scale = pick_scale(rng), shape = pick_shape(rng), kappa = pick_kappa(rng), ns = pick_res(rng), ew = pick_res(rng);
    if (rng.coin(80)) while (ew.num * ns.den == ns.num * ew.den) ew = pick_res(rng);
    if (t == DispersalKernelType::LogNormal && scale.num > 5 * scale.den) scale = Q{3, 2};  // exp(sigma * z) must stay finite
    if (t == DispersalKernelType::PowerLaw && scale.num > 5 * scale.den) scale = Q{5, 2};   // u^(1 - alpha) must stay finite
    std::ostringstream h;
    h << "kern.radial " << type_tok(t) << " " << qs(scale) << " " << qs(shape) << " " << dir_tok(dir) << " " << qs(kappa) << " " << qs(ns) << " " << qs(ew) << " probe=0";
    stats.add(std::string("radial_law_") + type_tok(t));
    stats.add(std::string("radial_dir_") + dir_tok(dir));
    stats.add(ns.num * ew.den == ew.num * ns.den ? "radial_square_cells" : "radial_anisotropic_cells");
    Radial k(ew.v(), ns.v(), t, scale.v(), dir, kappa.v(), shape.v());
    int which = rng.in(0, 2);
    if (which == 0) { std::default_random_engine e((unsigned)rng.in(1, 1 << 30)); radial_calls(c, k, e, h.str(), 6, std::min(ns.v(), ew.v())); }
    else if (which == 1) { std::mt19937_64 e((uint64_t)rng.next()); radial_calls(c, k, e, h.str(), 6, std::min(ns.v(), ew.v())); }
    else { Scripted e((uint64_t)rng.next()); radial_calls(c, k, e, h.str(), 6, std::min(ns.v(), ew.v())); }
    // axis check with a scripted engine: the angle lands next to mu (u1 = 2^-20, accepted at once)
    if (dir != Direction::None) {
        Radial k2(ew.v(), ns.v(), t, scale.v(), dir, 50.0, shape.v());
        std::ostringstream h2;
        h2 << "kern.radial " << type_tok(t) << " " << qs(scale) << " " << qs(shape) << " " << dir_tok(dir) << " 50/1 " << qs(ns) << " " << qs(ew) << " probe=1";
        for (int i = 0; i < 2; i++) {
            // the distance draw consumes an unknown number of engine values: count them on a copy,
            // then script the three von Mises uniforms right after them
            Scripted probe_e((uint64_t)rng.next());
            Scripted e0 = probe_e;
            {
                RadialProbe p(k2);
                double d;
                std::string pe = ::verif::err_kind([&] { p.draw_distance(probe_e, d); });
                if (!pe.empty()) continue;
            }
            long used = probe_e.calls;
            Scripted gen = e0;
            std::vector<uint64_t> sc;
            for (long j = 0; j < used; j++) sc.push_back(gen());
            sc.push_back(uval(1ULL << (UB - 20), UB)); sc.push_back(0); sc.push_back(uval((i == 0 ? 3ULL : 1ULL) << (UB - 2), UB));
            Scripted e(sc);
            radial_calls(c, k2, e, h2.str(), 1, std::min(ns.v(), ew.v()));
            stats.add("radial_axis_probes");
        }
    }
    c.nontrivial = true;
}

// ---------------------------------------------------------------------------------- laws mode

static void laws_case(::verif::Case& c) {
    Rng& rng = c.rng;
    DispersalKernelType t = LAWS[(size_t)(c.index % 10)];
    Q scale = pick_scale(rng), shape = pick_shape(rng);
    if (rng.coin(4)) scale = rng.coin() ? Q{0, 1} : Q{-1, 1};
    if (rng.coin(4)) shape = rng.coin() ? Q{0, 1} : Q{-2, 1};
    std::ostream& out = c.out;
    Radial* kp = nullptr;
    std::string e = ::verif::err_kind([&] { kp = new Radial(10, 20, t, scale.v(), Direction::None, 0, shape.v()); });
    out << "kern.ctor " << qs(scale) << " " << qs(shape) << " => " << (e.empty() ? "ok" : e) << "\n";
    stats.add(e.empty() ? "law_ctor_ok" : "law_ctor_rejected");
    if (!e.empty()) return;
    std::unique_ptr<Radial> holder(kp);
    RadialProbe p(*kp);
    stats.add(std::string("laws_") + type_tok(t));
    for (int i = 0; i < 4; i++) {
        Q x = pick_x(rng);
        LawObs l = p.law(t, x.v(), rng.next());
        out << "kern.sampler " << type_tok(t) << " " << qs(scale) << " " << qs(shape) << " " << qs(x) << " => " << l.kind << " " << hx(l.p1) << " "
            << hx(l.p2) << " pdf=" << l.pdf << " same=" << l.same << "\n";
        stats.add("sampler_lines");
    }
    bool inverse_transform = t == DispersalKernelType::PowerLaw || t == DispersalKernelType::HyperbolicSecant
                             || t == DispersalKernelType::ExponentialPower || t == DispersalKernelType::Logistic;
    for (int i = 0; i < (inverse_transform ? 6 : 0); i++) {
        long num = rng.coin(15) ? (rng.coin() ? 0 : (1L << UB) - 1) : rng.in(1, (1 << UB) - 1);
        if (rng.coin(10)) num = 1L << (UB - 1);
        double u = std::ldexp((double)num, -UB);
        Scripted eng(std::vector<uint64_t>{uval((uint64_t)num, UB)});
        std::string r = p.random_of(t, eng);
        out << "kern.random " << type_tok(t) << " " << qs(scale) << " " << qs(shape) << " " << num << "/" << (1L << UB) << " => r=" << r
            << " icdf=" << p.icdf_of(t, u) << " calls=" << eng.calls << "\n";
        stats.add("random_lines");
    }
    // von Mises through the radial kernel's member, for a direction and kappa
    for (int i = 0; i < 3; i++) {
        Direction dir = rng.pick(DIRS);
        Q kappa = pick_kappa(rng);
        Radial k(10, 20, DispersalKernelType::Cauchy, 1, dir, kappa.v(), 1);
        RadialProbe pk(k);
        int rounds = rng.in(1, 3);
        std::vector<long> nums;
        for (int j = 0; j < rounds; j++) {
            nums.push_back(rng.coin(30) ? (1L << (UB - 20)) : rng.in(0, (1 << UB) - 1));
            nums.push_back(j == rounds - 1 ? 0 : rng.in(0, (1 << UB) - 1));  // last round is accepted (u2 = 0)
        }
        nums.push_back(rng.coin(20) ? (1L << (UB - 1)) : rng.in(0, (1 << UB) - 1));
        Scripted eng(uvals(nums));
        double th = pk.vm()(eng);
        out << "kern.vonmises " << dir_tok(dir) << " " << qs(kappa) << " " << nums.size();
        for (long n : nums) out << " " << n << "/" << (1L << UB);
        out << " => theta=" << hx(th) << " calls=" << eng.calls << "\n";
        // the pair of angles for the two outcomes of the sign draw, same u1 and u2
        long u1 = rng.coin(40) ? (1L << (UB - 20)) : rng.in(1, (1 << UB) - 1);
        Scripted ep(uvals({u1, 0, 3L << (UB - 2)})), em(uvals({u1, 0, 1L << (UB - 2)}));
        double tp = RadialProbe(k).vm()(ep), tm = RadialProbe(k).vm()(em);
        out << "kern.vonmises.pair " << dir_tok(dir) << " " << qs(kappa) << " " << u1 << "/" << (1L << UB) << " => plus=" << hx(tp)
            << " minus=" << hx(tm) << " calls=" << ep.calls << "\n";
        stats.add("vonmises_lines", 2);
    }
    c.nontrivial = true;
}

// ---------------------------------------------------------------------------------- factory mode

using FG = Scripted;  // generator type of the dynamically created kernels
static std::string describe_built(KernelInterface<FG>* k, double x, uint64_t s) {
    if (auto* w = dynamic_cast<DynamicWrapperKernel<UniformDispersalKernel, FG>*>(k))
        return "uniform " + UniformProbe(WrapProbe<UniformDispersalKernel, FG>::get(*w)).ranges();
    if (auto* w = dynamic_cast<DynamicWrapperKernel<DeterministicNeighborDispersalKernel, FG>*>(k))
        return std::string("neighbor ") + dir_tok(NeighborProbe(WrapProbe<DeterministicNeighborDispersalKernel, FG>::get(*w)).dir());
    if (auto* w = dynamic_cast<DynamicWrapperKernel<DeterministicDispersalKernel<IntRaster>, FG>*>(k))
        return "deterministic " + DetProbe(WrapProbe<DeterministicDispersalKernel<IntRaster>, FG>::get(*w)).desc();
    if (auto* w = dynamic_cast<DynamicWrapperKernel<NetworkDispersalKernel<int>, FG>*>(k))
        return "network " + NetKProbe(WrapProbe<NetworkDispersalKernel<int>, FG>::get(*w)).desc();
    if (auto* w = dynamic_cast<DynamicWrapperKernel<Radial, FG>*>(k))
        return describe_radial(WrapProbe<Radial, FG>::get(*w), x, s);
    return "unknown";
}

// class of a built kernel, its answer for the type its configuration name maps to, and its
// eligibility answers for the cells of ELIG_CELLS
static void built_line(std::ostream& out, const char* which, const std::string& name, KernelInterface<FG>* k) {
    std::string d = describe_built(k, 1.0, 1);
    std::string cls = d.substr(0, d.find(' '));
    out << "kern.built " << which << " " << tok(name) << " => " << cls << " sup=";
    bool sup = false;
    std::string e = ::verif::err_kind([&] { sup = k->supports_kernel(kernel_type_from_string(name)); });
    if (e.empty()) out << sup; else out << e;
    out << " elig=";
    for (int i = 0; i < N_ELIG_CELLS; i++) out << (k->is_cell_eligible(ELIG_CELLS[i][0], ELIG_CELLS[i][1]) ? 1 : 0);
    out << "\n";
    stats.add("built_lines");
}

// One decision of a factory-built natural/anthropogenic kernel: natural = neighbour kernel N.
template <class K, class F> static void mix_e2e_line(std::ostream& out, K& k, const char* src, bool enabled, bool eligible, long u, Q pnat,
                                                    int row, int col, F&& is_anthro_target) {
    long one = 1L << UB;
    Provider prov;
    prov.ant.script = {uval((uint64_t)u, UB)};
    int r = 0, cc = 0;
    std::string e = ::verif::err_kind([&] { std::tie(r, cc) = k(prov, row, col); });
    std::string which = !e.empty() ? e : (r == row - 1 && cc == col) ? "natural" : is_anthro_target(r, cc) ? "anthro" : "?";
    out << "kern.mix " << src << " " << enabled << " " << eligible << " " << u << "/" << one << " " << qs(pnat) << " " << row << " " << col << " => "
        << which << " asked=na calls_ant=" << prov.ant.calls << " calls_nat=" << prov.nat.calls << " gen=na " << r << " " << cc << "\n";
    stats.add("mix_decisions");
    stats.add(std::string("mix_") + src + (eligible ? "_eligible" : "_not_eligible"));
}

static void factory_case(::verif::Case& c) {
    Rng& rng = c.rng;
    std::ostream& out = c.out;
    static const std::vector<std::string> tnames = {
        "cauchy", "Exponential", "weibull", "Normal", "log-normal", "Log Normal", "power law", "Power-Law", "hyperbolic secant",
        "Hyperbolic-secant", "gamma", "Gamma", "exponential-power", "Exponential Power", "logistic", "Logistic", "uniform", "Uniform",
        "deterministic neighbor", "Deterministic-Neighbor", "network", "Network", "none", "", "bogus", "CAUCHY", "exponential power",
        "exponential", "log normal", "weibull", "normal", "power-law", "hyperbolic-secant"};
    static const std::vector<std::string> dnames = {"N", "NE", "E", "SE", "S", "SW", "W", "NW", "NONE", "None", "none", "", "n", "north"};
    static const std::vector<std::string> moves = {"walk", "jump", "teleport", ""};
    Config config;
    config.rows = rng.in(1, 9); config.cols = rng.in(1, 9);
    Q ew = pick_res(rng), ns = pick_res(rng);
    if (rng.coin(80)) while (ew.num * ns.den == ns.num * ew.den) ew = pick_res(rng);
    config.ew_res = ew.v(); config.ns_res = ns.v();
    Q nscale = pick_scale(rng), ascale = pick_scale(rng), shape = pick_shape(rng), nk = pick_kappa(rng), ak = pick_kappa(rng);
    if (rng.coin(4)) nscale = Q{0, 1};
    if (rng.coin(4)) ascale = Q{-1, 2};
    if (rng.coin(4)) shape = Q{0, 1};
    config.natural_scale = nscale.v(); config.anthro_scale = ascale.v(); config.shape = shape.v();
    config.natural_kappa = nk.v(); config.anthro_kappa = ak.v();
    config.natural_kernel_type = rng.pick(tnames); config.anthro_kernel_type = rng.pick(tnames);
    config.natural_direction = rng.pick(dnames); config.anthro_direction = rng.pick(dnames);
    config.dispersal_stochasticity = !rng.coin(12);
    Q pct = Q{rng.in(12, 15), 16};  // the deterministic kernel's window (C14) needs a positive quantile
    config.dispersal_percentage = pct.v();
    config.network_movement = rng.pick(moves);
    Q nmin = Q{rng.in(0, 20), 2}, nmax = Q{nmin.num + rng.in(0, 40), 2};
    config.network_min_distance = nmin.v(); config.network_max_distance = nmax.v();
    config.use_anthropogenic_kernel = rng.coin(60);
    Q pnat = Q{rng.in(0, 16), 16};
    config.percent_natural_dispersal = pnat.v();
    // the deterministic kernel (C14) is only constructed here with parameters in its domain
    bool det_ok = nscale.num > 0 && ascale.num > 0 && shape.num > 0;
    if (!config.dispersal_stochasticity && !det_ok) config.dispersal_stochasticity = true;
    IntRaster dispersers(config.rows, config.cols, 1);
    BBox<double> bbox; bbox.north = 100; bbox.south = 0; bbox.east = 100; bbox.west = 0;
    Network<int> net(bbox, 10, 10);
    load_test_network(net);
    Q x = pick_x(rng);
    uint64_t s = rng.next();
    std::ostringstream cfg;
    cfg << config.rows << " " << config.cols << " " << qs(ew) << " " << qs(ns) << " " << config.dispersal_stochasticity << " " << qs(pct) << " "
        << qs(shape) << " " << tok(config.natural_kernel_type) << " " << qs(nscale) << " " << tok(config.natural_direction) << " " << qs(nk) << " "
        << config.use_anthropogenic_kernel << " " << qs(pnat) << " " << tok(config.anthro_kernel_type) << " " << qs(ascale) << " "
        << tok(config.anthro_direction) << " " << qs(ak) << " " << tok(config.network_movement) << " " << qs(nmin) << " " << qs(nmax) << " x=" << qs(x);
    // deterministic kernel construction with an unsupported type or a huge window is C14's matter: skip those
    // (heavy-tailed quantiles make its window overflow int: log-normal sigma = 10 at 15/16 asks for 4.5e6 map units)
    auto det_type_ok = [&](const std::string& name) {
        DispersalKernelType t;
        try { t = kernel_type_from_string(name); } catch (...) { return true; }
        return t == DispersalKernelType::Cauchy || t == DispersalKernelType::Exponential || t == DispersalKernelType::Weibull
               || t == DispersalKernelType::Normal || t == DispersalKernelType::Logistic || t == DispersalKernelType::HyperbolicSecant
               || t == DispersalKernelType::Uniform || t == DispersalKernelType::DeterministicNeighbor || t == DispersalKernelType::Network;
    };
    if (!config.dispersal_stochasticity && !(det_type_ok(config.natural_kernel_type) && det_type_ok(config.anthro_kernel_type)))
        { config.dispersal_stochasticity = true; cfg.str(""); cfg << config.rows << " " << config.cols << " " << qs(ew) << " " << qs(ns) << " 1 " << qs(pct) << " "
        << qs(shape) << " " << tok(config.natural_kernel_type) << " " << qs(nscale) << " " << tok(config.natural_direction) << " " << qs(nk) << " "
        << config.use_anthropogenic_kernel << " " << qs(pnat) << " " << tok(config.anthro_kernel_type) << " " << qs(ascale) << " "
        << tok(config.anthro_direction) << " " << qs(ak) << " " << tok(config.network_movement) << " " << qs(nmin) << " " << qs(nmax) << " x=" << qs(x); }
    {
        std::unique_ptr<KernelInterface<FG>> k;
        std::string e = ::verif::err_kind([&] { k = create_natural_kernel<FG, IntRaster, int>(config, dispersers); });
        out << "kern.factory natural " << cfg.str() << " => " << (e.empty() ? describe_built(k.get(), x.v(), s) : e) << "\n";
        stats.add(e.empty() ? "factory_built" : "factory_rejected");
        if (e.empty()) built_line(out, "natural", config.natural_kernel_type, k.get());
    }
    {
        std::unique_ptr<KernelInterface<FG>> k;
        std::string e = ::verif::err_kind([&] { k = create_anthro_kernel<FG, IntRaster, int>(config, dispersers, net); });
        out << "kern.factory anthro " << cfg.str() << " => " << (e.empty() ? describe_built(k.get(), x.v(), s) : e) << "\n";
        stats.add(e.empty() ? "factory_built" : "factory_rejected");
        if (e.empty()) built_line(out, "anthro", config.anthro_kernel_type, k.get());
    }
    {
        std::string desc;
        std::string e = ::verif::err_kind([&] {
            auto k = create_dynamic_kernel<FG, IntRaster, int>(config, dispersers, net);
            std::ostringstream o;
            o << "use=" << DynProbe<FG>::use(k) << " p=" << hx(DynProbe<FG>::p(k)) << " ; " << describe_built(DynProbe<FG>::nat(k), x.v(), s) << " ; "
              << describe_built(DynProbe<FG>::ant(k), x.v(), s);
            desc = o.str();
        });
        out << "kern.factory dynamic " << cfg.str() << " => " << (e.empty() ? desc : e) << "\n";
        stats.add(e.empty() ? "factory_built" : "factory_rejected");
    }
    // end to end: neighbour kernels N (natural) and E (anthropogenic) through the public factory,
    // the Bernoulli value scripted on the anthropogenic stream
    {
        Config c2 = config;
        c2.natural_kernel_type = "deterministic neighbor"; c2.natural_direction = "N";
        c2.anthro_kernel_type = "deterministic-neighbor"; c2.anthro_direction = "E";
        auto k = create_dynamic_kernel<FG, IntRaster, int>(c2, dispersers, net);
        long one = 1L << UB, pn = pnat.num * (one / pnat.den);
        for (long u : {pn - 1, pn, pn + 1, (long)rng.in(0, (1 << UB) - 1)}) {
            if (u < 0 || u >= one) continue;
            Provider prov;
            prov.ant.script = {uval((uint64_t)u, UB)};
            int row = rng.in(0, 20), col = rng.in(0, 20), r, cc;
            std::tie(r, cc) = k(prov, row, col);
            std::string which = (r == row - 1 && cc == col) ? "natural" : (r == row && cc == col + 1) ? "anthro" : "?";
            out << "kern.mix factory " << c2.use_anthropogenic_kernel << " 1 " << u << "/" << one << " " << qs(pnat) << " " << row << " " << col << " => "
                << which << " asked=na calls_ant=" << prov.ant.calls << " calls_nat=" << prov.nat.calls << " gen=na " << r << " " << cc << "\n";
            stats.add("mix_decisions");
        }
    }
    // the same with a real anthropogenic kernel that is NOT eligible everywhere: the teleporting
    // network kernel (eligible iff the source cell has a node: (8,1) <-> (1,5)), natural = neighbour N
    {
        Config c3 = config;
        c3.natural_kernel_type = "deterministic neighbor"; c3.natural_direction = "N";
        c3.anthro_kernel_type = "network"; c3.network_movement = "teleport";
        auto k = create_dynamic_kernel<FG, IntRaster, int>(c3, dispersers, net);
        long one = 1L << UB, pn = pnat.num * (one / pnat.den);
        int rr, rc;
        do { rr = rng.in(0, 9); rc = rng.in(0, 9); } while ((rr == 8 && rc == 1) || (rr == 1 && rc == 5));
        const int cells[5][3] = {{8, 1, 1}, {1, 5, 1}, {1, 8, 0}, {5, 1, 0}, {rr, rc, 0}};
        for (auto& cell : cells)
            for (long u : {pn, one - 1, (long)rng.in(0, (1 << UB) - 1)}) {
                if (u < 0 || u >= one) continue;
                int row = cell[0], col = cell[1];
                mix_e2e_line(out, k, "network", c3.use_anthropogenic_kernel, cell[2] == 1, u, pnat, row, col,
                             // any cell of the segment (8,1) - (8,5) - (1,5): whatever the movement mode does (C15's matter),
                             // the anthropogenic kernel was used; the natural target (row - 1, col) is never on the segment
                             [&](int r, int cc) { (void)row; (void)col; return (r == 8 && cc >= 1 && cc <= 5) || (cc == 5 && r >= 1 && r <= 8); });
            }
    }
    // and with the uniform kernel (eligible everywhere) as the anthropogenic kernel; the source cell is
    // in row 0, so the natural neighbour N leaves the landscape and the uniform kernel never does
    {
        Config c4 = config;
        c4.natural_kernel_type = "deterministic neighbor"; c4.natural_direction = "N";
        c4.anthro_kernel_type = "uniform";
        auto k = create_dynamic_kernel<FG, IntRaster, int>(c4, dispersers, net);
        long one = 1L << UB, pn = pnat.num * (one / pnat.den);
        for (long u : {pn - 1, pn, one - 1, (long)rng.in(0, (1 << UB) - 1)}) {
            if (u < 0 || u >= one) continue;
            int col = rng.in(0, config.cols - 1);
            mix_e2e_line(out, k, "uniform", c4.use_anthropogenic_kernel, true, u, pnat, 0, col,
                         [&](int r, int cc) { return r >= 0 && r < config.rows && cc >= 0 && cc < config.cols; });
        }
    }
    c.nontrivial = true;
}

// ---------------------------------------------------------------------------------- eligibility / supports tables

template <class F> static void elig_lines(std::ostream& out, const std::string& who, F&& f) {
    for (int i = 0; i < N_ELIG_CELLS; i++) {
        bool b = false;
        std::string e = ::verif::err_kind([&] { b = f(ELIG_CELLS[i][0], ELIG_CELLS[i][1]); });
        out << "kern.elig " << who << " " << ELIG_CELLS[i][0] << " " << ELIG_CELLS[i][1] << " " << ELIG_CELLS[i][2] << " => ";
        if (e.empty()) out << (b ? 1 : 0) << "\n"; else out << e << "\n";
        stats.add("eligibility_queries");
    }
}
template <class F> static void supports_lines(std::ostream& out, const std::string& who, F&& f) {
    for (auto t : ALLTYPES) {
        out << "kern.supports " << who << " " << type_tok(t) << " => " << (f(t) ? 1 : 0) << "\n";
        stats.add("supports_queries");
    }
}
static void eligibility_table(std::ostream& out) {
    BBox<double> bbox; bbox.north = 100; bbox.south = 0; bbox.east = 100; bbox.west = 0;
    Network<int> net(bbox, 10, 10);
    load_test_network(net);
    IntRaster dispersers(10, 10, 1);
    Radial radial(10, 10, DispersalKernelType::Cauchy, 1.0, Direction::None, 0, 1);
    DeterministicDispersalKernel<IntRaster> det(DispersalKernelType::Cauchy, dispersers, 0.5, 10, 10, 1.0 / 1024, 1);
    UniformDispersalKernel uni(10, 10);
    NetworkDispersalKernel<int> netk(net);
    NetworkDispersalKernel<int> netw(net, 0, 10, true);
    DeterministicNeighborDispersalKernel nb(Direction::E);
    // the classes themselves
    elig_lines(out, "uniform", [&](int r, int c) { return uni.is_cell_eligible(r, c); });
    elig_lines(out, "neighbor", [&](int r, int c) { return nb.is_cell_eligible(r, c); });
    elig_lines(out, "radial", [&](int r, int c) { return radial.is_cell_eligible(r, c); });
    elig_lines(out, "deterministic", [&](int r, int c) { return det.is_cell_eligible(r, c); });
    elig_lines(out, "network", [&](int r, int c) { return netk.is_cell_eligible(r, c); });
    elig_lines(out, "network-walk", [&](int r, int c) { return netw.is_cell_eligible(r, c); });
    // through the virtual interface the dynamic kernel uses
    DynamicWrapperKernel<UniformDispersalKernel, FG> wu(uni);
    DynamicWrapperKernel<DeterministicNeighborDispersalKernel, FG> wn(nb);
    DynamicWrapperKernel<Radial, FG> wr(radial);
    DynamicWrapperKernel<DeterministicDispersalKernel<IntRaster>, FG> wd(det);
    DynamicWrapperKernel<NetworkDispersalKernel<int>, FG> wk(netk);
    std::vector<std::pair<std::string, KernelInterface<FG>*>> wraps = {
        {"wrap-uniform", &wu}, {"wrap-neighbor", &wn}, {"wrap-radial", &wr}, {"wrap-deterministic", &wd}, {"wrap-network", &wk}};
    for (auto& w : wraps) elig_lines(out, w.first, [&](int r, int c) { return w.second->is_cell_eligible(r, c); });
    // the switch kernel for every selector value
    for (auto t : ALLTYPES)
        for (int stoch = 0; stoch <= 1; stoch++) {
            std::string e = ::verif::err_kind([&] {
                Radial rk(10, 10, t, 1.0, Direction::None, 0, 1);
                SwitchDispersalKernel<IntRaster, int> sw(t, rk, det, uni, netk, nb, stoch == 1);
                elig_lines(out, std::string("switch:") + type_tok(t) + ":" + std::to_string(stoch), [&](int r, int c) { return sw.is_cell_eligible(r, c); });
            });
            if (!e.empty()) out << "kern.elig switch:" << type_tok(t) << ":" << stoch << " 0 0 0 => " << e << "\n";
        }
    // supports_kernel for every DispersalKernelType value
    supports_lines(out, "uniform", [](DispersalKernelType t) { return UniformDispersalKernel::supports_kernel(t); });
    supports_lines(out, "neighbor", [](DispersalKernelType t) { return DeterministicNeighborDispersalKernel::supports_kernel(t); });
    supports_lines(out, "network", [](DispersalKernelType t) { return NetworkDispersalKernel<int>::supports_kernel(t); });
    supports_lines(out, "radial", [](DispersalKernelType t) { return Radial::supports_kernel(t); });
    supports_lines(out, "deterministic", [](DispersalKernelType t) { return DeterministicDispersalKernel<IntRaster>::supports_kernel(t); });
    supports_lines(out, "switch", [](DispersalKernelType t) { return SwitchDispersalKernel<IntRaster, int>::supports_kernel(t); });
    supports_lines(out, "mix-radial-network", [](DispersalKernelType t) {
        return NaturalAnthropogenicDispersalKernel<Radial, NetworkDispersalKernel<int>>::supports_kernel(t); });
    supports_lines(out, "mix-radial-radial", [](DispersalKernelType t) { return NaturalAnthropogenicDispersalKernel<Radial, Radial>::supports_kernel(t); });
    for (auto& w : wraps) supports_lines(out, w.first, [&](DispersalKernelType t) { return w.second->supports_kernel(t); });
}

// ---------------------------------------------------------------------------------- overpop mode (C17)

using PModel = Model<IntRaster, Raster<double>, int>;
struct ModelProbe : PModel {
    ModelProbe(const Config& c) : PModel(c) {}
    SwitchDispersalKernel<IntRaster, int> overpop(const IntRaster& d, const Network<int>& n) { return create_overpopulation_movement_kernel(d, n); }
};
struct SwitchProbe : SwitchDispersalKernel<IntRaster, int> {
    using Base = SwitchDispersalKernel<IntRaster, int>;
    SwitchProbe(const Base& b) : Base(b) {}
    std::string desc() {
        std::ostringstream o;
        RadialProbe r(radial_kernel_);
        o << "type=" << type_tok(dispersal_kernel_type_) << " stoch=" << dispersal_stochasticity_ << " ; radial ew=" << hx(r.ew()) << " ns=" << hx(r.ns())
          << " type=" << type_tok(r.type()) << " scale=" << hx(r.scale_seen()) << " shape=" << hx(r.shape_seen())
          << " vmA=" << vm_obs(r.vm(), uvals({1L << (UB - 20), 0, 3L << (UB - 2)})) << " vmB=" << vm_obs(r.vm(), uvals({1L << (UB - 1), 0, 1L << (UB - 2)}));
        DetProbe d(deterministic_kernel_);
        o << " ; deterministic " << d.desc() << " " << d.params();
        o << " ; uniform " << UniformProbe(uniform_kernel_).ranges();
        o << " ; neighbor " << dir_tok(NeighborProbe(deterministic_neighbor_kernel_).dir());
        o << " ; network " << NetKProbe(network_kernel_).desc();
        return o.str();
    }
};

static void overpop_case(::verif::Case& c) {
    Rng& rng = c.rng;
    std::ostream& out = c.out;
    static const std::vector<std::string> tnames = {
        "cauchy", "Cauchy", "exponential", "weibull", "Weibull", "normal", "log-normal", "Log Normal", "power law", "Power-Law",
        "hyperbolic secant", "Hyperbolic-Secant", "gamma", "exponential-power", "Exponential Power", "logistic", "Logistic", "uniform",
        "Uniform", "deterministic neighbor", "Deterministic-Neighbor", "network", "none", "", "bogus"};
    static const std::vector<std::string> dnames = {"N", "NE", "E", "SE", "S", "SW", "W", "NW", "NONE", "None", "none", "", "north"};
    static const std::vector<Q> coefs = {{1, 2}, {1, 1}, {2, 1}, {3, 1}};
    static const std::vector<Q> scales = {{1, 2}, {1, 1}, {3, 2}, {2, 1}, {5, 1}, {10, 1}, {7, 4}};
    static const std::vector<Q> ress = {{5, 2}, {10, 1}, {30, 1}, {100, 1}, {133, 4}, {7, 1}};
    Config config;
    config.rows = rng.in(1, 9); config.cols = rng.in(1, 9);
    if (rng.coin(85)) while (config.cols == config.rows) config.cols = rng.in(1, 9);
    Q ew = rng.pick(ress), ns = rng.pick(ress);
    if (rng.coin(85)) while (ew.num * ns.den == ns.num * ew.den) ew = rng.pick(ress);
    config.ew_res = ew.v(); config.ns_res = ns.v();
    config.natural_kernel_type = c.index % 4 == 0 ? std::string(c.index % 8 == 0 ? "uniform" : "deterministic neighbor") : rng.pick(tnames);
    config.anthro_kernel_type = rng.coin(8) ? "bogus" : rng.pick(std::vector<std::string>{"cauchy", "network", "none", ""});
    config.natural_direction = rng.pick(dnames);
    config.anthro_direction = rng.coin(5) ? "up" : rng.pick(std::vector<std::string>{"N", "none", "SW"});
    Q scale = rng.pick(scales), shape = pick_shape(rng), coef = rng.pick(coefs), kappa = pick_kappa(rng);
    // heavy tails: keep the deterministic kernel's window (always constructed) small
    DispersalKernelType nt = DispersalKernelType::None;
    try { nt = kernel_type_from_string(config.natural_kernel_type); } catch (...) {}
    if (nt == DispersalKernelType::LogNormal) scale = Q{1, 2};
    if (nt == DispersalKernelType::PowerLaw) scale = Q{3, 2};
    if (rng.coin(3)) scale = Q{0, 1};
    if (rng.coin(3)) shape = Q{0, 1};
    config.natural_scale = scale.v(); config.shape = shape.v(); config.leaving_scale_coefficient = coef.v();
    config.natural_kappa = kappa.v();
    config.anthro_scale = 1; config.anthro_kappa = 0;
    config.dispersal_stochasticity = rng.coin(60);
    Q pct = Q{rng.in(12, 15), 16};
    config.dispersal_percentage = pct.v();
    // general guard: a window of more than 400 cells per side is not constructed (int overflow in
    // Raster for huge quantiles, e.g. power law alpha = 30, xmin = 3: 3.2^29 map units); fall back to Cauchy(1)
    if (Radial::supports_kernel(nt) && scale.num > 0 && shape.num > 0) {
        double q = 0;
        std::string qe = ::verif::err_kind([&] {
            Radial tmp(1, 1, nt, scale.v() * coef.v(), Direction::None, 0, shape.v());
            std::string h = RadialProbe(tmp).icdf_of(nt, pct.v());
            q = h.rfind("err:", 0) == 0 ? 0 : std::strtod(h.c_str(), nullptr);
        });
        if (!qe.empty() || !(std::fabs(q) / std::min(ew.v(), ns.v()) < 400)) {
            config.natural_kernel_type = "cauchy"; nt = DispersalKernelType::Cauchy; scale = Q{1, 1};
            config.natural_scale = scale.v();
            stats.add("overpop_window_guard_fallbacks");
        }
    }
    Q nmin = Q{rng.in(0, 20), 2}, nmax = Q{nmin.num + rng.in(0, 40), 2};
    config.network_min_distance = nmin.v(); config.network_max_distance = nmax.v();
    config.random_seed = rng.in(1, 1000);
    IntRaster dispersers(config.rows, config.cols, 1);
    BBox<double> bbox; bbox.north = 100; bbox.south = 0; bbox.east = 100; bbox.west = 0;
    Network<int> net(bbox, 10, 10);
    out << "kern.overpop " << config.rows << " " << config.cols << " " << qs(ew) << " " << qs(ns) << " " << config.dispersal_stochasticity << " " << qs(pct) << " "
        << qs(shape) << " " << tok(config.natural_kernel_type) << " " << qs(scale) << " " << tok(config.natural_direction) << " " << qs(kappa) << " " << qs(coef) << " "
        << tok(config.anthro_kernel_type) << " " << tok(config.anthro_direction) << " " << qs(nmin) << " " << qs(nmax) << " => ";
    std::string desc, sample = "na";
    std::string e = ::verif::err_kind([&] {
        ModelProbe m(config);
        auto k = m.overpop(dispersers, net);
        desc = SwitchProbe(k).desc();
        if (nt == DispersalKernelType::Uniform) {  // destinations of the move as the model would draw them
            std::default_random_engine g((unsigned)rng.in(1, 1 << 30));
            int n = 300 * config.rows * config.cols, rmin = 1 << 30, rmax = -1, cmin = 1 << 30, cmax = -1;
            for (int i = 0; i < n; i++) {
                int r, cc;
                std::tie(r, cc) = k(g, rng.in(0, config.rows - 1), rng.in(0, config.cols - 1));
                rmin = std::min(rmin, r); rmax = std::max(rmax, r); cmin = std::min(cmin, cc); cmax = std::max(cmax, cc);
            }
            sample = std::to_string(rmin) + ":" + std::to_string(rmax) + ":" + std::to_string(cmin) + ":" + std::to_string(cmax);
            stats.add("overpop_uniform_destinations", n);
        }
    });
    if (e.empty()) out << desc << " ; sample=" << sample << "\n"; else out << e << "\n";
    stats.add(e.empty() ? "overpop_built" : "overpop_rejected");
    if (e.empty()) stats.add(std::string("overpop_type_") + type_tok(nt));
    stats.add(config.rows == config.cols ? "overpop_square_landscape" : "overpop_nonsquare_landscape");
    c.nontrivial = e.empty();
}

int main(int argc, char** argv) {
    std::ios::sync_with_stdio(false);
    std::string mode = argc > 1 ? argv[1] : "radial";
    uint64_t seed = argc > 2 ? std::stoull(argv[2]) : 1;
    long first = argc > 3 ? std::stol(argv[3]) : 0;
    long count = argc > 4 ? std::stol(argv[4]) : 100;
    bool ok = true;
    if (mode == "tables") {
        if (first + count > 35) count = 35 - first;
        static const std::vector<Q> ps = {{0, 1}, {1, 4}, {3, 8}, {1, 2}, {1023, 1024}, {1, 1}};
        ::verif::run_cases("h_kern", mode, seed, first, count, [&](::verif::Case& c) {
            if (c.index == 0) { names_kernel(c.out); c.nontrivial = true; }
            else if (c.index == 1) { names_direction(c.out); c.nontrivial = true; }
            else if (c.index == 2) { neighbor_table(c.out); c.nontrivial = true; }
            else if (c.index == 3) { ok = selftest(c.out) && ok; switch_table(c.out); eligibility_table(c.out); c.nontrivial = true; }
            else if (c.index < 29) uniform_case(c, (int)((c.index - 4) / 5) + 1, (int)((c.index - 4) % 5) + 1);
            else mix_case(c, ps[(size_t)(c.index - 29)]);
        });
    } else if (mode == "radial") {
        ::verif::run_cases("h_kern", mode, seed, first, count, [&](::verif::Case& c) { radial_case(c); });
    } else if (mode == "laws") {
        ::verif::run_cases("h_kern", mode, seed, first, count, [&](::verif::Case& c) { laws_case(c); });
    } else if (mode == "factory") {
        ::verif::run_cases("h_kern", mode, seed, first, count, [&](::verif::Case& c) { factory_case(c); });
    } else if (mode == "overpop") {
        ::verif::run_cases("h_kern", mode, seed, first, count, [&](::verif::Case& c) { overpop_case(c); });
    }
    stats.dump("h_kern");
    return ok ? 0 : 3;
}
