// Correspondence harness for Model::run_step with SEVERAL hosts (C16 at model level; slices for
// C01-C03, C05, C09, C10-C12, C17): 2-3 real single-host pools sharing the model's Environment,
// wrapped in a real MultiHostPool, PestHostTable / CompetencyTable built through Config rows,
// injected scripted kernel, scripted establishment engine (two fresh values before every landing),
// the state of EVERY host printed after every action block through the POPS_CORE_VERIF trace
// hook, and after every single landing of a spread step (observed from the kernel call that
// follows it).
// Usage: h_mmodel <mode> <seed> <first> <count>     modes: multi
//
// Protocol (prefix mm.; cell syntax as hp.*: s,i,r,te,th,died;e..;m..):
//   mm.begin <H> <SI|SEI> <latency> <rows> <cols> <land|infect> <cfg sto> <cfg pEst>
//   mm.host <k> <sto> <pEst> <rr> <nm>
//   mm.readpht <row>.. => ok | <row>..      |  mm.nopht
//   mm.readcomp <row>.. => ok <complete> | <row>..   |  mm.nocomp
//   mm.cfg <as hp.cfg> => ok
//   mm.treatlist -1 <items as hp.treatlist> => ok
//   mm.state => - SNAP
//   mm.env <step> npop=a,b,.. w=<k/64,..|none> => ok
//   mm.lethal <thr> <t>.. => - SNAP          mm.survival <rate>.. => - SNAP
//   mm.gen det=<0|1> => - | <dispersers raster>
//   mm.land <j> <or>,<oc> <tr>,<tc> <v> <u> <pick|-> => <0|1|out|err:..> <calls> | <cell of host 0> <cell of host 1> ..   (target cell only)
//   mm.spread => - SNAP | <dispersers> | <established> | <new outside dispersers>
//   mm.stepfwd <step> => - SNAP
//   mm.overpop <thr> <leave> <drow|U> <dcol|U> => - SNAP | <new outside dispersers>
//   mm.movement <step> <last> <sched:r1,c1,r2,c2,n>.. => <new last> SNAP
//   mm.manage <step> => - SNAP               mm.mortality => - SNAP
//   mm.after <action> <step> <idx> => - SNAP
//   mm.plan <step> => <ok|err:..> <trace>
// SNAP = | <cells of host 0> | <cells of host 1> .. | <suitable of host 0> | .. | <MultiHostPool::infected_at per cell> | <total_hosts_at per cell>
#include <pops/model.hpp>
#include "host_common.hpp"
#include <memory>
using namespace pops;
using namespace ::verif;

static Stats stats;

struct SpreadCtx {
    Rng* rng = nullptr;
    int rows = 0, cols = 0;
    std::function<std::pair<int, int>(int, int)> on_call;  // (origin) -> target
};

struct ScriptedKernel {
    SpreadCtx* ctx;
    template <class G> std::tuple<int, int> operator()(G&, int row, int col) {
        auto t = ctx->on_call(row, col);
        return std::make_tuple(t.first, t.second);
    }
    bool is_cell_eligible(int, int) { return true; }
    bool supports_kernel(const DispersalKernelType) { return true; }
};

struct KFactory {
    SpreadCtx* ctx;
    ScriptedKernel operator()(const Config&, const IRaster&, const Network<int>&) const { return ScriptedKernel{ctx}; }
};

using TModel = Model<IRaster, DRaster, int, ScriptedEngine, KFactory>;
using MPool = TModel::StandardSingleHostPool;
using MMulti = TModel::StandardMultiHostPool;
using MPests = TModel::StandardPestPool;

static std::string bits(const std::vector<bool>& v) { std::string s; for (bool b : v) s += b ? '1' : '0'; return s.empty() ? "-" : s; }
static std::string rlist(const IRaster& r) { std::ostringstream o; for (int a = 0; a < r.rows(); a++) for (int b = 0; b < r.cols(); b++) o << " " << r(a, b); return o.str(); }
static const char* DIRS[] = {"N", "NE", "E", "SE", "S", "SW", "W", "NW"};
static const int DROW[] = {-1, -1, 0, 1, 1, 1, 0, -1};
static const int DCOL[] = {0, 1, 1, 1, 0, -1, -1, -1};

static std::string one_cell(const HostState& h, int a, int b) {
    std::ostringstream o;
    o << h.s(a, b) << "," << h.i(a, b) << "," << h.r(a, b) << "," << h.te(a, b) << "," << h.th(a, b) << "," << h.died(a, b) << ";";
    if (h.e.empty()) o << "-"; for (size_t k = 0; k < h.e.size(); k++) o << (k ? "," : "") << h.e[k](a, b);
    o << ";";
    if (h.m.empty()) o << "-"; for (size_t k = 0; k < h.m.size(); k++) o << (k ? "," : "") << h.m[k](a, b);
    return o.str();
}

struct HostCfg { bool sto; int pestn; int rr4; int nm; };

static void multi_case(Case& c) {
    Rng& rng = c.rng;
    std::ostream& out = c.out;
    static const int shapes[][2] = {{1, 1}, {1, 3}, {2, 2}, {2, 3}, {3, 1}, {3, 2}, {1, 2}, {4, 2}};
    int si = rng.in(0, 7);
    int rows = shapes[si][0], cols = shapes[si][1];
    int H = rng.coin(60) ? 2 : 3;
    bool sei = rng.coin(55);
    int latency = sei ? rng.in(0, 3) : 0;
    int ne = sei ? latency + 1 : 0;
    bool land = rng.coin(50);
    Config config;
    config.rows = rows; config.cols = cols; config.ew_res = 30; config.ns_res = 30;
    config.model_type = sei ? "SEI" : "SI"; config.latency_period_steps = latency;
    bool det_gen = rng.coin(70);
    config.generate_stochasticity = !det_gen;
    config.establishment_stochasticity = rng.coin(60);
    // deterministic establishment needs a probability that lets something establish now and then
    int pestn = rng.coin(30) ? 1048575 : odd2p20(rng); config.establishment_probability = pestn / 1048576.0;
    config.set_arrival_behavior(land ? "land" : "infect");
    std::vector<HostCfg> hc;
    for (int k = 0; k < H; k++) {
        HostCfg x;
        bool same = rng.coin(70);
        x.sto = same ? config.establishment_stochasticity : rng.coin(50);
        x.pestn = same ? pestn : (rng.coin(30) ? 1048575 : odd2p20(rng));
        x.rr4 = rng.coin(10) ? 0 : rng.in(1, 6);
        x.nm = rng.in(1, 4);
        hc.push_back(x);
    }
    int dir = rng.in(0, 7);
    bool overpop_uniform = rng.coin(25);
    config.natural_kernel_type = overpop_uniform ? "uniform" : "deterministic neighbor"; config.natural_direction = DIRS[dir];
    config.natural_scale = 1; config.natural_kappa = 0; config.anthro_kernel_type = "cauchy"; config.anthro_scale = 1;
    config.anthro_direction = "none"; config.use_anthropogenic_kernel = false; config.dispersal_percentage = 0.9;
    config.dispersal_stochasticity = true;
    config.reproductive_rate = 1;  // unused: the pools carry their own rates
    config.use_lethal_temperature = rng.coin(40); config.lethal_temperature = -5; config.lethal_temperature_month = rng.in(1, 12);
    config.use_survival_rate = rng.coin(40); config.survival_rate_month = rng.in(1, 12); config.survival_rate_day = rng.in(1, 28);
    config.use_overpopulation_movements = rng.coin(35);
    int thr64 = rng.in(0, 64), leave64 = rng.in(0, 64);
    config.overpopulation_percentage = thr64 / 64.0; config.leaving_percentage = leave64 / 64.0; config.leaving_scale_coefficient = 1;
    // overpopulation moves are documented not to maintain the mortality cohorts: never together
    config.use_mortality = rng.coin(55) && !config.use_overpopulation_movements;
    static const char* mfreq[] = {"year", "month", "every_n_steps", "every_step"};
    config.mortality_frequency = mfreq[rng.in(0, 3)]; config.mortality_frequency_n = (unsigned)rng.in(1, 4);
    config.mortality_rate = 0; config.mortality_time_lag = 0;  // unused: per-host values come from the table
    config.use_treatments = rng.coin(45);
    config.use_movements = rng.coin(30);
    config.use_spreadrates = rng.coin(35); config.spreadrate_frequency = mfreq[rng.in(0, 3)]; config.spreadrate_frequency_n = (unsigned)rng.in(1, 4);
    config.use_quarantine = rng.coin(35); config.quarantine_frequency = mfreq[rng.in(0, 3)]; config.quarantine_frequency_n = (unsigned)rng.in(1, 4);
    config.quarantine_directions = "";
    bool use_weather = rng.coin(60);
    bool over_one = rng.coin(8);  // the total population of one cell is below its susceptible hosts: rejected landing
    // calendar: 5 - 25 steps
    static const int ys[] = {2019, 2020, 2023, 2100};
    int unit = rng.in(0, 2);
    unsigned num = unit == 0 ? (unsigned)rng.in(7, 28) : unit == 1 ? (unsigned)rng.in(1, 8) : (unsigned)rng.in(1, 3);
    int y = ys[rng.in(0, 3)], m = rng.coin(40) ? rng.in(10, 12) : rng.in(1, 12);
    Date st(y, m, unit == 2 ? 1 : rng.in(1, 28)); Date en(st); en.add_days((unsigned)rng.in(150, 500));
    config.set_date_start(st.year(), st.month(), st.day()); config.set_date_end(en.year(), en.month(), en.day());
    config.set_step_unit(unit == 0 ? StepUnit::Day : unit == 1 ? StepUnit::Week : StepUnit::Month); config.set_step_num_units(num);
    int s1 = rng.in(1, 12), s2 = rng.in(s1, 12);
    if (rng.coin(35)) { s1 = 1; s2 = 12; }
    config.set_season_start_end_month(s1, s2);
    config.output_frequency = "every_step"; config.output_frequency_n = 1;
    std::vector<unsigned> seeds; for (int k = 0; k < 10; k++) seeds.push_back((unsigned)rng.in(1, 1000000));
    config.read_seeds(seeds);
    std::string e0 = err_kind([&] { config.create_schedules(); });
    if (!e0.empty()) { out << "# config rejected " << e0 << "\n"; stats.add("config_rejected"); return; }
    unsigned nsteps = config.scheduler().get_num_steps();
    if (nsteps > 25) nsteps = 25;

    out << "mm.begin " << H << " " << (sei ? "SEI" : "SI") << " " << latency << " " << rows << " " << cols << " " << (land ? "land" : "infect") << " "
        << (config.establishment_stochasticity ? 1 : 0) << " " << rat2p20(pestn) << "\n";
    for (int k = 0; k < H; k++)
        out << "mm.host " << k << " " << (hc[(size_t)k].sto ? 1 : 0) << " " << rat2p20(hc[(size_t)k].pestn) << " " << hc[(size_t)k].rr4 << "/4 " << hc[(size_t)k].nm << "\n";
    stats.add("hosts_" + std::to_string(H)); stats.add(land ? "arrival_land" : "arrival_infect"); stats.add(sei ? "cases_sei" : "cases_si");

    // ---- pest-host table through Config rows: susceptibility k/64, mortality rate k/64, lag
    bool use_pht = config.use_mortality || rng.coin(80);
    bool direct_pht = false; std::vector<std::vector<double>> direct_rows;
    std::vector<int> rate64((size_t)H, 0), lagv((size_t)H, 0);
    if (use_pht) {
        std::vector<std::vector<double>> values; std::ostringstream in;
        for (int k = 0; k < H; k++) {
            int sus = rng.coin(30) ? 64 : (rng.coin(8) ? 0 : rng.in(1, 64));
            if (over_one) sus = 64;  // the combined suitability of the chosen cell is meant to exceed one
            int rate = rng.coin(15) ? 0 : (rng.coin(15) ? 64 : rng.in(1, 63));
            int lag = rng.in(0, hc[(size_t)k].nm);  // lag = nm: every cohort inside the lag
            rate64[(size_t)k] = rate; lagv[(size_t)k] = lag;
            values.push_back({sus / 64.0, rate / 64.0, (double)lag});
            in << " " << rat64(sus) << "," << rat64(rate) << "," << lag << "/1";
        }
        // 30 %: the table is filled directly with add_host_info (as the library's multi-host tests do) and the
        // Config holds no pest-host rows - the model step must still let every host decide its own mortality
        direct_pht = rng.coin(30);
        if (direct_pht) {
            direct_rows = values;
            out << "mm.readpht" << in.str() << " => ok |" << in.str() << "\n";
            stats.add("pht_direct_add_host_info");
        } else {
        std::string err = err_kind([&] { config.read_pest_host_table(values); });
        out << "mm.readpht" << in.str() << " => " << (err.empty() ? "ok" : err) << " |";
        for (auto& r : config.pest_host_table_data()) out << " " << rat64((int)std::lround(r.susceptibility * 64)) << "," << rat64((int)std::lround(r.mortality_rate * 64)) << "," << (int)r.mortality_time_lag << "/1";
        out << "\n";
        stats.add("pht_rows");
        }
    } else { out << "mm.nopht\n"; stats.add("pht_none"); }

    // ---- competency table through Config rows (well-formed: H presence columns; malformed tables are h_multi's business)
    bool use_ct = rng.coin(72);
    if (use_ct) {
        std::vector<std::vector<int>> rowsn;
        bool complete = rng.coin(45);
        auto comp_val = [&]() { return rng.coin(12) ? 0 : (rng.coin(15) ? 64 : rng.in(1, 96)); };
        if (complete) {
            for (int mk = 0; mk < (1 << H); mk++) {
                std::vector<int> r; for (int k = 0; k < H; k++) r.push_back((mk >> k) & 1);
                r.push_back(comp_val()); rowsn.push_back(r);
            }
            for (int k = (int)rowsn.size() - 1; k > 0; k--) std::swap(rowsn[(size_t)k], rowsn[(size_t)rng.in(0, k)]);
        } else {
            int nr = rng.in(1, 6);
            if (nr == (1 << H)) nr++;  // 2^H rows would be read as a complete table with missing combinations
            for (int mk = 0; mk < nr; mk++) {
                std::vector<int> r; for (int k = 0; k < H; k++) r.push_back(rng.coin(50) ? 1 : 0);
                r.push_back(comp_val()); rowsn.push_back(r);
            }
        }
        std::vector<std::vector<double>> values; std::ostringstream in;
        for (auto& r : rowsn) {
            std::vector<double> row;
            in << " ";
            for (size_t j = 0; j < r.size(); j++) {
                bool last = j + 1 == r.size();
                row.push_back(last ? r[j] / 64.0 : (double)r[j]);
                in << (j ? "," : "") << (last ? rat64(r[j]) : std::to_string(r[j]) + "/1");
            }
            values.push_back(row);
        }
        std::string err = err_kind([&] { config.read_competency_table(values); });
        bool ct_complete = config.competency_table_is_complete();
        out << "mm.readcomp" << in.str() << " => " << (err.empty() ? "ok" : err) << " " << (ct_complete ? 1 : 0) << " |";
        for (auto& r : config.competency_table_data()) {
            out << " "; for (bool b : r.presence_absence) out << (b ? '1' : '0');
            out << ";" << rat64((int)std::lround(r.competency * 64));
        }
        out << "\n";
        stats.add(ct_complete ? "comp_complete" : "comp_partial");
    } else { out << "mm.nocomp\n"; stats.add("comp_none"); }

    // ---- host rasters
    std::vector<std::unique_ptr<HostState>> hs;
    for (int k = 0; k < H; k++) {
        hs.emplace_back(new HostState(rows, cols, ne, hc[(size_t)k].nm));
        HostState& h = *hs.back();
        h.randomize(rng, sei);
        for (int a = 0; a < rows; a++) for (int b = 0; b < cols; b++) {
            bool absent = rng.coin(15);
            // keep the counts small: the number of dispersers (one protocol line each) stays moderate
            if (h.s(a, b) > 12) h.s(a, b) = 12;
            for (auto& mm : h.m) if (mm(a, b) > 2) mm(a, b) = 2;
            for (auto& ee : h.e) if (ee(a, b) > 3) ee(a, b) = 3;
            if (absent) { h.s(a, b) = 0; h.r(a, b) = 0; for (auto& mm : h.m) mm(a, b) = 0; for (auto& ee : h.e) ee(a, b) = 0; }
            int sm = 0, se = 0; for (auto& mm : h.m) sm += mm(a, b); for (auto& ee : h.e) se += ee(a, b);
            h.i(a, b) = sm; h.te(a, b) = se; h.th(a, b) = h.s(a, b) + se + sm + h.r(a, b);
        }
        h.suitable = suitable_cells_of(h.th);
    }
    // MultiHostPool iterates over the first host's list; callers often give every pool the list of all cells with any host
    bool shared_suit = rng.coin(50);
    if (shared_suit) {
        IRaster all(rows, cols, 0); for (auto& h : hs) all += h->th;
        auto u = suitable_cells_of(all);
        for (auto& h : hs) h->suitable = u;
        stats.add("suitable_union");
    } else stats.add("suitable_own");

    // movements: rows with non-decreasing steps
    std::vector<std::vector<int>> movements;
    if (config.use_movements) {
        int nrows = rng.in(0, 6); unsigned cur = 0;
        for (int k = 0; k < nrows; k++) {
            cur += (unsigned)rng.in(0, 3); if (cur >= nsteps) break;
            movements.push_back({rng.in(0, rows - 1), rng.in(0, cols - 1), rng.in(0, rows - 1), rng.in(0, cols - 1), rng.coin(30) ? rng.in(0, 40) : rng.in(0, 8)});
            config.movement_schedule.push_back(cur);
        }
    }
    SpreadCtx ctx; ctx.rng = &rng; ctx.rows = rows; ctx.cols = cols;
    KFactory factory{&ctx};
    TModel model(config, factory);
    IRaster dispersers(rows, cols, 0), established(rows, cols, 0);
    std::vector<std::tuple<int, int>> outside;
    IRaster npop(rows, cols, 1), extra(rows, cols, 0);
    for (int a = 0; a < rows; a++) for (int b = 0; b < cols; b++) extra(a, b) = rng.coin(45) ? 0 : rng.in(1, 10);
    int over_a = rng.in(0, rows - 1), over_b = rng.in(0, cols - 1);
    DRaster weather(rows, cols, 1.0), weather_sd0(rows, cols, 0.0);
    bool weather_dist = (c.index % 3) == 1;   // no extra random draw: the generated cases stay what they were
    std::vector<DRaster> temperatures, survival_rates;
    for (int k = 0; k < 6; k++) {
        DRaster t(rows, cols, 0.0), sr(rows, cols, 1.0);
        for (int a = 0; a < rows; a++) for (int b = 0; b < cols; b++) { t(a, b) = rng.coin(40) ? -5 + rng.in(-1, 1) : rng.in(-30, 10); int k64 = rng.coin(20) ? 64 : (rng.coin(15) ? 0 : rng.in(1, 63)); sr(a, b) = k64 / 64.0; }
        temperatures.push_back(t); survival_rates.push_back(sr);
    }
    QuarantineEscapeAction<IRaster> quarantine(IRaster(rows, cols, 1), config.ew_res, config.ns_res, 40, config.quarantine_directions);
    IRaster quarantine_areas(rows, cols, 1);
    Network<int> network{Network<int>::null_network()};
    std::vector<std::unique_ptr<MPool>> pools;
    for (int k = 0; k < H; k++) {
        HostState& h = *hs[(size_t)k];
        pools.emplace_back(new MPool(sei ? ModelType::SusceptibleExposedInfected : ModelType::SusceptibleInfected, h.s, h.e, (unsigned)latency, h.i, h.te, h.r,
                                     h.m, h.died, h.th, model.environment(), config.generate_stochasticity, hc[(size_t)k].rr4 / 4.0,
                                     hc[(size_t)k].sto, hc[(size_t)k].pestn / 1048576.0, rows, cols, h.suitable));
    }
    std::vector<MPool*> ptrs; for (auto& p : pools) ptrs.push_back(p.get());
    MMulti multi(ptrs, config);
    std::unique_ptr<PestHostTable<MPool>> pht;
    std::unique_ptr<CompetencyTable<MPool>> ct;
    if (use_pht) {
        if (direct_pht) {
            pht.reset(new PestHostTable<MPool>(model.environment()));
            for (auto& r : direct_rows) pht->add_host_info(r[0], r[1], (int)r[2]);
        } else pht.reset(new PestHostTable<MPool>(config, model.environment()));
        multi.set_pest_host_table(*pht);
    }
    if (use_ct) { ct.reset(new CompetencyTable<MPool>(config, model.environment())); multi.set_competency_table(*ct); }
    MPests pests{dispersers, established, outside};
    SpreadRateAction<MMulti, int> spread_rate(multi, rows, cols, config.ew_res, config.ns_res, 40);
    Treatments<MPool, DRaster> treatments(config.scheduler());
    std::ostringstream tlist;
    if (config.use_treatments) {
        int ntreat = rng.in(1, 3);
        for (int k = 0; k < ntreat; k++) {
            DRaster map(rows, cols, 0.0); std::ostringstream cs;
            for (int a = 0; a < rows; a++) for (int b = 0; b < cols; b++) { int k64 = rng.coin(25) ? 0 : (rng.coin(25) ? 64 : rng.in(1, 63)); map(a, b) = k64 / 64.0; cs << "," << rat64(k64); }
            unsigned stp = (unsigned)rng.in(0, (int)nsteps - 1);
            Date d = config.scheduler().get_step(stp).start_date();
            int days = rng.coin(50) ? 0 : rng.in(20, 90);
            bool all = rng.coin(35);
            std::string te = err_kind([&] { treatments.add_treatment(map, d, days, all ? TreatmentApplication::AllInfectedInCell : TreatmentApplication::Ratio); });
            if (te.empty()) {
                Date de(d); de.add_days((unsigned)days);
                unsigned t0 = config.scheduler().schedule_action_date(d), t1 = days ? config.scheduler().schedule_action_date(de) : t0;
                tlist << " " << (days ? "pesticide" : "simple") << ":" << (all ? "all_infected_in_cell" : "ratio") << ":" << t0 << ":" << t1 << cs.str();
            }
        }
    }
    auto sched = [&](bool use, const std::vector<bool>& (Config::*get)() const) { return use ? bits((config.*get)()) : std::string("-"); };
    out << "mm.cfg entry=pools soils=0 lethal=" << config.use_lethal_temperature << ":" << sched(config.use_lethal_temperature, &Config::lethal_schedule)
        << " survival=" << config.use_survival_rate << ":" << sched(config.use_survival_rate, &Config::survival_rate_schedule)
        << " spread=" << bits(config.spread_schedule()) << " overpop=" << config.use_overpopulation_movements << " movements=" << config.use_movements
        << " treatments=" << config.use_treatments << " mortality=" << config.use_mortality << ":" << (config.use_mortality ? bits(config.mortality_schedule()) : "-")
        << " rates=" << config.use_spreadrates << ":" << sched(config.use_spreadrates, &Config::spread_rate_schedule)
        << " quarantine=" << config.use_quarantine << ":" << sched(config.use_quarantine, &Config::quarantine_schedule) << " => ok\n";
    out << "mm.treatlist -1" << tlist.str() << " => ok\n";

    auto snap = [&]() {
        std::ostringstream o;
        for (auto& h : hs) o << " |" << h->cells();
        for (auto& h : hs) o << " |" << h->suit();
        o << " |"; for (int a = 0; a < rows; a++) for (int b = 0; b < cols; b++) o << " " << multi.infected_at(a, b);
        o << " |"; for (int a = 0; a < rows; a++) for (int b = 0; b < cols; b++) o << " " << multi.total_hosts_at(a, b);
        return o.str();
    };
    out << "mm.state => -" << snap() << "\n";
    stats.add("steps", nsteps);

    std::string trace;
    size_t outside_seen = 0; unsigned last_index_seen = 0;
    std::vector<int> cur_w64((size_t)(rows * cols), 64);
    ScriptedEngine& est = model.random_number_generator().establishment();

    // ---- per-landing observation
    struct Pending { bool active = false; int j = 0, orow = 0, ocol = 0, trow = 0, tcol = 0; unsigned long calls0 = 0; int est0 = 0; size_t out0 = 0; int v = 0, u = 0; std::string pick = "-"; bool inside = false; };
    Pending pend; bool gen_emitted = false; int landing_no = 0; long step_dispersers = 0;
    auto emit_gen = [&]() {
        if (gen_emitted) return;
        gen_emitted = true;
        out << "mm.gen det=" << (det_gen ? 1 : 0) << " => - |" << rlist(dispersers) << "\n";
        for (int a = 0; a < rows; a++) for (int b = 0; b < cols; b++) step_dispersers += dispersers(a, b);
    };
    auto flush_landing = [&](const std::string& err) {
        if (!pend.active) return;
        pend.active = false;
        std::string ret;
        if (!err.empty()) ret = err;
        else if (outside.size() > pend.out0) ret = "out";
        else ret = std::to_string(established(pend.orow, pend.ocol) - pend.est0);
        out << "mm.land " << pend.j << " " << pend.orow << "," << pend.ocol << " " << pend.trow << "," << pend.tcol << " " << rat2p20(pend.v) << " " << rat2p20(pend.u) << " " << pend.pick
            << " => " << ret << " " << (est.calls - pend.calls0) << " |";
        if (pend.inside) for (auto& h : hs) out << " " << one_cell(*h, pend.trow, pend.tcol);
        out << "\n";
        stats.add("landings");
        if (ret == "1") stats.add("landings_established");
        if (ret == "out") stats.add("landings_outside");
    };
    ctx.on_call = [&](int orow, int ocol) {
        flush_landing("");
        emit_gen();
        int r, cc, k = rng.in(0, 99);
        if (k < 66) { r = rng.in(0, rows - 1); cc = rng.in(0, cols - 1); }
        else if (k < 80) { r = orow; cc = ocol; }
        else if (k < 93) { r = rng.coin() ? -1 : rows; cc = rng.in(-1, cols); }
        else { r = rng.coin() ? -1000 : 1000 + rows; cc = rng.coin() ? -7 : 4000; }
        if (over_one && rng.coin(30)) { r = over_a; cc = over_b; }
        pend = Pending();
        pend.active = true; pend.j = landing_no++; pend.orow = orow; pend.ocol = ocol; pend.trow = r; pend.tcol = cc;
        pend.inside = r >= 0 && r < rows && cc >= 0 && cc < cols;
        pend.est0 = established(orow, ocol); pend.out0 = outside.size();
        // two fresh establishment values: the host pick (several hosts) and the establishment tester
        pend.v = odd2p20(rng); pend.u = odd2p20(rng);
        est.script.clear(); est.push_uniform_2p20(pend.v); est.push_uniform_2p20(pend.u);
        pend.calls0 = est.calls;
        if (pend.inside) {
            // what std::discrete_distribution returns for the hosts' weights and the scripted value
            std::vector<double> ws; double tot = 0; bool threw = false;
            for (auto& p : pools) { try { double sv = p->suitability_at(r, cc); ws.push_back(sv); tot += sv; } catch (const std::exception&) { threw = true; break; } }
            if (!threw && tot > 0 && tot <= 1) {
                std::discrete_distribution<int> dd(ws.begin(), ws.end());
                ScriptedEngine e2; e2.push_uniform_2p20(pend.v);
                pend.pick = std::to_string(dd(e2));
            }
        }
        return std::make_pair(r, cc);
    };

    pops::verif::trace_hook() = [&](const char* action, int step, int idx) {
        std::string a(action);
        trace += (trace.empty() ? "" : ",") + a + ":" + std::to_string(idx);
        stats.add("action_" + a);
        if (a == "lethal_temperature") {
            out << "mm.lethal -5"; for (int x = 0; x < rows; x++) for (int y2 = 0; y2 < cols; y2++) out << " " << (int)temperatures[(size_t)idx](x, y2);
            out << " => -" << snap() << "\n";
        } else if (a == "survival_rate") {
            out << "mm.survival"; for (int x = 0; x < rows; x++) for (int y2 = 0; y2 < cols; y2++) out << " " << rat64((int)std::lround(survival_rates[(size_t)idx](x, y2) * 64));
            out << " => -" << snap() << "\n";
        } else if (a == "step_forward") {
            out << "mm.stepfwd " << step << " => -" << snap() << "\n";
        } else if (a == "mortality") {
            out << "mm.mortality => -" << snap() << "\n";
        } else if (a == "spread") {
            flush_landing("");
            emit_gen();
            est.script.clear();
            out << "mm.spread => -" << snap() << " |" << rlist(dispersers) << " |" << rlist(established) << " |";
            for (size_t k = outside_seen; k < outside.size(); k++) out << " " << std::get<0>(outside[k]) << "," << std::get<1>(outside[k]);
            out << "\n";
            outside_seen = outside.size();
        } else if (a == "overpopulation") {
            out << "mm.overpop " << rat64(thr64) << " " << rat64(leave64) << " " << (overpop_uniform ? std::string("U U") : std::to_string(DROW[dir]) + " " + std::to_string(DCOL[dir])) << " => -" << snap() << " |";
            for (size_t k = outside_seen; k < outside.size(); k++) out << " " << std::get<0>(outside[k]) << "," << std::get<1>(outside[k]);
            out << "\n"; outside_seen = outside.size();
        } else if (a == "movement") {
            out << "mm.movement " << step << " " << last_index_seen;
            for (size_t k = 0; k < movements.size(); k++) out << " " << config.movement_schedule[k] << ":" << movements[k][0] << "," << movements[k][1] << "," << movements[k][2] << "," << movements[k][3] << "," << movements[k][4];
            out << " => " << idx << snap() << "\n";
            last_index_seen = (unsigned)idx;
        } else if (a == "treatments") {
            out << "mm.manage " << step << " => -" << snap() << "\n";
        } else {
            out << "mm.after " << a << " " << step << " " << idx << " => -" << snap() << "\n";
        }
    };
    bool threw = false; int spread_steps = 0;
    for (unsigned step = 0; step < nsteps && !threw; step++) {
        // the caller keeps the total population current: all hosts plus other individuals
        for (int a = 0; a < rows; a++) for (int b = 0; b < cols; b++) {
            int n = extra(a, b); for (auto& h : hs) n += h->th(a, b);
            if (n < 1) n = 1;
            // an exact total suitability of one is avoided unless the division is exact (power of two)
            if (extra(a, b) == 0 && (n & (n - 1)) != 0) n += 1;
            npop(a, b) = n;
        }
        if (over_one) {
            int sS = 0; for (auto& h : hs) sS += h->s(over_a, over_b);
            int mS = 0; for (auto& h : hs) mS = std::max(mS, h->s(over_a, over_b));
            // mostly: every host alone stays within one (N >= its susceptible), all together exceed it
            if (sS >= 2) { npop(over_a, over_b) = rng.coin(75) ? std::max(1, std::max(mS, sS - rng.in(1, 3))) : std::max(1, sS / 4); stats.add("total_population_below_susceptible"); }
        }
        if (use_weather)
            for (int a = 0; a < rows; a++) for (int b = 0; b < cols; b++) { int w64 = rng.coin(12) ? 0 : (rng.coin(30) ? 64 : rng.in(1, 64)); if (over_one && a == over_a && b == over_b) w64 = 64; weather(a, b) = w64 / 64.0; cur_w64[(size_t)(a * cols + b)] = w64; }
        // a third of the weather cases: coefficients through the probabilistic path with standard deviation 0 (= the mean)
        if (use_weather) { if (weather_dist) model.environment().update_weather_from_distribution(weather, weather_sd0, model.random_number_generator()); else model.environment().update_weather_coefficient(weather); }
        out << "mm.env " << step << " npop=";
        for (int a = 0; a < rows; a++) for (int b = 0; b < cols; b++) out << (a + b ? "," : "") << npop(a, b);
        out << " w=";
        if (!use_weather) out << "none"; else for (int a = 0; a < rows; a++) for (int b = 0; b < cols; b++) out << (a + b ? "," : "") << rat64(cur_w64[(size_t)(a * cols + b)]);
        out << " => ok\n";
        trace.clear(); gen_emitted = false; landing_no = 0; step_dispersers = 0; pend.active = false;
        std::string e = err_kind([&] { model.run_step((int)step, multi, pests, npop, treatments, temperatures, survival_rates, spread_rate, quarantine, quarantine_areas, movements, network); });
        if (!e.empty()) flush_landing(e);
        est.script.clear();
        out << "mm.plan " << step << " => " << (e.empty() ? "ok" : e) << " " << (trace.empty() ? "-" : trace) << "\n";
        if (!e.empty()) { threw = true; stats.add("step_threw"); }
        if (config.spread_schedule()[step]) spread_steps++;
        stats.add("dispersers_total", step_dispersers);
        if (step_dispersers > 400) { stats.add("case_cut_many_dispersers"); break; }
    }
    pops::verif::trace_hook() = nullptr;
    ctx.on_call = nullptr;
    c.nontrivial = nsteps >= 3 && spread_steps >= 1 && !hs[0]->suitable.empty();
}

int main(int argc, char** argv) {
    std::ios::sync_with_stdio(false);
    std::string mode = argc > 1 ? argv[1] : "multi";
    uint64_t seed = argc > 2 ? std::stoull(argv[2]) : 1;
    long first = argc > 3 ? std::stol(argv[3]) : 0;
    long count = argc > 4 ? std::stol(argv[4]) : 100;
    if (!selftest_uniform()) { std::cerr << "SELFTEST FAILED: libstdc++ uniform_real_distribution does not consume one 64-bit value\n"; return 3; }
    if (mode == "multi") run_cases("h_mmodel", mode, seed, first, count, multi_case);
    stats.dump("h_mmodel");
    return 0;
}
