// Correspondence harness for C07 / C08: Date, Scheduler and schedule builders.
// Usage: h_date <mode> <seed> <count>
// Usage (current): h_date <mode> <seed> <first> <count>
//   mode single-sample : <count> random single successor steps (stratified)
//   mode single-all    : every date of the 400-year cycle 2000..2399 x {1..28 days, week, month}
//   mode sched         : <count> random schedulers, every builder, lookups
//   mode tables        : exhaustive name / compatibility tables
#include <pops/scheduling.hpp>
#include <pops/config.hpp>
#include "common.hpp"
using namespace pops;
using verif::Rng;

static bool leap(int y) { return y % 4 == 0 && (y % 100 != 0 || y % 400 == 0); }
static int dimo(int y, int m) { static int d[] = {0, 31, 28, 31, 30, 31, 30, 31, 31, 30, 31, 30, 31}; return m == 2 && leap(y) ? 29 : d[m]; }
static std::string ds(const Date& d) { return std::to_string(d.year()) + " " + std::to_string(d.month()) + " " + std::to_string(d.day()); }
static std::string bits(const std::vector<bool>& v) { std::string s; for (bool b : v) s += b ? '1' : '0'; return s.empty() ? "-" : s; }
static verif::Stats stats;

static void single(std::ostream& out, int y, int m, int d, int kind) {
    // kind 1..28: days; 29: week; 30: month; 31: add_day; 32: subtract_day
    Date t(y, m, d);
    if (kind <= 28) { t.increased_by_days(kind); out << "date.days " << kind << " " << y << " " << m << " " << d << " => " << ds(t) << "\n"; }
    else if (kind == 29) { t.increased_by_week(); out << "date.week " << y << " " << m << " " << d << " => " << ds(t) << "\n"; }
    else if (kind == 30) { t.increased_by_month(); out << "date.month " << y << " " << m << " " << d << " => " << ds(t) << "\n"; }
    else if (kind == 31) { t.add_day(); out << "date.addday " << y << " " << m << " " << d << " => " << ds(t) << "\n"; }
    else { t.subtract_day(); out << "date.subday " << y << " " << m << " " << d << " => " << ds(t) << "\n"; }
}

static Date random_date(Rng& rng, bool first_of_month) {
    static const std::vector<int> ys = {1900, 1999, 2000, 2001, 2019, 2020, 2023, 2024, 2096, 2100, 2399, 2400};
    int y = rng.coin(70) ? rng.pick(ys) : rng.in(1890, 2410);
    int m = rng.coin(45) ? rng.in(11, 12) : (rng.coin(15) ? 2 : rng.in(1, 12));
    int d = first_of_month ? 1 : (rng.coin(25) ? dimo(y, m) - rng.in(0, 2) : rng.in(1, dimo(y, m)));
    return Date(y, m, d);
}

static void emit_sched(verif::Case& c) {
    Rng& rng = c.rng; std::ostream& out = c.out;
    int unit = rng.in(0, 2);
    unsigned num = unit == 0 ? (unsigned)rng.in(1, 28) : unit == 1 ? (unsigned)(rng.coin(50) ? 1 : rng.in(2, 60)) : (unsigned)rng.in(1, 14);
    bool malformed = rng.coin(6);
    Date st = random_date(rng, unit == 2 && !(malformed && rng.coin(50)));
    Date en(st);
    int span = rng.coin(20) ? rng.in(1, 40) : rng.in(30, 1100);
    en.add_days((unsigned)span);
    if (malformed) {
        int k = rng.in(0, 3);
        if (k == 0) num = 0;
        else if (k == 1) en = st;
        else if (k == 2) { en = st; en.subtract_days((unsigned)rng.in(1, 50)); }
        else { en = st; en.add_days(1); }  // first step probably beyond end
    }
    const char* un = unit == 0 ? "day" : unit == 1 ? "week" : "month";
    StepUnit su = unit == 0 ? StepUnit::Day : unit == 1 ? StepUnit::Week : StepUnit::Month;
    out << "sched " << un << " " << num << " " << ds(st) << " " << ds(en) << " => ";
    stats.add(std::string("sched_") + un);
    Scheduler* sp = nullptr;
    std::string e = verif::err_kind([&] { sp = new Scheduler(st, en, su, num); });
    if (!e.empty()) { out << e << "\n"; stats.add("sched_rejected"); return; }
    Scheduler& s = *sp;
    unsigned k = s.get_num_steps();
    out << "ok " << k;
    bool straddle = false;
    for (unsigned i = 0; i < k; i++) {
        Date a = s.get_step(i).start_date(), b = s.get_step(i).end_date();
        out << " " << ds(a) << " " << ds(b);
        if (a.year() != b.year()) straddle = true;
    }
    out << "\n";
    stats.add("steps_total", k);
    c.nontrivial = k >= 3;
    if (straddle) stats.add("sched_with_year_straddling_step");
    // lookups: inside, at boundaries, outside
    for (int t = 0; t < 8; t++) {
        Date q(st);
        int off = rng.in(-6, span + 60);
        if (off >= 0) q.add_days((unsigned)off); else q.subtract_days((unsigned)(-off));
        if (t >= 6) { unsigned i = (unsigned)rng.in(0, (int)k - 1); q = t == 6 ? s.get_step(i).start_date() : s.get_step(i).end_date(); }
        out << "lookup " << ds(q) << " => ";
        unsigned idx = 0;
        std::string e2 = verif::err_kind([&] { idx = s.schedule_action_date(q); });
        if (e2.empty()) out << "ok " << idx << "\n"; else out << e2 << "\n";
        stats.add(e2.empty() ? "lookup_inside" : "lookup_rejected");
    }
    for (int t = 0; t < 2; t++) {
        int am = rng.coin(30) ? (rng.coin() ? 1 : 12) : rng.in(1, 12), ad = rng.coin(30) ? (rng.coin() ? 1 : 28) : rng.in(1, 28);
        out << "yearly " << am << " " << ad << " => " << bits(s.schedule_action_yearly(am, ad)) << "\n";
    }
    auto eoy = s.schedule_action_end_of_year();
    out << "eoy => " << bits(eoy) << "\n";
    out << "monthly => " << bits(s.schedule_action_monthly()) << "\n";
    out << "final => " << bits(s.schedule_action_end_of_simulation()) << "\n";
    { unsigned n = (unsigned)rng.in(1, 9); out << "nsteps " << n << " => " << bits(s.schedule_action_nsteps(n)) << "\n"; }
    { int sm = rng.in(1, 12), em = rng.in(sm, 12); out << "spread " << sm << " " << em << " => " << bits(s.schedule_spread(Season(sm, em))) << "\n"; }
    static const std::vector<std::string> freqs = {"", "final_step", "year", "yearly", "month", "monthly", "week", "weekly", "day", "daily", "every_n_steps", "every_step", "time_step", "years", "Weekly", "hour"};
    for (int t = 0; t < 3; t++) {
        std::string f = rng.pick(freqs); unsigned n = (unsigned)(rng.coin(30) ? 0 : rng.in(1, 6));
        out << "fromstring " << (f.empty() ? "<empty>" : f) << " " << n << " => ";
        std::vector<bool> v; std::string e3 = verif::err_kind([&] { v = schedule_from_string(s, f, n); });
        if (e3.empty()) out << "ok " << (v.empty() ? "" : bits(v)) << "\n"; else out << e3 << "\n";
        stats.add(e3.empty() ? "fromstring_ok" : "fromstring_rejected");
    }
    { unsigned w = (unsigned)(rng.coin(10) ? 0 : rng.in(1, 12)); out << "weather " << w << " => ";
      std::vector<unsigned> v; std::string e4 = verif::err_kind([&] { v = s.schedule_weather(w); });
      if (e4.empty()) { out << "ok"; for (auto x : v) out << " " << x; out << "\n"; } else out << e4 << "\n"; }
    { unsigned step = (unsigned)rng.in(0, (int)k + 1); out << "actionstep " << bits(eoy) << " " << step << " => ";
      unsigned r = 0; std::string e5 = verif::err_kind([&] { r = simulation_step_to_action_step(eoy, step); });
      if (e5.empty()) out << "ok " << r << "\n"; else out << e5 << "\n";
      out << "count " << bits(eoy) << " => " << get_number_of_scheduled_actions(eoy) << "\n"; }
    delete sp;
}

static long civil_from_index(long idx, int& y, int& m, int& d) {
    // idx-th day of the cycle starting 2000-01-01
    y = 2000; m = 1; d = 1;
    long yy = 2000; long rem = idx;
    for (;; yy++) { long len = leap((int)yy) ? 366 : 365; if (rem < len) break; rem -= len; }
    y = (int)yy; m = 1;
    while (rem >= dimo(y, m)) { rem -= dimo(y, m); m++; }
    d = (int)rem + 1; return idx;
}

int main(int argc, char** argv) {
    std::ios::sync_with_stdio(false);
    std::string mode = argc > 1 ? argv[1] : "sched";
    uint64_t seed = argc > 2 ? std::stoull(argv[2]) : 1;
    long first = argc > 3 ? std::stol(argv[3]) : 0;
    long count = argc > 4 ? std::stol(argv[4]) : 1000;
    if (mode == "single-all") {
        // case index = day number in the 400-year cycle 2000-01-01 .. 2399-12-31 (146097 days)
        if (first + count > 146097) count = 146097 - first;
        verif::run_cases("h_date", mode, seed, first, count, [&](verif::Case& c) {
            int y, m, d; civil_from_index(c.index, y, m, d);
            for (int kind = 1; kind <= 32; kind++) { single(c.out, y, m, d, kind); stats.add("single_steps"); }
            c.nontrivial = true;
        });
    } else if (mode == "single-sample") {
        verif::run_cases("h_date", mode, seed, first, count, [&](verif::Case& c) {
            Rng& rng = c.rng;
            Date t = random_date(rng, false);
            if (c.index < 4 * 5 * 31) {  // dense block: Jan/Feb/Mar/Nov/Dec of 2019, 2020, 2100, 2000
                static const int ys[] = {2019, 2020, 2100, 2000}; static const int ms[] = {1, 2, 3, 11, 12};
                int y = ys[c.index / 155], m = ms[(c.index % 155) / 31], d = (int)(c.index % 31) + 1;
                if (d > dimo(y, m)) d = dimo(y, m);
                t = Date(y, m, d);
            }
            for (int kind = 1; kind <= 32; kind++) { single(c.out, t.year(), t.month(), t.day(), kind); stats.add("single_steps"); }
            // Date::add_days / subtract_days (the end date of a pesticide treatment is start + num_days, C10):
            // spans that cross New Years with a change of leap status and run past February
            for (int q = 0; q < 3; q++) {
                Date s0 = q == 0 ? t : random_date(rng, false);
                int n = rng.coin(50) ? rng.in(60, 500) : (rng.coin(50) ? rng.in(0, 59) : rng.in(501, 1600));
                Date s1(s0); s1.add_days((unsigned)n);
                c.out << "date.adddays " << n << " " << ds(s0) << " => " << ds(s1) << "\n";
                Date s2(s0); s2.subtract_days((unsigned)n);
                c.out << "date.subdays " << n << " " << ds(s0) << " => " << ds(s2) << "\n";
                stats.add("multi_day_additions", 2);
            }
            Date a = random_date(rng, false), b = rng.coin(30) ? a : random_date(rng, false);
            if (rng.coin(30)) { b = a; if (rng.coin()) b.add_day(); else b.subtract_day(); }
            c.out << "date.cmp " << ds(a) << " " << ds(b) << " => " << (a < b) << (a <= b) << (a > b) << (a >= b) << (a == b) << (a != b) << "\n";
            stats.add("comparisons");
            int y = rng.in(1999, 2025), m = rng.in(-1, 14), d = rng.in(-1, 33);
            c.out << "date.parse " << y << " " << m << " " << d << " => ";
            Date* p = nullptr; std::string e = verif::err_kind([&] { p = new Date(std::to_string(y) + "-" + std::to_string(m) + "-" + std::to_string(d)); });
            if (e.empty()) { c.out << "ok " << ds(*p) << "\n"; delete p; } else c.out << e << "\n";
            stats.add("parses");
            c.nontrivial = true;
        });
    } else if (mode == "sched") {
        verif::run_cases("h_date", mode, seed, first, count, [&](verif::Case& c) { emit_sched(c); });
    } else if (mode == "config") {
        // Config::create_schedules: which builder each feature gets (lethal: yearly on day 1 of its
        // month; survival: yearly on month/day; mortality / spread rate / quarantine / output: by name)
        verif::run_cases("h_date", mode, seed, first, count, [&](verif::Case& c) {
            Rng& rng = c.rng; std::ostream& out = c.out;
            static const std::vector<std::string> freqs = {"", "final_step", "year", "yearly", "month", "monthly", "week", "weekly", "day", "daily", "every_n_steps", "every_step", "time_step", "bogus"};
            auto q = [](const std::string& f) { return f.empty() ? std::string("<empty>") : f; };
            static const std::vector<std::string> safe = {"", "final_step", "year", "yearly", "month", "monthly", "every_step", "time_step"};
            auto pickf = [&] { return rng.coin(80) ? safe[(size_t)rng.in(0, 7)] : (rng.coin(90) ? freqs[(size_t)rng.in(0, 12)] : freqs[13]); };
            int unit = rng.in(0, 2);
            unsigned num = unit == 0 ? (unsigned)rng.in(1, 28) : unit == 1 ? (unsigned)(rng.coin(50) ? 1 : rng.in(2, 30)) : (unsigned)rng.in(1, 7);
            Date st = random_date(rng, unit == 2 && !rng.coin(4)); Date en(st); en.add_days((unsigned)(rng.coin(10) ? rng.in(0, 20) : rng.in(30, 900)));
            pops::Config cfg;
            cfg.set_date_start(st.year(), st.month(), st.day()); cfg.set_date_end(en.year(), en.month(), en.day());
            cfg.set_step_unit(unit == 0 ? StepUnit::Day : unit == 1 ? StepUnit::Week : StepUnit::Month); cfg.set_step_num_units(num);
            int ss = rng.in(1, 12), se = rng.in(ss, 12); cfg.set_season_start_end_month(ss, se);
            cfg.output_frequency = pickf(); cfg.output_frequency_n = (unsigned)rng.in(0, 5);
            cfg.use_mortality = rng.coin(); cfg.mortality_frequency = pickf(); cfg.mortality_frequency_n = (unsigned)rng.in(0, 5);
            cfg.use_lethal_temperature = rng.coin(); cfg.lethal_temperature_month = rng.in(1, 12);
            cfg.use_survival_rate = rng.coin(); cfg.survival_rate_month = rng.in(1, 12); cfg.survival_rate_day = rng.in(1, 28);
            cfg.use_spreadrates = rng.coin(); cfg.spreadrate_frequency = pickf(); cfg.spreadrate_frequency_n = (unsigned)rng.in(0, 5);
            cfg.use_quarantine = rng.coin(); cfg.quarantine_frequency = pickf(); cfg.quarantine_frequency_n = (unsigned)rng.in(0, 5);
            if (rng.coin(30)) {
                // the four name-built schedules share one frequency string and differ only in n (when the
                // string is every_n_steps, n is all that tells them apart): seeded change C09k
                std::string f = rng.coin(70) ? std::string("every_n_steps") : safe[(size_t)rng.in(0, 7)];
                cfg.output_frequency = cfg.mortality_frequency = cfg.spreadrate_frequency = cfg.quarantine_frequency = f;
                cfg.output_frequency_n = (unsigned)rng.in(1, 5); cfg.mortality_frequency_n = (unsigned)rng.in(1, 5);
                cfg.spreadrate_frequency_n = (unsigned)rng.in(1, 5); cfg.quarantine_frequency_n = (unsigned)rng.in(1, 5);
                if (rng.coin(60)) cfg.use_mortality = cfg.use_spreadrates = cfg.use_quarantine = true;
                stats.add("config_shared_frequency");
            }
            cfg.weather_size = rng.coin(40) ? 0 : rng.in(1, 9);
            out << "cfgsched " << (unit == 0 ? "day" : unit == 1 ? "week" : "month") << " " << num << " " << ds(st) << " " << ds(en) << " " << ss << " " << se
                << " " << q(cfg.output_frequency) << " " << cfg.output_frequency_n << " " << cfg.use_mortality << " " << q(cfg.mortality_frequency) << " " << cfg.mortality_frequency_n
                << " " << cfg.use_lethal_temperature << " " << cfg.lethal_temperature_month << " " << cfg.use_survival_rate << " " << cfg.survival_rate_month << " " << cfg.survival_rate_day
                << " " << cfg.use_spreadrates << " " << q(cfg.spreadrate_frequency) << " " << cfg.spreadrate_frequency_n << " " << cfg.use_quarantine << " " << q(cfg.quarantine_frequency) << " " << cfg.quarantine_frequency_n
                << " " << cfg.weather_size << " => ";
            std::string e = verif::err_kind([&] { cfg.create_schedules(); });
            if (!e.empty()) { out << e << "\n"; stats.add("config_rejected"); c.nontrivial = false; return; }
            auto opt = [&](bool use, const std::vector<bool>& v) { return use ? bits(v) : std::string("off"); };
            out << "ok " << cfg.scheduler().get_num_steps() << " spread=" << bits(cfg.spread_schedule()) << " output=" << bits(cfg.output_schedule())
                << " mortality=" << opt(cfg.use_mortality, cfg.mortality_schedule())
                << " lethal=" << (cfg.use_lethal_temperature ? bits(cfg.lethal_schedule()) : std::string("off"))
                << " survival=" << (cfg.use_survival_rate ? bits(cfg.survival_rate_schedule()) : std::string("off"))
                << " rates=" << (cfg.use_spreadrates ? bits(cfg.spread_rate_schedule()) : std::string("off"))
                << " quarantine=" << (cfg.use_quarantine ? bits(cfg.quarantine_schedule()) : std::string("off")) << " weather=";
            if (!cfg.weather_size) out << "off"; else { auto& w = cfg.weather_table(); for (size_t i = 0; i < w.size(); i++) out << (i ? "," : "") << w[i]; }
            out << "\n";
            stats.add("config_accepted"); c.nontrivial = true;
        });
    } else if (mode == "tables") {
        // case index = unit * 31 + (n - 1); index 93 = unit-name table
        if (first + count > 94) count = 94 - first;
        verif::run_cases("h_date", mode, seed, first, count, [&](verif::Case& c) {
            std::ostream& out = c.out;
            if (c.index == 93) {
                for (std::string u : {"day", "week", "month", "", "Day", "days", "year", "weeks"}) {
                    out << "unit " << (u.empty() ? "<empty>" : u) << " => ";
                    StepUnit su; std::string e = verif::err_kind([&] { su = step_unit_enum_from_string(u); });
                    if (e.empty()) out << "ok " << (su == StepUnit::Day ? "day" : su == StepUnit::Week ? "week" : "month") << "\n"; else out << e << "\n";
                    stats.add("unit_names");
                }
                c.nontrivial = true; return;
            }
            int unit = (int)(c.index / 31); unsigned n = (unsigned)(c.index % 31) + 1;
            if (unit == 0 && n > 28) return;
            static const std::vector<std::string> freqs = {"", "final_step", "year", "yearly", "month", "monthly", "week", "weekly", "day", "daily", "every_n_steps", "every_step", "time_step", "bogus"};
            StepUnit su = unit == 0 ? StepUnit::Day : unit == 1 ? StepUnit::Week : StepUnit::Month;
            Date st(2020, 1, 1), en(2023, 6, 1);
            Scheduler s(st, en, su, n);
            out << "sched " << (unit == 0 ? "day" : unit == 1 ? "week" : "month") << " " << n << " " << ds(st) << " " << ds(en) << " => ok " << s.get_num_steps();
            for (unsigned i = 0; i < s.get_num_steps(); i++) out << " " << ds(s.get_step(i).start_date()) << " " << ds(s.get_step(i).end_date());
            out << "\n";
            for (auto& f : freqs) for (unsigned k : {0u, 3u}) {
                out << "fromstring " << (f.empty() ? "<empty>" : f) << " " << k << " => ";
                std::vector<bool> v; std::string e = verif::err_kind([&] { v = schedule_from_string(s, f, k); });
                if (e.empty()) out << "ok " << (v.empty() ? "" : bits(v)) << "\n"; else out << e << "\n";
                stats.add("frequency_table_entries");
            }
            c.nontrivial = true;
        });
    }
    stats.dump("h_date");
    return 0;
}
