// Correspondence harness for C20 (documented errors are thrown as the documented standard
// exception) and the weather-from-distribution part of C12. Every documented invalid input class
// is injected one at a time; valid neighbours of each class are injected too.
// Usage: h_err <mode> <seed> <first> <count>     modes: errors
#include <pops/model.hpp>
#include <cmath>
#include "host_common.hpp"
using namespace pops;
using namespace ::verif;

static Stats stats;

static std::string q(const std::string& s) {
    if (s.empty()) return "<empty>";
    std::string o; for (char ch : s) { if (ch == ' ') o += "_SP_"; else o += ch; } return o;
}
static std::string dyadic(double v) {
    if (v == 0) return "0@0";
    int e; double m = std::frexp(v, &e);  // v = m * 2^e, 0.5 <= |m| < 1
    long long mi = (long long)std::ldexp(m, 53);
    return std::to_string(mi) + "@" + std::to_string(e - 53);
}
static std::string ds(const Date& d) { return std::to_string(d.year()) + " " + std::to_string(d.month()) + " " + std::to_string(d.day()); }

static void errors_case(Case& c) {
    Rng& rng = c.rng;
    std::ostream& out = c.out;
    int kind = (int)(c.index % 12);
    stats.add("class_" + std::to_string(kind));
    switch (kind) {
    case 0: {
        static const std::vector<std::string> names = {"SI", "SusceptibleInfected", "susceptible-infected", "susceptible_infected", "SEI", "SusceptibleExposedInfected",
            "susceptible-exposed-infected", "susceptible_exposed_infected", "", "si", "sei", "S I", "SIR", "SEIR", "Susceptible Infected", "SEI "};
        for (auto& s : names) {
            ModelType t{}; std::string e = err_kind([&] { t = model_type_from_string(s); });
            out << "err.modeltype " << q(s) << " => " << (e.empty() ? (t == ModelType::SusceptibleInfected ? "ok SI" : "ok SEI") : e) << "\n";
        }
        std::string e = err_kind([&] { model_type_from_string((const char*)nullptr); });
        out << "err.modeltype <empty> => " << (e.empty() ? "ok ?" : e) << "\n";
        break; }
    case 1: {
        static const std::vector<std::string> names = {"deterministic", "Deterministic", "probabilistic", "Probabilistic", "", "none", "None", "NONE", "DETERMINISTIC", "random", "nOne", "prob"};
        for (auto& s : names) {
            WeatherType t{}; std::string e = err_kind([&] { t = weather_type_from_string(s); });
            out << "err.weathertype " << q(s) << " => " << (e.empty() ? (t == WeatherType::Deterministic ? "ok deterministic" : t == WeatherType::Probabilistic ? "ok probabilistic" : "ok none") : e) << "\n";
        }
        break; }
    case 2: {
        static const std::vector<std::string> names = {"ratio_to_all", "ratio", "all_infected_in_cell", "all infected", "", "Ratio", "all", "all_infected", "ratio to all"};
        for (auto& s : names) {
            TreatmentApplication t{}; std::string e = err_kind([&] { t = treatment_app_enum_from_string(s); });
            out << "err.treatapp " << q(s) << " => " << (e.empty() ? (t == TreatmentApplication::Ratio ? "ok ratio" : "ok all") : e) << "\n";
        }
        for (std::string s : {"infect", "land", "", "Infect", "establish", "land "}) {
            Config cfg; std::string e = err_kind([&] { cfg.set_arrival_behavior(s); });
            out << "err.arrival " << q(s) << " => " << (e.empty() ? "ok" : e) << "\n";
        }
        break; }
    case 3: {
        // missing weather / temperature
        Env env; std::string e = err_kind([&] { env.weather_coefficient_at(0, 0); });
        out << "err.envweather => " << (e.empty() ? "ok" : e) << "\n";
        Env env2; e = err_kind([&] { env2.temperature_at(0, 0); });
        out << "err.envtemp => " << (e.empty() ? "ok" : e) << "\n";
        Env env3; e = err_kind([&] { env3.weather_coefficient(); });
        out << "err.envweather => " << (e.empty() ? "ok" : e) << "\n";
        break; }
    case 4: {
        // mortality without a pest-host table
        HostState h(1, 2, 0, 2); h.randomize(rng, false);
        Env env; Provider prov(1);
        Pool pool(ModelType::SusceptibleInfected, h.s, h.e, 0, h.i, h.te, h.r, h.m, h.died, h.th, env, false, 1.0, false, 0.5, 1, 2, h.suitable);
        std::string e = err_kind([&] { pool.apply_mortality_at(0, 0); });
        out << "err.mortalitynotable => " << (e.empty() ? "ok" : e) << "\n";
        break; }
    case 5: {
        for (int n : {0, 1, 3}) {
            std::vector<IRaster> rasters((size_t)n, IRaster(1, 1, 0)); Env env;
            std::string e = err_kind([&] { SoilPool<IRaster, DRaster, int, Provider> sp(rasters, env); });
            out << "err.soilempty " << n << " => " << (e.empty() ? "ok" : e) << "\n";
        }
        break; }
    case 6: {
        // Config accessors before create_schedules / for disabled features
        for (int created = 0; created < 2; created++) for (int enabled = 0; enabled < 2; enabled++) {
            Config cfg; cfg.use_lethal_temperature = enabled; cfg.use_survival_rate = enabled; cfg.use_spreadrates = enabled; cfg.use_quarantine = enabled;
            cfg.lethal_temperature_month = 1; cfg.survival_rate_month = 1; cfg.survival_rate_day = 1;
            cfg.spreadrate_frequency = "year"; cfg.quarantine_frequency = "year"; cfg.output_frequency = "year"; cfg.mortality_frequency = "year";
            cfg.set_date_start(2020, 1, 1); cfg.set_date_end(2021, 12, 31); cfg.set_step_unit(StepUnit::Month); cfg.set_step_num_units(1);
            if (created) cfg.create_schedules();
            std::string e;
            e = err_kind([&] { cfg.lethal_schedule(); }); out << "err.accessor lethal " << created << " " << enabled << " => " << (e.empty() ? "ok" : e) << "\n";
            e = err_kind([&] { cfg.survival_rate_schedule(); }); out << "err.accessor survival " << created << " " << enabled << " => " << (e.empty() ? "ok" : e) << "\n";
            e = err_kind([&] { cfg.spread_rate_schedule(); }); out << "err.accessor rates " << created << " " << enabled << " => " << (e.empty() ? "ok" : e) << "\n";
            e = err_kind([&] { cfg.quarantine_schedule(); }); out << "err.accessor quarantine " << created << " " << enabled << " => " << (e.empty() ? "ok" : e) << "\n";
            e = err_kind([&] { cfg.num_lethal(); }); out << "err.accessor num_lethal " << created << " " << enabled << " => " << (e.empty() ? "ok" : e) << "\n";
            e = err_kind([&] { cfg.rate_num_steps(); }); out << "err.accessor rate_num " << created << " " << enabled << " => " << (e.empty() ? "ok" : e) << "\n";
            e = err_kind([&] { cfg.quarantine_num_steps(); }); out << "err.accessor quarantine_num " << created << " " << enabled << " => " << (e.empty() ? "ok" : e) << "\n";
            // weather table: needs the schedules AND a weather series (weather_size > 0 plays the role of "enabled")
            cfg.weather_size = enabled ? 5 : 0;
            if (created) cfg.create_schedules();
            e = err_kind([&] { cfg.weather_table(); }); out << "err.accessor weather_table " << created << " " << enabled << " => " << (e.empty() ? "ok" : e) << "\n";
            e = err_kind([&] { cfg.simulation_step_to_weather_step(0); }); out << "err.accessor weather_step " << created << " " << enabled << " => " << (e.empty() ? "ok" : e) << "\n";
            if (enabled) {
                e = err_kind([&] { cfg.scheduler(); }); out << "err.accessor scheduler " << created << " 1 => " << (e.empty() ? "ok" : e) << "\n";
                e = err_kind([&] { cfg.spread_schedule(); }); out << "err.accessor spread " << created << " 1 => " << (e.empty() ? "ok" : e) << "\n";
                e = err_kind([&] { cfg.mortality_schedule(); }); out << "err.accessor mortality " << created << " 1 => " << (e.empty() ? "ok" : e) << "\n";
                e = err_kind([&] { cfg.output_schedule(); }); out << "err.accessor output " << created << " 1 => " << (e.empty() ? "ok" : e) << "\n";
                e = err_kind([&] { cfg.num_mortality_steps(); }); out << "err.accessor num_mortality " << created << " 1 => " << (e.empty() ? "ok" : e) << "\n";
            }
        }
        break; }
    case 7: {
        // suitability outside [0,1]: total population smaller than susceptible, weather > 1
        for (int t = 0; t < 6; t++) {
            int s = rng.in(1, 20), n = rng.coin(50) ? rng.in(1, s) : rng.in(s, 2 * s);
            int w64 = rng.coin(30) ? rng.in(65, 128) : rng.in(0, 64); bool use_w = rng.coin(60);
            HostState h(1, 1, 0, 1); h.s(0, 0) = s; h.th(0, 0) = s; h.suitable = {{0, 0}};
            Env env; IRaster npop(1, 1, n); DRaster w(1, 1, w64 / 64.0); env.set_total_population(&npop); if (use_w) env.update_weather_coefficient(w);
            Pool pool(ModelType::SusceptibleInfected, h.s, h.e, 0, h.i, h.te, h.r, h.m, h.died, h.th, env, false, 1.0, false, 0.5, 1, 1, h.suitable);
            std::string e = err_kind([&] { pool.suitability_at(0, 0); });
            out << "err.suitability " << s << " " << n << " " << (use_w ? rat64(w64) : std::string("none")) << " => " << (e.empty() ? "ok" : e) << "\n";
        }
        break; }
    case 8: case 9: {
        // cohort lists of the wrong length
        for (int t = 0; t < 6; t++) {
            int ne = rng.in(0, 3), nm = rng.in(1, 3);
            int elen = rng.coin(50) ? ne : rng.in(0, 4), mlen = rng.coin(50) ? nm : rng.in(0, 4);
            HostState h(1, 1, ne, nm); h.s(0, 0) = 5; for (auto& x : h.e) x(0, 0) = 1; for (auto& x : h.m) x(0, 0) = 1; h.i(0, 0) = nm; h.te(0, 0) = ne; h.th(0, 0) = 5 + ne + nm; h.suitable = {{0, 0}};
            Env env;
            Pool pool(ne ? ModelType::SusceptibleExposedInfected : ModelType::SusceptibleInfected, h.s, h.e, ne ? (unsigned)ne - 1 : 0, h.i, h.te, h.r, h.m, h.died, h.th, env, false, 1.0, false, 0.5, 1, 1, h.suitable);
            std::vector<int> ev((size_t)elen, 0), mv((size_t)mlen, 0);
            if (kind == 8) {
                int irem = rng.in(0, 1);
                std::string e = err_kind([&] { pool.completely_remove_hosts_at(0, 0, 1, ev, irem, mv); });
                out << "err.remove " << ne << " " << nm << " " << elen << " " << mlen << " " << irem << " => " << (e.empty() ? "ok" : e) << "\n";
            } else {
                int sR = rng.coin(25) ? 9 : rng.in(0, 5);
                std::string e = err_kind([&] { pool.make_resistant_at(0, 0, sR, ev, 0, mv); });
                out << "err.resistant " << ne << " " << nm << " " << elen << " " << mlen << " " << sR << " => " << (e.empty() ? "ok" : e) << "\n";
            }
        }
        break; }
    case 10: {
        // treatment dates inside / outside the schedule
        Date st(rng.in(2018, 2024), rng.in(1, 12), 1), en(st); en.add_days((unsigned)rng.in(120, 400));
        Scheduler s(st, en, rng.coin() ? StepUnit::Month : StepUnit::Week, (unsigned)rng.in(1, 3));
        unsigned k = s.get_num_steps();
        for (int t = 0; t < 6; t++) {
            Date d(st); int off = rng.in(-40, 500); if (off >= 0) d.add_days((unsigned)off); else d.subtract_days((unsigned)(-off));
            int days = rng.coin(40) ? 0 : rng.in(1, 200);
            // reproduce add_treatment's bookkeeping through the public API
            unsigned a = 0, b = 0;
            std::string e = err_kind([&] { Treatments<Pool, DRaster> tr(s); tr.add_treatment(DRaster(1, 1, 0.5), d, days, TreatmentApplication::Ratio);
                                           a = s.schedule_action_date(d); int ey, em, ed; ::verif::civil_add_days(d.year(), d.month(), d.day(), days, ey, em, ed); Date de(ey, em, ed); b = days ? s.schedule_action_date(de) : a; });
            out << "err.addtreat " << k;
            for (unsigned i = 0; i < k; i++) out << " " << ds(s.get_step(i).start_date()) << " " << ds(s.get_step(i).end_date());
            out << " " << ds(d) << " " << days << " => " << (e.empty() ? "ok " + std::to_string(a) + " " + std::to_string(b) : e) << "\n";
        }
        break; }
    default: {
        // weather from a distribution: values in [0,1]; means outside and mismatching shapes rejected
        for (int t = 0; t < 4; t++) {
            int rows = rng.in(1, 3), cols = rng.in(1, 3);
            int srows = rng.coin(15) ? rows + 1 : rows, scols = rng.coin(15) ? cols + 1 : cols;
            DRaster mean(rows, cols, 0.0), sd(srows, scols, 0.0);
            std::ostringstream ms;
            bool bad = rng.coin(35);
            // standard deviations: a degenerate 0 is frequent (the draw then returns the mean itself),
            // so that "mean out of range" and "sd = 0" coincide in the same cell regularly
            int sdmode = rng.in(0, 3);  // 0: all zero, 1: mixed with zeros, 2,3: positive
            for (int a = 0; a < srows; a++) for (int b = 0; b < scols; b++) {
                int k16 = sdmode == 0 ? 0 : sdmode == 1 ? (rng.coin(50) ? 0 : rng.in(1, 64)) : rng.in(1, 64);
                sd(a, b) = k16 / 16.0;
            }
            int badcell = rng.in(0, rows * cols - 1);
            for (int a = 0; a < rows; a++) for (int b = 0; b < cols; b++) {
                bool isbad = bad && (a * cols + b == badcell || rng.coin(20));
                int k64 = isbad ? (rng.coin(30) ? (rng.coin() ? -1 : 65) : rng.coin() ? rng.in(-20, -1) : rng.in(65, 90)) : (rng.coin(20) ? (rng.coin() ? 0 : 64) : rng.in(0, 64));
                mean(a, b) = k64 / 64.0; ms << " " << (k64 < 0 ? "-" + rat64(-k64) : rat64(k64));
            }
            ms << " |";
            for (int a = 0; a < srows; a++) for (int b = 0; b < scols; b++) ms << " " << dyadic(sd(a, b));
            stats.add(std::string("weather_sd_") + (sdmode == 0 ? "zero" : sdmode == 1 ? "mixed" : "positive") + (bad ? "_badmean" : "_goodmean"));
            Env env; Provider prov(rng.next());
            std::string e = err_kind([&] { env.update_weather_from_distribution(mean, sd, prov); });
            out << "err.weatherdist " << rows << " " << cols << " " << srows << " " << scols << ms.str() << " => ";
            if (!e.empty()) out << e << "\n";
            else { out << "ok"; for (int a = 0; a < rows; a++) for (int b = 0; b < cols; b++) out << " " << dyadic(env.weather_coefficient_at(a, b)); out << "\n"; }
        }
        break; }
    }
    c.nontrivial = true;
}

int main(int argc, char** argv) {
    std::ios::sync_with_stdio(false);
    std::string mode = argc > 1 ? argv[1] : "errors";
    uint64_t seed = argc > 2 ? std::stoull(argv[2]) : 1;
    long first = argc > 3 ? std::stol(argv[3]) : 0;
    long count = argc > 4 ? std::stol(argv[4]) : 100;
    if (mode == "errors") run_cases("h_err", mode, seed, first, count, errors_case);
    stats.dump("h_err");
    return 0;
}
