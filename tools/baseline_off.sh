#!/bin/bash
# Runs the repository's own test suite with the verification guard OFF (POPS_CORE_VERIF undefined)
# in a scratch build directory that is removed afterwards.
set -e
D=$(mktemp -d /tmp/pops_baseline_XXXXXX)
trap 'rm -rf "$D"' EXIT
cmake -G Ninja -S /repo -B "$D" > "$D/configure.log" 2>&1 || { cat "$D/configure.log"; exit 2; }
cmake --build "$D" -j16 > "$D/build.log" 2>&1 || { tail -50 "$D/build.log"; exit 2; }
ctest --test-dir "$D" -j8 --timeout 900
