"""Per-property configuration of the checks (see tools/check.py and DESIGN.md)."""

TRUSTED_BASE = [
    "Lean 4.33 kernel (thorough tier re-checks the compiled modules with leanchecker)",
    "axioms reported by #print axioms for every property theorem: subset of propext, Classical.choice, Quot.sound; no sorry/admit/native_decide/bv_decide/own axioms (scanned on every run)",
    "the hand-written Lean model and the theorem statements in lean/PopsModel/Props",
    "the correspondence check (C++ harness generators, line protocol, Lean driver, tools/check.py): differential testing, sees only generated inputs",
    "modelled, not verified: C++ int as unbounded Int (overflow guarded only by UBSan in the harness), double as exact Rat on dyadic inputs, libstdc++ distributions, object lifetime/heap (ASan in the harness)",
]

PROPS = {}

PROPS["C07"] = dict(
    level="proof",
    lean_modules=["PopsModel.Props.C07"],
    theorems=["Pops.C07_valid", "Pops.C07_increasing", "Pops.C07_order", "Pops.C07_tiles",
              "Pops.C07_partition", "Pops.C07_day_steps"],
    commands=["date.*", "sched", "lookup", "unit"],
    runs={
        "quick": [("h_date", "single-sample", 0, 2500), ("h_date", "sched", 0, 2000), ("h_date", "tables", 0, 94)],
        "thorough": [("h_date", "single-all", 0, 146097), ("h_date", "single-sample", 0, 20000),
                     ("h_date", "sched", 0, 200000), ("h_date", "tables", 0, 94)],
    },
    exhaustive={"quick": False, "thorough": True},
    exhaustive_note={
        "quick": "dense block: every day of Jan/Feb/Mar/Nov/Dec of 2019, 2020, 2100, 2000 x all 32 successor kinds; unit/frequency tables complete",
        "thorough": "every start date of the 400-year cycle 2000-01-01..2399-12-31 x {1..28 days, week, month, add_day, subtract_day} (4.67 M single steps); unit/frequency tables complete; schedulers sampled",
    },
    rule="case = one date with all 32 successor kinds, or one random Scheduler (start biased to Nov/Dec/Feb and leap/century years; day 1..28, week 1..60, month 1..14; 6% malformed) with its steps, 8 lookups and every schedule builder; non-trivial = accepted scheduler with >= 3 steps, or any single-step case; distinct = blake2b of the case's protocol lines",
    assumptions=["dates are compared through the public Date/Scheduler API only", "n-day steps with n <= 28, month steps start on day 1 (C07's stated domain); other inputs are compared model-vs-code without property predicates"],
    explanation="Theorems: successors keep dates valid and strictly increase them; the constructor's loop yields a list satisfying TilesCalendar; any list satisfying TilesCalendar partitions its date range and the lookup returns the unique containing step; year rule for day and one-week steps in day-of-year terms for every year. The driver evaluates the same predicates on the implementation's own step lists.",
)

PROPS["C08"] = dict(
    level="proof",
    lean_modules=["PopsModel.Props.C08"],
    theorems=["Pops.C08_yearly", "Pops.C08_yearly_once", "Pops.C08_end_of_year", "Pops.C08_monthly", "Pops.C08_nsteps",
              "Pops.C08_spread", "Pops.C08_frequency", "Pops.C08_index_bijection", "Pops.C08_weather"],
    commands=["yearly", "eoy", "monthly", "nsteps", "final", "spread", "fromstring", "weather", "actionstep", "count"],
    runs={
        "quick": [("h_date", "sched", 0, 3000), ("h_date", "tables", 0, 94)],
        "thorough": [("h_date", "sched", 0, 300000), ("h_date", "tables", 0, 94)],
    },
    exhaustive={"quick": False, "thorough": False},
    exhaustive_note={"quick": "frequency-name x step-unit x n (n <= 31) compatibility table complete (2520 entries); schedulers sampled",
                     "thorough": "frequency-name x step-unit x n (n <= 31) compatibility table complete (2520 entries); schedulers sampled"},
    rule="case = one random Scheduler (see C07) with two yearly dates (biased to 1 Jan / 28 Dec), end-of-year, monthly, final, every-n, spread season, three frequency strings, weather table, action-step lookup and count; non-trivial = accepted scheduler with >= 3 steps; distinct = blake2b of the case's protocol lines. Predicates 'fires iff the step contains such a date' are evaluated by enumerating the dates of each implementation step.",
    assumptions=["steps shorter than a year (the property's domain); for longer steps only model-vs-code agreement is checked"],
    explanation="Theorems characterise each builder by containment of a date in the step (yearly, end-of-year, monthly) or by index arithmetic (every-n, final, weather), the frequency-name table with its rejections, and the bijection between firing steps and action indices. The driver evaluates containment by date enumeration on the implementation's steps.",
)
