"""Per-property configuration of the checks (see tools/check.py and DESIGN.md)."""

TRUSTED_BASE = [
    "Lean 4.33 kernel (thorough tier re-checks the compiled modules with leanchecker)",
    "axioms reported by #print axioms for every property theorem: subset of propext, Classical.choice, Quot.sound; no sorry/admit/native_decide/bv_decide/own axioms (scanned on every run)",
    "the hand-written Lean model and the theorem statements in lean/PopsModel/Props",
    "the correspondence check (C++ harness generators, line protocol, Lean driver, tools/check.py): differential testing, sees only generated inputs",
    "modelled, not verified: C++ int as unbounded Int (overflow guarded only by UBSan in the harness), double as exact Rat on dyadic inputs, libstdc++ distributions, object lifetime/heap (ASan in the harness)",
]

PROPS = {}
META = {}
ENGINES = {}

import importlib.util as _ilu, os as _os
_d = _os.path.join(_os.path.dirname(_os.path.abspath(__file__)), "props")
for _f in sorted(_os.listdir(_d)):
    if _f.startswith("C") and _f.endswith(".py"):
        _spec = _ilu.spec_from_file_location("props_" + _f[:-3], _os.path.join(_d, _f))
        _m = _ilu.module_from_spec(_spec); _spec.loader.exec_module(_m)
        PROPS[_f[:-3]] = _m.PROP
        META[_f[:-3]] = _m.META
        for _e in getattr(_m, "ENGINES", []):
            ENGINES[_e["name"]] = _e
