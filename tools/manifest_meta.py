"""Descriptive texts for MANIFEST.json (kept apart from the executable configuration)."""
HOOKS = {
    "guard": "POPS_CORE_VERIF",
    "enable": "harnesses are compiled with -DPOPS_CORE_VERIF -I/repo/include (header-only library; tools/check.py build_harness)",
    "baseline_off_cmd": "bash /verif/tools/baseline_off.sh",
    "source_commits": ["a79a6ef"],
    "add_only": True,
}
ENGINES = [
    {"name": "lean-model", "path": "lean/PopsModel", "serves_properties": [], "kind_free_text": "Lean 4 model (Model/), lemmas (Lemmas/), property theorems (Props/), core-only executable driver (Driver/)"},
    {"name": "h_mmodel", "path": "harness/h_mmodel.cpp", "serves_properties": [], "kind_free_text": "C++ correspondence harness: Model::run_step through the multi-host entry point with 2-3 host pools, pest-host and competency tables from Config rows, scripted engine, injected kernel, every host's state after every action block and every single landing"},
    {"name": "h_kern", "path": "harness/h_kern.cpp", "serves_properties": [], "kind_free_text": "C++ correspondence harness: stochastic kernels (radial with the ten laws and von Mises direction, uniform, deterministic neighbour, switch, natural-anthropogenic mix, network) driven by scripted engines; name / direction / eligibility tables; the kernel factories and the kernel Model builds for overpopulation moves"},
    {"name": "h_det", "path": "harness/h_det.cpp", "serves_properties": [], "kind_free_text": "C++ correspondence harness: DeterministicDispersalKernel (window, weights, full allotment sequences over several source cells), quantile / density / constructor tables of the ten law classes, kernels built through the factories, fixed witnesses of the open findings"},
    {"name": "h_multi", "path": "harness/h_multi.cpp", "serves_properties": [], "kind_free_text": "C++ correspondence harness: random operation sequences on a real MultiHostPool (2-3 hosts), pest-host and competency tables, per-host mortality, establishment, movement"},
    {"name": "h_metric", "path": "harness/h_metric.cpp", "serves_properties": [], "kind_free_text": "C++ correspondence harness: SpreadRateAction, QuarantineEscapeAction, statistics and the averaging helpers on random rasters of every shape, several measurement steps, integer and fractional resolutions, negative area ids"},
    {"name": "h_raster", "path": "harness/h_raster.cpp", "serves_properties": [], "kind_free_text": "C++ correspondence harness: Raster value semantics - element-wise and scalar operators over int / double mixes, comparisons, copies, moves, wrappers of caller memory (heap model with ownership), shape mismatches"},
    {"name": "h_date", "path": "harness/h_date.cpp", "serves_properties": ["C07", "C08"], "kind_free_text": "C++ correspondence harness: Date, Scheduler, schedule builders; exhaustive 400-year cycle in thorough"},
]
NOTES = ("Technique: machine-checked proof in Lean 4 about a hand-written model, tied to /repo's working tree on every run by a "
         "behavioural correspondence check (C++ harness calling the real headers under ASan/UBSan -> line protocol -> Lean driver that "
         "re-computes the model and evaluates the theorems' own predicates on the implementation's output). See DESIGN.md.")
NOT_CLAIMED = {}
