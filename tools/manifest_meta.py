"""Descriptive texts for MANIFEST.json (kept apart from the executable configuration)."""
HOOKS = {
    "guard": "POPS_CORE_VERIF",
    "enable": "harnesses are compiled with -DPOPS_CORE_VERIF -I/repo/include (header-only library; tools/check.py build_harness)",
    "baseline_off_cmd": "bash /verif/tools/baseline_off.sh",
    "source_commits": [],
    "add_only": True,
}
ENGINES = [
    {"name": "lean-model", "path": "lean/PopsModel", "serves_properties": [], "kind_free_text": "Lean 4 model (Model/), lemmas (Lemmas/), property theorems (Props/), core-only executable driver (Driver/)"},
    {"name": "h_date", "path": "harness/h_date.cpp", "serves_properties": ["C07", "C08"], "kind_free_text": "C++ correspondence harness: Date, Scheduler, schedule builders; exhaustive 400-year cycle in thorough"},
]
NOTES = ("Technique: machine-checked proof in Lean 4 about a hand-written model, tied to /repo's working tree on every run by a "
         "behavioural correspondence check (C++ harness calling the real headers under ASan/UBSan -> line protocol -> Lean driver that "
         "re-computes the model and evaluates the theorems' own predicates on the implementation's output). See DESIGN.md.")
NOT_CLAIMED = {}
META = {
    "C07": dict(engine="h_date", design_ref="DESIGN.md section 3, C07",
        technique="Lean 4 theorems (induction over the step loop, omega on the month table) + differential correspondence, exhaustive over the 400-year cycle in thorough",
        text="Proof: the Date successors keep dates valid and strictly increasing; the Scheduler loop produces a list satisfying the TilesCalendar predicate (first start, contiguity, produced-while, last end); any list satisfying it partitions its date range and schedule_action_date returns the unique containing step or rejects; the year rule for day and one-week steps holds for every year. All for unbounded years, any start/end/unit/length in the domain. The model is tied to the code by comparing every successor over the full 400-year cycle (thorough) and random schedulers, and the theorem predicates are evaluated on the implementation's own step lists.",
        note="Trusted: Lean kernel + propext/Classical.choice/Quot.sound; hand-written model of date.hpp/scheduling.hpp; correspondence harness and driver. int modelled as unbounded Int."),
    "C08": dict(engine="h_date", design_ref="DESIGN.md section 3, C08",
        technique="Lean 4 theorems (containment characterisation per builder, counting bijection) + differential correspondence with date-enumeration predicates",
        text="Proof: for every well-formed step shorter than a year (straddling steps included) the yearly / end-of-year / monthly builders fire iff the step contains the date / a 31 December / a month end; exactly one step of a tiled calendar fires per covered occurrence; every-n, every-step, final-step, spread and weather tables are characterised by index; the frequency-name table with all rejections; simulation_step_to_action_step is a bijection from firing steps onto [0, count). The model is tied to the code on random schedulers (all builders compared bit for bit) and the complete name x unit x n table, and the containment predicates are evaluated on the implementation's output by enumerating dates.",
        note="Trusted: as C07. Config::create_schedules wiring is covered under C09."),
}
