#!/usr/bin/env python3
"""Regenerates the seeded-changes table of DESIGN.md 8.6 (between the markers) from seeded/*/meta.json."""
import json, os, re, glob
VERIF = os.path.dirname(os.path.dirname(os.path.abspath(__file__)))
rows = []
for mp in sorted(glob.glob(os.path.join(VERIF, "seeded", "*", "meta.json"))):
    sid = os.path.basename(os.path.dirname(mp)); m = json.load(open(mp))
    def fmt(ch):
        return ", ".join("%s: %d VIOLATION%s" % (k, v["violations"], " (%d without failing input)" % v["no_failing_input_found"] if v["no_failing_input_found"] else "")
                         for k, v in sorted(ch.items(), key=lambda kv: (kv[0] != m["property"], kv[0])))
    cell = fmt(m["checks"])
    if "checks_before_strengthening" in m:
        cell += " [before strengthening: " + fmt(m["checks_before_strengthening"]) + "]"
    rows.append("| %s | %s | %s | %s |" % (sid, m["what"].replace("|", "/"), m["needs_to_manifest"].replace("|", "/"), cell))
table = "| seeded for | change | needs | checks run against it |\n|---|---|---|---|\n" + "\n".join(rows) + "\n"
p = os.path.join(VERIF, "DESIGN.md"); s = open(p).read()
a, b = "<!-- seeded-table-begin -->\n", "<!-- seeded-table-end -->\n"
if a in s:
    s = s[:s.index(a) + len(a)] + table + s[s.index(b):]
else:
    m = re.search(r"\| seeded for \| change \| needs \| checks run against it \|\n\|---\|---\|---\|---\|\n(?:\|.*\n)+", s)
    s = s[:m.start()] + a + table + b + s[m.end():]
open(p, "w").write(s)
print(len(rows), "rows")
