"""C14: check configuration (PROP) and manifest texts (META)."""

PROP = dict(
    level="proof",
    lean_modules=["PopsModel.Props.C14", "PopsModel.Props.NonVacuous.KernelsReal", "PopsModel.Props.C14Approx"],
    theorems=["Pops.C14_quota", "Pops.C14_picks_in_window", "Pops.C14_equal_share", "Pops.C14_mirror",
              "Pops.C14_mirror_weight", "Pops.C14_reset", "Pops.C14_fresh_run", "Pops.C14_window", "Pops.C14_distance",
              "Pops.C14_quantile_cauchy", "Pops.C14_quantile_exponential", "Pops.C14_quantile_weibull",
              "Pops.C14_quantile_logistic", "Pops.C14_quantile_hyperbolic_secant",
              "Pops.C14_powerlaw_cdf_of_density", "Pops.C14_quantile_powerlaw_fails",
              "Pops.C14_quantile_powerlaw_pareto_fails", "Pops.C14_no_window_example", "Pops.C14_parameters_rejected", "Pops.C14_quota_approx", "Pops.C14_quota_abs", "Pops.C14_quota_surplus", "Pops.C14_picks_in_window_approx", "Pops.C14_equal_share_approx", "Pops.C14_mirror_approx"],
    commands=["det.*"],
    runs={
        "quick": [("h_det", "witness", 0, 7), ("h_det", "alloc", 0, 400), ("h_det", "factory", 0, 200), ("h_det", "quantile", 0, 600)],
        "thorough": [("h_det", "witness", 0, 7), ("h_det", "alloc", 0, 30000), ("h_det", "factory", 0, 10000), ("h_det", "quantile", 0, 30000)],
    },
    exhaustive={"quick": False, "thorough": False},
    exhaustive_note={"quick": "all ten laws in equal shares (law = case index mod 10); everything else sampled",
                     "thorough": "all ten laws in equal shares (law = case index mod 10); everything else sampled"},
    rule="alloc case = one DeterministicDispersalKernel (law = index mod 10; scale k/8 and shape k/8 off the diagonal; "
         "dispersal percentage k/64 or k/256, 18% at or below 1/2; ns and ew chosen so that the window has 1..15 cells "
         "per axis, ns != ew in ~85%; 2% unsupported type, 3% out-of-domain parameters, 8% of Weibull/gamma cases with a "
         "density unbounded at the centre) with its window dimensions, max_distance, the normalised probability matrix "
         "(exact bit patterns) and the full pick sequence for 2..4 source cells in sequence with N in 1..320 (20% partial "
         "runs, 30% revisits, 12% repeated runs on an unchanged source cell); non-trivial = window of >= 9 cells, >= 2 source "
         "cells, >= 10 calls; quantile case = one law with icdf at 6 percentages + 4 rejected ones, pdf at 12 points, "
         "GammaKernel::cdf at 4 points (always non-trivial); witness = the fixed inputs of F21, F23, F25, F33; distinct = blake2b of "
         "the case's protocol lines; factory case = the same protocol for a kernel built from a Config with "
         "dispersal_stochasticity off through create_natural_kernel / create_anthro_kernel / create_dynamic_kernel "
         "(law = index mod 10, natural or anthropogenic side and direct or mixed construction alternate, ns != ew in ~95%), "
         "with the CONFIGURED parameters on the det.new line and calls made through the wrapper / the natural-anthropogenic mix",
    assumptions=[
        "power-law alpha > 1 (alpha = 1 gives an identically zero density; outside the law's domain)",
        "approximate quantiles (normal, log-normal: Winitzki's inverse error function; gamma: Newton iteration to 1e-3): only "
        "|cdf(icdf p) - p| <= 2e-3 is checked numerically against a reference cdf (erf / regularised incomplete gamma in Float) - "
        "model validation, not a theorem",
        "quota predicates on the implementation's sequence allow 1e-6 for the floating-point subtraction of 1/N; the theorems "
        "are exact over the rationals",
        "a second run of calls for an unchanged source cell (no reset in the code, none claimed by the property) is compared "
        "model-vs-code only",
        "the Float twin of pdf/icdf (Lean Float = C double, libm) is compared with relative tolerance 1e-9; std::tgamma is "
        "replaced by a Lanczos approximation in the twin",
    ],
    trusted_base=["Mathlib (Real analysis, ordered fields, big operators) as shipped with the toolchain"],
    explanation="Theorems (Lean 4 + Mathlib): for the model's scan-order arg-max over the rationals, any probability vector and "
                "any N >= 1: |k_c - N p_c| <= 1 after N picks, k_c - N p_c < 1 at every moment, equal-weight and mirror-image "
                "cells differ by <= 1 at every moment; a call restores the window iff the source cell changes and every run on a "
                "new source cell is runPicks on the untouched window; the window has 2*ceil(icdf(pct)/res)+1 cells per axis (rows "
                "x north-south, columns x east-west) and each cell carries |pdf(distance)|/sum; for Cauchy, exponential, Weibull, "
                "logistic and hyperbolic secant the coded icdf is the two-sided inverse of the cdf whose derivative is the coded "
                "pdf. The driver evaluates QuotaBound, QuotaUpper, MirrorBound, equal-share, WindowExists, WindowCovers, "
                "Normalised, weight-proportional and quantile-inverse on the implementation's own output before comparing with "
                "the model. Open findings F21 (power-law / exponential-power / non-integer gamma quantiles), F23 (two-sided law "
                "with percentage < 1/2: no window) F25 (density unbounded at the centre) and F33 (every raw double weight of the window is 0) are reported as KNOWN in their regions.",
)

META = dict(engine="h_det", design_ref="DESIGN.md section 3, C14",
        technique="Lean 4 + Mathlib theorems (four inductive invariants over Q for the allotment; real analysis for the quantiles) "
                  "+ differential correspondence: Float twin of the window and exact replay of the pick sequence on the observed matrix",
        text="Proof, partial: the allotment bound |k_c - N p_c| <= 1, the at-most-one difference of equal-weight / mirror-image "
             "cells at every moment, the reset on every new source cell, the window size 2*ceil(icdf(pct)/res)+1 and the cell "
             "weights |pdf(distance)|/sum are theorems about the executable model (scan-order arg-max as coded, any window size, any "
             "N); icdf = inverse of the cdf of the same density is a theorem for Cauchy, exponential, Weibull, logistic and "
             "hyperbolic secant (same generic formulas the driver executes, instantiated at the reals). The approximate quantiles "
             "(normal, log-normal, gamma) are numeric validation only (|cdf(icdf p) - p| <= 2e-3). The model is tied to the code by "
             "comparing window dimensions, max_distance, the whole probability matrix and the full pick sequence for all ten laws "
             "off the diagonal scale = shape with ns != ew, and the property predicates are evaluated on the implementation's own "
             "matrix and sequence. Open findings: F21 (power-law quantile: counter-example theorem; exponential power and "
             "non-integer gamma: numeric), F23 (two-sided law, percentage < 1/2: negative quantile, no window / bad_array_new_length), "
             "F25 (density unbounded at the centre: NaN weights), F33 (every density of the window underflows to 0 in doubles: NaN window, all dispersers stay in the source cell).",
        note="Trusted: Lean kernel + propext/Classical.choice/Quot.sound, Mathlib; hand-written model of deterministic_kernel.hpp and "
             "the ten *_kernel.hpp laws; Float twin vs C double within 1e-9; reference erf / incomplete gamma for the numeric checks; "
             "correspondence harness and driver.")
