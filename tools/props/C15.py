"""C15: check configuration (PROP), manifest texts (META) and engine registration (ENGINES)."""

PROP = dict(
    level="proof",
    lean_modules=["PopsModel.Props.C15", "PopsModel.Props.NonVacuous.Kernels"],
    theorems=["Pops.C15_start_needs_node", "Pops.C15_start_with_node", "Pops.C15_walk_derivation",
              "Pops.C15_stays_on_network", "Pops.C15_cost", "Pops.C15_cost_index", "Pops.C15_jump",
              "Pops.C15_prefers_unvisited", "Pops.C15_terminates", "Pops.C15_teleport_adjacent",
              "Pops.C15_kernel_forwards",
              "Pops.C15_load_clip_rule", "Pops.C15_load_clip", "Pops.C15_load_clip_inside_kept",
              "Pops.C15_load_clip_region", "Pops.C15_F17_witness", "Pops.C15_load_clip_ideal_fails",
              "Pops.C15_load_symmetric", "Pops.C15_load_merge", "Pops.C15_load_wf",
              "Pops.C15_load_rejects", "Pops.C15_load_rejects_texts", "Pops.C15_load_header",
              "Pops.Net.walkGHas_eq", "Pops.C15_network_movement_wiring"],
    commands=["net.*"],
    runs={
        # cases 0 and 1 of mode `net` (and every case of mode `witness`) are fixed witnesses of the
        # open finding F17, so its KNOWN-FINDING line is printed on every run
        # mode f17 = mode net with 14% of the end nodes inside the F17 region (0.3% elsewhere), sized so that
        # a chunk never carries more than ~100 KNOWN lines
        "quick": [("h_net", "net", 0, 500), ("h_net", "malformed", 0, 1500), ("h_net", "f17", 0, 150), ("h_net", "witness", 0, 2), ("h_kern", "factory", 0, 600)],
        "thorough": [("h_net", "net", 0, 50000), ("h_net", "malformed", 0, 50000), ("h_net", "f17", 0, 3000), ("h_net", "witness", 0, 2), ("h_kern", "factory", 0, 6000)],
    },
    exhaustive={"quick": False, "thorough": False},
    exhaustive_note={
        "quick": "sampled; the header-order table and the malformed-text table of the harness are each hit many times (see input_distribution)",
        "thorough": "sampled; the header-order table and the malformed-text table of the harness are each hit many times (see input_distribution)",
    },
    rule="case (mode net) = one random network text (2-6 nodes with ids 1..12 or large, chain / cycle / star / random topology, duplicate and reversed pairs, self-loops, several nodes per cell, a node id at two places, end nodes inside / on the box edge / one cell beyond south-east (0.3% of the nodes, 14% in mode f17) / far outside, dense geometry with repeated cells and detours outside, with/without cost and probability columns, resolutions 1/2..10 also non-square, partial last row/column) loaded by the real Network<int>; its structure (nodes, segments with cost and probability, adjacency in stored order, statistics), corner and end-point conversions, has_node_at / eligibility, get_node_row_col, get_segment in both senses, 6 next_node calls with random visited sets, and 4-8 trip configurations x 2-4 generator seeds (walk, jump, through NetworkDispersalKernel, teleport with 0-3 steps); case (mode malformed) = such a text with exactly one malformed element or header variant; non-trivial = a loaded network with >= 2 stored segments (net) / every malformed case; distinct = blake2b of the case's protocol lines. Trip results are checked for membership in the model's set of results reachable under any random choice; the property predicates (on-network, end-node when snapping, cost accounting by the relaxed walk, adjacency for teleport, preference in next_node, clipping / merging / symmetry / cost / rejection on the loaded structure) are evaluated on the implementation's own output.",
    assumptions=[
        "coordinates, resolutions, costs, probabilities and distances are dyadic rationals, so the C++ doubles are exact; a stated cost that is not (cells-1) x dyadic is only used with segments of at most 8 cells and distances that are odd multiples of 1/64, where no rounding tie can occur",
        "segment costs are positive in every case that makes trips (zero or negative stated costs make Network::walk loop forever; such networks are only loaded and compared)",
        "random choices are not replayed: a trip result is compared with the set of all results reachable in the model; the law of discrete_distribution / uniform_int_distribution is trusted",
        "number texts follow the decimal grammar of the stoi/stod model (no hex, inf, nan); when both coordinates of a pair are malformed with different classes the C++ result depends on argument evaluation order and is not generated",
        "collect_statistics() is not called on an empty network (it dereferences end() of an empty set)",
    ],
    explanation="Theorems: a start cell without node is rejected by walk, teleport and the kernel; every result of walk has a derivation (C15_walk_derivation) from which: the result lies on a stored segment or is the start cell; without snapping the trip consumes whole segments while the remainder exceeds their cost and stops at index round(remainder / cost-per-cell) <= cells-1 (never out of bounds, never an exception); with snapping it ends on the node just left below half and on the far node from exactly half on, hence on a node cell; next_node never returns a visited node while an unvisited neighbour exists; positive costs bound the loop by floor(d / mincost) + 1 iterations; teleport ends on a node adjacent to a start node. Loading: the stored segment of a pair is that of the first record passing the CODED clipping test (end cells within 0..max index, the maximum taken from the corner coordinate); edges inside the study area are kept; kept edges end less than one cell beyond the south / east edge (C15_load_clip_region) and the ideal rule 'exactly the edges inside' is refuted by a proved witness (C15_load_clip_ideal_fails = open finding F17); adjacency is symmetric and both directions see the same segment; repeated cells are merged, cost is stated or length-derived; each malformed-record class gives the documented exception class; header orders.",
)

META = dict(engine="h_net", design_ref="DESIGN.md section 3, C15",
        technique="Lean 4 theorems over an outcome-set model of walk/teleport (derivation relation, fuel bound, Rat floor arithmetic for the clipping rule, kernel-evaluated witnesses) + differential correspondence with set membership for random choices",
        text="Proof: for every loaded network (any topology, several nodes per cell, duplicate pairs, self-loops), start cell, distance, mode and every sequence of random choices: a trip starts only from a cell holding a node; every cell walk returns lies on a stored segment or is the start cell; walking consumes whole segments while the remaining distance exceeds their cost and stops at index round(remaining / cost-per-cell), which is inside the segment; snapping returns the nearer end node (the far one at exactly half) and therefore a node cell; next_node never picks a visited neighbour while an unvisited one exists; the loop terminates within floor(d / mincost) + 1 iterations for positive costs; teleport ends on a node adjacent to a start node. Loading keeps, per node pair, the first record whose end cells pass the coded index test, makes every edge traversable in both directions with the stated or length-derived cost, merges consecutive points of one cell, and rejects each malformed-record class with the documented exception. The ideal clipping rule (exactly the edges inside the study area) is proved in one direction only; the other direction is refuted by a proved witness - open finding F17 (one extra row / column beyond the south / east edge). The model is tied to the code on random network texts and trips through Network and NetworkDispersalKernel, and every predicate is evaluated on the implementation's own output.",
        note="Trusted: Lean kernel + propext/Classical.choice/Quot.sound; hand-written model of network.hpp/network_kernel.hpp incl. the stoi/stod grammar; correspondence harness and driver; libstdc++ distributions (which neighbour is drawn). int as unbounded Int, double as exact Rat on dyadic inputs.")

ENGINES = [{"name": "h_net", "path": "harness/h_net.cpp", "serves_properties": ["C15"],
            "kind_free_text": "C++ correspondence harness: Network load / queries / walk / jump / teleport and NetworkDispersalKernel on random network texts (protocol prefix net., driver lean/PopsModel/Driver/NetEng.lean)"}]
