"""C03: check configuration (PROP) and manifest texts (META)."""

PROP = dict(
    level="proof",
    lean_modules=['PopsModel.Props.C03', 'PopsModel.Props.NonVacuous.Host', 'PopsModel.Props.RunModel', 'PopsModel.Props.C03Cohorts'],
    theorems=['Pops.C03_totals_step', 'Pops.C03_totals_move', 'Pops.C03_cohorts_step_partial', 'Pops.C03_cohorts_full_fails', 'Pops.C03_mortality_never_fails', 'Pops.C03_cohorts_move', 'Pops.C02_C03_run', 'Pops.C03_cohorts_history', 'Pops.C03_cohorts_history_no_ratio_treatments', 'Pops.C03_cohorts_generators', 'Pops.C03_cohorts_model_step', 'Pops.C03_cohorts_run', 'Pops.C03_mortality_never_fails_along_history', 'Pops.C03_mortality_never_fails_along_run', 'Pops.C03_run_never_runtime_error', 'Pops.C03_history_never_runtime_error', 'Pops.C03_rounding_needed_for_mortality'],
    commands=[],
    runs={
        "quick": [('h_host', 'pool', 0, 1500), ('h_host', 'treat', 0, 400), ('h_model', 'model', 0, 400), ('h_mmodel', 'multi', 0, 150), ('h_sim', 'sim', 0, 150), ('h_multi', 'pool', 0, 300)],
        "thorough": [('h_host', 'pool', 0, 150000), ('h_host', 'treat', 0, 40000), ('h_model', 'model', 0, 20000), ('h_mmodel', 'multi', 0, 5000), ('h_sim', 'sim', 0, 5000), ('h_multi', 'pool', 0, 20000)],
    },
    exhaustive={"quick": False, "thorough": False},
    rule="case (pool) = one random landscape (7 shapes incl. 1x1, 1xN, Nx1, rows != cols; SI/SEI, latency 0..3, 1..4 mortality cohorts, 20% empty cells) with 5-14 random operations (add/land a disperser with scripted uniform, deterministic generation, pests from/to, host move incl. same-cell, removal/pesticide treatment in both modes with coefficients k/64, pesticide end, survival rate, lethal temperature, mortality, latency step); case (model) = one random Model configuration (feature subsets, calendar with day/week/month steps, both entry points, injected kernel throwing dispersers inside / at the source / just outside / far outside) run for up to 40 steps with the state printed after every action; non-trivial = at least 3 different operation kinds on a landscape with a suitable cell (pool) / at least 3 steps (model); distinct = blake2b of the case's protocol lines",
    assumptions=[],
    explanation='Theorems: total_hosts and total_exposed equal the sum of their parts after every action; infected = sum of mortality cohorts after every action except the overpopulation primitives, under the rounding hypothesis for ratio treatments (finding F20: the full statement is proved false with a witness); mortality never fails from a consistent cell. The driver evaluates totalsOK / mortOK preservation on the implementation after every action; a break inside the F20 region (decided by the same roundingAgrees predicate) is printed as KNOWN.',
)

META = dict(engine="h_host", design_ref="DESIGN.md section 3, C03",
    technique='Lean 4 invariant proofs (+ refutation of the full statement on a witness) + predicates on the implementation after every action',
    text="Proof: totals are kept by every L1 action for all draws; the cohort equation is kept by every action except the exempt overpopulation moves, under the explicit hypothesis roundingOK for ratio treatments; the full statement is refuted by a proved witness (open finding F20, forced by C10's per-cohort rounding); mortality succeeds from every consistent cell. Tied to the code by evaluating the predicates on the implementation after every action; F20 occurrences are classified by the region predicate roundingAgrees, any other break is a violation.",
    note='Trusted: Lean kernel + propext/Classical.choice/Quot.sound; hand-written L1 model of host_pool.hpp / treatments.hpp / actions.hpp (Model/Host.lean, Treat.lean, Actions.lean); harness and driver. int as unbounded Int; ratios as exact Rat on dyadic inputs (k/64); std::shuffle assumed to produce a permutation (draws are inferred from the observed difference and checked for validity).')

ENGINES = [
    {"name": "h_host", "path": "harness/h_host.cpp", "serves_properties": [], "kind_free_text": "C++ correspondence harness: random operation sequences on a real HostPool through pool methods, action and treatment classes; every raster printed after each operation"},
    {"name": "h_model", "path": "harness/h_model.cpp", "serves_properties": [], "kind_free_text": "C++ correspondence harness: Model::run_step with random configurations and calendars, injected scripted kernel, scripted uniforms, state after every action through the POPS_CORE_VERIF hook"},
]
