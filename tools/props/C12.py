"""C12: check configuration (PROP) and manifest texts (META)."""

PROP = dict(
    level="proof",
    lean_modules=['PopsModel.Props.C12', 'PopsModel.Props.C20', 'PopsModel.Props.NonVacuous.Host', 'PopsModel.Props.C12Select', 'PopsModel.Props.Draws'],
    theorems=['Pops.C12_establish_event', 'Pops.C12_no_susceptible', 'Pops.C12_suitability_range_rejected', 'Pops.C12_lethal', 'Pops.C12_survival', 'Pops.C12_weather_range', 'Pops.C12_weather_degenerate', 'Pops.C20_err_probabilities', 'Pops.C12_lethal_selection', 'Pops.C12_survival_selection', 'Pops.C12_lethal_selection_only_if', 'Pops.C12_survival_selection_only_if', 'Pops.C12_lethal_drawn'],
    commands=['hp.dispto', 'hp.lethal', 'hp.survival', 'err.weatherdist', 'err.suitability', 'mm.lethal', 'mm.survival'],
    runs={
        "quick": [('h_host', 'pool', 0, 1500), ('h_model', 'model', 0, 400), ('h_err', 'errors', 0, 240), ('h_mmodel', 'multi', 0, 150), ('h_sim', 'sim', 0, 150), ('h_multi', 'pool', 0, 300)],
        "thorough": [('h_host', 'pool', 0, 150000), ('h_model', 'model', 0, 20000), ('h_err', 'errors', 0, 24000), ('h_mmodel', 'multi', 0, 5000), ('h_sim', 'sim', 0, 5000), ('h_multi', 'pool', 0, 20000)],
    },
    exhaustive={"quick": False, "thorough": False},
    rule="case (pool) = one random landscape (7 shapes incl. 1x1, 1xN, Nx1, rows != cols; SI/SEI, latency 0..3, 1..4 mortality cohorts, 20% empty cells) with 5-14 random operations (add/land a disperser with scripted uniform, deterministic generation, pests from/to, host move incl. same-cell, removal/pesticide treatment in both modes with coefficients k/64, pesticide end, survival rate, lethal temperature, mortality, latency step); case (model) = one random Model configuration (feature subsets, calendar with day/week/month steps, both entry points, injected kernel throwing dispersers inside / at the source / just outside / far outside) run for up to 40 steps with the state printed after every action; non-trivial = at least 3 different operation kinds on a landscape with a suitable cell (pool) / at least 3 steps (model); distinct = blake2b of the case's protocol lines",
    assumptions=["total population >= susceptible > 0 at the landing cell (property's domain); weather and susceptibility in [0,1]"],
    explanation='Theorems: a landing establishes iff a susceptible host is present and the tester (uniform draw, or 1 - fixed probability, strict comparison) is below s/N x weather x susceptibility, so the accepting draws are exactly [0,p); never without susceptible hosts; suitability outside [0,1] is rejected; lethal temperature empties the infected class of cold cells consistently and leaves exposed hosts; survival rate keeps round(r x count). The driver dictates the uniform through a scripted 64-bit engine (self-tested) and evaluates establishSpec / landingSpec / lethalSpec / survivalSpec on the implementation.',
)

META = dict(engine="h_host", design_ref="DESIGN.md section 3, C12",
    technique='Lean 4 theorems on the L1 model + scripted-uniform correspondence',
    text="Proof: the establishment event as a set of accepting draws, the deterministic strict comparison, rejection of out-of-range suitability, lethal-temperature and survival-rate rules are theorems about the L1 model for all cell states and parameters. Tied to the code by scripted uniforms (dyadic, exact in double) and the specifications evaluated on HostPool::disperser_to, RemoveByTemperature and SurvivalRateAction with values on and next to the thresholds. That libstdc++'s uniform_real_distribution is uniform is trusted (the probability claim is proved as 'accepting set = [0,p)'); weather coefficients drawn from a distribution are proved to lie in [0,1] (normal draw kept only inside the range, else uniform fallback) and means outside [0,1] are rejected; both are checked on Environment::update_weather_from_distribution (h_err).",
    note='Trusted: Lean kernel + propext/Classical.choice/Quot.sound; hand-written L1 model of host_pool.hpp / treatments.hpp / actions.hpp (Model/Host.lean, Treat.lean, Actions.lean); harness and driver. int as unbounded Int; ratios as exact Rat on dyadic inputs (k/64); std::shuffle assumed to produce a permutation (draws are inferred from the observed difference and checked for validity).')

ENGINES = [
    {"name": "h_host", "path": "harness/h_host.cpp", "serves_properties": [], "kind_free_text": "C++ correspondence harness: random operation sequences on a real HostPool through pool methods, action and treatment classes; every raster printed after each operation"},
    {"name": "h_model", "path": "harness/h_model.cpp", "serves_properties": [], "kind_free_text": "C++ correspondence harness: Model::run_step with random configurations and calendars, injected scripted kernel, scripted uniforms, state after every action through the POPS_CORE_VERIF hook"},
]
