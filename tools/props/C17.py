"""C17: check configuration (PROP) and manifest texts (META)."""

PROP = dict(
    level="proof",
    lean_modules=['PopsModel.Props.C17', 'PopsModel.Props.C17Kern', 'PopsModel.Props.NonVacuous.Host', 'PopsModel.Props.NonVacuous.KernelsReal'],
    theorems=['Pops.C17_departure_rule', 'Pops.C17_leaving', 'Pops.C17_arrival', 'Pops.C17_two_phase', 'Pops.C17_outside_recorded', 'Pops.C17_movement_rows', 'Pops.C17_movement_once', 'Pops.C17_movement_amount', 'Pops.C17_overpopulation_kernel_scale', 'Pops.C17_overpopulation_kernel_rejects', 'Pops.C17_overpopulation_kernel_is_natural', 'Pops.C17_overpopulation_uniform_range'],
    commands=['hp.pestsfrom', 'hp.peststo', 'hp.move', 'hp.overpop', 'hp.movement', 'kern.overpop', 'mm.overpop', 'mm.movement', 'hp.findsuit'],
    runs={
        "quick": [('h_host', 'pool', 0, 1500), ('h_model', 'model', 0, 400), ('h_kern', 'overpop', 0, 1600), ('h_mmodel', 'multi', 0, 150), ('h_sim', 'sim', 0, 300)],
        "thorough": [('h_host', 'pool', 0, 150000), ('h_model', 'model', 0, 20000), ('h_kern', 'overpop', 0, 60000), ('h_mmodel', 'multi', 0, 5000), ('h_sim', 'sim', 0, 20000)],
    },
    exhaustive={"quick": False, "thorough": False},
    rule="case (pool) = one random landscape (7 shapes incl. 1x1, 1xN, Nx1, rows != cols; SI/SEI, latency 0..3, 1..4 mortality cohorts, 20% empty cells) with 5-14 random operations (add/land a disperser with scripted uniform, deterministic generation, pests from/to, host move incl. same-cell, removal/pesticide treatment in both modes with coefficients k/64, pesticide end, survival rate, lethal temperature, mortality, latency step); case (model) = one random Model configuration (feature subsets, calendar with day/week/month steps, both entry points, injected kernel throwing dispersers inside / at the source / just outside / far outside) run for up to 40 steps with the state printed after every action; non-trivial = at least 3 different operation kinds on a landscape with a suitable cell (pool) / at least 3 steps (model); distinct = blake2b of the case's protocol lines",
    assumptions=[],
    explanation='Theorems: departure rule, leaving count and its bounds, arrival = min(count, susceptible), two-phase property of the departure loop (no cell gains pests before all departures are decided, non-qualifying cells untouched), outside recording with real coordinates, movement cursor (maximal run of rows scheduled for the step, never moves back), each movement row applied exactly once at its step in table order over any increasing list of spread steps, moved amount = min(requested, present) with class and cohort membership. The driver evaluates the departure / arrival / outside / cursor / amount predicates on MoveOverpopulatedPests and HostMovement inside Model::run_step and on the pool primitives, and replays both actions exactly (host-move draws inferred and validated).',
)

META = dict(engine="h_host", design_ref="DESIGN.md section 3, C17",
    technique='Lean 4 theorems on the L1 overpopulation and movement model + predicates and exact replay against Model::run_step and the pool primitives',
    text='Proof: the overpopulation rules (departure, leaving count, arrival, two-phase, outside recording) and the host-movement rules (cursor, once-only, amount, cohort membership) are theorems about the L1 action model for every threshold and share in [0,1], every kernel result, every table. Tied to the code through Model::run_step (deterministic neighbour kernel for overpopulation, random movement tables with repeated rows and same-cell rows) and the pool primitives with exact replay. The kernel Model builds for the overpopulation move (create_overpopulation_movement_kernel: natural kernel type, scale x leaving_scale_coefficient, shape, resolutions, direction, kappa, uniform range, neighbour direction) is modelled and probed through a derived Model class (h_kern overpop; theorems C17_overpopulation_kernel_*). Multi-host movement (only the first host moves) is outside the single-host model.',
    note='Trusted: Lean kernel + propext/Classical.choice/Quot.sound; hand-written L1 model of host_pool.hpp / treatments.hpp / actions.hpp (Model/Host.lean, Treat.lean, Actions.lean); harness and driver. int as unbounded Int; ratios as exact Rat on dyadic inputs (k/64); std::shuffle assumed to produce a permutation (draws are inferred from the observed difference and checked for validity).')

ENGINES = [
    {"name": "h_host", "path": "harness/h_host.cpp", "serves_properties": [], "kind_free_text": "C++ correspondence harness: random operation sequences on a real HostPool through pool methods, action and treatment classes; every raster printed after each operation"},
    {"name": "h_model", "path": "harness/h_model.cpp", "serves_properties": [], "kind_free_text": "C++ correspondence harness: Model::run_step with random configurations and calendars, injected scripted kernel, scripted uniforms, state after every action through the POPS_CORE_VERIF hook"},
]
