"""C01: check configuration (PROP) and manifest texts (META)."""

PROP = dict(
    level="proof",
    lean_modules=['PopsModel.Props.C01', 'PopsModel.Props.C01Step', 'PopsModel.Props.NonVacuous.Host', 'PopsModel.Props.RunModel', 'PopsModel.Props.C01Ledger'],
    theorems=['Pops.C01_cell_step', 'Pops.C01_move', 'Pops.C01_history', 'Pops.C01_generators', 'Pops.C01_model_step', 'Pops.C01_run', 'Pops.C01_removed_cell', 'Pops.C01_removed_cell_iff', 'Pops.C01_removed_bounds', 'Pops.C01_removed_op', 'Pops.C01_history_spec', 'Pops.C01_model_step_spec', 'Pops.C01_run_spec'],
    commands=[],
    runs={
        "quick": [('h_host', 'pool', 0, 1500), ('h_model', 'model', 0, 400), ('h_mmodel', 'multi', 0, 150), ('h_sim', 'sim', 0, 150)],
        "thorough": [('h_host', 'pool', 0, 150000), ('h_model', 'model', 0, 20000), ('h_mmodel', 'multi', 0, 5000), ('h_sim', 'sim', 0, 5000)],
    },
    exhaustive={"quick": False, "thorough": False},
    rule="case (pool) = one random landscape (7 shapes incl. 1x1, 1xN, Nx1, rows != cols; SI/SEI, latency 0..3, 1..4 mortality cohorts, 20% empty cells) with 5-14 random operations (add/land a disperser with scripted uniform, deterministic generation, pests from/to, host move incl. same-cell, removal/pesticide treatment in both modes with coefficients k/64, pesticide end, survival rate, lethal temperature, mortality, latency step); case (model) = one random Model configuration (feature subsets, calendar with day/week/month steps, both entry points, injected kernel throwing dispersers inside / at the source / just outside / far outside) run for up to 40 steps with the state printed after every action; non-trivial = at least 3 different operation kinds on a landscape with a suitable cell (pool) / at least 3 steps (model); distinct = blake2b of the case's protocol lines",
    assumptions=[],
    explanation="Theorems: every L1 action obeys the ledger of its class (reclassification keeps hosts, removal only takes out, mortality takes out exactly what it adds to died), host moves only relocate, and over any history hosts = initial - died - removed. The driver evaluates the same ledger predicates (ledgerOK, moveLedgerOK) on the implementation's state before/after every single action, in the pool harness and inside Model::run_step through the hook.",
)

META = dict(engine="h_host", design_ref="DESIGN.md section 3, C01",
    technique='Lean 4 induction over operation histories of the L1 model + ledger predicates evaluated on the implementation after every action',
    text="Proof: for every action of the L1 model, all arguments in the documented domain and all random draws, the ledger of its class holds; by induction over any history (any interleaving, any length) hosts after = hosts before - died - removed by treatments, and no action creates a host. Tied to the code by evaluating the ledger predicates on the implementation's rasters after each individual action (pool operations and every action block of Model::run_step), by replaying every action block of Model::run_step through the generator (actionGen) the step model is composed of - C01_model_step: hosts after a whole model step = before - reported deaths - removed by treatments, for every plan - and by exact comparison of every operation with the L1 functions (reported under the mechanism properties C04, C05, C10-C12, C17).",
    note='Trusted: Lean kernel + propext/Classical.choice/Quot.sound; hand-written L1 model of host_pool.hpp / treatments.hpp / actions.hpp (Model/Host.lean, Treat.lean, Actions.lean); harness and driver. int as unbounded Int; ratios as exact Rat on dyadic inputs (k/64); std::shuffle assumed to produce a permutation (draws are inferred from the observed difference and checked for validity).')

ENGINES = [
    {"name": "h_host", "path": "harness/h_host.cpp", "serves_properties": [], "kind_free_text": "C++ correspondence harness: random operation sequences on a real HostPool through pool methods, action and treatment classes; every raster printed after each operation"},
    {"name": "h_model", "path": "harness/h_model.cpp", "serves_properties": [], "kind_free_text": "C++ correspondence harness: Model::run_step with random configurations and calendars, injected scripted kernel, scripted uniforms, state after every action through the POPS_CORE_VERIF hook"},
]
