"""C05: check configuration (PROP) and manifest texts (META)."""

PROP = dict(
    level="proof",
    lean_modules=['PopsModel.Props.C05', 'PopsModel.Props.C05Removals', 'PopsModel.Props.C05Arrival', 'PopsModel.Props.C05OffSeason', 'PopsModel.Props.NonVacuous.Host', 'PopsModel.Props.RunModel', 'PopsModel.Props.C05Guard', 'PopsModel.Props.C05Early'],
    theorems=['Pops.C05_shift', 'Pops.C05_no_early_transition', 'Pops.C05_exact_latency', 'Pops.C05_L0_equals_SI', 'Pops.C05_latency_with_removals', 'Pops.C05_arrival_stays_exposed', 'Pops.C05_arrivals_compose', 'Pops.C05_offseason_frame', 'Pops.C05_offseason_op', 'Pops.C05_no_ageing_outside_spread_steps', 'Pops.C05_offseason_run', 'Pops.C05_shift_guarded', 'Pops.C05_early_exact_latency', 'Pops.C05_early_every_prefix', 'Pops.C05_early_closed', 'Pops.C05_preloaded_old_cohort_is_recycled'],
    commands=['hp.stepfwd', 'hp.l0', 'mm.stepfwd'],
    runs={
        "quick": [('h_host', 'pool', 0, 1500), ('h_model', 'model', 0, 400), ('h_model', 'l0', 0, 150), ('h_mmodel', 'multi', 0, 150), ('h_sim', 'sim', 0, 150)],
        "thorough": [('h_host', 'pool', 0, 150000), ('h_model', 'model', 0, 20000), ('h_model', 'l0', 0, 10000), ('h_mmodel', 'multi', 0, 5000), ('h_sim', 'sim', 0, 5000)],
    },
    exhaustive={"quick": False, "thorough": False},
    rule="case (pool) = one random landscape (7 shapes incl. 1x1, 1xN, Nx1, rows != cols; SI/SEI, latency 0..3, 1..4 mortality cohorts, 20% empty cells) with 5-14 random operations (add/land a disperser with scripted uniform, deterministic generation, pests from/to, host move incl. same-cell, removal/pesticide treatment in both modes with coefficients k/64, pesticide end, survival rate, lethal temperature, mortality, latency step); case (model) = one random Model configuration (feature subsets, calendar with day/week/month steps, both entry points, injected kernel throwing dispersers inside / at the source / just outside / far outside) run for up to 40 steps with the state printed after every action; non-trivial = at least 3 different operation kinds on a landscape with a suitable cell (pool) / at least 3 steps (model); distinct = blake2b of the case's protocol lines",
    assumptions=[],
    explanation="Arrivals: an established disperser makes its host exposed (youngest exposed cohort), never infected, on either arrival behaviour (theorem C05_arrival_stays_exposed; the driver evaluates the same predicate arrivalsStayExposed on every observed spread step of an SEI case, h_model runs 30% of cases with arrival_behavior=land). Theorems: the latency step is a shift register (front cohort to infected and youngest mortality cohort iff step >= L, all cohorts age by one); no transition before step L; after n spread steps infected = initial + first min(n, L+1) cohorts + exactly the exposures of the first n-L steps; with L = 0 the SEI spread step equals the SI one. The driver evaluates stepForwardSpec and the no-early-transition predicate on the implementation's step_forward and compares exactly.",
)

META = dict(engine="h_host", design_ref="DESIGN.md section 3, C05",
    technique='Lean 4 shift-register induction + specification predicates and exact comparison on the implementation',
    text='Proof: step_forward is exactly a one-position shift with the front cohort joining infected and the youngest mortality cohort iff step >= L; hosts exposed in spread step t are counted as infected from the latency step of spread step t+L on and not earlier (closed formula for any run length and any exposure sequence); L = 0 gives the SI state. Tied to the code by the shift specification evaluated on HostPool::step_forward in random SEI states (pool harness) and at every spread step of Model::run_step, with exact comparison; whole Model runs with SEI and latency 0 are compared step by step with the SI run on the same seeds, inputs, kernel results and uniforms (h_model l0).',
    note='Trusted: Lean kernel + propext/Classical.choice/Quot.sound; hand-written L1 model of host_pool.hpp / treatments.hpp / actions.hpp (Model/Host.lean, Treat.lean, Actions.lean); harness and driver. int as unbounded Int; ratios as exact Rat on dyadic inputs (k/64); std::shuffle assumed to produce a permutation (draws are inferred from the observed difference and checked for validity).')

ENGINES = [
    {"name": "h_host", "path": "harness/h_host.cpp", "serves_properties": [], "kind_free_text": "C++ correspondence harness: random operation sequences on a real HostPool through pool methods, action and treatment classes; every raster printed after each operation"},
    {"name": "h_model", "path": "harness/h_model.cpp", "serves_properties": [], "kind_free_text": "C++ correspondence harness: Model::run_step with random configurations and calendars, injected scripted kernel, scripted uniforms, state after every action through the POPS_CORE_VERIF hook"},
]
