"""C20: check configuration (PROP) and manifest texts (META)."""

_SLICES_Q = [("h_err", "errors", 0, 240), ("h_host", "pool", 0, 400), ("h_host", "soil", 0, 200), ("h_host", "treat", 0, 150), ("h_model", "model", 0, 150), ("h_mmodel", "multi", 0, 100), ("h_date", "sched", 0, 300),
             ("h_date", "single-sample", 0, 700), ("h_raster", "ops", 0, 600), ("h_raster", "heap", 0, 300), ("h_raster", "eq", 0, 200), ("h_metric", "mix", 0, 300),
             ("h_kern", "radial", 0, 300), ("h_det", "alloc", 0, 100), ("h_det", "factory", 0, 60), ("h_det", "quantile", 0, 100), ("h_net", "net", 0, 100), ("h_net", "malformed", 0, 100)]
_SLICES_T = [(h, m, f, c * 60) for (h, m, f, c) in _SLICES_Q]

PROP = dict(
    level="other",
    lean_modules=["PopsModel.Props.C20", "PopsModel.Props.NonVacuous.Calendar"],
    theorems=["Pops.C20_err_names", "Pops.C20_err_frequency", "Pops.C20_err_date_outside", "Pops.C20_err_cohort_length",
              "Pops.C20_err_missing", "Pops.C20_err_probabilities", "Pops.C12_weather_range", "Pops.C12_weather_degenerate", "Pops.C20_index_in_range",
              "Pops.C20_outside_untouched"],
    commands=["err.*"],
    runs={"quick": _SLICES_Q, "thorough": _SLICES_T},
    exhaustive={"quick": False, "thorough": False},
    rule="h_err: case index mod 12 selects one documented invalid-input class (model-type / weather-type / treatment / arrival names, missing weather or temperature, mortality without table, empty soil pool, Config accessors too early or for disabled features, suitability outside [0,1], cohort lists of wrong length for removal and resistance, treatment dates outside the schedule, weather means outside [0,1] / shape mismatch), each with valid neighbours; all other engines contribute a slice of their in-domain random cases (single-cell, single-row, single-column and rows != cols rasters, SI with an empty exposed list, dispersers thrown far outside, cells without hosts, zero dispersers, feature subsets) executed under ASan + UBSan; non-trivial = every case; distinct = blake2b of the case's lines. A harness abort is bisected to its case, replayed alone and reported as a violation with that case as replay.",
    assumptions=["unknown kernel / direction / frequency names, scheduler rejections and missing named seeds are decided in the checks of C13, C08, C07 and C06, whose harnesses also run under the sanitizers",
                 "signed overflow, lifetimes and heap misuse are explored by the sanitizers only on generated inputs; they are not theorem subjects"],
    explanation="Level 'other': (i) proof - for every documented invalid-input class the modelled function returns the documented exception class, and the landscape algorithms only index cells that passed the outside test (index in range for any raster shape, outside dispersers never touch a host raster); (ii) correspondence - the real library throws exactly that class on every injected invalid input (PROPFAIL C20 documented_error otherwise); (iii) exploration - slices of all engines' in-domain cases run under AddressSanitizer and UndefinedBehaviorSanitizer with -fno-sanitize-recover; an abort is a violation with the aborting case as replay.",
)

META = dict(engine="h_err", design_ref="DESIGN.md section 3, C20",
    technique="Lean 4 theorems on error kinds and index ranges of the model + differential error-class check + ASan/UBSan exploration over all engines' cases",
    text="Other (proof + exploration): the documented error kinds and the index safety of the modelled landscape algorithms are Lean theorems; the real library is checked to throw exactly the documented standard exception on each documented invalid input injected one at a time; memory safety, lifetimes and signed overflow cannot be theorem subjects of a model and are explored by running every engine's in-domain cases (all raster shape classes, empty exposed list, far-outside dispersers, empty cells, zero dispersers, feature subsets) under ASan and UBSan.",
    note="Trusted: as the other checks, plus the sanitizers' detection ability. Not proof for the runtime part: an input the generators never produce is not seen.")

ENGINES = [
    {"name": "h_err", "path": "harness/h_err.cpp", "serves_properties": [], "kind_free_text": "C++ harness injecting every documented invalid input class one at a time and the weather-from-distribution draws"},
]
