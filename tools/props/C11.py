"""C11: check configuration (PROP) and manifest texts (META)."""

PROP = dict(
    level="proof",
    lean_modules=['PopsModel.Props.C11', 'PopsModel.Props.C11Hosts', 'PopsModel.Props.NonVacuous.Host', 'PopsModel.Props.C11Removals', 'PopsModel.Props.C11Cohortwise'],
    theorems=['Pops.C11_who_dies', 'Pops.C11_rate_zero', 'Pops.C11_eventual_death', 'Pops.C11_per_host', 'Pops.C11_eventual_death_with_removals', 'Pops.C11_eventual_death_infected', 'Pops.C11_eventual_death_history', 'Pops.C11_lethal_is_removal', 'Pops.C11_survival_is_removal', 'Pops.C11_move_source_is_removal', 'Pops.C11_latency_step_is_addition', 'Pops.C11_landing_is_addition', 'Pops.C11_move_target_is_arrival', 'Pops.C11_simpleTreat_is_removal', 'Pops.C11_pesticideTreat_is_removal', 'Pops.C11_ratio_treatment_breaks_i', 'Pops.C11_cohort_tracking', 'Pops.C11_eventual_death_cohortwise_with_removals', 'Pops.C11_generation_emptied', 'Pops.C11_initial_cohort_emptied', 'Pops.C11_eventual_death_cohortwise'],
    commands=['hp.mortality', 'mh.mortality', 'mm.mortality'],
    runs={
        "quick": [('h_host', 'pool', 0, 1500), ('h_model', 'model', 0, 400), ('h_multi', 'pool', 0, 500), ('h_mmodel', 'multi', 0, 150), ('h_sim', 'sim', 0, 150)],
        "thorough": [('h_host', 'pool', 0, 150000), ('h_model', 'model', 0, 20000), ('h_multi', 'pool', 0, 40000), ('h_mmodel', 'multi', 0, 5000), ('h_sim', 'sim', 0, 5000)],
    },
    exhaustive={"quick": False, "thorough": False},
    rule="case (pool) = one random landscape (7 shapes incl. 1x1, 1xN, Nx1, rows != cols; SI/SEI, latency 0..3, 1..4 mortality cohorts, 20% empty cells) with 5-14 random operations (add/land a disperser with scripted uniform, deterministic generation, pests from/to, host move incl. same-cell, removal/pesticide treatment in both modes with coefficients k/64, pesticide end, survival rate, lethal temperature, mortality, latency step); case (model) = one random Model configuration (feature subsets, calendar with day/week/month steps, both entry points, injected kernel throwing dispersers inside / at the source / just outside / far outside) run for up to 40 steps with the state printed after every action; non-trivial = at least 3 different operation kinds on a landscape with a suitable cell (pool) / at least 3 steps (model); distinct = blake2b of the case's protocol lines",
    assumptions=[],
    explanation="Per-host parameters (C11_per_host): with the pest-host table built from the Config rows, the pool-level mortality call leaves host h exactly as its own row's rate and truncated lag prescribe; h_multi builds the table through Config::read_pest_host_table / create_pest_host_table_from_parameters and PestHostTable(config, environment) and the driver evaluates that per host (PROPFAIL C11 per_host_parameters). Theorems: the mortality action kills cohort 0 completely, floor(rate x size) of cohorts up to |mort|-lag-1 and nothing within the lag, books the dead in died / infected / total hosts and ages the cohorts; rate 0 kills nobody; with a positive rate everything infected before a run of |mort| mortality steps is dead afterwards whatever new infection arrives. The driver evaluates mortalitySpec on the implementation's Mortality action (direct parameters in the pool harness, pest-host-table parameters inside Model::run_step) and compares exactly.",
)

META = dict(engine="h_host", design_ref="DESIGN.md section 3, C11",
    technique='Lean 4 loop-invariant and shift-register proofs + specification evaluated on the implementation',
    text='Proof: who dies (by cohort index, rate and lag), the bookkeeping, rate zero, and eventual death within tracker-length mortality steps for every interleaving with new infection are theorems about the L1 model for every rate in [0,1], lag >= 0 and cohort content. Tied to the code by the declarative mortality specification evaluated on the real Mortality action and exact comparison. Per-host rates and lags from the pest-host table belong to C11 as well (theorem C11_per_host, PROPFAIL C11 per_host_parameters on h_multi / h_mmodel runs).',
    note='Trusted: Lean kernel + propext/Classical.choice/Quot.sound; hand-written L1 model of host_pool.hpp / treatments.hpp / actions.hpp (Model/Host.lean, Treat.lean, Actions.lean); harness and driver. int as unbounded Int; ratios as exact Rat on dyadic inputs (k/64); std::shuffle assumed to produce a permutation (draws are inferred from the observed difference and checked for validity).')

ENGINES = [
    {"name": "h_host", "path": "harness/h_host.cpp", "serves_properties": [], "kind_free_text": "C++ correspondence harness: random operation sequences on a real HostPool through pool methods, action and treatment classes; every raster printed after each operation"},
    {"name": "h_model", "path": "harness/h_model.cpp", "serves_properties": [], "kind_free_text": "C++ correspondence harness: Model::run_step with random configurations and calendars, injected scripted kernel, scripted uniforms, state after every action through the POPS_CORE_VERIF hook"},
]
