"""C09: check configuration (PROP) and manifest texts (META)."""

PROP = dict(
    level="proof",
    lean_modules=['PopsModel.Props.C09', 'PopsModel.Props.C01Step', 'PopsModel.Props.NonVacuous.Calendar', 'PopsModel.Props.RunModel'],
    theorems=['Pops.C09_order', 'Pops.C09_iff', 'Pops.C08_config_own_n', 'Pops.C09_index', 'Pops.C09_frame_disabled', 'Pops.C09_spread_block', 'Pops.C09_compose', 'Pops.C09_frame_inputs', 'Pops.C09_measurements_pure', 'Pops.C09_run_prefix', 'Pops.C09_run_frame', 'Pops.C09_run_prefix_domain', 'Pops.C09_run_prefix_removed', 'Pops.C09_run_frame_removed'],
    commands=['hp.plan', 'hp.after', 'hp.cfg', 'hp.uniforms', 'cfgsched', 'mm.plan', 'mm.after'],
    runs={
        "quick": [('h_host', 'pool', 0, 1500), ('h_model', 'model', 0, 400), ('h_date', 'config', 0, 600), ('h_mmodel', 'multi', 0, 150)],
        "thorough": [('h_host', 'pool', 0, 150000), ('h_model', 'model', 0, 20000), ('h_date', 'config', 0, 60000), ('h_mmodel', 'multi', 0, 5000)],
    },
    exhaustive={"quick": False, "thorough": False},
    rule="case (pool) = one random landscape (7 shapes incl. 1x1, 1xN, Nx1, rows != cols; SI/SEI, latency 0..3, 1..4 mortality cohorts, 20% empty cells) with 5-14 random operations (add/land a disperser with scripted uniform, deterministic generation, pests from/to, host move incl. same-cell, removal/pesticide treatment in both modes with coefficients k/64, pesticide end, survival rate, lethal temperature, mortality, latency step); case (model) = one random Model configuration (feature subsets, calendar with day/week/month steps, both entry points, injected kernel throwing dispersers inside / at the source / just outside / far outside) run for up to 40 steps with the state printed after every action; non-trivial = at least 3 different operation kinds on a landscape with a suitable cell (pool) / at least 3 steps (model); distinct = blake2b of the case's protocol lines",
    assumptions=[],
    explanation='Theorems: the executed actions are a duplicate-free sub-sequence of the documented order, an action runs iff it is enabled and its schedule marks the step, the input index is the number of earlier firings (what simulation_step_to_action_step returns), schedules of disabled features have no influence, latency / overpopulation / movement only run inside a spread step. The driver compares the action trace recorded by the POPS_CORE_VERIF hook in Model::run_step (both entry points) with these predicates step by step, and every state transition between two hook points is checked against the L1 action it names, so nothing else happens in between.',
)

META = dict(engine="h_host", design_ref="DESIGN.md section 3, C09",
    technique='Lean 4 theorems on the step plan + hook trace of Model::run_step compared per step, per-action state transitions checked against the L1 actions',
    text="Proof: order, iff-enabled-and-scheduled, input index and independence from disabled features are theorems about the plan function. Tied to the code by the hook's action trace for every step of random configurations (all feature subsets, day/week/month calendars, both entry points) and by checking each transition between consecutive hook points against the L1 action (so the model step equals the one-by-one composition). Raster entry point with mortality (F18) or spread rates (F26) throws: open findings printed as KNOWN-FINDING.",
    note='Trusted: Lean kernel + propext/Classical.choice/Quot.sound; hand-written L1 model of host_pool.hpp / treatments.hpp / actions.hpp (Model/Host.lean, Treat.lean, Actions.lean); harness and driver. int as unbounded Int; ratios as exact Rat on dyadic inputs (k/64); std::shuffle assumed to produce a permutation (draws are inferred from the observed difference and checked for validity).')

ENGINES = [
    {"name": "h_host", "path": "harness/h_host.cpp", "serves_properties": [], "kind_free_text": "C++ correspondence harness: random operation sequences on a real HostPool through pool methods, action and treatment classes; every raster printed after each operation"},
    {"name": "h_model", "path": "harness/h_model.cpp", "serves_properties": [], "kind_free_text": "C++ correspondence harness: Model::run_step with random configurations and calendars, injected scripted kernel, scripted uniforms, state after every action through the POPS_CORE_VERIF hook"},
]

# --- pops::Simulation (simulation.hpp, anchor file of C09): the deprecated wrapper is driven method by
# --- method by harness/h_sim.cpp; it prints the protocol lines of the wrapped actions, and a
# --- `hp.state` / `hp.after simulation_wrapper_differs` pair when a direct run of the wrapped action differs.
PROP["runs"]["quick"].append(('h_sim', 'sim', 0, 600))
PROP["runs"]["thorough"].append(('h_sim', 'sim', 0, 60000))
PROP["rule"] += "; case (sim) = one random landscape (same 7 shapes, SI/SEI, latency 0..3, 1..4 mortality cohorts) with 5-14 calls of public pops::Simulation methods (remove, remove_percentage, mortality, movement with a scheduled movement list, generate + disperse / disperse_and_infect in all instantiable overloads with an injected logging kernel and scripted establishment uniforms, move_overpopulated_pests with the deterministic neighbour kernel or an injected per-source table kernel, optionally activate_soils; with and without set_environment), non-trivial = at least 3 different method kinds on a landscape with a suitable cell"
PROP["explanation"] += " The deprecated wrapper pops::Simulation is inside the same correspondence: each of its public methods is called on random landscapes and must produce the line (state, pest rasters, cursor) that the wrapped action produces, checked against the same L1 model and predicates; in addition every call is repeated with the wrapped action class on a full HostPool over an identical copy with an identical provider, and any difference of the host rasters or suitable cells is reported as PROPFAIL C09 simulation_wrapper_differs."
ENGINES.append({"name": "h_sim", "path": "harness/h_sim.cpp", "serves_properties": [], "kind_free_text": "C++ correspondence harness: public methods of the deprecated pops::Simulation wrapper on random landscapes, protocol lines of the wrapped actions (checked by the host-pool driver engine) plus a differential run of the wrapped action classes on an identical copy"})

# --- honesty note (independent review of the statements, DESIGN 8.12)
PROP["explanation"] += " Note on strength: C09_order, C09_iff, C09_compose and the C09_frame_* theorems are true by the definition of `plan` / `runStepHosts` in the model - they record what the model is, and what they say about the code is exactly what the hook-trace correspondence establishes (every step of every generated configuration: the trace of Model::run_step equals `plan`, and each action's state transition equals the L1 action). The raster entry point has no model of its own; h_model runs both entry points and compares them."

# --- differential wiring rule (check.py): action predicates that fail inside Model::run_step (h_model) although the same
# --- predicate of the same action holds on every direct call in the same run (h_host, h_sim) are C09 violations
PROP["wiring"] = dict(inside=["h_model"], outside=["h_host", "h_sim"],
                      commands=["hp.lethal", "hp.survival", "hp.stepfwd", "hp.mortality", "hp.manage", "hp.spread", "hp.overpop", "hp.movement"])
PROP["explanation"] += " Differential wiring rule: the same L1 predicates judge the actions called directly (h_host, h_sim) and the action blocks inside Model::run_step (h_model); a predicate that fails only inside the model - wrong argument, moment or object handed to a correct action - is reported as a C09 violation with the failing step."

# --- shared predicate: the schedules Model::run_step consults are built by Config::create_schedules from the frequency
# strings and their n; the predicate config_wiring (tagged C08, on cfgsched lines of h_date config) judges exactly the
# "its schedule marks the step" half of C09, so its failures are violations of C09 too (seeded change C09k)
PROP["shared_predicates"] = [("C08", "cfgsched")]
PROP["explanation"] += " A failure of the config_wiring predicate (Config::create_schedules hands each feature the schedule its own frequency string and n describe; h_date config cases, also with one frequency string shared by the four name-built schedules and different n) is reported as a violation of C09 as well as of C08."
