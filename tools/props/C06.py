"""C06: check configuration (PROP) and manifest texts (META)."""

PROP = dict(
    level="proof",
    lean_modules=["PopsModel.Props.C06", "PopsModel.Props.NonVacuous.Calendar"],
    theorems=["Pops.C06_seed_order", "Pops.C06_missing_seed_rejected", "Pops.C06_single_use_rejected",
              "Pops.C06_single_aliases", "Pops.C06_isolated", "Pops.C06_frame", "Pops.C06_unused_seed_irrelevant",
              "Pops.C06_no_stream_no_effect", "Pops.C06_table",
              "Pops.C06_within_weather", "Pops.C06_within_lethal", "Pops.C06_within_survival",
              "Pops.C06_within_generate", "Pops.C06_within_kernel", "Pops.C06_within_disperse",
              "Pops.C06_within_spread", "Pops.C06_within_overpopulation", "Pops.C06_within_movement",
              "Pops.C06_read_seeds", "Pops.C06_read_seeds_text_roundtrip", "Pops.C06_read_seeds_text",
              "Pops.C06_read_seeds_malformed", "Pops.C06_deterministic_mode_partial", "Pops.C06_unused_seed_run_irrelevant", "Pops.C06_code_outside_spec", "Pops.C06_spec_within_code", "Pops.C06_region_iff", "Pops.C06_mem_usesRun", "Pops.C06_model_process_within", "Pops.C06_deterministic_establishment_multi_host_fails", "Pops.C06_movement_stochasticity_ignored", "Pops.C06_deterministic_dispersal_kernel_choice_fails"],
    commands=["rng.*"],
    runs={
        "quick": [("h_stream", "twice", 0, 400), ("h_stream", "uses", 0, 400), ("h_stream", "vary", 0, 200),
                  ("h_stream", "order", 0, 800), ("h_stream", "reject", 0, 800)],
        "thorough": [("h_stream", "twice", 0, 40000), ("h_stream", "uses", 0, 40000), ("h_stream", "vary", 0, 12000),
                     ("h_stream", "order", 0, 60000), ("h_stream", "reject", 0, 40000)],
    },
    exhaustive={"quick": False, "thorough": False},
    exhaustive_note={
        "quick": "table cases complete in every run: each of the ten keys removed in turn; operator() and discard on single and multi providers; the rest sampled",
        "thorough": "table cases complete in every run: each of the ten keys removed in turn; operator() and discard on single and multi providers; the rest sampled",
    },
    rule="case (twice) = one random Model configuration S (10 raster shapes up to 4x4, SI/SEI, 1-3 hosts, both run_step entry points, "
         "kernels from create_dynamic_kernel [8 radial types, uniform, deterministic neighbour; natural + optional anthropogenic; stochastic or deterministic dispersal] or an injected kernel factory, "
         "soils, deterministic or sampled weather, lethal temperature, survival rate, overpopulation, movements, treatments, mortality, spread rate, quarantine; "
         "single seed / single seed with multiple streams / ten named seeds) run for up to 14 steps five times in one process "
         "(alone; again after an unrelated run T; interleaved step by step with a second unrelated instance; two simultaneous instances stepped in alternating order) plus the unrelated configuration T three times; "
         "a 64-bit digest of every host raster, dispersers, established dispersers, outside dispersers, suitable cells, soil cohorts and sampled weather is printed per step and run; "
         "case (uses) = such a configuration over a multi-stream provider of counting engines, one line per action block of Model::run_step (trace hook) with the streams whose call counters moved; "
         "case (vary) = such a configuration with named seeds run 11 times, each of the ten seeds changed in turn; 58 % of the vary cases are steered (focus) into a deterministic mode: 2-3 hosts with establishment_stochasticity = false, movements with movement_stochasticity = false, anthropogenic kernel with dispersal_stochasticity = false and two deterministic kernels; "
         "case (order) = one provider construction (seed + multi flag incl. wrap-around seeds, named seeds, Config) over mt19937 / default_random_engine / mt19937_64 / a counting engine with up to 30 draws through the accessors next to fresh engines; "
         "case (reject) = one rejection scenario (missing keys through four entry points, single-generator use, SingleGeneratorProvider, read_seeds(vector) with 0-14 seeds, seed texts incl. 13 malformed record shapes); "
         "non-trivial = at least 3 steps on a landscape with a suitable cell and no exception (twice, vary: and at least one seed mattered), at least 3 action blocks of which one drew (uses), every order / reject case; "
         "distinct = blake2b of the case's protocol lines",
    assumptions=["seed texts: blank is the only white-space character; separators are one of , ; | newline and = : (not special in regular expressions)",
                 "run-twice determinism is established by differential execution on generated configurations, not by proof",
                 "network kernels and log-normal / power-law radial kernels are not generated (network needs a loaded network; the two kernels overflow the deterministic kernel's window size at these scales)"],
    explanation="Theorems (stream algebra): in multi-stream mode with one seed s the stream at position k of the documented order is seeded s + k (unsigned) and the ten positions are distinct; "
                "a seed map lacking any of the ten keys is rejected with invalid_argument by every entry point and a complete one seeds each stream with its own value; "
                "operator()/discard on a multi-stream provider give runtime_error; in single mode all ten accessors are one generator; in multi mode a use of one stream leaves the other nine unchanged; "
                "frame: any computation reaching the provider only through the accessors uses(P, features) allows returns a result, and final states of those streams, that depend only on their initial states and leaves all other streams untouched - "
                "so the seed of an unused stream is irrelevant and a process with an empty uses set is a constant; the code-shaped skeletons of all processes stay within the table; "
                "read_seeds(vector) accepts exactly ten seeds in the documented order; read_seeds(text) round-trips well-formed texts and rejects records without a key-value separator. "
                "Deterministic modes: specUses(features) is what the property allows (a disabled or deterministic process uses no stream), usesRun(features) is what the code draws; specUses is within usesRun, and the two differ exactly in three regions (C06_code_outside_spec: F28 deterministic establishment with two or more hosts, F29 movement_stochasticity ignored, F32 kernel-choice coin under deterministic dispersal); the full-strength sentence C06_deterministic_mode_full is refuted on a witness in each region, C06_deterministic_mode_partial proves it outside them. "
                "Differential: the driver compares run digests (determinism), checks moved-counters within uses(P, features), requires equal digests when a seed outside specUses(features) is varied (a difference inside one of the three regions is the open finding of that region, KNOWN C06 F28/F29/F32; anywhere else PROPFAIL C06), "
                "and compares provider draws with fresh std engines seeded as the model says.",
)

META = dict(engine="h_stream", design_ref="DESIGN.md section 3, C06",
    technique="Lean 4 theorems on a model of the generator provider (record of ten streams, frame property of accessor-only computations) + differential execution of the real Model (run-twice digests, counting engines per action, varied seeds, std engines as seed oracle)",
    text="Proof (stream algebra, on the model): seed order s, s+1, ... over the ten documented names; missing named seed rejected with invalid_argument, complete map seeds each stream with its own value; "
         "single-generator use of a multi-stream provider rejected with runtime_error; single mode aliases all ten names to one generator; multi mode isolates them (record-update frame); "
         "frame theorem for every computation that touches only the accessors of uses(process, enabled features), instantiated for code-shaped skeletons of weather, lethal temperature, survival rate, generate, kernel, disperse, spread, overpopulation, movement; "
         "hence results are independent of the seed of a disabled or deterministic process; read_seeds vector/text. "
         "Differential execution (not proof) for run-twice determinism: whole random Model simulations are repeated in one process alone, after other runs, interleaved with an unrelated instance and as simultaneous instances, digests compared bit for bit; "
         "the uses table is tied to the code by counting engines per action block and by varying each named seed; seed order by comparing provider draws with fresh std::mt19937 / default_random_engine / mt19937_64 engines. "
         "Open findings reported on every run (KNOWN-FINDING, known_findings.json): F28 establishment draws the receiving host when deterministic with two or more hosts, F29 Config::movement_stochasticity is read nowhere, F32 the natural-or-anthropogenic choice is drawn under deterministic dispersal.",
    note="Trusted: Lean kernel + propext/Classical.choice/Quot.sound; hand-written model of generator_provider.hpp, Config::read_seeds / read_key_value_pairs and of the draw sites of actions.hpp, natural_anthropogenic_kernel.hpp, soils.hpp, environment.hpp, host_pool.hpp, multi_host_pool.hpp (Model/Stream*.lean); harness h_stream.cpp and driver StreamEng.lean. "
         "unsigned as arithmetic modulo 2^32; an engine is abstract (seed, next); determinism of the C++ step is sampled, not proved.")

ENGINES = [
    {"name": "h_stream", "path": "harness/h_stream.cpp", "serves_properties": [], "kind_free_text": "C++ correspondence harness: whole Model simulations repeated / interleaved in one process with per-step digests; multi-stream provider over counting engines observed per action block through the POPS_CORE_VERIF hook; named seeds varied one at a time; provider construction against fresh std engines; rejection and read_seeds tables"},
]
