"""C10: check configuration (PROP) and manifest texts (META)."""

PROP = dict(
    level="proof",
    lean_modules=['PopsModel.Props.C10', 'PopsModel.Props.NonVacuous.Host', 'PopsModel.Props.C10Dates'],
    theorems=['Pops.C10_removal', 'Pops.C10_pesticide', 'Pops.C10_pesticide_end', 'Pops.C10_coef_zero_one', 'Pops.C10_resistant_not_infected', 'Pops.C10_when', 'Pops.C10_cleared_never_run', 'Pops.C10_registered_at_containing_step', 'Pops.C10_eventsAt', 'Pops.C10_run_treatments_once', 'Pops.C10_cleared_never_run_over_run'],
    commands=['hp.treat', 'hp.treatend', 'hp.manage', 'hp.treatlist', 'date.adddays', 'mm.manage'],
    runs={
        "quick": [('h_host', 'pool', 0, 1500), ('h_host', 'treat', 0, 400), ('h_model', 'model', 0, 400), ('h_date', 'single-sample', 0, 700), ('h_mmodel', 'multi', 0, 150), ('h_sim', 'sim', 0, 150)],
        "thorough": [('h_host', 'pool', 0, 150000), ('h_host', 'treat', 0, 40000), ('h_model', 'model', 0, 20000), ('h_date', 'single-sample', 0, 20000), ('h_mmodel', 'multi', 0, 5000), ('h_sim', 'sim', 0, 5000)],
    },
    exhaustive={"quick": False, "thorough": False},
    rule="case (pool) = one random landscape (7 shapes incl. 1x1, 1xN, Nx1, rows != cols; SI/SEI, latency 0..3, 1..4 mortality cohorts, 20% empty cells) with 5-14 random operations (add/land a disperser with scripted uniform, deterministic generation, pests from/to, host move incl. same-cell, removal/pesticide treatment in both modes with coefficients k/64, pesticide end, survival rate, lethal temperature, mortality, latency step); case (model) = one random Model configuration (feature subsets, calendar with day/week/month steps, both entry points, injected kernel throwing dispersers inside / at the source / just outside / far outside) run for up to 40 steps with the state printed after every action; non-trivial = at least 3 different operation kinds on a landscape with a suitable cell (pool) / at least 3 steps (model); distinct = blake2b of the case's protocol lines",
    assumptions=[],
    explanation="Theorems: from a consistent cell and a coefficient in [0,1] removal takes ceil(count x coef) from s, every exposed cohort, i and every mortality cohort (everything of the infection-carrying classes in the all-infected mode), pesticide moves floor shares into the resistant class, expiry returns all resistant hosts of treated cells; coefficient 0/1 corollaries; a landing never touches resistant hosts; a treatment is applied exactly at its start step and ended exactly at its end step; cleared treatments are gone. The driver evaluates simpleTreatSpec / pesticideTreatSpec / pesticideEndSpec on the implementation's SimpleTreatment / PesticideTreatment in both modes and compares exactly.",
)

META = dict(engine="h_host", design_ref="DESIGN.md section 3, C10",
    technique='Lean 4 theorems on the L1 treatment model + share specifications evaluated on the implementation',
    text='Proof: the per-class shares (ceil for removal, floor for pesticide, whole classes in the all-infected mode), the resistant bookkeeping, expiry, the coefficient 0 / 1 cases, once-only timing of start and end (Treatments::manage) and clear_after_step are theorems about the L1 model for every consistent cell, every coefficient in [0,1] and both modes. Tied to the code by evaluating the share specifications on the real treatment classes over random SI/SEI landscapes (incl. empty classes, cells without infection) and exact comparison; Treatments::manage is exercised inside Model::run_step.',
    note='Trusted: Lean kernel + propext/Classical.choice/Quot.sound; hand-written L1 model of host_pool.hpp / treatments.hpp / actions.hpp (Model/Host.lean, Treat.lean, Actions.lean); harness and driver. int as unbounded Int; ratios as exact Rat on dyadic inputs (k/64); std::shuffle assumed to produce a permutation (draws are inferred from the observed difference and checked for validity).')

ENGINES = [
    {"name": "h_host", "path": "harness/h_host.cpp", "serves_properties": [], "kind_free_text": "C++ correspondence harness: random operation sequences on a real HostPool through pool methods, action and treatment classes; every raster printed after each operation"},
    {"name": "h_model", "path": "harness/h_model.cpp", "serves_properties": [], "kind_free_text": "C++ correspondence harness: Model::run_step with random configurations and calendars, injected scripted kernel, scripted uniforms, state after every action through the POPS_CORE_VERIF hook"},
]
