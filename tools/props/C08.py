"""C08: check configuration (PROP) and manifest texts (META)."""

PROP = dict(
    level="proof",
    lean_modules=["PopsModel.Props.C08", "PopsModel.Props.NonVacuous.Calendar"],
    theorems=["Pops.C08_yearly", "Pops.C08_yearly_once", "Pops.C08_end_of_year", "Pops.C08_monthly", "Pops.C08_nsteps",
              "Pops.C08_spread", "Pops.C08_frequency", "Pops.C08_config_own_n", "Pops.C08_index_bijection", "Pops.C08_weather", "Pops.C08_config_wiring"],
    commands=["yearly", "eoy", "monthly", "nsteps", "final", "spread", "fromstring", "weather", "actionstep", "count", "cfgsched"],
    runs={
        "quick": [("h_date", "sched", 0, 3000), ("h_date", "config", 0, 1500), ("h_date", "tables", 0, 94)],
        "thorough": [("h_date", "sched", 0, 300000), ("h_date", "config", 0, 150000), ("h_date", "tables", 0, 94)],
    },
    exhaustive={"quick": False, "thorough": False},
    exhaustive_note={"quick": "frequency-name x step-unit x n (n <= 31) compatibility table complete (2520 entries); schedulers sampled",
                     "thorough": "frequency-name x step-unit x n (n <= 31) compatibility table complete (2520 entries); schedulers sampled"},
    rule="case = one random Scheduler (see C07) with two yearly dates (biased to 1 Jan / 28 Dec), end-of-year, monthly, final, every-n, spread season, three frequency strings, weather table, action-step lookup and count; non-trivial = accepted scheduler with >= 3 steps; distinct = blake2b of the case's protocol lines. Predicates 'fires iff the step contains such a date' are evaluated by enumerating the dates of each implementation step.",
    assumptions=["steps shorter than a year (the property's domain); for longer steps only model-vs-code agreement is checked"],
    explanation="Theorems characterise each builder by containment of a date in the step (yearly, end-of-year, monthly) or by index arithmetic (every-n, final, weather), the frequency-name table with its rejections, and the bijection between firing steps and action indices. The driver evaluates containment by date enumeration on the implementation's steps.",
)

META = dict(engine="h_date", design_ref="DESIGN.md section 3, C08",
        technique="Lean 4 theorems (containment characterisation per builder, counting bijection) + differential correspondence with date-enumeration predicates",
        text="Proof: for every well-formed step shorter than a year (straddling steps included) the yearly / end-of-year / monthly builders fire iff the step contains the date / a 31 December / a month end; exactly one step of a tiled calendar fires per covered occurrence; every-n, every-step, final-step, spread and weather tables are characterised by index; the frequency-name table with all rejections; simulation_step_to_action_step is a bijection from firing steps onto [0, count). The model is tied to the code on random schedulers (all builders compared bit for bit) and the complete name x unit x n table, and the containment predicates are evaluated on the implementation's output by enumerating dates.",
        note="Trusted: as C07. Config::create_schedules (which builder each feature gets: lethal = yearly on day 1 of its month, survival = yearly on month/day, mortality / spread rate / quarantine / output by frequency name, weather table) is modelled (createSchedules) and compared on random configurations (h_date config).")
