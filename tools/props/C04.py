"""C04: check configuration (PROP) and manifest texts (META)."""

PROP = dict(
    level="proof",
    lean_modules=['PopsModel.Props.C04', 'PopsModel.Props.NonVacuous.Host', 'PopsModel.Props.C04Pest'],
    theorems=['Pops.C04_generation', 'Pops.C04_soil_split', 'Pops.C04_soil_ages_out', 'Pops.C04_each_disperser_once', 'Pops.C04_ledger_cell', 'Pops.C04_ledger', 'Pops.C04_pest_nonneg_and_bounded_soil', 'Pops.C04_pest_nonneg_and_bounded', 'Pops.C04_disperseStepSoil_no_release', 'Pops.C04_generate_split', 'Pops.C04_soil_arrivals', 'Pops.C04_soil_disperser_once', 'Pops.C04_ledger_soil', 'Pops.C04_soil_stays_until_aged_out'],
    commands=['hp.spread', 'hp.dispfrom', 'hp.add', 'hp.soil.*', 'hp.soilstate', 'mm.spread'],
    runs={
        "quick": [('h_host', 'pool', 0, 1500), ('h_host', 'soil', 0, 400), ('h_model', 'model', 0, 400), ('h_mmodel', 'multi', 0, 150), ('h_sim', 'sim', 0, 150), ('h_multi', 'pool', 0, 300)],
        "thorough": [('h_host', 'pool', 0, 150000), ('h_host', 'soil', 0, 40000), ('h_model', 'model', 0, 20000), ('h_mmodel', 'multi', 0, 5000), ('h_sim', 'sim', 0, 5000), ('h_multi', 'pool', 0, 20000)],
    },
    exhaustive={"quick": False, "thorough": False},
    rule="case (pool) = one random landscape (7 shapes incl. 1x1, 1xN, Nx1, rows != cols; SI/SEI, latency 0..3, 1..4 mortality cohorts, 20% empty cells) with 5-14 random operations (add/land a disperser with scripted uniform, deterministic generation, pests from/to, host move incl. same-cell, removal/pesticide treatment in both modes with coefficients k/64, pesticide end, survival rate, lethal temperature, mortality, latency step); case (model) = one random Model configuration (feature subsets, calendar with day/week/month steps, both entry points, injected kernel throwing dispersers inside / at the source / just outside / far outside) run for up to 40 steps with the state printed after every action; non-trivial = at least 3 different operation kinds on a landscape with a suitable cell (pool) / at least 3 steps (model); distinct = blake2b of the case's protocol lines",
    assumptions=['stochastic generation (Poisson) is only constrained: zero without infection, one kernel call per generated disperser', 'with soils the dispersal is checked through aggregate predicates only'],
    explanation='Theorems: no infection, no dispersers and the deterministic count round(i x lambda); exact soil split; soil cohorts age out after as many soil steps as there are cohorts; every disperser is exactly one of outside-recorded / established (one S->E/I at its target) / lost; per origin cell the susceptible hosts consumed equal the increase of its established counter, which is at most its dispersers; over a whole dispersal susceptible consumed = sum of established. The driver evaluates these ledger predicates on the rasters Model::run_step produced with an injected kernel (targets known, incl. far outside) and replays the whole dispersal exactly with scripted establishment uniforms.',
)

META = dict(engine="h_host", design_ref="DESIGN.md section 3, C04",
    technique='Lean 4 theorems on the L1 spread model + ledger predicates and exact replay against Model::run_step with injected kernel and scripted uniforms',
    text="Proof: generation rules, soil split, soil ageing, the three-way fate of each disperser and the spread ledger (susceptible consumed = established, established <= generated per origin) are theorems about the L1 spread model for every kernel result sequence (any targets), every uniform sequence, every landscape. Tied to the code through Model::run_step with an injected kernel and scripted uniforms: ledger predicates on the implementation's dispersers / established / outside outputs after every spread, and exact replay of the dispersal (without soils; with soils only the aggregate predicates, the stochastic soil release being libstdc++'s Poisson: open finding F22 concerns its bound).",
    note='Trusted: Lean kernel + propext/Classical.choice/Quot.sound; hand-written L1 model of host_pool.hpp / treatments.hpp / actions.hpp (Model/Host.lean, Treat.lean, Actions.lean); harness and driver. int as unbounded Int; ratios as exact Rat on dyadic inputs (k/64); std::shuffle assumed to produce a permutation (draws are inferred from the observed difference and checked for validity).')

ENGINES = [
    {"name": "h_host", "path": "harness/h_host.cpp", "serves_properties": [], "kind_free_text": "C++ correspondence harness: random operation sequences on a real HostPool through pool methods, action and treatment classes; every raster printed after each operation"},
    {"name": "h_model", "path": "harness/h_model.cpp", "serves_properties": [], "kind_free_text": "C++ correspondence harness: Model::run_step with random configurations and calendars, injected scripted kernel, scripted uniforms, state after every action through the POPS_CORE_VERIF hook"},
]
