"""C07: check configuration (PROP) and manifest texts (META)."""

PROP = dict(
    level="proof",
    lean_modules=["PopsModel.Props.C07", "PopsModel.Props.NonVacuous.Calendar"],
    theorems=["Pops.C07_valid", "Pops.C07_increasing", "Pops.C07_order", "Pops.C07_tiles",
              "Pops.C07_partition", "Pops.C07_day_steps", "Pops.C07_month_step", "Pops.C07_month_steps"],
    commands=["date.*", "sched", "lookup", "unit"],
    runs={
        "quick": [("h_date", "single-sample", 0, 2500), ("h_date", "sched", 0, 2000), ("h_date", "tables", 0, 94)],
        "thorough": [("h_date", "single-all", 0, 146097), ("h_date", "single-sample", 0, 20000),
                     ("h_date", "sched", 0, 200000), ("h_date", "tables", 0, 94)],
    },
    exhaustive={"quick": False, "thorough": True},
    exhaustive_note={
        "quick": "dense block: every day of Jan/Feb/Mar/Nov/Dec of 2019, 2020, 2100, 2000 x all 32 successor kinds; unit/frequency tables complete",
        "thorough": "every start date of the 400-year cycle 2000-01-01..2399-12-31 x {1..28 days, week, month, add_day, subtract_day} (4.67 M single steps); unit/frequency tables complete; schedulers sampled",
    },
    rule="case = one date with all 32 successor kinds, or one random Scheduler (start biased to Nov/Dec/Feb and leap/century years; day 1..28, week 1..60, month 1..14; 6% malformed) with its steps, 8 lookups and every schedule builder; non-trivial = accepted scheduler with >= 3 steps, or any single-step case; distinct = blake2b of the case's protocol lines",
    assumptions=["dates are compared through the public Date/Scheduler API only", "n-day steps with n <= 28, month steps start on day 1 (C07's stated domain); other inputs are compared model-vs-code without property predicates"],
    explanation="Theorems: successors keep dates valid and strictly increase them; the constructor's loop yields a list satisfying TilesCalendar; any list satisfying TilesCalendar partitions its date range and the lookup returns the unique containing step; year rule for day and one-week steps in day-of-year terms for every year. The driver evaluates the same predicates on the implementation's own step lists.",
)

META = dict(engine="h_date", design_ref="DESIGN.md section 3, C07",
        technique="Lean 4 theorems (induction over the step loop, omega on the month table) + differential correspondence, exhaustive over the 400-year cycle in thorough",
        text="Proof: the Date successors keep dates valid and strictly increasing; the Scheduler loop produces a list satisfying the TilesCalendar predicate (first start, contiguity, produced-while, last end); any list satisfying it partitions its date range and schedule_action_date returns the unique containing step or rejects; the year rule for day and one-week steps holds for every year. All for unbounded years, any start/end/unit/length in the domain. The model is tied to the code by comparing every successor over the full 400-year cycle (thorough) and random schedulers, and the theorem predicates are evaluated on the implementation's own step lists.",
        note="Trusted: Lean kernel + propext/Classical.choice/Quot.sound; hand-written model of date.hpp/scheduling.hpp; correspondence harness and driver. int modelled as unbounded Int.")
