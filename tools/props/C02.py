"""C02: check configuration (PROP) and manifest texts (META)."""

PROP = dict(
    level="proof",
    lean_modules=['PopsModel.Props.C02', 'PopsModel.Props.C02Soil', 'PopsModel.Props.NonVacuous.Host', 'PopsModel.Props.RunModel', 'PopsModel.Props.Draws', 'PopsModel.Props.C04Pest'],
    theorems=['Pops.C02_nonneg_step', 'Pops.C02_nonneg_move', 'Pops.C02_infected_le_total', 'Pops.C02_died_le_infected', 'Pops.C02_taken_le_present', 'Pops.C02_history', 'Pops.C02_soil_release_bounded', 'Pops.C02_soil_stochastic_full_fails', 'Pops.C02_C03_run', 'Pops.C02_C03_run_prefix', 'Pops.Draw_from_v', 'Pops.Draw_cohorts_contract', 'Pops.Draw_cohorts_contract_unsigned', 'Pops.Draw_negative_request_takes_all', 'Pops.C04_pest_nonneg_and_bounded'],
    commands=[],
    runs={
        "quick": [('h_host', 'pool', 0, 1500), ('h_host', 'soil', 0, 400), ('h_model', 'model', 0, 400), ('h_mmodel', 'multi', 0, 150), ('h_sim', 'sim', 0, 150), ('h_multi', 'pool', 0, 300)],
        "thorough": [('h_host', 'pool', 0, 150000), ('h_host', 'soil', 0, 40000), ('h_model', 'model', 0, 20000), ('h_mmodel', 'multi', 0, 5000), ('h_sim', 'sim', 0, 5000), ('h_multi', 'pool', 0, 20000)],
    },
    exhaustive={"quick": False, "thorough": False},
    rule="case (pool) = one random landscape (7 shapes incl. 1x1, 1xN, Nx1, rows != cols; SI/SEI, latency 0..3, 1..4 mortality cohorts, 20% empty cells) with 5-14 random operations (add/land a disperser with scripted uniform, deterministic generation, pests from/to, host move incl. same-cell, removal/pesticide treatment in both modes with coefficients k/64, pesticide end, survival rate, lethal temperature, mortality, latency step); case (model) = one random Model configuration (feature subsets, calendar with day/week/month steps, both entry points, injected kernel throwing dispersers inside / at the source / just outside / far outside) run for up to 40 steps with the state printed after every action; non-trivial = at least 3 different operation kinds on a landscape with a suitable cell (pool) / at least 3 steps (model); distinct = blake2b of the case's protocol lines",
    assumptions=[],
    explanation="Theorems: non-negativity of every count is preserved by every action in its domain for all draws; infected <= total hosts; deaths <= infected present; returned pests/hosts <= request and <= present; invariants along any history. The driver evaluates nonNeg / infectedLeTotal / died<=infected on the implementation's states after every action.",
)

META = dict(engine="h_host", design_ref="DESIGN.md section 3, C02",
    technique='Lean 4 invariant proofs over the L1 model + predicates evaluated on the implementation after every action',
    text="Proof: every count (s, exposed cohorts, i, mortality cohorts, r, totals, died) stays non-negative under every L1 action for all draws, infected never exceeds total hosts, deaths never exceed the infected present, and amounts taken never exceed the request or what the cell held; lifted to every history. Tied to the code by evaluating the same predicates on the implementation's rasters after every action. Soil cohorts / disperser rasters are covered by the C04 check; the stochastic soil release is the open finding F22.",
    note='Trusted: Lean kernel + propext/Classical.choice/Quot.sound; hand-written L1 model of host_pool.hpp / treatments.hpp / actions.hpp (Model/Host.lean, Treat.lean, Actions.lean); harness and driver. int as unbounded Int; ratios as exact Rat on dyadic inputs (k/64); std::shuffle assumed to produce a permutation (draws are inferred from the observed difference and checked for validity).')

ENGINES = [
    {"name": "h_host", "path": "harness/h_host.cpp", "serves_properties": [], "kind_free_text": "C++ correspondence harness: random operation sequences on a real HostPool through pool methods, action and treatment classes; every raster printed after each operation"},
    {"name": "h_model", "path": "harness/h_model.cpp", "serves_properties": [], "kind_free_text": "C++ correspondence harness: Model::run_step with random configurations and calendars, injected scripted kernel, scripted uniforms, state after every action through the POPS_CORE_VERIF hook"},
]
