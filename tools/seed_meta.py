#!/usr/bin/env python3
"""Writes seeded/<ID>/meta.json from the logs tools/seed_verify.sh left there, then removes the logs.
   usage: seed_meta.py <ID> <round> <what> <needs_to_manifest>"""
import json, os, re, sys
sid, rnd, what, needs = sys.argv[1], sys.argv[2], sys.argv[3], sys.argv[4]
d = os.path.join(os.path.dirname(os.path.dirname(os.path.abspath(__file__))), "seeded", sid)
rd = lambda n: open(os.path.join(d, n)).read() if os.path.exists(os.path.join(d, n)) else ""
suite = "25/25 passed" if "100% tests passed, 0 tests failed out of 25" in rd("suite.log") else "NOT GREEN: " + rd("suite.log")[-200:]
checks = {}
for f in sorted(os.listdir(d)):
    m = re.match(r"check_(C\d\d)\.log$", f)
    if m:
        t = rd(f)
        checks[m.group(1)] = {"violations": len(re.findall(r"^VIOLATION", t, re.M)), "no_failing_input_found": t.count("no-failing-input-found")}
origin = {"1": "fresh sub-agent given only the property text and a private worktree",
          "2": "fresh sub-agent given only the property text and a private worktree; round 2: asked to avoid the most obvious function (helpers, wiring, alternative entry points, rare options)",
          "3": "fresh sub-agent given only the property text and a private worktree; round 3: asked for a history-dependent defect, a non-default option, an alternative overload or entry point, a helper in another file, or an interaction of two features",
          "4": "fresh sub-agent given only the property text and a private worktree; round 4: asked for two cooperating edits that each look harmless alone, or an edit in glue code (Config, Model wiring, kernel factories, Simulation wrapper, utils helpers, MultiHostPool forwarding) that matters only for a particular combination of options, raster shape, calendar or order of calls",
          "5": "fresh sub-agent given only the property text and a private worktree; round 5: asked for state carried across several steps or calls (cursor, cache, cohort position, calendar position, remembered previous cell or box), a boundary value (first / last step or cell, a value exactly equal to a threshold, zero or one element) or a rarely combined pair of options, at a site none of the earlier ideas touched",
          "6": "fresh sub-agent given only the property text and a private worktree; round 6: asked for a change that needs something specific to manifest (a particular combination of counts, path of a disperser, calendar date, treatment timing, age structure, threshold value, landscape state or boundary input), at a site none of the earlier ideas touched",
          "7": "fresh sub-agent given only the property text and a private worktree; round 7: asked for a change that needs something specific to manifest (a particular combination of actions, cohort position, latency, schedule, kernel wiring, window or network shape, number of hosts, infection geometry, raster shape or aliasing), at a site none of the earlier ideas touched",
          "8": "fresh sub-agent given only the property text and a private worktree; round 8: asked for a change in glue or shared code (utils helpers, Config, Model wiring, kernel factories, the Simulation wrapper, MultiHostPool forwarding, a base class, a rarely used overload) or one that spans two places that each look harmless alone, needing something specific to manifest",
          "9": "fresh sub-agent given only the property text and a private worktree; round 9: same request as round 8 (glue or shared code, or two places that each look harmless alone) for the other ten properties",
          "10": "fresh sub-agent given only the property text and a private worktree; round 10: asked for a defect that comes from the interaction of two features or calls (state left behind by an earlier call or step, a second object sharing something with the first, an option that changes what another option means, an alternative public entry point)",
          "11": "fresh sub-agent given only the property text and a private worktree; round 11: asked for two cooperating sites that each look fine alone (a helper changed in one header and a caller relying on the old behaviour in another) or a multi-step sequence of operations in a rarely combined configuration, at a site none of the earlier ideas touched",
          "2b": "fresh sub-agent given only the property text and a private worktree; second batch of round 2: asked for a change away from the obvious function whose effect needs two or more circumstances to coincide"}[rnd]
meta = {"property": sid[:3], "round": int(rnd) if rnd.isdigit() else int(rnd[0]), "origin": origin, "what": what, "needs_to_manifest": needs,
        "confirmed": {"applies_to": "/repo HEAD", "test_suite_with_patch": suite,
                      "demo_with_patch": rd("demo_patched.log")[:600], "demo_without_patch": rd("demo_original.log")[:100]},
        "what_i_ran": "tools/seed_verify.sh %s <dir> <checks>" % sid, "checks": checks}
json.dump(meta, open(os.path.join(d, "meta.json"), "w"), indent=1)
for f in os.listdir(d):
    if f in ("suite.log", "demo_build.log", "checks.log"):
        os.remove(os.path.join(d, f))
print(sid, suite, checks)
