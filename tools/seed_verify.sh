#!/bin/bash
# Confirms a seeded change: tools/seed_verify.sh <ID> <dir with patch.diff demo.cpp notes.md> <check ids...>
# 1. fresh worktree of /repo HEAD + patch  2. full test suite  3. demo FAIL with / PASS without
# 4. the named checks against the patched tree (VERIF_REPO).  Writes /verif/seeded/<ID>/.
set -u
ID=$1; SRC=$2; shift 2; CHECKS="$@"
WT=/tmp/seedchk_$ID; OUT=/verif/seeded/$ID; mkdir -p $OUT
git -C /repo worktree remove --force $WT 2>/dev/null; git -C /repo worktree add -q $WT HEAD || exit 2
cp $SRC/patch.diff $OUT/patch.diff; cp $SRC/demo.cpp $OUT/demo.cpp; cp $SRC/notes.md $OUT/notes.md 2>/dev/null
( cd $WT && git apply $OUT/patch.diff ) || { echo "PATCH DOES NOT APPLY"; exit 2; }
( cd $WT && cmake -G Ninja -S . -B _b >/dev/null 2>&1 && cmake --build _b -j6 >/dev/null 2>&1 && ctest --test-dir _b -j6 2>&1 | tail -3 ) > $OUT/suite.log 2>&1
SUITE=$(grep -c "100% tests passed, 0 tests failed out of 25" $OUT/suite.log)
rm -rf $WT/_b
g++ -std=c++17 -O1 -I$WT/include $OUT/demo.cpp -o /tmp/seeddemo_${ID}_p 2>$OUT/demo_build.log && /tmp/seeddemo_${ID}_p > $OUT/demo_patched.log 2>&1; DP=$?
g++ -std=c++17 -O1 -I/repo/include $OUT/demo.cpp -o /tmp/seeddemo_${ID}_o 2>>$OUT/demo_build.log && /tmp/seeddemo_${ID}_o > $OUT/demo_original.log 2>&1; DO=$?
rm -f /tmp/seeddemo_${ID}_p /tmp/seeddemo_${ID}_o
echo "suite_green=$SUITE demo_patched_exit=$DP demo_original_exit=$DO"
: > $OUT/checks.log
for c in $CHECKS; do
  ( cd /verif && VERIF_REPO=$WT python3 tools/check.py $c --tier quick 2>&1 | grep -E "VIOLATION|KNOWN-FINDING|quick:|PROOF|HARNESS" | cut -c1-300 ) > $OUT/check_$c.log
  V=$(grep -c "^VIOLATION" $OUT/check_$c.log); NF=$(grep -c "no-failing-input-found" $OUT/check_$c.log)
  grep -q "quick:" $OUT/check_$c.log || echo "check $c: DID NOT RUN TO ITS SUMMARY LINE (crash of the tooling?)" | tee -a $OUT/checks.log
  echo "check $c: violations=$V no_failing_input=$NF" | tee -a $OUT/checks.log
done
git -C /repo worktree remove --force $WT
