#!/bin/bash
# usage: tools/run_some.sh <tier> <parallel> <seed> <ids...>  (like run_all.sh for a subset)
cd "$(dirname "$0")/.." || exit 2
tier=$1; par=$2; seed=$3; shift 3
( cd lean && lake build PopsModel popsdriver ) > run_all_build.log 2>&1 || { echo "SETUP FAILED"; tail -5 run_all_build.log; exit 2; }
mkdir -p run_all_logs
for i in "$@"; do echo $i; done | \
  xargs -P $par -I{} sh -c "VERIF_SEED=$seed VERIF_JOBS=8 python3 tools/check.py {} --tier $tier > run_all_logs/{}_${tier}_s$seed.log 2>&1; echo {} $tier seed=$seed exit=\$? \$(tail -1 run_all_logs/{}_${tier}_s$seed.log | cut -c1-200)"
