#!/usr/bin/env python3
"""Regenerates the table of DESIGN.md 8.2 (between markers) from tools/props/*.py and known_findings.json."""
import json, os, re, sys
HERE = os.path.dirname(os.path.abspath(__file__)); VERIF = os.path.dirname(HERE)
sys.path.insert(0, HERE)
import config
kf = json.load(open(os.path.join(VERIF, "known_findings.json")))
entries = kf.get("findings", kf if isinstance(kf, list) else [])
openf = {}
for e in entries:
    if isinstance(e, dict) and e.get("status") == "open":
        for p in ([e.get("property")] if isinstance(e.get("property"), str) else e.get("properties", [])):
            openf.setdefault(p, []).append(e.get("id"))
rows = []
for pid in sorted(config.PROPS):
    c = config.PROPS[pid]
    runs = c["runs"]
    hm = sorted({"%s:%s" % (r[0], r[1]) for r in runs["quick"]})
    q = sum(r[3] for r in runs["quick"]); t = sum(r[3] for r in runs["thorough"])
    lvl = c["level"] + (" (%s open)" % ", ".join(sorted(set(openf[pid]))) if pid in openf else "")
    rows.append("| %s | %s | %d | %s | %d / %d |" % (pid, lvl, len(c["theorems"]), ", ".join(hm), q, t))
table = "| id | level | theorems | harness:mode | cases quick / thorough |\n|----|-------|----------|--------------|------------------------|\n" + "\n".join(rows) + "\n"
p = os.path.join(VERIF, "DESIGN.md"); s = open(p).read()
a, b = "<!-- size-table-begin -->\n", "<!-- size-table-end -->\n"
if a in s:
    s = s[:s.index(a) + len(a)] + table + s[s.index(b):]
else:
    m = re.search(r"\| id \| level \| theorems \| harness:mode \| cases quick / thorough \|\n\|[-|]+\|\n(?:\|.*\n)+", s)
    s = s[:m.start()] + a + table + b + s[m.end():]
open(p, "w").write(s)
print(table)
