#!/bin/bash
# usage: tools/run_all.sh <tier> <parallel> [seed]   - builds the Lean project, then runs every check of MANIFEST.json
# (for background soaks via `vp run`; the registered commands are the per-property ones)
cd "$(dirname "$0")/.." || exit 2
tier=${1:-quick}; par=${2:-3}; seed=${3:-1}
( cd lean && lake build PopsModel popsdriver ) > run_all_build.log 2>&1 || { echo "SETUP FAILED"; tail -5 run_all_build.log; exit 2; }
mkdir -p run_all_logs
for i in C01 C02 C03 C04 C05 C06 C07 C08 C09 C10 C11 C12 C13 C14 C15 C16 C17 C18 C19 C20; do echo $i; done | \
  xargs -P $par -I{} sh -c "VERIF_SEED=$seed VERIF_JOBS=8 python3 tools/check.py {} --tier $tier > run_all_logs/{}_$tier_s$seed.log 2>&1; echo {} $tier seed=$seed exit=\$? \$(tail -1 run_all_logs/{}_$tier_s$seed.log | cut -c1-200)"
