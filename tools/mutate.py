#!/usr/bin/env python3
"""Mutation survey of the tie between model and code (DESIGN.md 8.9).

  python3 tools/mutate.py --n 40 --seed 1 [--files host_pool.hpp,actions.hpp] [--jobs 3] [--out mutation/results.jsonl]

For each mutant (one small syntactic change in one header of /repo/include/pops, made in a scratch
worktree under /tmp, never in /repo): run the quick checks of the properties the header is modelled
under (VERIF_REPO=<worktree>); if none of them reports a VIOLATION, build and run the repository's own
test suite on the mutant to learn whether it is a realistic survivor (suite green) or not.
Every mutant gets one JSON line: file, line, operator, before/after, per-check verdicts, suite verdict.
A survivor (suite green, no check alarmed) is either an equivalent mutant, a change outside the twenty
properties, or a gap in the tie - triage is manual and recorded in mutation/TRIAGE.md.
"""
import argparse, json, os, random, re, subprocess, sys, time, hashlib
from concurrent.futures import ThreadPoolExecutor

HERE = os.path.dirname(os.path.abspath(__file__)); VERIF = os.path.dirname(HERE)
DRIVER_COPY = os.path.join(VERIF, ".build", "mutation_driver_%d" % os.getpid())
INC = "/repo/include/pops"

FILE_PROPS = {
    "date.hpp": ["C07", "C08"], "scheduling.hpp": ["C07", "C08", "C10"], "config.hpp": ["C08", "C06", "C16", "C09", "C13"],
    "host_pool.hpp": ["C01", "C02", "C03", "C04", "C05", "C10", "C11", "C12", "C17", "C16"],
    "treatments.hpp": ["C10", "C03", "C01"], "actions.hpp": ["C04", "C17", "C12", "C11", "C05", "C01", "C09", "C06"],
    "pest_pool.hpp": ["C04", "C02", "C17"], "soils.hpp": ["C04", "C02", "C06"],
    "model.hpp": ["C09", "C01", "C04", "C05", "C10", "C17", "C06"],
    "multi_host_pool.hpp": ["C16", "C11", "C05", "C04"], "competency_table.hpp": ["C16"], "pest_host_table.hpp": ["C16", "C11"],
    "generator_provider.hpp": ["C06"], "radial_kernel.hpp": ["C13"], "von_mises_distribution.hpp": ["C13"],
    "uniform_kernel.hpp": ["C13", "C17"], "neighbor_kernel.hpp": ["C13", "C17"], "switch_kernel.hpp": ["C13", "C17"],
    "natural_anthropogenic_kernel.hpp": ["C13", "C06"], "kernel_types.hpp": ["C13"], "natural_kernel.hpp": ["C13", "C14"],
    "anthropogenic_kernel.hpp": ["C13", "C14", "C15"], "kernel.hpp": ["C13"],
    "deterministic_kernel.hpp": ["C14"], "cauchy_kernel.hpp": ["C14", "C13"], "exponential_kernel.hpp": ["C14", "C13"],
    "weibull_kernel.hpp": ["C14", "C13"], "normal_kernel.hpp": ["C14", "C13"], "lognormal_kernel.hpp": ["C14", "C13"],
    "logistic_kernel.hpp": ["C14", "C13"], "hyperbolic_secant_kernel.hpp": ["C14", "C13"], "gamma_kernel.hpp": ["C14", "C13"],
    "exponential_power_kernel.hpp": ["C14", "C13"], "power_law_kernel.hpp": ["C14", "C13"],
    "network.hpp": ["C15"], "network_kernel.hpp": ["C15", "C13"], "spread_rate.hpp": ["C18"], "quarantine.hpp": ["C18"],
    "statistics.hpp": ["C18"], "raster.hpp": ["C19", "C20"], "environment.hpp": ["C12", "C20", "C16"],
    "utils.hpp": ["C01", "C02", "C03", "C17", "C15", "C13"], "simulation.hpp": ["C09"], "model_type.hpp": ["C20"],
    "normal_distribution_with_uniform_fallback.hpp": ["C12"],
}

# (name, regex, replacement) - applied to ONE match on ONE code line
OPS = [
    ("rel_le_lt", r"(?<![<>=!-])<=(?!=)", "<"), ("rel_lt_le", r"(?<![<>=!\w:])\s<\s(?![<=])", " <= "),
    ("rel_ge_gt", r"(?<![<>=!-])>=(?!=)", ">"), ("rel_gt_ge", r"(?<![<>=!-])\s>\s(?![>=])", " >= "),
    ("eq_ne", r"==", "!="), ("ne_eq", r"!=", "=="),
    ("plus_minus", r"(?<=[\w\)\]])\s\+\s(?=[\w\(])", " - "), ("minus_plus", r"(?<=[\w\)\]])\s-\s(?=[\w\(])", " + "),
    ("pluseq_minuseq", r"\+=", "-="), ("minuseq_pluseq", r"-=", "+="),
    ("and_or", r"&&", "||"), ("or_and", r"\|\|", "&&"),
    ("plus1_plus0", r"\+ 1\b(?!\.)", "+ 0"), ("minus1_minus0", r"- 1\b(?!\.)", "- 0"), ("zero_one", r"(?<=[=(,]\s)0(?=[;,)])", "1"),
    ("rows_cols", r"\brows\b", "cols"), ("cols_rows", r"\bcols\b", "rows"), ("row_col", r"\brow\b", "col"), ("col_row", r"\bcol\b", "row"),
    ("i_j", r"\(i, j\)", "(j, i)"),
    ("ew_ns", r"\bew_res\b", "ns_res"), ("ns_ew", r"\bns_res\b", "ew_res"),
    ("eastwest_northsouth", r"east_west", "north_south"), ("northsouth_eastwest", r"north_south", "east_west"),
    ("back_front", r"\.back\(\)", ".front()"), ("front_back", r"\.front\(\)", ".back()"),
    ("ceil_floor", r"\bceil\(", "floor("), ("floor_ceil", r"\bfloor\(", "ceil("), ("lround_trunc", r"\blround\(", "static_cast<long>("),
    ("min_max", r"std::min\(", "std::max("), ("max_min", r"std::max\(", "std::min("),
    ("true_false", r"\btrue\b", "false"), ("false_true", r"\bfalse\b", "true"),
    ("negate_if", r"\bif \((?!!)(.*)\) \{$", r"if (!(\1)) {"),
    ("mul_div", r"(?<=[\w\)])\s\*\s(?=[\w\(])", " / "), ("div_mul", r"(?<=[\w\)])\s/\s(?=[\w\(])", " * "),
    ("delete_stmt", r"^(\s*)([\w\.\[\]\(\), >-]+\s(?:\+=|-=|=)\s[^;]*;)\s*$", r"\1/* \2 */;"),
    ("natural_anthro", r"\bnatural_(scale|kappa|direction)\b", r"anthro_\1"), ("anthro_natural", r"\banthro_(scale|kappa|direction)\b", r"natural_\1"),
    ("susceptible_infected", r"\bsusceptible_\(", "infected_("), ("exposed_idx", r"\bexposed_\.front\(\)", "exposed_.back()"),
]


def code_lines(path):
    """(lineno, text) of lines that are code: outside comments, preprocessor, hook blocks, throw messages."""
    out, in_block, in_hook = [], False, 0
    for n, line in enumerate(open(path).read().split("\n"), 1):
        s = line.strip()
        if in_block:
            if "*/" in s: in_block = False
            continue
        if s.startswith("/*"):
            if "*/" not in s: in_block = True
            continue
        if s.startswith("#ifdef POPS_CORE_VERIF"): in_hook += 1; continue
        if in_hook:
            if s.startswith("#endif"): in_hook -= 1
            continue
        if not s or s.startswith("//") or s.startswith("#") or s.startswith("*"): continue
        if "throw " in s or s.startswith('"') or s.startswith("+ ") or "std::to_string" in s or "assert" in s: continue
        if s.startswith("template") or s.startswith("typename") or s.startswith("using ") or s.startswith("typedef"): continue
        code = line.split("//")[0]
        out.append((n, code))
    return out


def candidates(fname):
    path = os.path.join(INC, fname)
    res = []
    for n, code in code_lines(path):
        for name, rx, rep in OPS:
            for m in re.finditer(rx, code):
                new = code[:m.start()] + m.expand(rep) + code[m.end():]
                if new != code:
                    res.append({"file": fname, "line": n, "op": name, "before": code.strip(), "after": new.strip(), "new_line": new})
    return res


def sh(cmd, **kw):
    return subprocess.run(cmd, shell=True, stdout=subprocess.PIPE, stderr=subprocess.STDOUT, text=True, **kw)


def run_mutant(mu, idx, tier_checks):
    wt = "/tmp/mut_%d_%d" % (os.getpid(), idx)
    sh("git -C /repo worktree remove --force %s 2>/dev/null; git -C /repo worktree add -q --detach %s HEAD" % (wt, wt))
    rec = dict(mu); rec.pop("new_line"); rec["id"] = hashlib.sha1(("%s:%d:%s:%s" % (mu["file"], mu["line"], mu["op"], mu["after"])).encode()).hexdigest()[:10]
    t0 = time.time()
    try:
        p = os.path.join(wt, "include", "pops", mu["file"])
        lines = open(p).read().split("\n")
        tail = lines[mu["line"] - 1][len(lines[mu["line"] - 1].split("//")[0]):]
        lines[mu["line"] - 1] = mu["new_line"] + tail
        open(p, "w").write("\n".join(lines))
        # does it compile at all?  (one translation unit that includes everything)
        tu = os.path.join(wt, "_tu.cpp"); open(tu, "w").write("#include <pops/model.hpp>\n#include <pops/simulation.hpp>\n#include <pops/network_kernel.hpp>\nint main(){}\n")
        r = sh("g++ -std=c++17 -fsyntax-only -I%s/include %s" % (wt, tu))
        if r.returncode != 0:
            rec["verdict"] = "does_not_compile"; return rec
        checks = {}
        killed = False
        for c in tier_checks(mu["file"]):
            r = sh("cd %s && VERIF_REPO=%s VERIF_JOBS=6 VERIF_SKIP_LEAN=1 VERIF_DRIVER=%s python3 tools/check.py %s --tier quick" % (VERIF, wt, DRIVER_COPY, c), timeout=1500)
            nf = r.stdout.count("no-failing-input-found")
            v = len(re.findall(r"^VIOLATION", r.stdout, re.M)) - nf   # alarms that come with a failing input
            crash = "HARNESS BUILD FAILED" in r.stdout
            checks[c] = {"violations": v, "no_failing_input": nf, "build_failed": crash}
            if v > 0:
                killed = True
                m = re.search(r'"predicate": "([^"]{0,160})', open(re.search(r"replay=(\S+)", r.stdout).group(1)).read()) if re.search(r"replay=(\S+\.json)", r.stdout) else None
                checks[c]["first"] = m.group(1) if m else ""
                break   # one alarm is enough; the remaining checks are skipped
        rec["checks"] = checks
        if killed:
            rec["verdict"] = "killed_by_check"
        elif any(c["no_failing_input"] for c in checks.values()):
            rec["verdict"] = "model_divergence_only"   # reported, but without a failing input of the property
        else:
            r = sh("cd %s && cmake -G Ninja -S . -B _b >/dev/null 2>&1 && cmake --build _b -j4 >/dev/null 2>&1; ctest --test-dir _b -j4 2>&1 | tail -30" % wt, timeout=3000)
            green = "100% tests passed, 0 tests failed out of 25" in r.stdout
            rec["suite"] = "green" if green else "red: " + " ".join(re.findall(r"- (test_\w+)", r.stdout))[:200]
            rec["verdict"] = "SURVIVOR" if green else "killed_by_suite_only"
    except Exception as e:  # noqa
        rec["verdict"] = "error: %r" % (e,)
    finally:
        rec["wall_s"] = round(time.time() - t0, 1)
        sh("git -C /repo worktree remove --force %s; rm -rf %s" % (wt, wt))
    return rec


def main():
    ap = argparse.ArgumentParser()
    ap.add_argument("--n", type=int, default=20); ap.add_argument("--seed", type=int, default=1)
    ap.add_argument("--files", default=""); ap.add_argument("--jobs", type=int, default=3)
    ap.add_argument("--out", default=os.path.join(VERIF, "mutation", "results.jsonl"))
    ap.add_argument("--list", action="store_true")
    ap.add_argument("--retest", default="", help="comma-separated verdicts: re-run the mutants of --from that got one of them (e.g. SURVIVOR,model_divergence_only)")
    ap.add_argument("--from", dest="src", default=os.path.join(VERIF, "mutation", "results.jsonl"))
    a = ap.parse_args()
    files = [f for f in (a.files.split(",") if a.files else sorted(FILE_PROPS)) if f in FILE_PROPS]
    allc = []
    for f in files:
        allc.extend(candidates(f))
    if a.list:
        for c in allc: print(c["file"], c["line"], c["op"], "|", c["before"], "=>", c["after"])
        print(len(allc), "candidates"); return
    if a.retest:
        want = set(a.retest.split(","))
        ids = {}
        for l in open(a.src):
            try:
                r = json.loads(l)
            except Exception:
                continue
            v = str(r.get("verdict"))
            if v in want or any(w.endswith("*") and v.startswith(w[:-1]) for w in want): ids[r["id"]] = r
        byid = {hashlib.sha1(("%s:%d:%s:%s" % (c["file"], c["line"], c["op"], c["after"])).encode()).hexdigest()[:10]: c for c in allc}
        picks = [byid[i] for i in ids if i in byid]
        print("retesting %d of %d mutants" % (len(picks), len(ids)), flush=True)
        os.makedirs(os.path.dirname(a.out), exist_ok=True)
        import shutil
        shutil.copy(os.path.join(VERIF, "lean", ".lake", "build", "bin", "popsdriver"), globals()["DRIVER_COPY"] + ".retest")
        globals()["DRIVER_COPY"] = globals()["DRIVER_COPY"] + ".retest"
        from concurrent.futures import as_completed
        with ThreadPoolExecutor(max_workers=a.jobs) as ex:
            futs = [ex.submit(run_mutant, mu, 1000 + i, lambda f: FILE_PROPS[f]) for i, mu in enumerate(picks)]
            for f in as_completed(futs):
                rec = f.result(); rec["retest_of"] = ids[rec["id"]]["verdict"]
                with open(a.out, "a") as fh: fh.write(json.dumps(rec) + "\n")
                print(rec["verdict"], "(was %s)" % rec["retest_of"], rec["file"], rec["line"], rec["op"], flush=True)
        return
    rnd = random.Random(a.seed)
    # stratify by file: equal expected share per file (small files are not drowned by host_pool.hpp)
    byfile = {}
    for c in allc: byfile.setdefault(c["file"], []).append(c)
    done = set()
    if os.path.exists(a.out):
        for l in open(a.out):
            try: done.add(json.loads(l)["id"])
            except Exception: pass
    picks = []
    order = sorted(byfile)
    while len(picks) < a.n and any(byfile.values()):
        f = rnd.choice(order)
        if not byfile[f]: continue
        c = byfile[f].pop(rnd.randrange(len(byfile[f])))
        cid = hashlib.sha1(("%s:%d:%s:%s" % (c["file"], c["line"], c["op"], c["after"])).encode()).hexdigest()[:10]
        if cid in done: continue
        picks.append(c)
    os.makedirs(os.path.dirname(a.out), exist_ok=True)
    import shutil
    os.makedirs(os.path.dirname(DRIVER_COPY), exist_ok=True)
    shutil.copy(os.path.join(VERIF, "lean", ".lake", "build", "bin", "popsdriver"), globals()["DRIVER_COPY"])
    tc = lambda f: FILE_PROPS[f]
    from concurrent.futures import as_completed
    with ThreadPoolExecutor(max_workers=a.jobs) as ex:
        futs = [ex.submit(run_mutant, mu, i, tc) for i, mu in enumerate(picks)]
        for f in as_completed(futs):
            rec = f.result()
            with open(a.out, "a") as fh: fh.write(json.dumps(rec) + "\n")
            print(rec["verdict"], rec["file"], rec["line"], rec["op"], rec.get("wall_s"), flush=True)


if __name__ == "__main__":
    main()
