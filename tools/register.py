#!/usr/bin/env python3
"""register.py <Cxx> <LeanModule> <theorem> [<theorem> ...]  - adds a module and theorem names to tools/props/Cxx.py"""
import re, sys, os
pid, mod, ths = sys.argv[1], sys.argv[2], sys.argv[3:]
p = os.path.join(os.path.dirname(os.path.abspath(__file__)), "props", pid + ".py"); s = open(p).read()
m = re.search(r'lean_modules=\[([^\]]*)\]', s); q = '"' if '"' in m.group(1) else "'"
if mod not in m.group(1): s = s[:m.end(1)] + f", {q}{mod}{q}" + s[m.end(1):]
m = re.search(r'_THEOREMS\s*=\s*\[(.*?)\]', s, flags=re.S) or re.search(r'theorems=\[(.*?)\]', s, flags=re.S)
new = ', '.join(f"{q}Pops.{t}{q}" for t in ths if ('Pops.' + t + q) not in m.group(1))
if new: s = s[:m.end(1)] + ', ' + new + s[m.end(1):]
open(p, 'w').write(s); print(pid, mod, len(ths))
