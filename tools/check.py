#!/usr/bin/env python3
"""Orchestrator of the pops-core verification checks.

  python3 tools/check.py <ID> --tier quick|thorough
  python3 tools/check.py <ID> --replay <replay.json>

Per run (see DESIGN.md 2.5):
  1. proof obligations: build the property's Lean modules, scan the Lean sources for
     sorry/admit/axiom/native_decide/..., `#print axioms` on every property theorem
     (thorough: also leanchecker);
  2. correspondence: rebuild the C++ harness from /repo's working tree (ASan+UBSan,
     -DPOPS_CORE_VERIF), run corpus + generated cases through harness | driver;
  3. decide: PROPFAIL -> violation with replay (unless in an open known-finding region),
     MISMATCH / broken proof -> search for a failing input, else `no-failing-input-found`;
  4. write evidence/<ID>.json.
"""
import argparse, hashlib, json, os, re, shutil, subprocess, sys, time
from concurrent.futures import ProcessPoolExecutor

HERE = os.path.dirname(os.path.abspath(__file__))
VERIF = os.path.dirname(HERE)
sys.path.insert(0, HERE)
import config  # noqa: E402

REPO = os.environ.get("VERIF_REPO", "/repo")
LEAN = os.path.join(VERIF, "lean")
BUILD = os.path.join(VERIF, ".build")
# Runs against another tree (VERIF_REPO=<worktree>: seeded changes, mutation survey) never touch the
# committed evidence or the replay directory of /repo's own runs.
ALT = os.path.realpath(REPO) != "/repo"
OUTROOT = os.path.join(BUILD, "alt", hashlib.sha256(os.path.realpath(REPO).encode()).hexdigest()[:10]) if ALT else VERIF
DRIVER = os.environ.get("VERIF_DRIVER") or os.path.join(LEAN, ".lake", "build", "bin", "popsdriver")
ALLOWED_AXIOMS = {"propext", "Classical.choice", "Quot.sound"}
FORBIDDEN = re.compile(r"\bsorry\b|\badmit\b|^\s*axiom\s|native_decide|bv_decide|implemented_by|\bunsafe\s|maxHeartbeats\s+0\b", re.M)
CXXFLAGS = ["-std=c++17", "-O1", "-g", "-fsanitize=address,undefined", "-fno-sanitize-recover=all",
            "-DPOPS_CORE_VERIF", "-Wno-deprecated-declarations"]
JOBS = int(os.environ.get("VERIF_JOBS", "16"))


def log(*a):
    print(*a, flush=True)


def run(cmd, **kw):
    return subprocess.run(cmd, stdout=subprocess.PIPE, stderr=subprocess.STDOUT, text=True, **kw)


# ----------------------------------------------------------------------------- Lean side

def strip_lean_comments(src):
    out, i, depth, n = [], 0, 0, len(src)
    while i < n:
        if src.startswith("/-", i):
            depth += 1; i += 2; continue
        if depth and src.startswith("-/", i):
            depth -= 1; i += 2; continue
        if depth:
            i += 1; continue
        if src.startswith("--", i):
            j = src.find("\n", i)
            i = n if j < 0 else j
            continue
        out.append(src[i]); i += 1
    return "".join(out)


def import_closure(mods):
    """Relative paths of all PopsModel source files transitively imported by `mods`."""
    seen, todo = set(), list(mods)
    while todo:
        m = todo.pop()
        if m in seen or not m.startswith("PopsModel"):
            continue
        seen.add(m)
        path = os.path.join(LEAN, *m.split(".")) + ".lean"
        if not os.path.exists(path):
            continue
        for line in open(path):
            mm = re.match(r"\s*import\s+(\S+)", line)
            if mm:
                todo.append(mm.group(1))
    return sorted(os.path.join(*m.split(".")) + ".lean" for m in seen if os.path.exists(os.path.join(LEAN, *m.split(".")) + ".lean"))


def lean_audit(pid, cfg, thorough):
    """Returns (obligations, discharged, problems:list[str], details)."""
    problems = []
    mods = cfg["lean_modules"]
    t0 = time.time()
    r = run(["lake", "build"] + mods + ["popsdriver"], cwd=LEAN)
    if r.returncode != 0:
        problems.append("lake build failed for %s: %s" % (mods, r.stdout[-1500:]))
    # forbidden constructs in every library file the property's theorems or the driver depend on
    for rel in import_closure(mods + ["PopsModel.Driver.Main"]):
        txt = strip_lean_comments(open(os.path.join(LEAN, rel)).read())
        m = FORBIDDEN.search(txt)
        if m:
            problems.append("forbidden construct %r in %s" % (m.group(0).strip(), rel))
    thms = cfg["theorems"]
    os.makedirs(BUILD, exist_ok=True)
    axf = os.path.join(BUILD, "axioms_%s.lean" % pid)
    with open(axf, "w") as fh:
        for m in mods:
            fh.write("import %s\n" % m)
        for t in thms:
            fh.write("#print axioms %s\n" % t)
    r = run(["lake", "env", "lean", axf], cwd=LEAN)
    found = {}
    for m in re.finditer(r"'([^']+)' depends on axioms: \[([^\]]*)\]", r.stdout.replace("\n", " ")):
        found[m.group(1)] = {a.strip() for a in m.group(2).split(",") if a.strip()}
    for m in re.finditer(r"'([^']+)' does not depend on any axioms", r.stdout):
        found[m.group(1)] = set()
    discharged = 0
    axioms_used = set()
    for t in thms:
        if t not in found:
            problems.append("theorem %s not found / not checked: %s" % (t, r.stdout[-400:]))
            continue
        extra = found[t] - ALLOWED_AXIOMS
        axioms_used |= found[t]
        if extra:
            problems.append("theorem %s depends on non-standard axioms %s" % (t, sorted(extra)))
        else:
            discharged += 1
    details = {"lean_modules": mods, "theorems": thms, "axioms_used": sorted(axioms_used), "lean_s": round(time.time() - t0, 1)}
    if thorough and not problems:
        for m in mods:
            r = run(["lake", "env", "leanchecker", m], cwd=LEAN)
            if r.returncode != 0:
                problems.append("leanchecker rejected %s: %s" % (m, r.stdout[-500:]))
        details["leanchecker"] = "ran on %s" % mods
    return len(thms), discharged, problems, details


# ----------------------------------------------------------------------------- C++ side

def tree_hash(extra_files):
    h = hashlib.sha256()
    inc = os.path.join(REPO, "include", "pops")
    for f in sorted(os.listdir(inc)):
        h.update(f.encode()); h.update(open(os.path.join(inc, f), "rb").read())
    for f in extra_files:
        h.update(open(f, "rb").read())
    h.update(" ".join(CXXFLAGS).encode())
    return h.hexdigest()[:16]


def build_harness(name):
    src = os.path.join(VERIF, "harness", name + ".cpp")
    common = os.path.join(VERIF, "harness", "common.hpp")
    extra = [src, common] + [os.path.join(VERIF, "harness", f) for f in sorted(os.listdir(os.path.join(VERIF, "harness"))) if f.endswith(".hpp") and f != "common.hpp"]
    hsh = tree_hash(extra)
    d = os.path.join(BUILD, "h", name)
    exe = os.path.join(d, hsh)
    if os.path.exists(exe):
        try: os.utime(exe)      # in use: keeps it out of reach of the clean-up of a concurrent run
        except OSError: pass
        return exe, None
    os.makedirs(d, exist_ok=True)
    for old in os.listdir(d):
        # drop binaries of earlier trees; never touch a file another process is still compiling
        if ".tmp" in old or old == hsh:
            continue
        try:
            if time.time() - os.path.getmtime(os.path.join(d, old)) > 3600:
                os.remove(os.path.join(d, old))
        except OSError: pass
    tmp = exe + ".tmp%d" % os.getpid()
    r = run(["g++"] + CXXFLAGS + ["-I" + os.path.join(REPO, "include"), "-I" + os.path.join(VERIF, "harness"), src, "-o", tmp])
    if r.returncode != 0:
        return None, r.stdout[-3000:]
    os.replace(tmp, exe)
    return exe, None


def run_chunk(args):
    """Worker: harness chunk -> file -> driver; summarise. Returns a dict."""
    exe, mode, seed, first, count, tag, corpus_file = args
    rundir = os.path.join(BUILD, "run", "%d_%s" % (os.getpid(), tag))
    os.makedirs(rundir, exist_ok=True)
    ops = os.path.join(rundir, "ops.txt")
    res = {"cases": 0, "lines": 0, "ok": 0, "bad": [], "hashes_nt": set(), "hashes_all": 0, "stats": {}, "samples": [],
           "crash": None, "nontrivial": 0, "known": {}, "nbad": 0}
    env = dict(os.environ, ASAN_OPTIONS="detect_leaks=0:abort_on_error=0", UBSAN_OPTIONS="print_stacktrace=1")
    if corpus_file:
        shutil.copy(corpus_file, ops)
        rc, err = 0, ""
    else:
        with open(ops, "w") as fo:
            try:
                p = subprocess.run([exe, mode, str(seed), str(first), str(count)], stdout=fo, stderr=subprocess.PIPE, text=True, env=env,
                                   timeout=int(os.environ.get("VERIF_CHUNK_TIMEOUT", "900")))
                rc, err = p.returncode, p.stderr
            except subprocess.TimeoutExpired as te:
                # the library did not return (e.g. an endless loop): reported like an abort, with the last case started
                rc, err = -999, "TIMEOUT: harness chunk did not finish within the time limit\n" + ((te.stderr or b"").decode("utf-8", "replace") if isinstance(te.stderr, bytes) else (te.stderr or ""))
        if rc == -999 and os.path.getsize(ops) > (64 << 20):
            # an endless loop that keeps printing: keep the first 64 MB (whole lines) for the driver
            with open(ops, "rb+") as ft:
                ft.seek(64 << 20); ft.readline(); ft.truncate(ft.tell())
        for m in re.finditer(r"^STATS (\{.*\})$", err, re.M):
            try:
                for k, v in json.loads(m.group(1)).items():
                    if isinstance(v, int):
                        res["stats"][k] = res["stats"].get(k, 0) + v
            except ValueError:
                pass
    verd = os.path.join(rundir, "verdicts.txt")
    with open(ops) as fi, open(verd, "w") as fo:
        try:
            subprocess.run([DRIVER], stdin=fi, stdout=fo, stderr=subprocess.STDOUT,
                           timeout=int(os.environ.get("VERIF_DRIVER_TIMEOUT", "1800")))
        except subprocess.TimeoutExpired:
            # the model did not finish on the implementation's output (e.g. absurd sizes coming out of the code under
            # test): nothing after the last verdict could be compared - counted as a broken correspondence
            fo.write("MISMATCH driver-timeout the model driver did not finish on this chunk || # case - - 0 0 || -\n")
    # summarise cases
    cur, cur_hdr, last_hdr = None, None, None
    with open(ops) as fi:
        for line in fi:
            if line.startswith("# case "):
                cur = hashlib.blake2b(digest_size=8); cur_hdr = line.strip(); last_hdr = cur_hdr
                cur_lines = []
            elif line.startswith("# endcase"):
                if cur is not None:
                    res["cases"] += 1
                    nt = line.strip().endswith("nt=1")
                    if nt:
                        res["nontrivial"] += 1
                        res["hashes_nt"].add(cur.digest())
                    if len(res["samples"]) < 2 and nt:
                        res["samples"].append({"case": cur_hdr, "lines": [l[:400] for l in cur_lines[:6]]})
                cur = None
            elif cur is not None:
                cur.update(line.encode())
                if len(cur_lines) < 6:
                    cur_lines.append(line.rstrip("\n"))
    with open(verd) as fv:
        for v in fv:
            v = v.rstrip("\n")
            if v == "skip":
                continue
            res["lines"] += 1
            if v == "ok":
                res["ok"] += 1
            elif v.startswith("KNOWN "):
                key = " ".join(v.split(" ", 3)[:3])
                res["known"][key] = res["known"].get(key, 0) + 1
                if res["known"][key] <= 2:
                    res["bad"].append(v)
            else:
                if res["nbad"] < 200:
                    res["bad"].append(v)
                res["nbad"] += 1
    if rc != 0:
        res["crash"] = {"rc": rc, "last_case": last_hdr, "stderr": err[-3000:], "mode": mode, "seed": seed, "first": first,
                        "engine": os.path.basename(os.path.dirname(exe)) if exe else "corpus"}
    shutil.rmtree(rundir, ignore_errors=True)
    res["hashes_nt"] = list(res["hashes_nt"])
    return res


def correspondence(exe_by_name, runs, seed, corpus_files):
    """runs: list of (harness, mode, first, count). Splits into chunks over JOBS processes."""
    tasks = []
    for cf in corpus_files:
        tasks.append((None, "corpus", seed, 0, 0, "corpus_" + os.path.basename(cf), cf))
    for (h, mode, first, count) in runs:
        nchunks = max(1, min(JOBS, count // 200))
        per = (count + nchunks - 1) // nchunks
        for c in range(nchunks):
            f = first + c * per
            n = min(per, first + count - f)
            if n > 0:
                tasks.append((exe_by_name[h], mode, seed, f, n, "%s_%s_%d" % (h, mode, f), None))
    total = {"cases": 0, "lines": 0, "ok": 0, "bad": [], "hashes_nt": set(), "stats": {}, "samples": [], "crashes": [], "nontrivial": 0, "known": {}}
    with ProcessPoolExecutor(max_workers=JOBS) as ex:
        for res in ex.map(run_chunk, tasks):
            total["cases"] += res["cases"]; total["lines"] += res["lines"]; total["ok"] += res["ok"]
            total["nontrivial"] += res["nontrivial"]
            total["bad"].extend(res["bad"])
            for k, v in res["known"].items():
                total["known"][k] = total["known"].get(k, 0) + v
            total["hashes_nt"].update(res["hashes_nt"])
            for k, v in res["stats"].items():
                total["stats"][k] = total["stats"].get(k, 0) + v
            if len(total["samples"]) < 3:
                total["samples"].extend(res["samples"][: 3 - len(total["samples"])])
            if res["crash"]:
                total["crashes"].append(res["crash"])
    return total


# ----------------------------------------------------------------------------- verdicts

def parse_bad_multi(v):
    """A driver line may carry several verdicts separated by ' ;; ' (one per property)."""
    parts = v.split(" || ")
    rest = (" || " + " || ".join(parts[1:])) if len(parts) > 1 else ""
    return [parse_bad(x + rest) for x in parts[0].split(" ;; ")]


def parse_bad(v):
    """'PROPFAIL C07 year-rule || # case h_date sched 1 5 || line' -> dict"""
    parts = v.split(" || ")
    head = parts[0].split(" ", 2)
    d = {"raw": v, "kind": head[0], "tag": head[1] if len(head) > 1 else "", "detail": head[2] if len(head) > 2 else "",
         "case": parts[1] if len(parts) > 1 else "", "line": parts[2] if len(parts) > 2 else ""}
    d["cmd"] = d["line"].split(" ", 1)[0] if d["line"] else ""
    m = re.match(r"# case (\S+) (\S+) (\d+) (\d+)", d["case"])
    d["where"] = (m.group(1), m.group(2), int(m.group(3)), int(m.group(4))) if m else None
    return d


def relevant(pid, cfg, b):
    if b["kind"] in ("PROPFAIL", "KNOWN"):
        # shared_predicates: (tag, command) pairs of another property whose predicate this property's statement also
        # demands (C09: the Config -> schedule wiring judged by C08's config_wiring predicate on cfgsched lines)
        if b["kind"] == "PROPFAIL" and [b["tag"], b["cmd"]] in [list(x) for x in cfg.get("shared_predicates", [])]:
            return True
        return b["tag"] == pid
    if b["kind"] == "MISMATCH" and b["tag"] == "driver-timeout":
        return True
    if b["kind"] == "MISMATCH":
        return any(b["cmd"] == c or (c.endswith("*") and b["cmd"].startswith(c[:-1])) for c in cfg["commands"])
    if b["kind"] == "BADLINE":
        return any(b["cmd"] == c or (c.endswith("*") and b["cmd"].startswith(c[:-1])) for c in cfg["commands"]) or not b["cmd"]
    return False


def replay_case(exe, where):
    """Re-run one case against the real code; returns (lines, verdicts)."""
    _, mode, seed, idx = where
    env = dict(os.environ, ASAN_OPTIONS="detect_leaks=0", UBSAN_OPTIONS="print_stacktrace=1")
    try:
        p = subprocess.run([exe, mode, str(seed), str(idx), "1"], stdout=subprocess.PIPE, stderr=subprocess.PIPE, text=True, env=env,
                           timeout=int(os.environ.get("VERIF_CASE_TIMEOUT", "120")))
        out, rc, err = p.stdout, p.returncode, p.stderr
    except subprocess.TimeoutExpired as te:
        out = te.stdout.decode("utf-8", "replace") if isinstance(te.stdout, bytes) else (te.stdout or "")
        rc, err = -999, "TIMEOUT: the case did not finish within the time limit (the library did not return)"
    d = subprocess.run([DRIVER], input=out, stdout=subprocess.PIPE, text=True)
    return out.splitlines(), d.stdout.splitlines(), rc, err[-2000:]


def write_replay(pid, name, payload):
    d = os.path.join(OUTROOT, "replays")
    os.makedirs(d, exist_ok=True)
    path = os.path.join(d, name)
    payload["replay_cmd"] = "python3 tools/check.py %s --replay %s" % (pid, path)
    with open(path, "w") as fh:
        json.dump(payload, fh, indent=1)
    return path


def load_known():
    p = os.path.join(VERIF, "known_findings.json")
    if not os.path.exists(p):
        return {}
    return {f["id"]: f for f in json.load(open(p))["findings"]}


# ----------------------------------------------------------------------------- main

def main():
    ap = argparse.ArgumentParser()
    ap.add_argument("pid")
    ap.add_argument("--tier", default=os.environ.get("VERIF_TIER", "quick"))
    ap.add_argument("--replay")
    a = ap.parse_args()
    pid = a.pid
    tier = os.environ.get("VERIF_TIER") or a.tier
    if tier not in ("quick", "thorough"):
        tier = "quick"
    seed = int(os.environ.get("VERIF_SEED", "1") or 1)
    cfg = config.PROPS[pid]
    t0 = time.time()
    known = load_known()
    violations = []      # (replay_path, suffix)
    known_hit = {}

    if a.replay:
        rp = json.load(open(a.replay))
        exe, err = build_harness(rp["engine"])
        if exe is None:
            log("harness build failed:\n" + err); log("VIOLATION property=%s replay=%s no-failing-input-found" % (pid, a.replay)); sys.exit(1)
        r = run(["lake", "build", "popsdriver"], cwd=LEAN)
        lines, verds, rc, err = replay_case(exe, (rp["engine"], rp["mode"], rp["seed"], rp["index"]))
        bad = [b for v in verds if v not in ("ok", "skip") for b in parse_bad_multi(v)]
        bad = [b for b in bad if relevant(pid, cfg, b)]
        for l in lines: log("  " + l[:300])
        for b in bad: log("  -> " + b["raw"][:400])
        real = [b for b in bad if not (b["kind"] == "KNOWN" and known.get(b["detail"].split(" ")[0], {}).get("status") == "open")]
        if rc != 0:
            log("harness exited with %d\n%s" % (rc, err))
        if real or rc != 0:
            log("VIOLATION property=%s replay=%s" % (pid, a.replay)); sys.exit(1)
        log("replay: no violation on the current tree"); sys.exit(0)

    # 1. proof obligations (VERIF_SKIP_LEAN=1 is honoured only for runs against another tree - the
    # mutation survey: the theorems are about the model and do not depend on the C++ tree under test)
    if ALT and os.environ.get("VERIF_SKIP_LEAN") == "1":
        obligations, discharged, problems, lean_details = len(cfg["theorems"]), 0, [], {"skipped": "VERIF_SKIP_LEAN", "axioms_used": [], "lean_modules": cfg["lean_modules"], "theorems": cfg["theorems"]}
    else:
        obligations, discharged, problems, lean_details = lean_audit(pid, cfg, tier == "thorough")
    for p in problems:
        log("PROOF-OBLIGATION BROKEN: " + p[:600])

    # 2. correspondence
    # private copy of the driver: another check (or an edit of the Lean project) may relink the shared
    # executable while this run is using it
    global DRIVER
    private_driver = os.path.join(BUILD, "run", "driver_%d" % os.getpid())
    os.makedirs(os.path.dirname(private_driver), exist_ok=True)
    for attempt in range(120):
        try:
            shutil.copy2(DRIVER, private_driver); break
        except (FileNotFoundError, OSError):
            time.sleep(1)
    if os.path.exists(private_driver):
        DRIVER = private_driver
        import atexit
        atexit.register(lambda p=private_driver, me=os.getpid(): os.getpid() == me and os.path.exists(p) and os.remove(p))
    if tier == "quick":
        # a quick chunk takes seconds; a library that does not return is reported after minutes, not after the
        # limits meant for the thorough tier
        os.environ.setdefault("VERIF_CHUNK_TIMEOUT", "300"); os.environ.setdefault("VERIF_DRIVER_TIMEOUT", "600")
    harnesses = sorted({r[0] for r in cfg["runs"][tier]})
    exe_by_name, build_errors = {}, []
    from concurrent.futures import ThreadPoolExecutor
    with ThreadPoolExecutor(max_workers=min(8, max(1, len(harnesses)))) as tp:   # the compilers run side by side
        built = dict(zip(harnesses, tp.map(build_harness, harnesses)))
    for h in harnesses:
        exe, err = built[h]
        if exe is None:
            build_errors.append((h, err)); log("HARNESS BUILD FAILED %s:\n%s" % (h, err))
        else:
            # private hard link for this run: a concurrent run that cleans the cache cannot take the binary away
            # (the directory carries the harness name: run_chunk reports the engine of an abort from it)
            pdir = os.path.join(BUILD, "run", "hx_%d" % os.getpid(), h)
            priv = os.path.join(pdir, "exe")
            try:
                os.makedirs(pdir, exist_ok=True)
                if os.path.exists(priv): os.remove(priv)
                os.link(exe, priv)
                import atexit
                atexit.register(lambda p=os.path.dirname(pdir), me=os.getpid(): os.getpid() == me and shutil.rmtree(p, ignore_errors=True))
                exe = priv
            except OSError:
                pass
            exe_by_name[h] = exe
    # corpus: minimised earlier failures, stored as case references and re-executed against the real code
    cpath = os.path.join(VERIF, "corpus", pid + ".json")
    corpus = json.load(open(cpath)) if os.path.exists(cpath) else []
    corpus_files = []
    runs = [r for r in cfg["runs"][tier] if r[0] in exe_by_name]
    total = correspondence(exe_by_name, runs, seed, [])
    for (h, mode, cseed, idx) in corpus:
        if h in exe_by_name or build_harness(h)[0]:
            exe_by_name.setdefault(h, build_harness(h)[0])
            t1 = correspondence(exe_by_name, [(h, mode, idx, 1)], cseed, [])
            for k in ("cases", "lines", "ok", "nontrivial"):
                total[k] += t1[k]
            total["bad"].extend(t1["bad"]); total["hashes_nt"].update(t1["hashes_nt"]); total["crashes"].extend(t1["crashes"])
            for k, v in t1["known"].items():
                total["known"][k] = total["known"].get(k, 0) + v
    allbad = [b for v in total["bad"] for b in parse_bad_multi(v)]
    bad = [b for b in allbad if relevant(pid, cfg, b)]
    # differential wiring rule (C09: "the resulting state is identical to applying the same actions one by one outside
    # the model"): a property predicate of an action that fails on a step of Model::run_step (inside engines) while the
    # SAME predicate of the SAME action holds on every direct call of that action in this run (outside engines) shows
    # that the model does not apply the action as it is applied outside - wrong argument, wrong moment, wrong object
    wir = cfg.get("wiring")
    if wir:
        wkey = lambda b: (b["cmd"], b["tag"], b["detail"].split(" ")[0])
        outside = {wkey(b) for b in allbad if b["kind"] == "PROPFAIL" and b["where"] and b["where"][0] in wir["outside"]}
        for b in allbad:
            if (b["kind"] == "PROPFAIL" and b["tag"] != pid and b["where"] and b["where"][0] in wir["inside"]
                    and b["cmd"] in wir["commands"] and wkey(b) not in outside):
                nb = dict(b); nb["tag"] = pid
                nb["detail"] = ("state_differs_from_actions_applied_outside: inside Model::run_step %s fails %s %s, while every direct call of "
                                "the action in this run satisfies it" % (b["cmd"], b["tag"], b["detail"][:200]))
                bad.append(nb)

    def handle_propfails(blist, label):
        done = set()
        for b in blist:
            if b["kind"] != "PROPFAIL":
                continue
            key = b["where"] or b["raw"][:80]
            if key in done or len(done) >= 5:
                continue
            done.add(key)
            lines = verds = []
            if b["where"] and b["where"][0] in exe_by_name:
                lines, verds, _, _ = replay_case(exe_by_name[b["where"][0]], b["where"])
            w = b["where"] or ("corpus", "corpus", seed, 0)
            path = write_replay(pid, "%s-%s-%s-%d-%d.json" % (pid, label, w[1], w[2], w[3]),
                                {"property": pid, "kind": "propfail", "predicate": b["detail"], "engine": w[0], "mode": w[1], "seed": w[2],
                                 "index": w[3], "failing_line": b["line"], "lines": lines, "verdicts": verds})
            violations.append((path, ""))
        return bool(done)

    for b in bad:
        if b["kind"] == "KNOWN":
            fid = b["detail"].split(" ")[0]
            if known.get(fid, {}).get("status") == "open" and known[fid]["property"] == pid:
                known_hit[fid] = total["known"].get("KNOWN %s %s" % (pid, fid), 1)
            else:
                b["kind"] = "PROPFAIL"   # not listed as open: a violation like any other
    found = handle_propfails(bad, "propfail")

    # a harness that died (sanitizer abort, uncaught exception): find the case and replay it alone
    unresolved_crashes = []
    for cr in total["crashes"][:4]:
        m = re.match(r"# case (\S+) (\S+) (\d+) (\d+)", cr.get("last_case") or "")
        cands = [int(m.group(4)) + 1, int(m.group(4))] if m else [cr.get("first", 0)]
        eng = cr.get("engine")
        hit = None
        for idx in cands:
            if eng in exe_by_name:
                lines, verds, rc, err = replay_case(exe_by_name[eng], (eng, cr["mode"], cr["seed"], idx))
                if rc != 0:
                    hit = (idx, lines, err); break
        if hit:
            path = write_replay(pid, "%s-crash-%s-%d-%d.json" % (pid, cr["mode"], cr["seed"], hit[0]),
                                {"property": pid, "kind": "crash", "engine": eng, "mode": cr["mode"], "seed": cr["seed"], "index": hit[0],
                                 "exit_code": cr["rc"], "stderr_tail": hit[2], "lines": hit[1], "verdicts": []})
            log("HARNESS ABORTED in case %s %s %d %d:\n%s" % (eng, cr["mode"], cr["seed"], hit[0], hit[2][-800:]))
            violations.append((path, ""))
            found_crash = True
        else:
            unresolved_crashes.append(cr)
    total["crashes"] = unresolved_crashes
    mismatches = [b for b in bad if b["kind"] in ("MISMATCH", "BADLINE")]
    broken = bool(mismatches) or bool(problems) or bool(build_errors) or bool(total["crashes"])
    if broken and not found and not any(v[0].find("-crash-") >= 0 for v in violations):
        # 3. search for a concrete failing input near the disagreement
        log("correspondence/proof broken (%d mismatches, %d proof problems, %d crashes): searching for a failing input" %
            (len(mismatches), len(problems), len(total["crashes"])))
        search_runs = [(h, m, f, c * (4 if tier == "quick" else 1)) for (h, m, f, c) in runs]
        for s2 in range(seed + 101, seed + 104):
            t2 = correspondence(exe_by_name, search_runs, s2, [])
            b2 = [b for v in t2["bad"] for b in parse_bad_multi(v)]
            b2 = [b for b in b2 if relevant(pid, cfg, b)]
            for b in b2:
                if b["kind"] == "KNOWN" and not (known.get(b["detail"].split(" ")[0], {}).get("status") == "open"):
                    b["kind"] = "PROPFAIL"
            if handle_propfails(b2, "search"):
                found = True
                break
        if not found:
            what = []
            if problems: what.append({"broken_proof_obligations": problems})
            if build_errors: what.append({"harness_build_errors": [(h, e[-800:]) for h, e in build_errors]})
            if total["crashes"]: what.append({"crashes": total["crashes"][:3]})
            first = mismatches[0] if mismatches else None
            lines = verds = []
            if first and first["where"] and first["where"][0] in exe_by_name:
                lines, verds, _, _ = replay_case(exe_by_name[first["where"][0]], first["where"])
            w = (first["where"] if first and first["where"] else None) or (harnesses[0] if harnesses else "none", "none", seed, 0)
            path = write_replay(pid, "%s-broken-%d.json" % (pid, seed),
                                {"property": pid, "kind": "correspondence-or-proof-broken",
                                 "no_longer_checks": ([first["raw"][:500]] if first else []) + [json.dumps(x)[:1500] for x in what],
                                 "correspondence": "model %s vs implementation on command '%s'" % (cfg["lean_modules"], first["cmd"] if first else "-"),
                                 "theorems": cfg["theorems"], "engine": w[0], "mode": w[1], "seed": w[2], "index": w[3],
                                 "lines": lines, "verdicts": verds, "mismatch_count": len(mismatches)})
            violations.append((path, " no-failing-input-found"))

    for fid, n in sorted(known_hit.items()):
        log("KNOWN-FINDING: property=%s %s: %s (%d occurrences this run)" % (pid, fid, known[fid]["text"], n))
    for path, suffix in violations:
        log("VIOLATION property=%s replay=%s%s" % (pid, path, suffix))

    # 4. evidence
    ev = {
        "property_id": pid, "tier": tier, "seed": seed, "level": cfg["level"],
        "coverage": {
            "obligations": obligations, "discharged": discharged,
            "checker_cmd": "cd lean && lake build %s && lake env lean <#print axioms of each theorem>%s" %
                           (" ".join(cfg["lean_modules"]), " && lake env leanchecker <module>" if tier == "thorough" else ""),
            "trusted_base": config.TRUSTED_BASE + cfg.get("trusted_base", []),
            "theorems": cfg["theorems"], "axioms_used": lean_details["axioms_used"],
            "evaluations": total["lines"], "agreeing": total["ok"],
            "traces_validated_against_impl": total["cases"],
            "distinct_nontrivial": len(total["hashes_nt"]), "nontrivial_cases": total["nontrivial"],
            "rule": cfg["rule"], "samples": total["samples"][:3] or [{"note": "no case generated"}],
            "input_distribution": total["stats"], "exhaustive": bool(cfg.get("exhaustive", {}).get(tier, False)),
            "exhaustive_domains": cfg.get("exhaustive_note", {}).get(tier, ""),
            "corpus_cases": len(corpus),
            "mismatches": len(mismatches), "known_findings_hit": known_hit,
            "explanation": cfg.get("explanation", ""),
            "runs": [list(r) for r in runs], "lean": lean_details,
        },
        "assumptions": cfg.get("assumptions", []),
        "wall_s": round(time.time() - t0, 1),
        "violations": len(violations),
    }
    os.makedirs(os.path.join(OUTROOT, "evidence"), exist_ok=True)
    with open(os.path.join(OUTROOT, "evidence", pid + ".json"), "w") as fh:
        json.dump(ev, fh, indent=1)
    log("%s %s: %d theorems audited (%d ok), %d cases / %d compared lines (%d agree), %d distinct non-trivial, %d violations, %.1fs" %
        (pid, tier, obligations, discharged, total["cases"], total["lines"], total["ok"], len(total["hashes_nt"]), len(violations), time.time() - t0))
    sys.exit(1 if violations else 0)


if __name__ == "__main__":
    main()
