#!/usr/bin/env python3
"""Regenerates /verif/MANIFEST.json from tools/config.py (claimed checks) and tools/manifest_meta.py."""
import json, os, sys
HERE = os.path.dirname(os.path.abspath(__file__))
sys.path.insert(0, HERE)
import config, manifest_meta as mm
VERIF = os.path.dirname(HERE)
ALL = ["C%02d" % i for i in range(1, 21)]
def _engines():
    es = {e["name"]: dict(e) for e in mm.ENGINES}
    for n, e in config.ENGINES.items():
        es[n] = dict(e)
    for e in es.values():
        if e["name"] != "lean-model":
            e["serves_properties"] = sorted(p for p in CLAIMED if config.META[p]["engine"] == e["name"] or e["name"] in [r[0] for t in config.PROPS[p]["runs"].values() for r in t])
    es["lean-model"]["serves_properties"] = sorted(CLAIMED)
    return list(es.values())
import subprocess
_tracked = set(os.path.basename(f)[:-3] for f in subprocess.run(["git", "-C", VERIF, "ls-files", "tools/props"], capture_output=True, text=True).stdout.split())
CLAIMED = [p for p in ALL if p in config.PROPS and p in _tracked]   # only property files under version control
checks = []
for pid in ALL:
    if pid not in CLAIMED:
        continue
    c = config.PROPS[pid]
    meta = config.META[pid]
    checks.append({
        "property_id": pid,
        "quick_cmd": "python3 tools/check.py %s --tier quick" % pid,
        "thorough_cmd": "python3 tools/check.py %s --tier thorough" % pid,
        "evidence_file": "/verif/evidence/%s.json" % pid,
        "replay_cmd_template": "python3 tools/check.py %s --replay {path}" % pid,
        "engine": meta["engine"],
        "level_claimed": {"category": c["level"], "text": meta["text"], "design_ref": meta["design_ref"]},
        "level_note": meta["note"],
        "technique": meta["technique"],
    })
na = [{"property_id": p, "reason": mm.NOT_CLAIMED.get(p, "check not built yet; see DESIGN.md section 3 for the planned theorems")} for p in ALL if p not in CLAIMED]
man = {
    "version": 1,
    "setup_cmd": "cd /verif/lean && lake build PopsModel popsdriver",
    "hooks": mm.HOOKS,
    "engines": _engines(),
    "checks": checks,
    "notes": mm.NOTES,
    "not_applicable": na,
}
json.dump(man, open(os.path.join(VERIF, "MANIFEST.json"), "w"), indent=1)
print("MANIFEST.json: %d checks, %d not claimed" % (len(checks), len(na)))
