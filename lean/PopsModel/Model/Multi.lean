/-
  L1 model of include/pops/multi_host_pool.hpp, competency_table.hpp, pest_host_table.hpp and the
  table parts of config.hpp, per cell.

  A multi-host cell is a `List Cell`, one `Cell` (Model/Host.lean) per host pool, in the order in
  which the pools were registered in the environment (`Environment::host_index`). The hosts share
  the environment data of the cell (total population, weather coefficient) and the two tables.
  Every random decision of the C++ is an explicit argument: `pick` is what
  `std::discrete_distribution` returned in `pick_host_by_weight`, `u` the uniform of
  `can_disperser_establish`, the per-host counts `d` what `draw_n_from_v` produced.
  The functions return the number of generator calls they make, so that generator consumption
  can be compared with the bare host (`Cell.disperserTo`).
-/
import PopsModel.Model.Host
namespace Pops

/-! ### Config: arrival behaviour and the two tables -/

inductive Arrival where
  | land | infect
deriving DecidableEq, Repr, Inhabited

/-- `Config::set_arrival_behavior` (the default of the field is "infect"). -/
def arrivalFromString (s : String) : Except ErrKind Arrival :=
  if s = "infect" then .ok .infect
  else if s = "land" then .ok .land
  else .error .invalid_argument

/-- `Config::PestHostTableDataRow` (all three are doubles there). -/
structure PestHostRow where
  sus : Rat
  rate : Rat
  lag : Rat
deriving DecidableEq, Repr, Inhabited

/-- `Config::read_pest_host_table`: rows are appended one by one; the first bad row throws and
    the rows before it stay in the config. Returns the rows appended and the exception, if any. -/
def readPestHostTable : List (List Rat) → List PestHostRow × Option ErrKind
  | [] => ([], none)
  | row :: rest =>
    match row with
    | a :: b :: c :: _ =>
      if a < 0 ∨ a > 1 then ([], some .invalid_argument)
      else
        let (rows, e) := readPestHostTable rest
        ({ sus := a, rate := b, lag := c } :: rows, e)
    | _ => ([], some .invalid_argument)

/-- `Config::create_pest_host_table_from_parameters`. -/
def createPestHostTableFromParameters (numHosts : Int) (rate : Rat) (lag : Int) : List PestHostRow :=
  List.replicate numHosts.toNat { sus := 1, rate := rate, lag := (lag : Rat) }

/-- `Config::CompetencyTableDataRow`. -/
structure CompRow where
  presence : List Bool
  competency : Rat
deriving DecidableEq, Repr, Inhabited

/-- Loop body state of `Config::read_competency_table`: `first` is `first_row_size` once a row
    was seen. -/
def readCompetencyRows (first : Option Nat) : List (List Rat) → List CompRow × Option ErrKind
  | [] => ([], none)
  | row :: rest =>
    if (match first with | some n => decide (row.length ≠ n) | none => false) then ([], some .invalid_argument)
    else if row.length < 2 then ([], some .invalid_argument)
    else
      let (rows, e) := readCompetencyRows (some row.length) rest
      ({ presence := row.dropLast.map (fun x => decide (x ≠ 0)), competency := row.getLast?.getD 0 } :: rows, e)

/-- `Config::read_competency_table`. -/
def readCompetencyTable (values : List (List Rat)) : List CompRow × Option ErrKind :=
  readCompetencyRows none values

/-- `Config::competency_table_is_complete`: number of rows = 2 ^ (number of presence columns of
    the first row). -/
def competencyTableIsComplete (rows : List CompRow) : Bool :=
  match rows with
  | [] => false
  | r :: _ => rows.length == 2 ^ r.presence.length

/-- `PestHostTable`: three parallel vectors indexed by `Environment::host_index`; the time lag is
    stored as `int` (conversion from the config's double truncates toward zero). -/
structure PestHostTable where
  sus : List Rat
  rate : List Rat
  lag : List Int
deriving DecidableEq, Repr, Inhabited

/-- `static_cast<int>` of a double (truncation toward zero). -/
def truncToInt (q : Rat) : Int := if 0 ≤ q then q.floor else -((-q).floor)

/-- `PestHostTable(config, environment)`. -/
def PestHostTable.ofConfig (rows : List PestHostRow) : PestHostTable :=
  { sus := rows.map (·.sus), rate := rows.map (·.rate), lag := rows.map (fun r => truncToInt r.lag) }

/-- `std::vector::at`. -/
def atOrRange {α : Type} (l : List α) (k : Nat) : Except ErrKind α :=
  match l[k]? with
  | some x => .ok x
  | none => .error .out_of_range

def PestHostTable.susceptibility (t : PestHostTable) (host : Nat) : Except ErrKind Rat := atOrRange t.sus host
def PestHostTable.mortalityRate (t : PestHostTable) (host : Nat) : Except ErrKind Rat := atOrRange t.rate host
def PestHostTable.mortalityTimeLag (t : PestHostTable) (host : Nat) : Except ErrKind Int := atOrRange t.lag host

/-- `CompetencyTable`: the complete variant is a `std::map` filled by `map[key] = value` in row
    order (a later row with the same key overwrites), the partial one a vector of rows. -/
inductive CompetencyTable where
  | complete (rows : List CompRow)
  | part (rows : List CompRow)
deriving Repr, Inhabited

/-- `CompetencyTable(config, environment)`. -/
def CompetencyTable.ofConfig (rows : List CompRow) : CompetencyTable :=
  if competencyTableIsComplete rows then .complete rows else .part rows

/-- `complete_competency_table_.at(presence)` after the insertions in row order. -/
def completeLookup (rows : List CompRow) (presence : List Bool) : Except ErrKind Rat :=
  match rows.foldl (fun acc r => if r.presence = presence then some r.competency else acc) none with
  | some v => .ok v
  | none => .error .out_of_range

/-- The innermost loop of `find_competency`: all hosts required by the row are present
    (the sizes are equal when it runs). -/
def requiredPresent (rowPresence presence : List Bool) : Bool :=
  (List.zip rowPresence presence).all fun p => !p.1 || p.2

/-- One iteration of the row loop of `find_competency`, tests in the order of the code:
    row without the asking host -> skip; size mismatch -> invalid_argument; not higher than the
    current value -> skip; required hosts present -> take the row's value.
    (`row.presence[hostIndex]` beyond the row is undefined in C++; read as false here.) -/
def findCompetencyStep (presence : List Bool) (hostIndex : Nat) (competency : Rat) (row : CompRow) :
    Except ErrKind Rat :=
  if row.presence.getD hostIndex false = false then .ok competency
  else if presence.length ≠ row.presence.length then .error .invalid_argument
  else if row.competency ≤ competency then .ok competency
  else if requiredPresent row.presence presence then .ok row.competency
  else .ok competency

/-- `CompetencyTable::find_competency`, started from `competency`. -/
def findCompetencyFrom (presence : List Bool) (hostIndex : Nat) : Rat → List CompRow → Except ErrKind Rat
  | competency, [] => .ok competency
  | competency, row :: rest =>
    match findCompetencyStep presence hostIndex competency row with
    | .ok v => findCompetencyFrom presence hostIndex v rest
    | .error e => .error e

def findCompetency (rows : List CompRow) (presence : List Bool) (hostIndex : Nat) : Except ErrKind Rat :=
  findCompetencyFrom presence hostIndex 0 rows

/-- `CompetencyTable::competency_at` for the host with index `hostIndex`, `presence` being
    `Environment::host_presence_at` of the cell. -/
def CompetencyTable.competencyAt (t : CompetencyTable) (presence : List Bool) (hostIndex : Nat) :
    Except ErrKind Rat :=
  match t with
  | .complete rows => completeLookup rows presence
  | .part rows => findCompetency rows presence hostIndex

/-! ### the hosts of one cell -/

/-- Constructor parameters of one `HostPool`. -/
structure HostParams where
  mt : ModelType
  sto : Bool          -- establishment_stochasticity of that pool
  pEst : Rat          -- its deterministic establishment probability
  rr : Rat            -- reproductive rate
deriving Repr, Inhabited

/-- What the multi-host pool reads from its `Config`. -/
structure MultiCfg where
  arrival : Arrival
  sto : Bool          -- config.establishment_stochasticity
  pEst : Rat          -- config.establishment_probability
deriving Repr, Inhabited

/-- Environment data shared by the hosts at one cell, and the tables attached to the pools. -/
structure MEnv where
  n : Int                          -- total_population_at
  w : Option Rat                   -- weather coefficient when weather is set
  pht : Option PestHostTable
  comp : Option CompetencyTable
deriving Repr, Inhabited

/-- `HostPool::total_hosts_at` (susceptible + infected only). -/
def Cell.totalHostsAt (c : Cell) : Int := c.s + c.i

/-- `Environment::host_presence_at`: `total_hosts_at` converted to bool, per host. -/
def hostPresence (cells : List Cell) : List Bool := cells.map fun c => decide (c.totalHostsAt ≠ 0)

/-- What host `host` sees as its environment (its own susceptibility from the pest-host table). -/
def MEnv.cellEnv (env : MEnv) (host : Nat) : Except ErrKind EnvCell :=
  match env.pht with
  | none => .ok { n := env.n, w := env.w, sus := none }
  | some t => do
    let s ← t.susceptibility host
    pure { n := env.n, w := env.w, sus := some s }

/-- `host->suitability_at(row, col)` of host number `host`. -/
def hostSuitability (env : MEnv) (host : Nat) (c : Cell) : Except ErrKind Rat := do
  let e ← env.cellEnv host
  c.suitability e

/-- The first loop of `MultiHostPool::disperser_to`: suitabilities of hosts `k, k+1, ...` in
    order; the first one that throws ends the call. -/
def suitabilitiesFrom (env : MEnv) : Nat → List Cell → Except ErrKind (List Rat)
  | _, [] => .ok []
  | k, c :: rest => do
    let p ← hostSuitability env k c
    let ps ← suitabilitiesFrom env (k + 1) rest
    pure (p :: ps)

def suitabilities (env : MEnv) (cells : List Cell) : Except ErrKind (List Rat) :=
  suitabilitiesFrom env 0 cells

/-- `total_suitability_score`: accumulated left to right from 0. -/
def sumR (l : List Rat) : Rat := l.foldl (· + ·) 0

/-- `pick_host_by_weight`: one host -> that host, no draw; otherwise `hosts.at(distribution(g))`,
    one draw. Returns the host index and the number of generator calls. -/
def pickHostByWeight (nHosts : Nat) (pick : Nat) : Except ErrKind (Nat × Nat) :=
  if nHosts = 1 then .ok (0, 0)
  else if pick < nHosts then .ok (pick, 1)
  else .error .out_of_range

/-- What libstdc++'s `discrete_distribution` can return for the weights and the uniform `v` it
    drew: an index with positive weight, or index 0 when `v = 0` (lower_bound on the cumulative
    table finds the first entry `>= v`, so a leading zero weight is hit by `v = 0`). -/
def validPickB (weights : List Rat) (v : Rat) (pick : Nat) : Bool :=
  decide (pick < weights.length) && (decide (weights.getD pick 0 > 0) || (decide (v = 0) && pick == 0))

/-- The "land" branch of `MultiHostPool::disperser_to` on host `h`: the chosen host needs a
    susceptible individual, the establishment test uses the TOTAL suitability and the settings of
    the config, `add_disperser_at` of the host does the rest. `d0` = generator calls so far. -/
def landOn (cfg : MultiCfg) (mt : ModelType) (cells : List Cell) (total : Rat) (h d0 : Nat) (u : Rat) :
    List Cell × Int × Nat :=
  let c := cells[h]!
  if c.s ≤ 0 then (cells, 0, d0)
  else
    let used := if cfg.sto then 1 else 0
    if canEstablish total cfg.sto cfg.pEst u then
      let (c', k) := c.addDisperserAt mt
      (cells.set h c', k, d0 + used)
    else (cells, 0, d0 + used)

/-- The "infect" branch: the chosen host's own `disperser_to` (its own suitability and settings). -/
def infectOn (p : HostParams) (env : MEnv) (cells : List Cell) (h d0 : Nat) (u : Rat) :
    Except ErrKind (List Cell × Int × Nat) := do
  let e ← env.cellEnv h
  let (c', k, n) ← (cells[h]!).disperserTo p.mt e p.sto p.pEst u
  pure (cells.set h c', k, d0 + n)

/-- `MultiHostPool::disperser_to`. Returns the new cells, 0/1 and the number of generator calls. -/
def multiDisperserTo (cfg : MultiCfg) (ps : List HostParams) (env : MEnv) (cells : List Cell)
    (pick : Nat) (u : Rat) : Except ErrKind (List Cell × Int × Nat) := do
  let suits ← suitabilities env cells
  let total := sumR suits
  if total ≤ 0 then pure (cells, 0, 0)
  else if total > 1 then .error .invalid_argument
  else do
    let (h, d0) ← pickHostByWeight cells.length pick
    match cfg.arrival with
    | .land => pure (landOn cfg (ps[h]!).mt cells total h d0 u)
    | .infect => infectOn (ps[h]!) env cells h d0 u

/-! ### sums -/

/-- `MultiHostPool::infected_at`. -/
def multiInfectedAt (cells : List Cell) : Int := sumL (cells.map (·.i))

/-- `MultiHostPool::total_hosts_at`. -/
def multiTotalHostsAt (cells : List Cell) : Int := sumL (cells.map Cell.totalHostsAt)

/-- `HostPool::dispersers_from` of host `host` with deterministic generation: the reproductive
    rate is scaled by the weather coefficient and by the competency of the host combination. -/
def hostDispersersFrom (env : MEnv) (presence : List Bool) (host : Nat) (p : HostParams) (c : Cell) :
    Except ErrKind Int :=
  if c.i ≤ 0 then .ok 0
  else do
    let lam := p.rr * env.w.getD 1
    let lam ← match env.comp with
      | none => pure lam
      | some t => do
        let k ← t.competencyAt presence host
        pure (lam * k)
    pure (c.dispersersFromDet lam)

def dispersersFromLoop (env : MEnv) (presence : List Bool) : Nat → List HostParams → List Cell → Except ErrKind Int
  | k, p :: ps, c :: rest => do
    let a ← hostDispersersFrom env presence k p c
    let b ← dispersersFromLoop env presence (k + 1) ps rest
    pure (a + b)
  | _, _, _ => .ok 0

/-- `MultiHostPool::dispersers_from` (deterministic generation). -/
def multiDispersersFrom (env : MEnv) (ps : List HostParams) (cells : List Cell) : Except ErrKind Int :=
  dispersersFromLoop env (hostPresence cells) 0 ps cells

/-! ### pests leaving / arriving -/

/-- `int` -> `unsigned` conversion of the `count` argument of `draw_n_from_v`. -/
def toUnsigned (n : Int) : Int := n % 4294967296

/-- What `draw_n_from_v` over the vector holding index `h` repeated `avail[h]` times can give as
    per-host counts: within each host's availability, summing to `min (unsigned)count total`. -/
def ValidSplit (avail : List Int) (count : Int) (d : List Int) : Prop := ValidDraw avail (toUnsigned count) d

def validSplitB (avail : List Int) (count : Int) (d : List Int) : Bool := validDrawB avail (toUnsigned count) d

/-- `MultiHostPool::pests_from`, `d` being the per-host counts of the draw. -/
def multiPestsFrom (cells : List Cell) (d : List Int) : List Cell × Int :=
  let rs := List.zipWith Cell.pestsFrom cells d
  (rs.map (·.1), sumL (rs.map (·.2)))

/-- `MultiHostPool::pests_to`. -/
def multiPestsTo (cells : List Cell) (d : List Int) : List Cell × Int :=
  let rs := List.zipWith Cell.pestsTo cells d
  (rs.map (·.1), sumL (rs.map (·.2)))

/-! ### mortality from the pest-host table -/

/-- `HostPool::apply_mortality_at(row, col)` of host number `host`. -/
def hostApplyMortality (env : MEnv) (host : Nat) (c : Cell) : Except ErrKind Cell :=
  match env.pht with
  | none => .error .invalid_argument
  | some t => do
    let rate ← t.mortalityRate host
    let lag ← t.mortalityTimeLag host
    c.applyMortality rate lag

def applyMortalityFrom (env : MEnv) : Nat → List Cell → Except ErrKind (List Cell)
  | _, [] => .ok []
  | k, c :: rest => do
    let c' ← hostApplyMortality env k c
    let rest' ← applyMortalityFrom env (k + 1) rest
    pure (c' :: rest')

/-- `MultiHostPool::apply_mortality_at(row, col)`: every host in order, each with its own rate
    and time lag. -/
def multiApplyMortality (env : MEnv) (cells : List Cell) : Except ErrKind (List Cell) :=
  applyMortalityFrom env 0 cells

/-- `MultiHostPool::apply_mortality_at(row, col, rate, lag)`: the same parameters for all. -/
def multiApplyMortalityWith (rate : Rat) (lag : Int) : List Cell → Except ErrKind (List Cell)
  | [] => .ok []
  | c :: rest => do
    let c' ← c.applyMortality rate lag
    let rest' ← multiApplyMortalityWith rate lag rest
    pure (c' :: rest')

/-! ### host movement -/

/-- `MultiHostPool::move_hosts_from_to`: forwarded to the first host only. -/
def multiMoveHosts (src dst : List Cell) (count : Int) (d : ClassDraw) (drawE drawM : List Int) :
    List Cell × List Cell × Int :=
  match src, dst with
  | s0 :: srest, d0 :: drest =>
    let (s', d', moved) := moveHosts s0 d0 count d drawE drawM
    (s' :: srest, d' :: drest, moved)
  | _, _ => (src, dst, 0)

end Pops
