/-
  Property predicates of C16 (several hosts), decidable and executable: the driver evaluates them
  on the implementation's observed values, the theorems in Props/C16.lean prove them of the model.
-/
import PopsModel.Model.Multi
import PopsModel.Model.HostPred
namespace Pops

/-! ### sums -/

/-- C16: the pool reports the sums over its hosts. -/
def sumsSpec (cells : List Cell) (infected total : Int) : Bool :=
  decide (infected = sumL (cells.map (·.i))) && decide (total = sumL (cells.map fun c => c.s + c.i))

/-! ### landing -/

/-- Susceptibility factor of host `host` (1 without a pest-host table). -/
def susOf (env : MEnv) (host : Nat) : Rat :=
  match env.pht with
  | none => 1
  | some t => t.sus.getD host 1

/-- The weight of one host: susceptible / total population x its own susceptibility x weather. -/
def hostWeight (env : MEnv) (host : Nat) (c : Cell) : Rat :=
  (c.s : Rat) / (env.n : Rat) * susOf env host * env.w.getD 1

def hostWeightsFrom (env : MEnv) : Nat → List Cell → List Rat
  | _, [] => []
  | k, c :: rest => hostWeight env k c :: hostWeightsFrom env (k + 1) rest

def hostWeights (env : MEnv) (cells : List Cell) : List Rat := hostWeightsFrom env 0 cells

/-- C16: a landing changes at most one host, by exactly one S -> E/I, and that host had a
    susceptible individual; the result is 0 or 1. -/
def atMostOneSpec (ps : List HostParams) (pre post : List Cell) (result : Int) : Bool :=
  (decide (result = 0) && post == pre) ||
  (decide (result = 1) && (List.range pre.length).any fun h =>
    decide ((pre[h]!).s > 0) && landingSpec (ps[h]!).mt (pre[h]!) (post[h]!) 1 && post == pre.set h (post[h]!))

/-- The host a landing is handed to: the only one, or the drawn one. -/
def landingHost (nHosts pick : Nat) : Nat := if nHosts = 1 then 0 else pick

/-- C16 / C12 for several hosts: with weights `ws` (one per host) a landing establishes iff the
    combined weight is positive, the chosen host has a susceptible individual and the tester is
    below the combined weight ("land", tester from the config) or below the chosen host's own
    weight ("infect", tester from that host's settings). -/
def multiEstablishSpec (cfg : MultiCfg) (ps : List HostParams) (ws : List Rat) (cells : List Cell)
    (pick : Nat) (u : Rat) (result : Int) : Bool :=
  let total := sumR ws
  let h := landingHost cells.length pick
  let expected : Int :=
    if total ≤ 0 then 0
    else match cfg.arrival with
      | .land => if (cells[h]!).s > 0 ∧ (if cfg.sto then u else 1 - cfg.pEst) < total then 1 else 0
      | .infect => if (cells[h]!).s > 0 ∧ (if (ps[h]!).sto then u else 1 - (ps[h]!).pEst) < ws[h]! then 1 else 0
  decide (result = expected)

/-! ### pests leaving / arriving -/

/-- C16: the per-host amounts `d` stay within each host's availability, the returned total is
    their sum, does not exceed a non-negative request and equals `min count (sum avail)`. -/
def splitSpec (avail : List Int) (count : Int) (d : List Int) (ret : Int) : Bool :=
  d.length == avail.length &&
  (List.zip d avail).all (fun p => decide (0 ≤ p.1) && decide (p.1 ≤ p.2)) &&
  decide (ret = sumL d) &&
  (decide (count < 0) || (decide (ret ≤ count) && decide (ret = min count (sumL avail))))

/-- What `pests_from` does to the hosts given the amounts. -/
def pestsFromStateSpec (pre post : List Cell) (d : List Int) : Bool :=
  post == List.zipWith (fun (c : Cell) (k : Int) => { c with s := c.s + k, i := c.i - k }) pre d

def pestsToStateSpec (pre post : List Cell) (d : List Int) : Bool :=
  post == List.zipWith (fun (c : Cell) (k : Int) => { c with s := c.s - k, i := c.i + k }) pre d

/-! ### competency -/

/-- A partial-table row counts for host `host` at a cell iff it lists that host and all hosts it
    lists are present. -/
def rowEligible (presence : List Bool) (host : Nat) (r : CompRow) : Bool :=
  r.presence.getD host false && requiredPresent r.presence presence

/-- The highest competency among the eligible rows, 0 when there is none (or none is positive). -/
def maxEligible (rows : List CompRow) (presence : List Bool) (host : Nat) : Rat :=
  ((rows.filter (rowEligible presence host)).map (·.competency)).foldl max 0

/-- `v` is the maximum over the eligible rows (and 0). -/
def isMaxEligible (rows : List CompRow) (presence : List Bool) (host : Nat) (v : Rat) : Bool :=
  decide (0 ≤ v) &&
  rows.all (fun r => !(rowEligible presence host r) || decide (r.competency ≤ v)) &&
  (decide (v = 0) || rows.any (fun r => rowEligible presence host r && decide (r.competency = v)))

/-- Every row that lists the host has as many columns as there are hosts (otherwise the lookup
    is rejected). -/
def rowsFit (rows : List CompRow) (presence : List Bool) (host : Nat) : Bool :=
  rows.all fun r => !(r.presence.getD host false) || r.presence.length == presence.length

/-- The matching row of a complete table (the last one, should a combination be repeated). -/
def isMatchingRow (rows : List CompRow) (presence : List Bool) (v : Rat) : Bool :=
  match (rows.reverse.find? fun r => r.presence == presence) with
  | some r => decide (r.competency = v)
  | none => false

/-- The competency the property prescribes for host `host` (none: rejected lookup). -/
def competencySpec (t : CompetencyTable) (presence : List Bool) (host : Nat) : Option Rat :=
  match t with
  | .complete rows => (rows.reverse.find? fun r => r.presence == presence).map (·.competency)
  | .part rows => if rowsFit rows presence host then some (maxEligible rows presence host) else none

/-- C16: dispersers of one host = round (reproductive rate x weather x competency x infected). -/
def hostDispersersSpec (env : MEnv) (presence : List Bool) (host : Nat) (p : HostParams) (c : Cell) : Option Int :=
  if c.i ≤ 0 then some 0
  else
    match env.comp with
    | none => some (lround (p.rr * env.w.getD 1 * (c.i : Rat)))
    | some t => (competencySpec t presence host).map fun k => lround (p.rr * env.w.getD 1 * k * (c.i : Rat))

def dispersersSpecFrom (env : MEnv) (presence : List Bool) : Nat → List HostParams → List Cell → Option Int
  | k, p :: ps, c :: rest => do
    let a ← hostDispersersSpec env presence k p c
    let b ← dispersersSpecFrom env presence (k + 1) ps rest
    pure (a + b)
  | _, _, _ => some 0

/-- C16: the pool's dispersers are the sum of the hosts' dispersers, each scaled by competency. -/
def dispersersSpec (env : MEnv) (ps : List HostParams) (cells : List Cell) : Option Int :=
  dispersersSpecFrom env (hostPresence cells) 0 ps cells

/-! ### single host -/

/-- F19 region: the cell has susceptible hosts but suitability 0. -/
def f19Region (c : Cell) (e : EnvCell) : Bool :=
  decide (c.s > 0) && decide ((c.s : Rat) / (e.n : Rat) * e.sus.getD 1 * e.w.getD 1 = 0)

end Pops
