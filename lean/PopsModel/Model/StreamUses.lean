/-
  Which stream each stochastic process of the model draws from.

  * `Act σ α`: a computation whose only access to the generator provider is "apply some
    distribution to the generator that the accessor of stream `n` returns" (`use n dist k`);
    everything else (rasters, pools, loop bounds, branches) is ordinary data in the continuation.
  * `Proc`, `UseCfg`, `uses`: the table "process x enabled features -> streams it may draw from",
    read off include/pops/actions.hpp, natural_anthropogenic_kernel.hpp, natural_kernel.hpp,
    anthropogenic_kernel.hpp, soils.hpp, environment.hpp, host_pool.hpp, multi_host_pool.hpp,
    model.hpp (the wiring `Model::run_step` / `Model::activate_soils` uses).
  * skeletons of the processes with the draw sites and the flags that guard them, the
    non-random logic as oracle functions.
-/
import PopsModel.Model.Stream
namespace Pops

/-- A distribution (or `std::shuffle`) applied to a generator: consumes some of its state and
    returns a result, encoded as a number. -/
abbrev Dist (σ : Type) := σ → Nat × σ

namespace Provider
variable {σ : Type}
/-- Apply a distribution to the generator the accessor of stream `n` returns. -/
def useStream (p : Provider σ) (n : StreamName) (d : Dist σ) : Nat × Provider σ :=
  let r := d (p.get n)
  (r.1, p.update n r.2)
end Provider

/-- Computations that reach the provider only through the named accessors. -/
inductive Act (σ : Type) (α : Type) where
  | ret (a : α)
  | use (n : StreamName) (d : Dist σ) (k : Nat → Act σ α)

namespace Act
variable {σ α β : Type}

def bind : Act σ α → (α → Act σ β) → Act σ β
  | ret a, f => f a
  | use n d k, f => use n d (fun v => (k v).bind f)

/-- Execution against a provider. -/
def run : Act σ α → Provider σ → α × Provider σ
  | ret a, p => (a, p)
  | use n d k, p => (k (p.useStream n d).1).run (p.useStream n d).2

/-- All accessors the computation can ever call are in `U`. -/
inductive Within (U : List StreamName) : Act σ α → Prop where
  | ret (a : α) : Within U (ret a)
  | use (n : StreamName) (d : Dist σ) (k : Nat → Act σ α) :
      n ∈ U → (∀ v, Within U (k v)) → Within U (use n d k)

/-- One sample. -/
def sample (n : StreamName) (d : Dist σ) : Act σ Nat := use n d ret

/-- `k` samples in a row (`for (k...) x += distribution(generator)`). -/
def samples (n : StreamName) (d : Dist σ) : Nat → Act σ (List Nat)
  | 0 => ret []
  | k + 1 => (sample n d).bind fun v => (samples n d k).bind fun vs => ret (v :: vs)

/-- A loop threading the world state. -/
def forEach {ι W : Type} (body : ι → W → Act σ W) : List ι → W → Act σ W
  | [], w => ret w
  | x :: xs, w => (body x w).bind (forEach body xs)

/-- A guarded draw site. -/
def guarded (b : Bool) (a : Act σ (List Nat)) : Act σ (List Nat) := if b then a else ret []

end Act

/-! ### The table -/

/-- The processes of a simulation step (the action blocks of `Model::run_step`, with the two
    halves of the spread action also separately) and the stochastic weather update the client
    calls on the environment. -/
inductive Proc where
  | weather | soilNext | lethal | survival | generate | disperse | spread | stepForward
  | overpopulation | movement | treatments | mortality | spreadRate | quarantine
deriving DecidableEq, Repr, Inhabited

def Proc.all : List Proc :=
  [.weather, .soilNext, .lethal, .survival, .generate, .disperse, .spread, .stepForward,
   .overpopulation, .movement, .treatments, .mortality, .spreadRate, .quarantine]

/-- Name of the action block in the trace hook. -/
def Proc.ofName? : String → Option Proc
  | "weather" => some .weather | "soil_next_step" => some .soilNext
  | "lethal_temperature" => some .lethal | "survival_rate" => some .survival
  | "generate" => some .generate | "disperse" => some .disperse | "spread" => some .spread
  | "step_forward" => some .stepForward | "overpopulation" => some .overpopulation
  | "movement" => some .movement | "treatments" => some .treatments
  | "mortality" => some .mortality | "spread_rate" => some .spreadRate
  | "quarantine" => some .quarantine | _ => none

/-- Kernel classes as far as their use of the generator goes: `radial` stands for every type
    served by `RadialDispersalKernel` (stochastic) / `DeterministicDispersalKernel`
    (`dispersal_stochasticity = false`). -/
inductive KernelKind where
  | radial | uniform | detNeighbor | network
deriving DecidableEq, Repr, Inhabited

/-- Does a kernel of this kind draw (`create_natural_kernel` / `create_anthro_kernel`): the
    uniform and network kernels always, the neighbour kernel never, the others iff
    `dispersal_stochasticity`. -/
def kernelDraws (k : KernelKind) (dispersalStochastic : Bool) : Bool :=
  match k with
  | .uniform => true
  | .network => true
  | .detNeighbor => false
  | .radial => dispersalStochastic

/-- The features that decide which draw sites are reachable. -/
structure UseCfg where
  /-- `Config::generate_stochasticity` -/
  generateStochastic : Bool := true
  /-- `Config::establishment_stochasticity` -/
  establishmentStochastic : Bool := true
  /-- number of single-host pools in the multi-host pool -/
  hosts : Nat := 1
  /-- `Model::activate_soils` was called -/
  soils : Bool := false
  /-- `Config::use_anthropogenic_kernel` -/
  useAnthro : Bool := false
  /-- `Config::dispersal_stochasticity` -/
  dispersalStochastic : Bool := true
  naturalKernel : KernelKind := .radial
  anthroKernel : KernelKind := .radial
  /-- a client-supplied kernel factory instead of `create_dynamic_kernel`: the accessors its
      kernel calls -/
  injectedKernel : Option (List StreamName) := none
  -- which processes take part in the run
  useLethal : Bool := false
  useSurvival : Bool := false
  useOverpopulation : Bool := false
  useMovements : Bool := false
  /-- the client calls `update_weather_from_distribution` -/
  weatherFromDistribution : Bool := false
  /-- `Config::movement_stochasticity`. Nothing in the library reads it, so nothing in the model of
      the code (`uses`, `usesRun`, the skeletons) depends on it; it matters only for what the
      property allows (`specUses`, Model/StreamSpec.lean; open finding F29). -/
  movementStochastic : Bool := true
deriving Repr, Inhabited, DecidableEq

/-- Streams the dispersal kernel of the spread action may draw from
    (`NaturalAnthropogenicDispersalKernel::operator()`): the natural kernel gets
    `natural_dispersal()`, the natural-or-anthropogenic coin and the anthropogenic kernel get
    `anthropogenic_dispersal()`; the coin is tossed only when the anthropogenic kernel is on. -/
def kernelUses (c : UseCfg) : List StreamName :=
  match c.injectedKernel with
  | some l => l
  | none =>
    (if kernelDraws c.naturalKernel c.dispersalStochastic then [.naturalDispersal] else []) ++
    (if c.useAnthro then [.anthropogenicDispersal] else [])

/-- Does a landing disperser consult the establishment stream: the uniform tester iff
    establishment is stochastic; with two or more hosts the receiving host is drawn
    (`pick_host_by_weight`) whatever the stochasticity setting (observation O2). -/
def establishmentDraws (c : UseCfg) : Bool := c.establishmentStochastic || decide (2 ≤ c.hosts)

/-- `SpreadAction::generate`: Poisson samples from `disperser_generation()` iff generation is
    stochastic; the share sent to the soil is tested with uniforms from `soil()` iff soils are
    active and establishment is stochastic. -/
def usesGenerate (c : UseCfg) : List StreamName :=
  (if c.generateStochastic then [.disperserGeneration] else []) ++
  (if c.soils && c.establishmentStochastic then [.soil] else [])

/-- `SpreadAction::disperse`: kernel, establishment, and - with soils - the release from the soil
    pool (Poisson samples iff generation is stochastic, and always the shuffle that picks the
    cohorts), whose dispersers land through the establishment stream as well. -/
def usesDisperse (c : UseCfg) : List StreamName :=
  kernelUses c ++ (if establishmentDraws c then [.establishment] else []) ++
  (if c.soils then [.soil] else [])

/-- Streams a process may draw from. Movement always draws (the classes and cohorts of the moved
    hosts are shuffled from `movement()`; `Config::movement_stochasticity` is read nowhere -
    observation O1); lethal temperature, survival rate and overpopulation have no deterministic
    mode either. -/
def uses (P : Proc) (c : UseCfg) : List StreamName :=
  match P with
  | .weather => [.weather]
  | .lethal => [.lethalTemperature]
  | .survival => [.survivalRate]
  | .generate => usesGenerate c
  | .disperse => usesDisperse c
  | .spread => usesGenerate c ++ usesDisperse c
  | .overpopulation => [.overpopulation]
  | .movement => [.movement]
  | .soilNext | .stepForward | .treatments | .mortality | .spreadRate | .quarantine => []

/-- Streams that certainly advance when the process has work that needs a draw (the harness
    reports such work: a cell with at least two infected hosts to clear, a host-movement row over
    at least two hosts, an infected cell under stochastic generation ...). Used only as a lenient
    cross-check of the table by the driver, not by any theorem. -/
def mustUse (P : Proc) (c : UseCfg) : List StreamName :=
  match P with
  | .weather => [.weather]
  | .lethal => [.lethalTemperature]
  | .survival => [.survivalRate]
  | .overpopulation => [.overpopulation]
  | .movement => [.movement]
  | .spread | .generate => if c.generateStochastic then [.disperserGeneration] else []
  | _ => []

/-- Does the process take part in a run with these features? -/
def enabled (c : UseCfg) : Proc → Bool
  | .weather => c.weatherFromDistribution
  | .soilNext => c.soils
  | .lethal => c.useLethal
  | .survival => c.useSurvival
  | .overpopulation => c.useOverpopulation
  | .movement => c.useMovements
  | _ => true

/-- Streams a whole run may draw from. -/
def usesRun (c : UseCfg) : List StreamName :=
  (Proc.all.filter (enabled c)).flatMap (fun P => uses P c)

/-! ### Skeletons of the processes

Each skeleton has the loops, the flags and the draw sites of the code; the non-random parts are
oracle functions of the world state `W` (results of draws are passed to them). -/

section Skeletons
variable {σ W : Type}

/-- `Environment::update_weather_from_distribution`: one sample per cell from `weather()`. -/
def weatherAct (cells : List (Int × Int)) (normal : Int × Int → Dist σ)
    (store : W → Int × Int → Nat → W) (w : W) : Act σ W :=
  Act.forEach (fun cell w => (Act.sample .weather (normal cell)).bind fun v => .ret (store w cell v)) cells w

/-- `remove_infected_at` / `remove_exposed_at` of one host: the cohorts are shuffled only for a
    positive count. -/
def removeAct (n : StreamName) (count : W → Nat) (shuffle : W → Dist σ) (apply : W → Option Nat → W)
    (w : W) : Act σ W :=
  if count w > 0 then (Act.sample n (shuffle w)).bind fun r => .ret (apply w (some r))
  else .ret (apply w none)

/-- `RemoveByTemperature::action`: suitable cells below the threshold, every host. -/
def lethalAct (suitable : W → List (Int × Int)) (below : W → Int × Int → Bool) (hosts : List Nat)
    (count : Int × Int → Nat → W → Nat) (shuffle : Int × Int → Nat → W → Dist σ)
    (apply : Int × Int → Nat → W → Option Nat → W) (w : W) : Act σ W :=
  Act.forEach (fun cell w =>
    if below w cell then
      Act.forEach (fun h w => removeAct .lethalTemperature (count cell h) (shuffle cell h) (apply cell h) w) hosts w
    else .ret w) (suitable w) w

/-- `SurvivalRateAction::action`: cells with rate < 1, every host: infected, then exposed. -/
def survivalAct (suitable : W → List (Int × Int)) (partial_ : W → Int × Int → Bool) (hosts : List Nat)
    (countI countE : Int × Int → Nat → W → Nat) (shuffleI shuffleE : Int × Int → Nat → W → Dist σ)
    (applyI applyE : Int × Int → Nat → W → Option Nat → W) (w : W) : Act σ W :=
  Act.forEach (fun cell w =>
    if partial_ w cell then
      Act.forEach (fun h w =>
        (removeAct .survivalRate (countI cell h) (shuffleI cell h) (applyI cell h) w).bind
          (removeAct .survivalRate (countE cell h) (shuffleE cell h) (applyE cell h))) hosts w
    else .ret w) (suitable w) w

/-- `SpreadAction::generate`. -/
def generateAct (c : UseCfg) (suitable : W → List (Int × Int)) (infected : W → Int × Int → Nat)
    (poisson : W → Int × Int → Dist σ) (generated : W → Int × Int → List Nat → Int)
    (toSoil : W → Int × Int → Int → Nat) (uniform : Dist σ)
    (store : W → Int × Int → Int → List Nat → W) (w : W) : Act σ W :=
  Act.forEach (fun cell w =>
    (Act.guarded c.generateStochastic (Act.samples .disperserGeneration (poisson w cell) (infected w cell))).bind fun xs =>
      let d := generated w cell xs
      if d > 0 && c.soils then
        (Act.guarded c.establishmentStochastic (Act.samples .soil uniform (toSoil w cell d))).bind fun us =>
          .ret (store w cell d us)
      else .ret (store w cell d [])) (suitable w) w

/-- A client-supplied kernel: any computation within the accessors it declares. The library
    kernel (`NaturalAnthropogenicDispersalKernel::operator()`): the coin from
    `anthropogenic_dispersal()` only when the anthropogenic kernel is on and the cell eligible;
    then one of the two kernels on its own stream; a kernel that does not draw is a pure
    function. -/
def libraryKernelAct (c : UseCfg) (eligible : Bool) (coin natural anthro : Dist σ)
    (pureNatural pureAnthro : Nat) : Act σ Nat :=
  let nat : Act σ Nat :=
    if kernelDraws c.naturalKernel c.dispersalStochastic then Act.sample .naturalDispersal natural
    else .ret pureNatural
  if c.useAnthro && eligible then
    (Act.sample .anthropogenicDispersal coin).bind fun b =>
      if b = 1 then nat
      else if kernelDraws c.anthroKernel c.dispersalStochastic then Act.sample .anthropogenicDispersal anthro
      else .ret pureAnthro
  else nat

/-- `MultiHostPool::disperser_to`: nothing for a non-positive total suitability; the receiving
    host is drawn iff there are two or more hosts; the uniform tester iff establishment is
    stochastic (and the chosen host has a susceptible individual). -/
def landAct (c : UseCfg) (positive hasSusceptible : W → Nat → Bool) (pick uniform : Dist σ)
    (apply : W → Nat → Nat → Option Nat → W) (target : Nat) (w : W) : Act σ W :=
  if positive w target then
    (Act.guarded (decide (2 ≤ c.hosts)) (Act.samples .establishment pick 1)).bind fun h =>
      let host := h.headD 0
      if hasSusceptible w host then
        (Act.guarded c.establishmentStochastic (Act.samples .establishment uniform 1)).bind fun u =>
          .ret (apply w target host u.head?)
      else .ret w
  else .ret w

/-- `SpreadAction::disperse`: per suitable cell, one kernel call and one landing per disperser
    that stays inside; then, with soils, the release from the soil pool (Poisson samples iff
    generation is stochastic, the cohort shuffle always) and a landing per released disperser. -/
def disperseAct (c : UseCfg) (kernel : W → Int × Int → Act σ Nat) (suitable : W → List (Int × Int))
    (dispersers : W → Int × Int → Nat) (inside : W → Nat → Bool) (outside : W → Nat → W)
    (land : Nat → W → Act σ W)
    (soilCount : W → Int × Int → Nat) (poisson : W → Int × Int → Dist σ) (shuffle : W → Int × Int → Dist σ)
    (released : W → Int × Int → List Nat → Nat → Nat) (afterRelease : W → Int × Int → List Nat → Nat → W)
    (cellIndex : Int × Int → Nat) (w : W) : Act σ W :=
  Act.forEach (fun cell w =>
    (Act.forEach (fun (_ : Unit) w =>
      (kernel w cell).bind fun t => if inside w t then land t w else .ret (outside w t))
      (List.replicate (dispersers w cell) ()) w).bind fun w =>
    if c.soils then
      (Act.guarded c.generateStochastic (Act.samples .soil (poisson w cell) (soilCount w cell))).bind fun xs =>
        (Act.sample .soil (shuffle w cell)).bind fun sh =>
          Act.forEach (fun (_ : Unit) w => land (cellIndex cell) w)
            (List.replicate (released w cell xs sh) ()) (afterRelease w cell xs sh)
    else .ret w) (suitable w) w

/-- `MoveOverpopulatedPests::action`: per overpopulated cell the kernel on `overpopulation()`
    and the shuffle of `pests_from`; then per collected move the shuffle of `pests_to`. -/
def overpopulationAct (suitable : W → List (Int × Int)) (over : W → Int × Int → Bool)
    (kernel shuffleFrom : W → Int × Int → Dist σ) (leave : W → Int × Int → Nat → Nat → W)
    (moves : W → List Nat) (shuffleTo : W → Nat → Dist σ) (arrive : W → Nat → Nat → W) (w : W) : Act σ W :=
  (Act.forEach (fun cell w =>
    if over w cell then
      (Act.sample .overpopulation (kernel w cell)).bind fun t =>
        (Act.sample .overpopulation (shuffleFrom w cell)).bind fun r => .ret (leave w cell t r)
    else .ret w) (suitable w) w).bind fun w =>
  Act.forEach (fun m w => (Act.sample .overpopulation (shuffleTo w m)).bind fun r => .ret (arrive w m r)) (moves w) w

/-- `HostMovement::action`: per applied row the shuffle of the host classes, then - for moved
    exposed / infected hosts - the shuffles of their cohorts, all from `movement()`. -/
def movementAct (rows : W → List Nat) (shuffle shuffleE shuffleM : W → Nat → Dist σ)
    (exposedMoved infectedMoved : W → Nat → Nat → Nat)
    (apply : W → Nat → Nat → Option Nat → Option Nat → W) (w : W) : Act σ W :=
  Act.forEach (fun row w =>
    (Act.sample .movement (shuffle w row)).bind fun d =>
      (Act.guarded (decide (exposedMoved w row d > 0)) (Act.samples .movement (shuffleE w row) 1)).bind fun e =>
        (Act.guarded (decide (infectedMoved w row d > 0)) (Act.samples .movement (shuffleM w row) 1)).bind fun m =>
          .ret (apply w row d e.head? m.head?)) (rows w) w

end Skeletons

end Pops
