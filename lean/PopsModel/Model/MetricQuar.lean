/-
  Model of `quarantine.hpp` (core Lean only).

  C++ -> model:
    directions_from_string                      -> `directionsFromString`
    QuarantineEscapeAction::quarantine_boundary -> `quarantineBoundary`
        (`boundary_id_idx_map` + `boundaries` = association list in insertion order; entry k is
         `(area id, box)` of index k)
    QuarantineEscapeAction::closest_direction   -> `closestDirection`
        (the code before the fix of finding F27 -> `closestDirectionRounded`, kept for the record)
    QuarantineEscapeAction::QuarantineEscapeAction -> `Quarantine.new`
    QuarantineEscapeAction::action              -> `Quarantine.action`
    escape_info / escaped / distance / direction -> `Quarantine.escapeInfo`
    quarantine_escape_probability               -> `escapeProbability`
    distance_direction_to_quarantine            -> `distanceDirection`
    write_quarantine_escape                     -> `writeQuarantineEscape`
-/
import PopsModel.Model.Metric
namespace Pops.Metric

/-- The `Direction` values that occur in quarantine.hpp. -/
inductive Dir where
  | N | S | E | W | none
deriving Repr, Inhabited, DecidableEq

/-- Underlying enum value (what `operator<<` prints): N=0, E=90, S=180, W=270, None=316. -/
def Dir.code : Dir → Int
  | .N => 0 | .E => 90 | .S => 180 | .W => 270 | .none => 316

/-- `quarantine_enum_to_string`. -/
def Dir.name : Dir → String
  | .N => "N" | .E => "E" | .S => "S" | .W => "W" | .none => "None"

/-- `Directions` = `std::map<Direction, bool>` with exactly the keys N, E, S, W. -/
structure Dirs where
  n : Bool
  s : Bool
  e : Bool
  w : Bool
deriving Repr, Inhabited, DecidableEq

def Dirs.all : Dirs := ⟨true, true, true, true⟩
def Dirs.noneEnabled : Dirs := ⟨false, false, false, false⟩

def Dirs.enabled (d : Dirs) : Dir → Bool
  | .N => d.n | .S => d.s | .E => d.e | .W => d.w | .none => false

/-- The tokens `std::getline(stream, token, ',')` produces: the pieces between delimiters; a
    final empty piece (text ends with the delimiter, or is empty) is not produced. -/
def getlineTokens (text : String) : List String :=
  let p := text.splitOn ","
  if p.getLast? = some "" then p.dropLast else p

/-- `directions_from_string(text)` with the default delimiter. -/
def directionsFromString (text : String) : Except ErrKind Dirs :=
  if text.isEmpty then .ok Dirs.all
  else
    (getlineTokens text).foldlM (fun (d : Dirs) tok =>
      if tok = "N" then .ok { d with n := true }
      else if tok = "E" then .ok { d with e := true }
      else if tok = "S" then .ok { d with s := true }
      else if tok = "W" then .ok { d with w := true }
      else .error ErrKind.invalid_argument) Dirs.noneEnabled

/-- A distance as stored in an `EscapeDistDir` record: NaN, `numeric_limits<double>::max()`, or an
    integer (the distance of a record with a direction went through `std::lround` at the end of
    `action`). -/
inductive Dist where
  | nan
  | max
  | val (d : Int)
deriving Repr, Inhabited, DecidableEq

/-- `EscapeDistDir`. -/
structure EscapeInfo where
  escaped : Bool
  dist : Dist
  dir : Dir
deriving Repr, Inhabited, DecidableEq

/-- Initial record: `(false, (DBL_MAX, None))`. -/
def EscapeInfo.init : EscapeInfo := ⟨false, .max, .none⟩

/-- One iteration of `quarantine_boundary` for a cell with value `v > 0`. -/
def tableUpdate (height width : Int) (tbl : List (Int × Box)) (v i j : Int) : List (Int × Box) :=
  if tbl.any (fun en => en.1 == v) then
    tbl.map fun en => if en.1 == v then (en.1, en.2.extend i j) else en
  else tbl ++ [(v, (initBox height width).extend i j)]

def boundaryTableStep (height width : Int) (areas : IRaster) (tbl : List (Int × Box)) (c : Cell) :
    List (Int × Box) :=
  if areas.at c.1 c.2 > 0 then tableUpdate height width tbl (areas.at c.1 c.2) c.1 c.2 else tbl

/-- `quarantine_boundary`: scan `for i < height_, for j < width_`. -/
def quarantineBoundary (areas : IRaster) : List (Int × Box) :=
  (allCells areas.rows areas.cols).foldl (boundaryTableStep areas.rows areas.cols areas) []

/-- `boundaries.at(boundary_id_idx_map[area])`: an unknown id is inserted with index 0 by
    `operator[]`, so it reads the first box; `at` throws on an empty vector. -/
def lookupBox (tbl : List (Int × Box)) (area : Int) : Option Box :=
  match tbl.find? (fun en => en.1 == area) with
  | some en => some en.2
  | none => tbl.head?.map (·.2)

/-- `numeric_limits<double>::max()` = 2^1024 - 2^971, an integer. -/
def dblMax : Int := 2 ^ 1024 - 2 ^ 971

/-- Local state of `closest_direction`: `double mindist` (exact) and `DistDir closest`
    (value-initialised to `(0.0, Direction(0))`; every assignment stores `mindist` in it). -/
structure CD where
  mind : Rat
  dist : Rat
  dir : Dir
deriving Repr, Inhabited, DecidableEq

/-- `if (enabled && x < mindist) { mindist = x; closest = (mindist, d); }`: the exact distance is
    compared and kept; nothing is rounded here. -/
def CD.step (c : CD) (en : Bool) (x : Rat) (d : Dir) : CD :=
  if en = true ∧ x < c.mind then ⟨x, x, d⟩ else c

/-- Start state of `closest_direction`: `mindist = numeric_limits<double>::max()`, `closest = (0.0, N)`. -/
def CD.init : CD := ⟨(dblMax : Rat), 0, .N⟩

/-- `closest_direction(i, j, boundary)`; order N, S, E, W; returns the exact distance. -/
def closestDirection (dirs : Dirs) (ns ew : Rat) (i j : Int) (b : Box) : Rat × Dir :=
  let c1 := CD.init.step dirs.n (((i - b.n : Int) : Rat) * ns) .N
  let c2 := c1.step dirs.s (((b.s - i : Int) : Rat) * ns) .S
  let c3 := c2.step dirs.e (((b.e - j : Int) : Rat) * ew) .E
  let c4 := c3.step dirs.w (((j - b.w : Int) : Rat) * ew) .W
  (c4.dist, c4.dir)

/-! #### Pre-fix behaviour, kept for the record (finding F27)

  Before the `fix:` commit for F27, `closest_direction` kept its running minimum as a ROUNDED
  `int` (`mindist = std::lround(x)`) and compared the exact next candidate with it, and `action`
  compared the rounded per-cell results. With a non-integer resolution the reported direction
  could be that of a side that is not the nearest. Nothing in the model of the current code uses
  these definitions; `C18_nearest_old_code_fails` evaluates them on a witness. -/

def intMax : Int := 2147483647

/-- PRE-FIX local state: `int mindist`, `DistDir closest`. -/
structure CDRounded where
  mind : Int
  dist : Int
  dir : Dir
deriving Repr, Inhabited, DecidableEq

/-- PRE-FIX `if (enabled && x < mindist) { mindist = lround(x); closest = (mindist, d); }` -/
def CDRounded.step (c : CDRounded) (en : Bool) (x : Rat) (d : Dir) : CDRounded :=
  if en = true ∧ x < (c.mind : Rat) then ⟨lround x, lround x, d⟩ else c

/-- PRE-FIX `closest_direction(i, j, boundary)`; order N, S, E, W. -/
def closestDirectionRounded (dirs : Dirs) (ns ew : Rat) (i j : Int) (b : Box) : Int × Dir :=
  let c0 : CDRounded := ⟨intMax, 0, .N⟩
  let c1 := c0.step dirs.n (((i - b.n : Int) : Rat) * ns) .N
  let c2 := c1.step dirs.s (((b.s - i : Int) : Rat) * ns) .S
  let c3 := c2.step dirs.e (((b.e - j : Int) : Rat) * ew) .E
  let c4 := c3.step dirs.w (((j - b.w : Int) : Rat) * ew) .W
  (c4.dist, c4.dir)

/-- PRE-FIX loop of `action` over infected cells that are given with the box of their own area:
    `if (dist < get<0>(min_dist_dir)) min_dist_dir = (dist, dir)` on the rounded per-cell results
    (`none` is the start value `(DBL_MAX, None)`). -/
def nearestRounded (dirs : Dirs) (ns ew : Rat) : List (Cell × Box) → Option (Int × Dir) → Option (Int × Dir)
  | [], acc => acc
  | (c, b) :: rest, acc =>
    let dd := closestDirectionRounded dirs ns ew c.1 c.2 b
    nearestRounded dirs ns ew rest
      (match acc with
       | none => some dd
       | some m => if dd.1 < m.1 then some dd else acc)

/-- State of a `QuarantineEscapeAction`. -/
structure Quarantine where
  width : Int
  height : Int
  ew : Rat
  ns : Rat
  numSteps : Nat
  table : List (Int × Box)
  dirs : Dirs
  infos : List EscapeInfo
deriving Repr, Inhabited

/-- Constructor after the direction string was parsed. -/
def Quarantine.make (areas : IRaster) (ew ns : Rat) (numSteps : Nat) (dirs : Dirs) : Quarantine :=
  { width := areas.cols, height := areas.rows, ew := ew, ns := ns, numSteps := numSteps
    table := quarantineBoundary areas, dirs := dirs
    infos := List.replicate numSteps EscapeInfo.init }

/-- `QuarantineEscapeAction(quarantine_areas, ew_res, ns_res, num_steps, directions)`. -/
def Quarantine.new (areas : IRaster) (ew ns : Rat) (numSteps : Nat) (text : String) :
    Except ErrKind Quarantine :=
  match directionsFromString text with
  | .ok d => .ok (Quarantine.make areas ew ns numSteps d)
  | .error e => .error e

/-- `dist < std::get<0>(min_dist_dir)` on exact distances; `none` is the start value
    `(DBL_MAX, None)`. -/
def closer (d : Rat) (acc : Option (Rat × Dir)) : Bool :=
  match acc with
  | none => decide (d < (dblMax : Rat))
  | some m => decide (d < m.1)

/-- The loop of `action`. Result `none`: an infected cell with area 0 was met (early return);
    `some acc`: the final `min_dist_dir`, still with the exact distance. -/
def escapeLoop (q : Quarantine) (inf areas : IRaster) :
    List Cell → Option (Rat × Dir) → Except ErrKind (Option (Option (Rat × Dir)))
  | [], acc => .ok (some acc)
  | c :: rest, acc =>
    if inf.at c.1 c.2 = 0 then escapeLoop q inf areas rest acc
    else if areas.at c.1 c.2 = 0 then .ok none
    else
      match lookupBox q.table (areas.at c.1 c.2) with
      | none => .error .out_of_range
      | some b =>
        let dd := closestDirection q.dirs q.ns q.ew c.1 c.2 b
        escapeLoop q inf areas rest (if closer dd.1 acc then some dd else acc)

/-- The record `action` stores for a loop result. After the loop
    `if (dir != Direction::None) dist = std::lround(dist)`: the reported distance is rounded once,
    here; `closest_direction` never yields `None`, so the direction is `None` exactly when no
    infected cell was met, and then `DBL_MAX` stays as it is. -/
def infoOf : Option (Option (Rat × Dir)) → EscapeInfo
  | none => ⟨true, .nan, .none⟩
  | some none => ⟨false, .max, .none⟩
  | some (some dd) => ⟨false, .val (lround dd.1), dd.2⟩

/-- `QuarantineEscapeAction::action(hosts, quarantine_areas, step)`. -/
def Quarantine.action (q : Quarantine) (cells : List Cell) (inf areas : IRaster) (step : Nat) :
    Except ErrKind Quarantine :=
  match escapeLoop q inf areas cells none with
  | .error e => .error e
  | .ok r =>
    if step < q.infos.length then .ok { q with infos := q.infos.set step (infoOf r) }
    else .error .out_of_range

/-- `escape_info(step)` (`escaped`, `distance`, `direction` read its components). -/
def Quarantine.escapeInfo (q : Quarantine) (step : Nat) : Except ErrKind EscapeInfo :=
  match q.infos[step]? with
  | some x => .ok x
  | none => .error .out_of_range

/-- `for (const auto& item : escape_infos) item.escape_info(step)`: the records of all runs, or
    the first `out_of_range`. -/
def collectInfos (step : Nat) : List Quarantine → Except ErrKind (List EscapeInfo)
  | [] => .ok []
  | q :: qs =>
    match q.escapeInfo step with
    | .error e => .error e
    | .ok x =>
      match collectInfos step qs with
      | .error e => .error e
      | .ok xs => .ok (x :: xs)

/-- `quarantine_escape_probability`: `(double)escapes / escape_infos.size()`; `none` is the NaN
    of `0.0 / 0`. -/
def escapeProbability (runs : List Quarantine) (step : Nat) : Except ErrKind (Option Rat) :=
  match collectInfos step runs with
  | .error e => .error e
  | .ok infos =>
    let escapes := infos.countP (·.escaped)
    if runs.length = 0 then .ok none else .ok (some ((escapes : Rat) / (runs.length : Rat)))

/-- `distance_direction_to_quarantine`. -/
def distanceDirection (runs : List Quarantine) (step : Nat) : Except ErrKind (List (Dist × Dir)) :=
  match collectInfos step runs with
  | .error e => .error e
  | .ok infos => .ok (infos.map fun x => (x.dist, x.dir))

/-- `ss << std::setprecision(1) << std::fixed << x` for an exactly represented `x`: one decimal,
    exact ties to even (glibc). Used for probabilities k/n with n <= 8 (where the nearest double
    rounds the same way) and for integer distances. -/
def fmt1 (q : Rat) : String :=
  let a := if q < 0 then -q else q
  let t := a * 10
  let f := t.floor
  let frac := t - (f : Rat)
  let r : Int := if frac < 1/2 then f else if 1/2 < frac then f + 1 else if f % 2 = 0 then f else f + 1
  (if q < 0 then "-" else "") ++ toString (r / 10) ++ "." ++ toString (r % 10)

def fmtProb : Option Rat → String
  | none => "nan"
  | some p => fmt1 p

/-- One `,dist,dir` group of the CSV. -/
def csvEntry (x : Dist × Dir) : String :=
  match x.1 with
  | .nan => ",,"
  | .max => "," ++ toString dblMax ++ ".0," ++ toString x.2.code
  | .val d => "," ++ fmt1 (d : Rat) ++ "," ++ toString x.2.code

/-- `write_quarantine_escape(escape_infos, num_steps)`. -/
def writeQuarantineEscape (runs : List Quarantine) (numSteps : Nat) : Except ErrKind String :=
  let header := "step,escape_probability" ++
    String.join ((List.range runs.length).map fun i => s!",dist{i},dir{i}") ++ "\n"
  (List.range numSteps).foldlM (fun (acc : String) step =>
    match escapeProbability runs step, distanceDirection runs step with
    | .ok p, .ok dds => .ok (acc ++ toString step ++ "," ++ fmtProb p ++ String.join (dds.map csvEntry) ++ "\n")
    | .error e, _ => .error e
    | _, .error e => .error e) header

/-! #### Area ids that are not registered (finding F30)

  `quarantine_boundary` registers the ids `> 0` only (`boundaryTableStep`); `action` treats only
  the value 0 as "no quarantine area" (`escapeLoop`) and then evaluates
  `boundaries.at(boundary_id_idx_map[area])`. For an id that is not a key - any NEGATIVE id, or a
  positive id of a raster other than the constructor's - `std::map::operator[]` inserts the key with
  the value-initialised index 0. The insertion itself is not observable: index 0 is also what every
  later lookup of that key yields, `boundaries` is not touched, and `quarantine_boundary` does not
  run again - so the model keeps the table as it is and `lookupBox` falls back to entry 0, or to
  `none` (`boundaries.at(0)` throws `std::out_of_range`) when no id was registered. The loop meets
  the cells in list order: an infected cell with an unregistered id that comes BEFORE an infected
  cell with value 0 throws (empty table) before the escape is seen, one that comes after it is
  never looked at. Both behaviours are mirrored as they are; `C18_negative_area_id_witness`
  evaluates them and `C18_escape_full_fails` shows the property's statement fails there. -/

end Pops.Metric
