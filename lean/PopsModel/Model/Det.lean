/-
  C14: model of `DeterministicDispersalKernel` (include/pops/deterministic_kernel.hpp), mirrored
  function by function and generic over `TF α` (driver: `TF.float`; theorems: `TF.real`).
  Core Lean only.

  * `memberCtorThrows`  the ten member kernels are all constructed, whatever the kernel type
  * `lawIcdf`, `lawPdf` the if-chains of the constructor (class-member argument order!)
  * `windowDims`        `static_cast<int>(ceil(max_distance / res)) * 2 + 1` per axis
  * `cellDist`          `sqrt(pow(abs(mid_row - i) * ns, 2) + pow(abs(mid_col - j) * ew, 2))`
  * `build`             the constructor: raw weights `abs(pdf(distance))`, `sum` in scan order,
                        `probability /= sum`
  * `call`              `operator()`: reset on a new source cell, arg-max scan, subtraction
-/
import PopsModel.Model.KernLaws
import PopsModel.Model.DetPick
namespace Pops.Det

/-- The ten kernel types the class supports, in the order of its if-chain. -/
inductive Law where
  | cauchy | exponential | weibull | normal | lognormal | hypsec | powerlaw | logistic | gamma | exppower
deriving DecidableEq, Repr, Inhabited

def Law.all : List Law :=
  [.cauchy, .exponential, .weibull, .normal, .lognormal, .hypsec, .powerlaw, .logistic, .gamma, .exppower]

def Law.name : Law → String
  | .cauchy => "cauchy" | .exponential => "exponential" | .weibull => "weibull" | .normal => "normal"
  | .lognormal => "lognormal" | .hypsec => "hypsec" | .powerlaw => "powerlaw" | .logistic => "logistic"
  | .gamma => "gamma" | .exppower => "exppower"

def Law.ofName? (s : String) : Option Law := Law.all.find? (·.name == s)

/-- Laws whose density is symmetric about 0 and whose coded quantile is that of the two-sided
    distribution: `icdf p < 0` for `p < 1/2`. -/
def Law.twoSided : Law → Bool
  | .cauchy | .normal | .logistic | .hypsec | .exppower => true
  | _ => false

/-- What the constructor can throw: a standard exception of the four modelled classes, or the
    `std::bad_array_new_length` of `new double[cols * rows]` with a negative product. -/
inductive BuildErr where
  | std (e : ErrKind)
  | badAlloc
deriving DecidableEq, Repr

section
variable {α : Type} (T : TF α)

/-- Member initialisers `cauchy(distance_scale), exponential(distance_scale), weibull(distance_scale,
    shape), log_normal(..), normal(..), hyperbolic_secant(..), power_law(distance_scale, shape),
    logistic(..), gamma(distance_scale, shape), exponential_power(distance_scale, shape)`:
    true iff one of their constructors throws `std::invalid_argument`. -/
def memberCtorThrows (scale shape : α) : Bool :=
  let z := T.ofNat 0
  T.leb scale z                          -- CauchyKernel: scale <= 0
  || T.leb scale z                       -- ExponentialKernel: beta <= 0
  || (T.leb shape z || T.leb scale z)    -- WeibullKernel(scale, shape): a(shape) <= 0 || b(scale) <= 0
  || T.leb scale z                       -- LogNormalKernel: sigma <= 0
  || T.eqb scale z                       -- NormalKernel: sigma == 0
  || T.eqb scale z                       -- HyperbolicSecantKernel: s == 0
  || T.eqb shape z                       -- PowerLawKernel(a, xm): xmin == 0
  || T.leb scale z                       -- LogisticKernel: s <= 0
  || (T.leb scale z || T.leb shape z)    -- GammaKernel(a, t): alpha <= 0 || theta <= 0
  || (T.leb scale z || T.leb shape z)    -- ExponentialPowerKernel(a, b): alpha <= 0 || beta <= 0

/-- `max_distance = <member>.icdf(dispersal_percentage)` -/
def lawIcdf (law : Law) (scale shape p : α) : Except ErrKind α :=
  match law with
  | .cauchy => cauchyIcdfE T scale p
  | .exponential => exponentialIcdfE T scale p
  | .weibull => weibullIcdfE T shape scale p          -- WeibullKernel(scale, shape): a(shape), b(scale)
  | .normal => normalIcdfE T scale p
  | .lognormal => lognormalIcdfE T scale p
  | .hypsec => hypsecIcdfE T scale p
  | .powerlaw => powerlawIcdfE T scale shape p        -- PowerLawKernel(a, xm): alpha = scale, xmin = shape
  | .logistic => logisticIcdfE T scale p
  | .gamma => gammaIcdfE T scale shape p              -- GammaKernel(a, t): alpha = scale, theta = shape
  | .exppower => exppowerIcdfE T scale shape p        -- alpha = scale, beta = shape

/-- `<member>.pdf(distance_to_center)` -/
def lawPdf (law : Law) (scale shape x : α) : Except ErrKind α :=
  match law with
  | .cauchy => cauchyPdfE T scale x
  | .exponential => exponentialPdfE T scale x
  | .weibull => weibullPdfE T shape scale x
  | .normal => normalPdfE T scale x
  | .lognormal => lognormalPdfE T scale x
  | .hypsec => hypsecPdfE T scale x
  | .powerlaw => powerlawPdfE T scale shape x
  | .logistic => logisticPdfE T scale x
  | .gamma => gammaPdfE T scale shape x
  | .exppower => exppowerPdfE T scale shape x

/-- `(double)` of a C++ `int`. -/
def ofInt (z : Int) : α := if z < 0 then T.neg (T.ofNat z.natAbs) else T.ofNat z.natAbs

/-- Cells the window extends on each side of the centre along an axis of resolution `res`. -/
def halfWidth (dmax res : α) : Int := T.ceilI (T.div dmax res)

/-- `(number_of_rows, number_of_columns)`; rows use the north-south resolution. -/
def windowDims (dmax ns ew : α) : Int × Int :=
  (halfWidth T dmax ns * 2 + 1, halfWidth T dmax ew * 2 + 1)

/-- Distance of the cell at offset `(di, dj)` from the centre: rows × north-south, columns ×
    east-west (after the repair F13). -/
def cellDist (ns ew : α) (di dj : Int) : α :=
  T.sqrt (T.add (T.pow (T.mul (T.ofNat di.natAbs) ns) (T.ofNat 2))
                (T.pow (T.mul (T.ofNat dj.natAbs) ew) (T.ofNat 2)))

/-- `abs(<member>.pdf(distance_to_center))` of window cell `(i, j)`. -/
def rawWeight (law : Law) (scale shape ns ew : α) (midRow midCol : Int) (i j : Nat) : Except ErrKind α :=
  (lawPdf T law scale shape (cellDist T ns ew (midRow - i) (midCol - j))).map T.abs

/-- The double loop, row-major: cell `k` of the list is `(k / cols, k % cols)`. -/
def rawWeights (law : Law) (scale shape ns ew : α) (rows cols : Nat) (midRow midCol : Int) :
    Except ErrKind (List α) :=
  (List.range (rows * cols)).mapM fun k =>
    rawWeight T law scale shape ns ew midRow midCol (k / cols) (k % cols)

/-- `sum += probability(i, j)` in scan order. -/
def sumScan (l : List α) : α := l.foldl T.add (T.ofNat 0)

structure Kernel (α : Type) where
  law : Option Law            -- `none`: unsupported kernel type, `operator()` throws
  rows : Int
  cols : Int
  midRow : Int
  midCol : Int
  dmax : α
  prob : List α               -- `probability`, row-major

/-- The constructor body for a supported kernel type. With a negative dimension both loops are
    empty; the buffer of `rows * cols` cells (when that product is positive) is never read, so the
    model keeps an empty list. -/
def buildLaw (lw : Law) (pct ew ns scale shape : α) : Except BuildErr (Kernel α) :=
  match lawIcdf T lw scale shape pct with
  | .error e => .error (.std e)
  | .ok dmax =>
    let rows := (windowDims T dmax ns ew).1
    let cols := (windowDims T dmax ns ew).2
    if rows * cols < 0 then .error .badAlloc
    else
      match rawWeights T lw scale shape ns ew rows.toNat cols.toNat (Int.tdiv rows 2) (Int.tdiv cols 2) with
      | .error e => .error (.std e)
      | .ok raw =>
        .ok { law := some lw, rows := rows, cols := cols, midRow := Int.tdiv rows 2, midCol := Int.tdiv cols 2,
              dmax := dmax, prob := raw.map (T.div · (sumScan T raw)) }

/-- The constructor: member kernels first, then (supported types only) the window. -/
def build (law : Option Law) (pct ew ns scale shape : α) : Except BuildErr (Kernel α) :=
  if memberCtorThrows T scale shape then .error (.std .invalid_argument)
  else match law with
  | none => .ok { law := none, rows := 0, cols := 0, midRow := 0, midCol := 0, dmax := T.ofNat 0, prob := [] }
  | some lw => buildLaw T lw pct ew ns scale shape

/-- Mutable members read and written by `operator()`. -/
structure KState (α : Type) where
  prevRow : Int
  prevCol : Int
  delta : α                   -- `proportion_of_dispersers`
  copy : List α               -- `probability_copy`

/-- After construction: `prev_row = prev_col = -1`, `probability_copy = prob_size` (zeros);
    `proportion_of_dispersers` is indeterminate in the C++ and never read before the first reset
    (source cells have non-negative indices). -/
def initState (K : Kernel α) : KState α :=
  { prevRow := -1, prevCol := -1, delta := T.ofNat 0, copy := K.prob.map fun _ => T.ofNat 0 }

/-- `(double)-std::numeric_limits<int>::max()` -/
def detInit : α := T.neg (T.ofNat 2147483647)

/-- Has the source cell changed since the previous call? -/
def sourceChanged (s : KState α) (row col : Int) : Bool := row != s.prevRow || col != s.prevCol

/-- `operator()(generator, row, col)`; `nDisp = dispersers_(row, col)`. -/
def call (K : Kernel α) (s : KState α) (row col nDisp : Int) :
    Except ErrKind (KState α × (Int × Int)) :=
  match K.law with
  | none => .error .invalid_argument
  | some _ =>
    let changed := sourceChanged s row col
    let delta := if changed then T.div (T.ofNat 1) (ofInt T nDisp) else s.delta
    let copy := if changed then K.prob else s.copy
    let (a, best) := pickStep T.ltb T.sub (detInit T) delta { copy := copy, counts := [] }
    let mv : Int × Int := match best with
      | some i => (((i / K.cols.toNat : Nat) : Int) - K.midRow, ((i % K.cols.toNat : Nat) : Int) - K.midCol)
      | none => (0, 0)
    .ok ({ prevRow := row, prevCol := col, delta := delta, copy := a.copy }, (row + mv.1, col + mv.2))

end
end Pops.Det
