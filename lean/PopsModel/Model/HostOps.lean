/-
  Operations on cells and landscapes as data, so that histories (lists of operations) can be
  quantified over in C01-C03. Each constructor is one L1 function of Model/Host.lean or
  Model/Treat.lean with all its arguments (including the random draws).
-/
import PopsModel.Model.HostPred
import PopsModel.Model.Treat
namespace Pops

/-- One action at one cell. -/
inductive CellOp where
  | add (mt : ModelType)
  | dispTo (mt : ModelType) (env : EnvCell) (stochastic : Bool) (pEst u : Rat)
  | pestsFrom (k : Int)
  | pestsTo (k : Int)
  | simpleTreat (coef : Rat) (app : TreatApp)
  | pesticideTreat (coef : Rat) (app : TreatApp)
  | pesticideEnd (coef : Rat)
  | survival (ratio : Rat) (drawI drawE : List Int)
  | lethal (draw : List Int)
  | mortality (rate : Rat) (lag : Int)
  | stepForward (mt : ModelType) (latency step : Nat)
deriving Repr

def CellOp.apply : CellOp → Cell → Except ErrKind Cell
  | .add mt, c => .ok (c.addDisperserAt mt).1
  | .dispTo mt env sto pEst u, c => (c.disperserTo mt env sto pEst u).map (·.1)
  | .pestsFrom k, c => .ok (c.pestsFrom k).1
  | .pestsTo k, c => .ok (c.pestsTo k).1
  | .simpleTreat coef app, c => c.simpleTreat coef app
  | .pesticideTreat coef app, c => c.pesticideTreat coef app
  | .pesticideEnd coef, c => .ok (c.pesticideEnd coef)
  | .survival ratio dI dE, c => .ok (if ratio < 1 then c.removeByRatio ratio dI dE else c)
  | .lethal d, c => .ok (c.removeAllInfected d)
  | .mortality rate lag, c => (c.applyMortality rate lag).map Cell.stepForwardMortality
  | .stepForward mt l s, c => .ok (c.stepForward mt l s)

/-- C01 class of each action. -/
def CellOp.ledger : CellOp → Ledger
  | .simpleTreat _ _ => .removal
  | .mortality _ _ => .death
  | _ => .reclassify

/-- Overpopulation primitives are documented not to maintain the mortality cohorts. -/
def CellOp.keepsCohorts : CellOp → Bool
  | .pestsFrom _ => false
  | .pestsTo _ => false
  | _ => true

/-- The documented domain of each action at a cell (ratios in [0,1], valid draws, cohort lists
    present where the code indexes `back()` / `front()`). -/
def CellOp.inDomain : CellOp → Cell → Prop
  | .add mt, c => (mt = .si → c.mort ≠ []) ∧ (mt = .sei → c.e ≠ [])
  | .dispTo mt _ _ _ _, c => (mt = .si → c.mort ≠ []) ∧ (mt = .sei → c.e ≠ [])
  | .pestsFrom k, c => 0 ≤ k ∧ k ≤ c.i
  | .pestsTo k, _ => 0 ≤ k
  | .simpleTreat coef _, _ => 0 ≤ coef ∧ coef ≤ 1
  | .pesticideTreat coef _, _ => 0 ≤ coef ∧ coef ≤ 1
  | .pesticideEnd _, _ => True
  | .survival ratio dI dE, c =>
      0 ≤ ratio ∧ ratio ≤ 1 ∧
      (ratio < 1 → ValidDraw c.mort (c.ratioRemovedInfected ratio) dI ∧
        ValidDraw c.e ((c.removeInfected (c.ratioRemovedInfected ratio) dI).ratioRemovedExposed ratio) dE)
  | .lethal d, c => ValidDraw c.mort c.i d
  | .mortality rate lag, _ => 0 ≤ rate ∧ rate ≤ 1 ∧ 0 ≤ lag
  | .stepForward mt _ _, c => mt = .sei → (c.e ≠ [] ∧ c.mort ≠ [])

/-- A landscape: the cells in row-major order. -/
abbrev Land := List Cell

def Land.hosts (l : Land) : Int := sumL (l.map Cell.hosts)
def Land.died (l : Land) : Int := sumL (l.map Cell.died)

/-- One action on a landscape: an action at cell `k`, or a host move from cell `a` to `b`. -/
inductive LandOp where
  | at (k : Nat) (op : CellOp)
  | move (a b : Nat) (count : Int) (d : ClassDraw) (drawE drawM : List Int)
deriving Repr

def LandOp.apply : LandOp → Land → Except ErrKind Land
  | .at k op, l =>
    match l[k]? with
    | none => .ok l
    | some c => (op.apply c).map (fun c' => l.set k c')
  | .move a b count d dE dM, l =>
    if a = b then .ok l
    else match l[a]?, l[b]? with
      | some src, some dst =>
        let (s', d', _) := moveHosts src dst count d dE dM
        .ok ((l.set a s').set b d')
      | _, _ => .ok l

def LandOp.inDomain : LandOp → Land → Prop
  | .at k op, l => ∀ c, l[k]? = some c → op.inDomain c
  | .move a _ count d dE dM, l => ∀ src, l[a]? = some src →
      0 ≤ count ∧ validClassDrawB src count d = true ∧
      (d.e > 0 → ValidDraw src.e d.e dE) ∧ (d.i > 0 → ValidDraw src.mort d.i dM)

/-- Hosts a removal treatment took out in this action (zero for every other action). -/
def LandOp.removed (op : LandOp) (pre post : Land) : Int :=
  match op with
  | .at _ (.simpleTreat _ _) => pre.hosts - post.hosts
  | _ => 0

/-- Run a history; `none`-like errors stop the run (the C++ throws). -/
def runOps : List LandOp → Land → Except ErrKind Land
  | [], l => .ok l
  | op :: rest, l => do
    let l' ← op.apply l
    runOps rest l'

/-- Hosts removed by treatments along a history. -/
def removedAlong : List LandOp → Land → Int
  | [], _ => 0
  | op :: rest, l =>
    match op.apply l with
    | .ok l' => op.removed l l' + removedAlong rest l'
    | .error _ => 0

/-- Landscape-level consistency: every cell non-negative with correct totals. -/
def Land.inv (l : Land) : Prop := ∀ c ∈ l, c.nonNeg = true ∧ c.totalsOK = true
def Land.cohortsOK (l : Land) : Prop := ∀ c ∈ l, c.mortOK = true

/-- Domain hypotheses along a history (each action in its domain at the state it is applied to;
    all cells carry cohort lists of the same lengths so that host moves are well-formed). -/
def DomainAlong : List LandOp → Land → Prop
  | [], _ => True
  | op :: rest, l => op.inDomain l ∧ ∀ l', op.apply l = .ok l' → DomainAlong rest l'

def Land.uniform (l : Land) : Prop :=
  ∀ a ∈ l, ∀ b ∈ l, a.e.length = b.e.length ∧ a.mort.length = b.mort.length

end Pops
