/-
  L1 model of include/pops/treatments.hpp at one cell, plus the step bookkeeping of `Treatments`.
-/
import PopsModel.Model.Host
namespace Pops

inductive TreatApp where
  | ratio | allInfected
deriving DecidableEq, Repr, Inhabited

/-- `treatment_app_enum_from_string`. -/
def treatAppFromString (s : String) : Except ErrKind TreatApp :=
  if s = "ratio_to_all" ∨ s = "ratio" then .ok .ratio
  else if s = "all_infected_in_cell" ∨ s = "all infected" then .ok .allInfected
  else .error .invalid_argument

/-- `BaseTreatment::get_treated`. -/
def getTreated (coef : Rat) (app : TreatApp) (count : Int) : Rat :=
  match app with
  | .ratio => count * coef
  | .allInfected => if coef ≠ 0 then count else 0

/-- `SimpleTreatment::apply_treatment` at one cell: shares rounded up; susceptible always by ratio. -/
def Cell.simpleTreat (coef : Rat) (app : TreatApp) (c : Cell) : Except ErrKind Cell :=
  c.completelyRemove (rceil (getTreated coef .ratio c.s))
    (c.e.map fun x => rceil (getTreated coef app x))
    (rceil (getTreated coef app c.i))
    (c.mort.map fun x => rceil (getTreated coef app x))

/-- `PesticideTreatment::apply_treatment` at one cell: shares rounded down move to resistant. -/
def Cell.pesticideTreat (coef : Rat) (app : TreatApp) (c : Cell) : Except ErrKind Cell :=
  c.makeResistant (rfloor (getTreated coef .ratio c.s))
    (c.e.map fun x => rfloor (getTreated coef app x))
    (rfloor (getTreated coef app c.i))
    (c.mort.map fun x => rfloor (getTreated coef app x))

/-- `PesticideTreatment::end_treatment` at one cell. -/
def Cell.pesticideEnd (coef : Rat) (c : Cell) : Cell :=
  if coef > 0 then c.removeResistance else c

/-- A scheduled treatment: `end_ = start` for a simple treatment. -/
structure TreatSpec where
  pesticide : Bool
  start : Nat
  end_ : Nat
deriving Repr, Inhabited, DecidableEq

/-- What `Treatments::manage(current)` does with one treatment. -/
inductive TreatEvent where
  | apply | finish | nothing
deriving DecidableEq, Repr

def TreatSpec.eventAt (t : TreatSpec) (current : Nat) : TreatEvent :=
  if t.start = current then .apply
  else if t.pesticide ∧ t.end_ = current then .finish
  else .nothing

/-- `Treatments::clear_after_step`. -/
def clearAfterStep (ts : List TreatSpec) (step : Nat) : List TreatSpec :=
  ts.filter fun t => !(decide (t.start > step))

end Pops
