/-
  C14 / C20: which distribution parameters each of the ten law classes validates in its constructor
  (`include/pops/*_kernel.hpp`), mirrored class by class on exact rationals (the harness feeds dyadic
  rationals, for which the C++ comparisons with 0 are exact). Core Lean only.

  * `lawCtorCheck`   the `if (...) throw std::invalid_argument` of the class the deterministic
                     kernel holds for the law, with the constructor's argument order
  * `ParamCheck`, `Law.scaleCheck`, `Law.shapeCheck`
                     the specification table: how each parameter is validated
  * `ParamsInDomain` the property's domain ("scale and shape in its domain")
-/
import PopsModel.Model.Det
namespace Pops.Det

/-- Constructor of the law's class, called with `(scale, shape)` as `DeterministicDispersalKernel`
    does (`weibull(distance_scale, shape)`, `power_law(distance_scale, shape)`, `gamma(distance_scale,
    shape)`, `exponential_power(distance_scale, shape)`; the other six take the scale only). -/
def lawCtorCheck (law : Law) (scale shape : Rat) : Except ErrKind Unit :=
  match law with
  | .cauchy => if scale ≤ 0 then .error .invalid_argument else .ok ()          -- `scale <= 0`
  | .exponential => if scale ≤ 0 then .error .invalid_argument else .ok ()     -- `beta <= 0`
  | .weibull =>                                                                 -- a(shape), b(scale): `a <= 0 || b <= 0`
    if shape ≤ 0 ∨ scale ≤ 0 then .error .invalid_argument else .ok ()
  | .normal => if scale = 0 then .error .invalid_argument else .ok ()          -- `sigma == 0` (negative: not validated)
  | .lognormal => if scale ≤ 0 then .error .invalid_argument else .ok ()       -- `sigma <= 0`
  | .hypsec => if scale = 0 then .error .invalid_argument else .ok ()          -- `s == 0` (negative: not validated)
  | .powerlaw => if shape = 0 then .error .invalid_argument else .ok ()        -- `xmin == 0`; alpha: check commented out
  | .logistic => if scale ≤ 0 then .error .invalid_argument else .ok ()        -- `s <= 0`
  | .gamma =>                                                                   -- `alpha <= 0 || theta <= 0`
    if scale ≤ 0 ∨ shape ≤ 0 then .error .invalid_argument else .ok ()
  | .exppower =>                                                                -- `alpha <= 0 || beta <= 0`
    if scale ≤ 0 ∨ shape ≤ 0 then .error .invalid_argument else .ok ()

/-- How a constructor treats one parameter. -/
inductive ParamCheck where
  /-- rejected when `≤ 0` -/
  | positive
  /-- rejected when `= 0` only -/
  | nonzero
  /-- never looked at (or not a parameter of the class) -/
  | unchecked
deriving DecidableEq, Repr

def ParamCheck.rejects : ParamCheck → Rat → Prop
  | .positive, x => x ≤ 0
  | .nonzero, x => x = 0
  | .unchecked, _ => False

instance (c : ParamCheck) (x : Rat) : Decidable (c.rejects x) := by
  cases c <;> unfold ParamCheck.rejects <;> exact inferInstance

/-- Validation of the first constructor argument (`distance_scale`). -/
def Law.scaleCheck : Law → ParamCheck
  | .cauchy | .exponential | .weibull | .lognormal | .logistic | .gamma | .exppower => .positive
  | .normal | .hypsec => .nonzero
  | .powerlaw => .unchecked

/-- Validation of the second constructor argument (`shape`). -/
def Law.shapeCheck : Law → ParamCheck
  | .weibull | .gamma | .exppower => .positive
  | .powerlaw => .nonzero
  | _ => .unchecked

/-- Laws whose class validates every parameter it receives with `<= 0`. -/
def Law.validatesPositivity : Law → Bool
  | .cauchy | .exponential | .weibull | .lognormal | .logistic | .gamma | .exppower => true
  | _ => false

/-- Does the class receive the shape at all? -/
def Law.usesShape : Law → Bool
  | .weibull | .powerlaw | .gamma | .exppower => true
  | _ => false

/-- The property's domain: scale positive, and shape positive where the class has one. -/
def ParamsInDomain (law : Law) (scale shape : Rat) : Prop :=
  0 < scale ∧ (law.usesShape = true → 0 < shape)

instance (law : Law) (scale shape : Rat) : Decidable (ParamsInDomain law scale shape) := by
  unfold ParamsInDomain; exact inferInstance

end Pops.Det
