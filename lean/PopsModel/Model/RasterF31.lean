/-
  Finding F31 (C19): assignment INTO a raster that does not own its storage
  (include/pops/raster.hpp:250-275, destructor 188-193).

  `operator=(const Raster&)` allocates a new buffer and leaves `owns_` as it was; `operator=(Raster&&)`
  takes the other object's pointer and `owns_`. For a target made by the wrapping constructor
  `Raster(Number* data, rows, cols)` (or holding what was moved out of such a raster) `owns_` is false, so

  * after a copy assignment the raster points to a fresh buffer that its destructor (and every later
    assignment) will not release, and it no longer reads or writes the caller's array;
  * after a move assignment it holds the other raster's storage; the caller's array is silently dropped.

  The heap model (`Heap.step`, RasterHeap.lean) mirrors this statement by statement. This file only names
  the region and the state the defect produces, for the theorems of Props/C19.lean and for the driver
  (core Lean only; the driver imports it).
-/
import PopsModel.Model.RasterPred
namespace Pops

/-- Operation `op` ends the life of the object in variable `u` or empties it: its destructor runs, or
    it is moved from. (Assigning INTO `u` does not: the variable keeps being the same raster.) -/
def HOp.vacates {α : Type} : HOp α → Nat → Bool
  | .destroy s, u => u == s
  | .moveCtor _ t, u => u == t
  | .moveAssign s t, u => u == t && s != t
  | _, _ => false

namespace Heap
variable {α : Type}

/-- Variable `s` holds a raster with `owns_ == false`: made by the wrapping constructor, or holding
    what was moved out of such a raster, or what is left of one after it was moved from. -/
def nonOwning (h : Heap α) (s : Nat) : Bool :=
  match h.slots s with
  | some o => !o.owns
  | none => false

/-- **Region of F31**: a copy or move assignment (not a self-assignment) whose target does not own
    its storage. -/
def f31Region (h : Heap α) : HOp α → Bool
  | .copyAssign s t => s != t && h.nonOwning s
  | .moveAssign s t => s != t && h.nonOwning s
  | _ => false

/-- Variable `s` points to storage that is not the caller's and that its destructor will not
    release (`data_ != nullptr`, `owns_ == false`, not a caller array). -/
def orphan (h : Heap α) (s : Nat) : Bool :=
  match h.slots s with
  | some o =>
    match o.data with
    | some b => !o.owns && decide (h.nExt ≤ b)
    | none => false
  | none => false

/-- No raster that points to buffer `b` owns it: no destructor and no assignment will `delete[]` it. -/
def Unowned (h : Heap α) (b : Nat) : Prop :=
  ∀ u o, h.slots u = some o → o.data = some b → o.owns = false

/-- No variable points to buffer `b`. -/
def Unreachable (h : Heap α) (b : Nat) : Prop :=
  ∀ u o, h.slots u = some o → o.data ≠ some b

/-- Buffer `b` is allocated (neither never-allocated nor released). -/
def Live (h : Heap α) (b : Nat) : Prop := ∃ cells, h.bufs b = .live cells

end Heap
end Pops
