/-
  Model of include/pops/generator_provider.hpp and of the seed part of include/pops/config.hpp
  (`random_seed`, `multiple_random_seeds`, `random_seeds`, `Config::read_seeds(vector)`).

  * A random number engine is abstract: `Engine σ` gives `seed : Nat → σ` (`Generator::seed(unsigned)`)
    and `next : σ → Nat × σ` (one use of the generator; the value and the advanced state).
  * `Streams σ`: the ten member generators of `MultiRandomNumberGeneratorProvider`.
  * `Provider σ`: what `RandomNumberGeneratorProvider` holds behind `impl` together with `mutli_`:
    one generator that every accessor returns (`SingleGeneratorProvider`), or ten.
  * `unsigned` is arithmetic modulo 2^32 (`u32`); `Config::random_seed` is an `int` converted
    to `unsigned` at the call (`u32OfInt`).
-/
import PopsModel.Model.Basic
namespace Pops

instance streamDecEqExcept {ε α : Type} [DecidableEq ε] [DecidableEq α] : DecidableEq (Except ε α) :=
  fun a b =>
    match a, b with
    | .ok x, .ok y => if h : x = y then isTrue (h ▸ rfl) else isFalse (fun e => h (Except.ok.inj e))
    | .error x, .error y => if h : x = y then isTrue (h ▸ rfl) else isFalse (fun e => h (Except.error.inj e))
    | .ok _, .error _ => isFalse (fun e => nomatch e)
    | .error _, .ok _ => isFalse (fun e => nomatch e)

/-- The ten stochastic processes, in the order the library documents and uses everywhere
    (`MultiRandomNumberGeneratorProvider::seed`, `Config::read_seeds`). -/
inductive StreamName where
  | disperserGeneration | naturalDispersal | anthropogenicDispersal | establishment | weather
  | lethalTemperature | movement | overpopulation | survivalRate | soil
deriving DecidableEq, Repr, Inhabited

namespace StreamName

/-- The documented order. -/
def all : List StreamName :=
  [disperserGeneration, naturalDispersal, anthropogenicDispersal, establishment, weather,
   lethalTemperature, movement, overpopulation, survivalRate, soil]

/-- The key of the stream in `Config::random_seeds`. -/
def key : StreamName → String
  | disperserGeneration => "disperser_generation"
  | naturalDispersal => "natural_dispersal"
  | anthropogenicDispersal => "anthropogenic_dispersal"
  | establishment => "establishment"
  | weather => "weather"
  | lethalTemperature => "lethal_temperature"
  | movement => "movement"
  | overpopulation => "overpopulation"
  | survivalRate => "survival_rate"
  | soil => "soil"

/-- Position in the documented order. -/
def index : StreamName → Nat
  | disperserGeneration => 0 | naturalDispersal => 1 | anthropogenicDispersal => 2
  | establishment => 3 | weather => 4 | lethalTemperature => 5 | movement => 6
  | overpopulation => 7 | survivalRate => 8 | soil => 9

def ofKey? (s : String) : Option StreamName := all.find? (fun n => n.key == s)

end StreamName

/-- The ten member generators of `MultiRandomNumberGeneratorProvider`
    (generator_provider.hpp: `disperser_generation_generator_` ... `soil_generator_`). -/
structure Streams (σ : Type) where
  disperserGeneration : σ
  naturalDispersal : σ
  anthropogenicDispersal : σ
  establishment : σ
  weather : σ
  lethalTemperature : σ
  movement : σ
  overpopulation : σ
  survivalRate : σ
  soil : σ
deriving Repr, Inhabited, DecidableEq

namespace Streams
variable {σ : Type}

/-- The accessor `disperser_generation()`, ..., `soil()`. -/
def get (p : Streams σ) : StreamName → σ
  | .disperserGeneration => p.disperserGeneration
  | .naturalDispersal => p.naturalDispersal
  | .anthropogenicDispersal => p.anthropogenicDispersal
  | .establishment => p.establishment
  | .weather => p.weather
  | .lethalTemperature => p.lethalTemperature
  | .movement => p.movement
  | .overpopulation => p.overpopulation
  | .survivalRate => p.survivalRate
  | .soil => p.soil

/-- Writing through the reference an accessor returned. -/
def set (p : Streams σ) (n : StreamName) (v : σ) : Streams σ :=
  match n with
  | .disperserGeneration => { p with disperserGeneration := v }
  | .naturalDispersal => { p with naturalDispersal := v }
  | .anthropogenicDispersal => { p with anthropogenicDispersal := v }
  | .establishment => { p with establishment := v }
  | .weather => { p with weather := v }
  | .lethalTemperature => { p with lethalTemperature := v }
  | .movement => { p with movement := v }
  | .overpopulation => { p with overpopulation := v }
  | .survivalRate => { p with survivalRate := v }
  | .soil => { p with soil := v }

/-- The record whose stream `n` is `f n`. -/
def ofFn (f : StreamName → σ) : Streams σ :=
  { disperserGeneration := f .disperserGeneration, naturalDispersal := f .naturalDispersal,
    anthropogenicDispersal := f .anthropogenicDispersal, establishment := f .establishment,
    weather := f .weather, lethalTemperature := f .lethalTemperature, movement := f .movement,
    overpopulation := f .overpopulation, survivalRate := f .survivalRate, soil := f .soil }

end Streams

/-- An abstract random number engine (`std::default_random_engine`, `std::mt19937`, ...). -/
structure Engine (σ : Type) where
  /-- `Generator::seed(unsigned)` / construction from a seed. -/
  seed : Nat → σ
  /-- One use of the generator: the value produced and the advanced state. -/
  next : σ → Nat × σ

/-- `unsigned` arithmetic. -/
def u32 (n : Nat) : Nat := n % 4294967296
/-- `int` to `unsigned` conversion. -/
def u32OfInt (i : Int) : Nat := (i % 4294967296).toNat

/-- `Generator::discard(n)`. -/
def Engine.discard {σ : Type} (E : Engine σ) : Nat → σ → σ
  | 0, g => g
  | k + 1, g => Engine.discard E k (E.next g).2

/-! ### Seeding -/

/-- `MultiRandomNumberGeneratorProvider::seed(unsigned seed)`: the statements
    `x_generator_.seed(seed++)` in source order; the k-th statement sees `seed + k` (unsigned). -/
def seedMulti {σ : Type} (E : Engine σ) (s : Nat) : Streams σ :=
  { disperserGeneration := E.seed (u32 (s + 0))
    naturalDispersal := E.seed (u32 (s + 1))
    anthropogenicDispersal := E.seed (u32 (s + 2))
    establishment := E.seed (u32 (s + 3))
    weather := E.seed (u32 (s + 4))
    lethalTemperature := E.seed (u32 (s + 5))
    movement := E.seed (u32 (s + 6))
    overpopulation := E.seed (u32 (s + 7))
    survivalRate := E.seed (u32 (s + 8))
    soil := E.seed (u32 (s + 9)) }

/-- `std::map<std::string, unsigned>`: insertion is `cons`, lookup finds the newest entry of a key
    (`map[key] = value` overwrites). Only lookups and emptiness are ever observed. -/
abbrev SeedMap := List (String × Nat)

def SeedMap.find? (m : SeedMap) (k : String) : Option Nat :=
  match m with
  | [] => none
  | (k', v) :: rest => if k' == k then some v else SeedMap.find? rest k

def SeedMap.insert (m : SeedMap) (k : String) (v : Nat) : SeedMap := (k, v) :: m

/-- `set_seed_by_name`: `seeds.at(key)`; `std::out_of_range` is turned into `std::invalid_argument`. -/
def seedByName (m : SeedMap) (n : StreamName) : Except ErrKind Nat :=
  match m.find? n.key with
  | some v => .ok v
  | none => .error .invalid_argument

/-- The first key, in the order `seed(map)` looks them up, that the map lacks (the key named in
    the exception message). -/
def firstMissing (m : SeedMap) : Option StreamName :=
  StreamName.all.find? (fun n => (m.find? n.key).isNone)

/-- `MultiRandomNumberGeneratorProvider::seed(const std::map<std::string, unsigned>&)`:
    ten `set_seed_by_name` calls in source order; the first missing key throws. -/
def seedNamed {σ : Type} (E : Engine σ) (m : SeedMap) : Except ErrKind (Streams σ) := do
  let a ← seedByName m .disperserGeneration
  let b ← seedByName m .naturalDispersal
  let c ← seedByName m .anthropogenicDispersal
  let d ← seedByName m .establishment
  let e ← seedByName m .weather
  let f ← seedByName m .lethalTemperature
  let g ← seedByName m .movement
  let h ← seedByName m .overpopulation
  let i ← seedByName m .survivalRate
  let j ← seedByName m .soil
  pure { disperserGeneration := E.seed a, naturalDispersal := E.seed b,
         anthropogenicDispersal := E.seed c, establishment := E.seed d, weather := E.seed e,
         lethalTemperature := E.seed f, movement := E.seed g, overpopulation := E.seed h,
         survivalRate := E.seed i, soil := E.seed j }

/-- The seed fields of `Config`. -/
structure SeedCfg where
  randomSeed : Int := 0
  multipleRandomSeeds : Bool := false
  randomSeeds : SeedMap := []
deriving Repr, Inhabited, DecidableEq

/-- `MultiRandomNumberGeneratorProvider::seed(const Config&)`: named seeds when the map is not
    empty, otherwise the single seed incremented. -/
def seedMultiConfig {σ : Type} (E : Engine σ) (c : SeedCfg) : Except ErrKind (Streams σ) :=
  if !c.randomSeeds.isEmpty then seedNamed E c.randomSeeds
  else .ok (seedMulti E (u32OfInt c.randomSeed))

/-- `SingleGeneratorProvider::seed(const std::map&)`: always rejected. -/
def singleSeedMap {σ : Type} (_E : Engine σ) (_m : SeedMap) : Except ErrKind σ :=
  .error .invalid_argument

/-- `SingleGeneratorProvider::seed(const Config&)`. -/
def singleSeedConfig {σ : Type} (E : Engine σ) (c : SeedCfg) : Except ErrKind σ :=
  if c.multipleRandomSeeds then .error .invalid_argument
  else if !c.randomSeeds.isEmpty then .error .invalid_argument
  else .ok (E.seed (u32OfInt c.randomSeed))

/-! ### The switching provider -/

/-- `RandomNumberGeneratorProvider`: `impl` + `mutli_`. -/
inductive Provider (σ : Type) where
  /-- `SingleGeneratorProvider`: every accessor returns `general_generator_`. -/
  | single (g : σ)
  /-- `MultiRandomNumberGeneratorProvider`: ten isolated generators. -/
  | multi (s : Streams σ)
deriving Repr, Inhabited, DecidableEq

namespace Provider
variable {σ : Type}

def isMulti : Provider σ → Bool
  | single _ => false
  | multi _ => true

/-- The generator the accessor of stream `n` returns. -/
def get : Provider σ → StreamName → σ
  | single g, _ => g
  | multi s, n => s.get n

/-- Writing through the reference the accessor of stream `n` returned. -/
def update : Provider σ → StreamName → σ → Provider σ
  | single _, _, g' => single g'
  | multi s, n, g' => multi (s.set n g')

/-- One use of the generator of stream `n`. -/
def drawFrom (E : Engine σ) (p : Provider σ) (n : StreamName) : Nat × Provider σ :=
  let r := E.next (p.get n)
  (r.1, p.update n r.2)

/-- `RandomNumberGeneratorProvider(unsigned seed, bool multi = false)`. -/
def ofSeed (E : Engine σ) (s : Nat) (multi : Bool) : Provider σ :=
  if multi then .multi (seedMulti E s) else .single (E.seed s)

/-- `RandomNumberGeneratorProvider(const std::map<std::string, unsigned>&)`. -/
def ofMap (E : Engine σ) (m : SeedMap) : Except ErrKind (Provider σ) :=
  match seedNamed E m with
  | .ok s => .ok (.multi s)
  | .error e => .error e

/-- `RandomNumberGeneratorProvider(const Config&)`: multiple generators iff
    `multiple_random_seeds`; otherwise one generator seeded with `random_seed`
    (a non-empty `random_seeds` is then ignored). -/
def ofConfig (E : Engine σ) (c : SeedCfg) : Except ErrKind (Provider σ) :=
  if c.multipleRandomSeeds then
    match seedMultiConfig E c with
    | .ok s => .ok (.multi s)
    | .error e => .error e
  else .ok (.single (E.seed (u32OfInt c.randomSeed)))

/-- `operator()`: the provider used as one generator. -/
def call (E : Engine σ) : Provider σ → Except ErrKind (Nat × Provider σ)
  | multi _ => .error .runtime_error
  | single g => .ok ((E.next g).1, single (E.next g).2)

/-- `discard(n)`. -/
def discard (E : Engine σ) (k : Nat) : Provider σ → Except ErrKind (Provider σ)
  | multi _ => .error .runtime_error
  | single g => .ok (single (E.discard k g))

end Provider

/-- `validate_random_number_generator_provider_config`. -/
def validateConfig (c : SeedCfg) : Except ErrKind Unit :=
  match seedMultiConfig (σ := Nat) ⟨id, fun g => (g, g)⟩ c with
  | .ok _ => .ok ()
  | .error e => .error e

/-- `validate_random_number_generator_provider_seeds`. -/
def validateSeeds (m : SeedMap) : Except ErrKind Unit :=
  match seedNamed (σ := Nat) ⟨id, fun g => (g, g)⟩ m with
  | .ok _ => .ok ()
  | .error e => .error e

/-! ### `Config::read_seeds(const std::vector<unsigned>&)` -/

/-- The loop `random_seeds[name] = seeds.at(i)` over the names in order. -/
def insertSeeds : List StreamName → List Nat → SeedMap → SeedMap
  | n :: ns, v :: vs, m => insertSeeds ns vs (m.insert n.key v)
  | _, _, m => m

/-- `Config::read_seeds(const std::vector<unsigned>&)`: exactly ten seeds, assigned to the names
    in the documented order (existing entries of other keys are kept); sets
    `multiple_random_seeds`. -/
def readSeedsVec (c : SeedCfg) (seeds : List Nat) : Except ErrKind SeedCfg :=
  if StreamName.all.length ≠ seeds.length then .error .invalid_argument
  else .ok { c with randomSeeds := insertSeeds StreamName.all seeds c.randomSeeds,
                    multipleRandomSeeds := true }

end Pops
