/-
  The soil side of `SpreadAction::generate` / `SpreadAction::disperse` (include/pops/actions.hpp
  81-145) and of `SoilPool` (include/pops/soils.hpp). New definitions only; the soil-free loops
  `generateGo` / `disperseGo` of Model/Actions.lean are unchanged and the functions below are
  proved to extend them (Lemmas/C04Pest.lean).

  Representation: `soil[k]` is the cohort list of cell `k`, oldest first, youngest last (the C++
  keeps one raster per cohort; `rasters_->back()` is the youngest).
-/
import PopsModel.Model.Actions
namespace Pops

/-- What a `SoilPool` is constructed with (besides the rasters): the environment's weather
    coefficient (read at every arrival and every release; absent -> `weather_coefficient_at`
    throws `std::logic_error`), `establishment_stochasticity` and the fixed probability. -/
structure SoilCfg where
  w : Option (List Rat)
  stochastic : Bool
  pEst : Rat
deriving Repr, Inhabited

/-- `SoilPool::dispersers_to(n, row, col)`: `n` calls of `disperser_to`, one after the other; a
    stochastic arrival consumes the next uniform of the soil stream. -/
def soilDispersersTo (w : Rat) (stochastic : Bool) (pEst : Rat) : Nat → List Int → List Rat → List Int × List Rat
  | 0, cohorts, us => (cohorts, us)
  | n + 1, cohorts, us =>
    soilDispersersTo w stochastic pEst n (soilDisperserTo cohorts w stochastic pEst (us.headD 0))
      (if stochastic then us.drop 1 else us)

/-- The soil side of one suitable cell in `generate`: `soil_pool_->dispersers_to(n, i, j, ...)`.
    For `n <= 0` the loop body never runs (the weather is not read). -/
def soilArrive (sc : SoilCfg) (soil : List (List Int)) (k : Nat) (n : Int) (us : List Rat) :
    Except ErrKind (List (List Int) × List Rat) :=
  if n ≤ 0 then .ok (soil, us)
  else match sc.w with
    | none => .error .logic_error
    | some ws =>
      let r := soilDispersersTo (ws[k]!) sc.stochastic sc.pEst n.toNat (soil[k]!) us
      .ok (soil.set k r.1, r.2)

/-- The arrivals of a whole `generate`: cell `k` receives `n` dispersers, for each `(k, n)` in order. -/
def soilArriveAll (sc : SoilCfg) : List (Nat × Int) → List (List Int) → List Rat →
    Except ErrKind (List (List Int) × List Rat)
  | [], soil, us => .ok (soil, us)
  | (k, n) :: rest, soil, us =>
    match soilArrive sc soil k n us with
    | .error e => .error e
    | .ok (soil', us') => soilArriveAll sc rest soil' us'

/-- Loop of `SpreadAction::generate` with an active soil pool (actions.hpp 83-102), pest rasters
    and soil rasters together. `pct` is `to_soil_percentage_`, `us` the uniforms of the soil stream. -/
def generateSoilGo (g : Grid) (pct : Rat) (sc : SoilCfg) : List (Int × Int) → List Int → PestState →
    List (List Int) → List Rat → Except ErrKind (PestState × List (List Int) × List Rat)
  | (r, c) :: rest, x :: xs, p, soil, us =>
    let k := g.idx r c
    if x > 0 then
      let toSoil := lround (pct * x)
      match soilArrive sc soil k toSoil us with
      | .error e => .error e
      | .ok (soil', us') =>
        generateSoilGo g pct sc rest xs { p with disp := p.disp.set k (x - toSoil), est := p.est.set k 0 } soil' us'
    else generateSoilGo g pct sc rest xs { p with disp := p.disp.set k 0, est := p.est.set k 0 } soil us
  | _, _, p, soil, us => .ok (p, soil, us)

/-- `SpreadAction::generate` with soils: pest rasters, soil rasters, uniforms left. -/
def generateStepSoil (g : Grid) (suit : List (Int × Int)) (gen : List Int) (pct : Rat) (sc : SoilCfg)
    (p : PestState) (soil : List (List Int)) (us : List Rat) :
    Except ErrKind (PestState × List (List Int) × List Rat) :=
  generateSoilGo g pct sc suit gen p soil us

/-- What the dispersing share of a suitable cell is: the generated count minus the soil share,
    0 for a non-positive count. -/
def dispersingShare (soilPct : Option Rat) (x : Int) : Int := if x > 0 then x - soilShare soilPct x else 0

/-- What the soil of a suitable cell is handed: the soil share, 0 for a non-positive count. -/
def soilHanded (soilPct : Option Rat) (x : Int) : Int := if x > 0 then soilShare soilPct x else 0

/-! ### dispersal with soils -/

/-- `host_pool.disperser_to(i, j, ...)` at the cell with index `k`, as `landOne` performs it for a
    target inside the study area: no kernel call, no outside test, pest rasters untouched. Returns
    the landscape, whether the disperser established, and the uniforms left. -/
def landInCell (env : DisperseEnv) (cells : List Cell) (k : Nat) (us : List Rat) :
    Except ErrKind (List Cell × Bool × List Rat) :=
  let ec : EnvCell := { n := env.npop[k]!, w := env.w.map (·[k]!), sus := none }
  match (cells[k]!).landViaWrapper env.mt ec env.stochastic env.pEst (us.headD 0) with
  | .error e => .error e
  | .ok (c', res, used) => .ok (cells.set k c', res == 1, if used = 0 then us else us.drop 1)

/-- The dispersers released from the soil of the cell with index `k` (actions.hpp 140-142): each is
    put to the host pool of that same cell; the established counter of the pest pool is not touched.
    Returns the landscape, how many established, and the uniforms left. -/
def soilLandCell (env : DisperseEnv) (k : Nat) : Nat → List Cell → List Rat →
    Except ErrKind (List Cell × Nat × List Rat)
  | 0, cells, us => .ok (cells, 0, us)
  | n + 1, cells, us =>
    match landInCell env cells k us with
    | .error e => .error e
    | .ok (cells1, ok, us1) =>
      match soilLandCell env k n cells1 us1 with
      | .error e => .error e
      | .ok (cells2, m, us2) => .ok (cells2, (if ok then 1 else 0) + m, us2)

/-- Loop of `SpreadAction::disperse` with an active soil pool (actions.hpp 118-144): for each
    suitable cell in order, its ordinary dispersers (`disperseCell`, unchanged), then the dispersers
    its soil releases. `released` holds the return values of `soil_pool_->dispersers_from`, one per
    suitable cell in order (a missing entry counts as 0). The last component of the result is the
    number of soil-released dispersers that established. -/
def disperseGoSoil (g : Grid) (env : DisperseEnv) : List (Int × Int) → List Nat → List Cell → PestState →
    List (Int × Int) → List Rat → Except ErrKind (List Cell × PestState × List (Int × Int) × List Rat × Nat)
  | [], _, cells, p, ts, us => .ok (cells, p, ts, us, 0)
  | (r, c) :: rest, released, cells, p, ts, us =>
    let k := g.idx r c
    match disperseCell g env k (p.disp[k]!).toNat cells p ts us with
    | .error e => .error e
    | .ok (cells1, p1, ts1, us1) =>
      match soilLandCell env k (released.headD 0) cells1 us1 with
      | .error e => .error e
      | .ok (cells2, m, us2) =>
        match disperseGoSoil g env rest released.tail cells2 p1 ts1 us2 with
        | .error e => .error e
        | .ok (cells', p', ts', us', m') => .ok (cells', p', ts', us', m + m')

/-- `SpreadAction::disperse` with soils. `soilLandings`: number of dispersers the soil of each
    suitable cell releases (in suitable-cell order); their establishment is decided like that of
    any landing, from the cell's state and the next uniform of `us`. -/
def disperseStepSoil (g : Grid) (env : DisperseEnv) (suit : List (Int × Int)) (soilLandings : List Nat)
    (cells : List Cell) (p : PestState) (targets : List (Int × Int)) (us : List Rat) :
    Except ErrKind (List Cell × PestState × List (Int × Int) × List Rat × Nat) :=
  disperseGoSoil g env suit soilLandings cells p targets us

/-! ### ageing with releases -/

/-- Soil steps with releases: at each step the draw of that step is taken out
    (`dispersers_from`, during spread) and then the cohorts age (`next_step`, start of the next
    model step). -/
def soilRun : List (List Int) → List Int → List Int
  | [], cohorts => cohorts
  | d :: ds, cohorts => soilRun ds (soilNext (soilRelease cohorts d))

/-- What the draws take, along the way, from the cohort that starts at position `pos`: the first
    draw finds it at `pos`, the next at `pos - 1`, ... -/
def releasedFrom : List (List Int) → Nat → Int
  | [], _ => 0
  | d :: ds, pos => d[pos]! + releasedFrom ds (pos - 1)

end Pops
