/-
  Heap model of `pops::Raster` storage (include/pops/raster.hpp:100-275), core Lean only.

  State: a table of buffers (`unalloc` / `live cells` / `freed`), of which the ids below `nExt`
  are caller-owned arrays, and a pool of slots (variables) that hold raster objects
  `rows_, cols_, data_ (none = nullptr), owns_`.

  Every constructor, both assignments, the destructor, element access and the in-place / fresh
  `std::transform` loops of the operators are mirrored statement by statement, **including the
  `delete[]`s**: freeing a freed buffer, freeing a caller-owned buffer and touching a freed
  buffer are explicit `Fault`s of the machine, so "no double free / no use after free / caller
  memory never freed" are theorems about every run, not assumptions.
-/
import PopsModel.Model.Raster
namespace Pops

inductive Buf (α : Type) where
  | unalloc
  | live (cells : List α)
  | freed
deriving Repr, Inhabited

/-- A `Raster` object: `rows_`, `cols_`, `data_` (buffer id, `none` = `nullptr`), `owns_`. -/
structure RObj where
  rows : Nat
  cols : Nat
  data : Option Nat
  owns : Bool
deriving DecidableEq, Repr, Inhabited

/-- `cols_ * rows_`, the number of cells every loop of the class runs over. -/
def RObj.size (o : RObj) : Nat := o.rows * o.cols

/-- Function update. -/
def upd {β : Type} (f : Nat → β) (k : Nat) (v : β) : Nat → β := fun j => if j = k then v else f j

structure Heap (α : Type) where
  bufs : Nat → Buf α := fun _ => .unalloc
  next : Nat := 0          -- next fresh buffer id (`new Number[n]`)
  nExt : Nat := 0          -- ids `< nExt` are caller-owned arrays
  slots : Nat → Option RObj := fun _ => none

instance {α : Type} : Inhabited (Heap α) := ⟨{}⟩

inductive Fault where
  | illScoped      -- the caller broke the API contract (names a dead / moved-from object, ...)
  | doubleFree
  | useAfterFree
  | freeExternal   -- `delete[]` of caller-owned memory
  | wildPointer    -- pointer to memory that was never allocated
  | outOfBounds
  | nullDeref
deriving DecidableEq, Repr, Inhabited

inductive HOp (α : Type) where
  /-- `Raster(rows, cols, value)` (also `Raster(rows, cols)` + `fill(value)`, `Raster(other, value)`) -/
  | construct (s r c : Nat) (v : α)
  /-- `Raster(Number* data, rows, cols)` on caller array `e` -/
  | wrap (s e r c : Nat)
  /-- `Raster(const Raster& other)` -/
  | copyCtor (s t : Nat)
  /-- `Raster(Raster&& other)` -/
  | moveCtor (s t : Nat)
  /-- `operator=(const Raster& other)` -/
  | copyAssign (s t : Nat)
  /-- `operator=(Raster&& other)` -/
  | moveAssign (s t : Nat)
  /-- `raster(row, col) = value` -/
  | write (s r c : Nat) (v : α)
  /-- `~Raster()` -/
  | destroy (s : Nat)
  /-- the caller writes its own array -/
  | extWrite (e i : Nat) (v : α)
  /-- in-place loop over the raster's cells: `fill`, `zero`, compound `op= scalar` -/
  | mapInPlace (s : Nat) (f : α → α)
  /-- compound `op= raster`: shape test (throws), `for_each_zip` -/
  | zipInPlace (s t : Nat) (f : α → α → α)
  /-- `raster op scalar` / `scalar op raster`: fresh `Raster(rows, cols)` filled by `std::transform` -/
  | mapNew (d a : Nat) (f : α → α)
  /-- `raster op raster`: shape test (throws, nothing allocated), fresh raster, two-range `std::transform` -/
  | zipNew (d a b : Nat) (f : α → α → α)
  /-- `pow` / `sqrt`: `Raster out(image); out.for_each(...); return out;` -/
  | powNew (d a : Nat) (f : α → α)

namespace Heap
variable {α : Type}

/-- `delete[] p`. -/
def free (h : Heap α) (b : Nat) : Except Fault (Heap α) :=
  match h.bufs b with
  | .live _ => if b < h.nExt then .error .freeExternal else .ok { h with bufs := upd h.bufs b .freed }
  | .freed => .error .doubleFree
  | .unalloc => .error .wildPointer

/-- Read cells `[0, n)` through pointer `b`. -/
def read (h : Heap α) (b n : Nat) : Except Fault (List α) :=
  match h.bufs b with
  | .live cells => if n ≤ cells.length then .ok (cells.take n) else .error .outOfBounds
  | .freed => .error .useAfterFree
  | .unalloc => .error .wildPointer

/-- Overwrite cells `[0, new.length)` through pointer `b`. -/
def store (h : Heap α) (b : Nat) (new : List α) : Except Fault (Heap α) :=
  match h.bufs b with
  | .live cells =>
    if new.length ≤ cells.length then
      .ok { h with bufs := upd h.bufs b (.live (new ++ cells.drop new.length)) }
    else .error .outOfBounds
  | .freed => .error .useAfterFree
  | .unalloc => .error .wildPointer

/-- Write one cell through pointer `b`. -/
def poke (h : Heap α) (b i : Nat) (v : α) : Except Fault (Heap α) :=
  match h.bufs b with
  | .live cells =>
    if i < cells.length then .ok { h with bufs := upd h.bufs b (.live (cells.set i v)) }
    else .error .outOfBounds
  | .freed => .error .useAfterFree
  | .unalloc => .error .wildPointer

/-- `new Number[n]` filled with `cells`, stored into slot `s` as an object `rows, cols, p, owns`. -/
def allocInto (h : Heap α) (s r c : Nat) (cells : List α) (owns : Bool) : Heap α :=
  { h with bufs := upd h.bufs h.next (.live cells), next := h.next + 1,
           slots := upd h.slots s (some ⟨r, c, some h.next, owns⟩) }

/-- `if (data_ && owns_) delete[] data_;` -/
def release (h : Heap α) (o : RObj) : Except Fault (Heap α) :=
  match o.data with
  | some b => if o.owns then h.free b else .ok h
  | none => .ok h

def setSlot (h : Heap α) (s : Nat) (o : Option RObj) : Heap α := { h with slots := upd h.slots s o }

/-- The object in slot `s`. -/
def obj (h : Heap α) (s : Nat) : Except Fault RObj :=
  match h.slots s with
  | some o => .ok o
  | none => .error .illScoped

/-- The non-null data pointer of an object (dereferencing `nullptr` is a fault). -/
def ptr (o : RObj) : Except Fault Nat :=
  match o.data with
  | some b => .ok b
  | none => .error .nullDeref

/-- One operation, statement by statement as in raster.hpp. -/
def step (h : Heap α) : HOp α → Except Fault (Heap α)
  | .construct s r c v => .ok (h.allocInto s r c (List.replicate (r * c) v) true)
  | .wrap s e r c => .ok (h.setSlot s (some ⟨r, c, some e, false⟩))
  | .copyCtor s t => do
    let o ← h.obj t
    let b ← ptr o
    let cells ← h.read b o.size                    -- std::copy(other.data_, other.data_ + n, data_)
    .ok (h.allocInto s o.rows o.cols cells true)
  | .moveCtor s t => do
    let o ← h.obj t
    .ok ((h.setSlot s (some ⟨o.rows, o.cols, o.data, o.owns⟩)).setSlot t (some { o with data := none }))
  | .copyAssign s t =>
    if s = t then .ok h else do                    -- if (this != &other)
    let me ← h.obj s
    let o ← h.obj t
    let h1 ← h.release me                          -- if (data_ && owns_) delete[] data_;
    let b ← ptr o
    let cells ← h1.read b o.size                   -- copy after the delete
    .ok (h1.allocInto s o.rows o.cols cells me.owns)  -- owns_ is not touched
  | .moveAssign s t =>
    if s = t then .ok h else do
    let me ← h.obj s
    let o ← h.obj t
    let h1 ← h.release me
    .ok ((h1.setSlot s (some ⟨o.rows, o.cols, o.data, o.owns⟩)).setSlot t (some { o with data := none }))
  | .write s r c v => do
    let o ← h.obj s
    let b ← ptr o
    h.poke b (r * o.cols + c) v
  | .destroy s => do
    let o ← h.obj s
    let h1 ← h.release o
    .ok (h1.setSlot s none)
  | .extWrite e i v => h.poke e i v
  | .mapInPlace s f => do
    let o ← h.obj s
    let b ← ptr o
    let cells ← h.read b o.size
    h.store b (cells.map f)
  | .zipInPlace s t f => do
    let o ← h.obj s
    let o2 ← h.obj t
    if o.cols ≠ o2.cols ∨ o.rows ≠ o2.rows then .ok h   -- throws, left operand untouched
    else do
    let b ← ptr o
    let b2 ← ptr o2
    let xs ← h.read b o.size
    let ys ← h.read b2 o.size
    h.store b (List.zipWith f xs ys)
  | .mapNew d a f => do
    let o ← h.obj a
    let b ← ptr o
    let cells ← h.read b o.size
    .ok (h.allocInto d o.rows o.cols (cells.map f) true)
  | .zipNew d a b f => do
    let o ← h.obj a
    let o2 ← h.obj b
    if o.cols ≠ o2.cols ∨ o.rows ≠ o2.rows then .ok h   -- throws before anything is allocated
    else do
    let p ← ptr o
    let p2 ← ptr o2
    let xs ← h.read p o.size
    let ys ← h.read p2 o.size
    .ok (h.allocInto d o.rows o.cols (List.zipWith f xs ys) true)
  | .powNew d a f => do
    let o ← h.obj a
    let b ← ptr o
    let cells ← h.read b o.size
    let h1 := h.allocInto d o.rows o.cols cells true      -- Raster out(image)
    h1.store h.next (cells.map f)                         -- out.for_each(...)

/-- The exception an operation throws (only the raster-raster operators throw). -/
def throws (h : Heap α) : HOp α → Option ErrKind
  | .zipInPlace a b _ | .zipNew _ a b _ =>
    match h.slots a, h.slots b with
    | some o, some o2 => if o.cols ≠ o2.cols ∨ o.rows ≠ o2.rows then some .invalid_argument else none
    | _, _ => none
  | _ => none

/-- Slot holds an object. -/
def occupied (h : Heap α) (s : Nat) : Bool := (h.slots s).isSome
/-- Slot holds an object whose data pointer is not null (not moved-from). -/
def hasData (h : Heap α) (s : Nat) : Bool :=
  match h.slots s with
  | some o => o.data.isSome
  | none => false
def extLen (h : Heap α) (e : Nat) : Nat :=
  match h.bufs e with
  | .live cells => cells.length
  | _ => 0

/-- The caller-side contract of each operation: it names only live objects (a moved-from object
    may only be destroyed, assigned to or moved from), constructs only into unused variables,
    indexes inside the shape, and wraps arrays that are large enough. Nothing here mentions
    ownership or buffer states. -/
def inScope (h : Heap α) : HOp α → Bool
  | .construct s _ _ _ => !h.occupied s
  | .wrap s e r c => !h.occupied s && decide (e < h.nExt) && decide (r * c ≤ h.extLen e)
  | .copyCtor s t => !h.occupied s && h.hasData t
  | .moveCtor s t => !h.occupied s && h.occupied t
  | .copyAssign s t => h.occupied s && h.hasData t
  | .moveAssign s t => h.occupied s && h.occupied t
  | .write s r c _ =>
    match h.slots s with
    | some o => o.data.isSome && decide (r < o.rows) && decide (c < o.cols)
    | none => false
  | .destroy s => h.occupied s
  | .extWrite e i _ => decide (e < h.nExt) && decide (i < h.extLen e)
  | .mapInPlace s _ => h.hasData s
  | .zipInPlace s t _ => h.hasData s && h.hasData t
  | .mapNew d a _ => !h.occupied d && h.hasData a
  | .zipNew d a b _ => !h.occupied d && h.hasData a && h.hasData b
  | .powNew d a _ => !h.occupied d && h.hasData a

/-- Run an operation list; an operation outside the caller's contract stops the run. -/
def run (h : Heap α) : List (HOp α) → Except Fault (Heap α)
  | [] => .ok h
  | op :: ops =>
    if h.inScope op then
      match h.step op with
      | .ok h' => run h' ops
      | .error f => .error f
    else .error .illScoped

/-- Initial state: the caller's arrays, no rasters. -/
def init (exts : List (List α)) : Heap α :=
  { bufs := fun b => match exts[b]? with | some cells => .live cells | none => .unalloc,
    next := exts.length, nExt := exts.length, slots := fun _ => none }

/-- What the raster in slot `s` shows to its user: shape and the `rows * cols` cells behind its pointer. -/
def view (h : Heap α) (s : Nat) : Option (Raster α) :=
  match h.slots s with
  | some o =>
    match o.data with
    | some b =>
      match h.bufs b with
      | .live cells => some ⟨o.rows, o.cols, cells.take o.size⟩
      | _ => none
    | none => none
  | none => none

/-- Contents of a caller array. -/
def ext (h : Heap α) (e : Nat) : Option (List α) :=
  match h.bufs e with
  | .live cells => some cells
  | _ => none

/-- Operation `op` (re)binds variable `u`: constructs it, assigns to it, moves from it or destroys it. -/
def _root_.Pops.HOp.reseats : HOp α → Nat → Bool
  | .construct s _ _ _, u => u == s
  | .wrap s _ _ _, u => u == s
  | .copyCtor s _, u => u == s
  | .moveCtor s t, u => u == s || u == t
  | .copyAssign s _, u => u == s
  | .moveAssign s t, u => u == s || u == t
  | .write _ _ _ _, _ => false
  | .destroy s, u => u == s
  | .extWrite _ _ _, _ => false
  | .mapInPlace _ _, _ => false
  | .zipInPlace _ _ _, _ => false
  | .mapNew d _ _, u => u == d
  | .zipNew d _ _ _, u => u == d
  | .powNew d _ _, u => u == d

/-- Operation `op` stores cells through variable `u`. -/
def _root_.Pops.HOp.writesVia : HOp α → Nat → Bool
  | .write s _ _ _, u => u == s
  | .mapInPlace s _, u => u == s
  | .zipInPlace s _ _, u => u == s
  | _, _ => false

/-- The existing buffer an operation stores into (fresh buffers are not listed). -/
def writePtr (h : Heap α) : HOp α → Option Nat
  | .write s _ _ _ | .mapInPlace s _ | .zipInPlace s _ _ => (h.slots s).bind (·.data)
  | .extWrite e _ _ => some e
  | _ => none

/-- The storage of variable `s` is private: it is not a caller array and no other raster points to it. -/
def Private (h : Heap α) (s : Nat) : Prop :=
  ∃ o b, h.slots s = some o ∧ o.data = some b ∧ h.nExt ≤ b ∧
    ∀ s' o', s' ≠ s → h.slots s' = some o' → o'.data ≠ some b

/-- State invariant: fresh ids are unused, caller arrays are never freed, no raster holds a
    dangling pointer, an owned buffer is not a caller array and is referenced by its owner only. -/
structure Inv (h : Heap α) : Prop where
  ext_le : h.nExt ≤ h.next
  fresh : ∀ b, h.next ≤ b → h.bufs b = .unalloc
  ext_live : ∀ e, e < h.nExt → ∃ cells, h.bufs e = .live cells
  no_dangling : ∀ s o b, h.slots s = some o → o.data = some b →
    b < h.next ∧ ∃ cells, h.bufs b = .live cells ∧ o.size ≤ cells.length
  owner_excl : ∀ s o b, h.slots s = some o → o.data = some b → o.owns = true →
    h.nExt ≤ b ∧ ∀ s' o', s' ≠ s → h.slots s' = some o' → o'.data ≠ some b

end Heap
end Pops
