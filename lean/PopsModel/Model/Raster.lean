/-
  Value model of `pops::Raster<Number>` (include/pops/raster.hpp), core Lean only.

  A raster value is `rows, cols` and the row-major cell list (`data_[row * cols_ + col]`).
  `Raster<int>` has `Int` cells, `Raster<double>` has `Rat` cells (the correspondence check feeds
  only dyadic doubles, so `double` arithmetic is exact on them).

  Every operator of the header is mirrored with the C++ conversion rules of its template:
  * `raster op scalar`, `scalar op raster` (friend templates): `std::transform` assigns
    `a op value` (computed in the usual arithmetic common type) to an element of type `Number`,
    so an `int` raster with a `double` scalar truncates toward zero (`d2i`);
  * compound `raster op= scalar`: `a op= value`; for an integral raster and a floating scalar
    `a = static_cast<Number>(a op value)` (lines 325-371);
  * `raster op raster` (free templates): `invalid_argument` unless both shapes agree, result of
    `std::common_type`;
  * compound `raster op= raster` (enabled when the left type is floating or both are the same):
    `invalid_argument` unless both shapes agree, then `for_each_zip` over the left raster's cells;
  * `operator==` / `operator!=`: shape test, then the `rows x cols` loops;
  * `pow`, `sqrt`: a copy of the argument whose cells are overwritten by `std::pow` / `std::sqrt`.
-/
import PopsModel.Model.Basic
namespace Pops

structure Raster (α : Type) where
  rows : Nat
  cols : Nat
  cells : List α
deriving DecidableEq, Repr

namespace Raster
variable {α β γ : Type}

/-- The buffer holds exactly `rows * cols` cells. -/
def WF (a : Raster α) : Prop := a.cells.length = a.rows * a.cols

instance (a : Raster α) : Decidable a.WF := by unfold WF; exact inferInstance

/-- `operator()(row, col)`: `data_[row * cols_ + col]`. -/
def at? (a : Raster α) (r c : Nat) : Option α := a.cells[r * a.cols + c]?

/-- `std::transform(raster.data(), raster.data() + n, out.data(), f)` into a fresh raster of the same shape. -/
def map (f : α → β) (a : Raster α) : Raster β := ⟨a.rows, a.cols, a.cells.map f⟩

/-- The free binary operator templates: shape test, then the two-range `std::transform`. -/
def zip (f : α → β → γ) (a : Raster α) (b : Raster β) : Except ErrKind (Raster γ) :=
  if a.cols ≠ b.cols ∨ a.rows ≠ b.rows then .error .invalid_argument
  else .ok ⟨a.rows, a.cols, List.zipWith f a.cells b.cells⟩

/-- Compound `raster op= raster`: shape test (throws, left operand untouched), then
    `for_each_zip(data_, data_ + n, image.data(), f)`. The result is the new left operand. -/
def zipAssign (f : α → β → α) (a : Raster α) (b : Raster β) : Except ErrKind (Raster α) :=
  if a.cols ≠ b.cols ∨ a.rows ≠ b.rows then .error .invalid_argument
  else .ok ⟨a.rows, a.cols, List.zipWith f a.cells b.cells⟩

/-- `operator==`: `false` on different shape, else the `rows x cols` loops over `data_[i * cols_ + j]`. -/
def eqOp [DecidableEq α] (a b : Raster α) : Bool :=
  if a.rows ≠ b.rows ∨ a.cols ≠ b.cols then false
  else (List.range a.rows).all fun i => (List.range a.cols).all fun j =>
    !(a.cells[i * a.cols + j]? != b.cells[i * a.cols + j]?)

/-- `operator!=`: `true` on different shape, else `true` iff some cell of the loops differs. -/
def neOp [DecidableEq α] (a b : Raster α) : Bool :=
  if a.rows ≠ b.rows ∨ a.cols ≠ b.cols then true
  else (List.range a.rows).any fun i => (List.range a.cols).any fun j =>
    a.cells[i * a.cols + j]? != b.cells[i * a.cols + j]?

end Raster

/-- The four arithmetic operators. -/
inductive BinOp where
  | add | sub | mul | div
deriving DecidableEq, Repr, Inhabited

/-- `int op int` (division truncates toward zero; a zero divisor is undefined behaviour and
    outside the domain). -/
def BinOp.int : BinOp → Int → Int → Int
  | .add, a, b => a + b
  | .sub, a, b => a - b
  | .mul, a, b => a * b
  | .div, a, b => Int.tdiv a b

/-- `double op double` on exact values. -/
def BinOp.dbl : BinOp → Rat → Rat → Rat
  | .add, a, b => a + b
  | .sub, a, b => a - b
  | .mul, a, b => a * b
  | .div, a, b => a / b

/-- Implicit `int -> double`. -/
def i2d (n : Int) : Rat := (n : Rat)
/-- `double -> int` conversion (implicit in `std::transform`'s assignment, explicit in the
    `static_cast<Number>` of the compound forms): truncation toward zero. -/
def d2i (q : Rat) : Int := if 0 ≤ q then q.floor else q.ceil

/-! ### Cell functions per operand kind (`I` = int, `D` = double; first letter = raster type) -/

-- raster op scalar: lambda `a op value`, assigned to `Number`
def cRS_II (o : BinOp) (v : Int) (a : Int) : Int := o.int a v
def cRS_ID (o : BinOp) (v : Rat) (a : Int) : Int := d2i (o.dbl (i2d a) v)
def cRS_DI (o : BinOp) (v : Int) (a : Rat) : Rat := o.dbl a (i2d v)
def cRS_DD (o : BinOp) (v : Rat) (a : Rat) : Rat := o.dbl a v

-- scalar op raster: `+` and `*` return `raster op value`; `-` and `/` use `value op a`
def cSR_II (o : BinOp) (v : Int) (a : Int) : Int :=
  match o with
  | .add => cRS_II .add v a | .mul => cRS_II .mul v a
  | .sub => v - a | .div => Int.tdiv v a
def cSR_ID (o : BinOp) (v : Rat) (a : Int) : Int :=
  match o with
  | .add => cRS_ID .add v a | .mul => cRS_ID .mul v a
  | .sub => d2i (v - i2d a) | .div => d2i (v / i2d a)
def cSR_DI (o : BinOp) (v : Int) (a : Rat) : Rat :=
  match o with
  | .add => cRS_DI .add v a | .mul => cRS_DI .mul v a
  | .sub => i2d v - a | .div => i2d v / a
def cSR_DD (o : BinOp) (v : Rat) (a : Rat) : Rat :=
  match o with
  | .add => cRS_DD .add v a | .mul => cRS_DD .mul v a
  | .sub => v - a | .div => v / a

-- raster op raster: lambda `a op b`, result type `std::common_type`
def cRR_II (o : BinOp) (a b : Int) : Int := o.int a b
def cRR_ID (o : BinOp) (a : Int) (b : Rat) : Rat := o.dbl (i2d a) b
def cRR_DI (o : BinOp) (a : Rat) (b : Int) : Rat := o.dbl a (i2d b)
def cRR_DD (o : BinOp) (a b : Rat) : Rat := o.dbl a b

-- compound raster op= scalar: `a op= value`; int raster with floating scalar: `static_cast<int>(a op value)`
def cAS_II (o : BinOp) (v : Int) (a : Int) : Int := o.int a v
def cAS_ID (o : BinOp) (v : Rat) (a : Int) : Int := d2i (o.dbl (i2d a) v)
def cAS_DI (o : BinOp) (v : Int) (a : Rat) : Rat := o.dbl a (i2d v)
def cAS_DD (o : BinOp) (v : Rat) (a : Rat) : Rat := o.dbl a v

-- compound raster op= raster: `a op= b` (left type floating, or both the same)
def cAR_II (o : BinOp) (a b : Int) : Int := o.int a b
def cAR_DI (o : BinOp) (a : Rat) (b : Int) : Rat := o.dbl a (i2d b)
def cAR_DD (o : BinOp) (a b : Rat) : Rat := o.dbl a b

/-! ### The operators -/
namespace Raster

def rsII (o : BinOp) (a : Raster Int) (v : Int) : Raster Int := a.map (cRS_II o v)
def rsID (o : BinOp) (a : Raster Int) (v : Rat) : Raster Int := a.map (cRS_ID o v)
def rsDI (o : BinOp) (a : Raster Rat) (v : Int) : Raster Rat := a.map (cRS_DI o v)
def rsDD (o : BinOp) (a : Raster Rat) (v : Rat) : Raster Rat := a.map (cRS_DD o v)

def srII (o : BinOp) (v : Int) (a : Raster Int) : Raster Int := a.map (cSR_II o v)
def srID (o : BinOp) (v : Rat) (a : Raster Int) : Raster Int := a.map (cSR_ID o v)
def srDI (o : BinOp) (v : Int) (a : Raster Rat) : Raster Rat := a.map (cSR_DI o v)
def srDD (o : BinOp) (v : Rat) (a : Raster Rat) : Raster Rat := a.map (cSR_DD o v)

def rrII (o : BinOp) (a b : Raster Int) : Except ErrKind (Raster Int) := zip (cRR_II o) a b
def rrID (o : BinOp) (a : Raster Int) (b : Raster Rat) : Except ErrKind (Raster Rat) := zip (cRR_ID o) a b
def rrDI (o : BinOp) (a : Raster Rat) (b : Raster Int) : Except ErrKind (Raster Rat) := zip (cRR_DI o) a b
def rrDD (o : BinOp) (a b : Raster Rat) : Except ErrKind (Raster Rat) := zip (cRR_DD o) a b

/-- Compound forms return the new value of the left operand (`*this`). -/
def asII (o : BinOp) (a : Raster Int) (v : Int) : Raster Int := a.map (cAS_II o v)
def asID (o : BinOp) (a : Raster Int) (v : Rat) : Raster Int := a.map (cAS_ID o v)
def asDI (o : BinOp) (a : Raster Rat) (v : Int) : Raster Rat := a.map (cAS_DI o v)
def asDD (o : BinOp) (a : Raster Rat) (v : Rat) : Raster Rat := a.map (cAS_DD o v)

def arII (o : BinOp) (a b : Raster Int) : Except ErrKind (Raster Int) := zipAssign (cAR_II o) a b
def arDI (o : BinOp) (a : Raster Rat) (b : Raster Int) : Except ErrKind (Raster Rat) := zipAssign (cAR_DI o) a b
def arDD (o : BinOp) (a b : Raster Rat) : Except ErrKind (Raster Rat) := zipAssign (cAR_DD o) a b

end Raster

/-! ### pow / sqrt (exact cases only; the correspondence feeds integer exponents and squares) -/

def ratPow (q : Rat) : Nat → Rat
  | 0 => 1
  | k+1 => ratPow q k * q

/-- `static_cast<int>(std::pow(a, k))` for a non-negative integer exponent `k`. -/
def cPowI (k : Nat) (a : Int) : Int := a ^ k
/-- `std::pow(a, k)` on a double cell, integer exponent. -/
def cPowD (k : Nat) (a : Rat) : Rat := ratPow a k
/-- `static_cast<int>(std::sqrt(a))` for `a >= 0` (negative cells give NaN: outside the domain). -/
def cSqrtI (a : Int) : Int := (Nat.sqrt a.toNat : Int)
/-- `std::sqrt(a)` when `a` is the square of a rational (otherwise not exact: `none`). -/
def cSqrtD? (q : Rat) : Option Rat :=
  if q < 0 then none else
  let n := Nat.sqrt q.num.toNat
  let d := Nat.sqrt q.den
  if n * n = q.num.toNat ∧ d * d = q.den then some (mkRat n d) else none
/-- Total version used inside `map` (cells that are not squares are left to the driver's `?`). -/
def cSqrtD (q : Rat) : Rat := (cSqrtD? q).getD 0

namespace Raster
/-- `pow(image, k)`: `Raster out(image); out.for_each(a = std::pow(a, k)); return out;` -/
def powI (a : Raster Int) (k : Nat) : Raster Int := a.map (cPowI k)
def powD (a : Raster Rat) (k : Nat) : Raster Rat := a.map (cPowD k)
def sqrtI (a : Raster Int) : Raster Int := a.map cSqrtI
def sqrtD (a : Raster Rat) : Raster Rat := a.map cSqrtD
end Raster

end Pops
