/-
  Closed-form description of `MoveOverpopulatedPests::action` (C17) as a function of the PRE-state,
  and the suitable-cell list kept by `HostPool::move_hosts_from_to` (C17, "the destination joins the
  list of suitable cells").  Definitions only; the theorems are in Props/C17General.lean.
-/
import PopsModel.Model.Actions
import PopsModel.Model.RunStep
namespace Pops

/-! ### Overpopulation: who leaves, where to, how many - all read off the state BEFORE the action -/

/-- The suitable cells that satisfy the departure rule in `cells`, in suitable-cell order. -/
def overDeparting (g : Grid) (thr : Rat) (suit : List (Int × Int)) (cells : List Cell) : List (Int × Int) :=
  suit.filter fun rc => departs thr (cells[g.idx rc.1 rc.2]!)

/-- Each departing cell takes the next kernel result (the loop stops when the results run out). -/
def overPairs (g : Grid) (thr : Rat) (suit : List (Int × Int)) (cells : List Cell)
    (targets : List (Int × Int)) : List ((Int × Int) × (Int × Int)) :=
  List.zip (overDeparting g thr suit cells) targets

/-- Number of pests leaving the source cell `rc`, computed in `cells`. -/
def overLeaving (g : Grid) (leaving : Rat) (cells : List Cell) (rc : Int × Int) : Int :=
  leavingCount leaving (cells[g.idx rc.1 rc.2]!)

/-- What the departures add to the outside-disperser list: for each (source, target) pair whose
    target is outside, `leaving count` copies of the target's real coordinates. -/
def overOutside (g : Grid) (leaving : Rat) (cells : List Cell)
    (pairs : List ((Int × Int) × (Int × Int))) : List (Int × Int) :=
  pairs.flatMap fun pr =>
    if g.isOutside pr.2.1 pr.2.2 then List.replicate (overLeaving g leaving cells pr.1).toNat pr.2 else []

/-- The pending arrivals: for each pair whose target is inside, (target row, target col, count). -/
def overPending (g : Grid) (leaving : Rat) (cells : List Cell)
    (pairs : List ((Int × Int) × (Int × Int))) : List (Int × Int × Int) :=
  pairs.filterMap fun pr =>
    if g.isOutside pr.2.1 pr.2.2 then none else some (pr.2.1, pr.2.2, overLeaving g leaving cells pr.1)

/-- The cell a source becomes: its leaving count (computed in `ref`) moves from infected to
    susceptible. -/
def overSourceAfter (g : Grid) (leaving : Rat) (ref : List Cell) (rc : Int × Int) : Cell :=
  ((ref[g.idx rc.1 rc.2]!).pestsFrom (leavingCount leaving (ref[g.idx rc.1 rc.2]!))).1

/-- `base` with every source of `pairs` replaced by what it becomes, the departure being computed
    in `ref`. -/
def overDepartedFrom (g : Grid) (leaving : Rat) (ref base : List Cell)
    (pairs : List ((Int × Int) × (Int × Int))) : List Cell :=
  pairs.foldl (fun cs pr => cs.set (g.idx pr.1.1 pr.1.2) (overSourceAfter g leaving ref pr.1)) base

/-- The landscape after the first phase: every source of `pairs` has lost its leaving count, all
    departures being computed in the pre-state `cells`. -/
def overDeparted (g : Grid) (leaving : Rat) (cells : List Cell)
    (pairs : List ((Int × Int) × (Int × Int))) : List Cell :=
  overDepartedFrom g leaving cells cells pairs

/-! ### Suitable-cell list under host movement -/

/-- `HostPool::move_hosts_from_to`, the part that maintains `suitable_cells_` (host_pool.hpp:490-498):
    when the destination's total-host count is zero BEFORE the move, the list is scanned and the
    destination is appended if it is not there.  Cells are flat indices; `l` is the landscape before
    the move. (Independent of the source and of the number of hosts actually moved.) -/
def suitAfterMove (suit : List Nat) (l : Land) (b : Nat) : List Nat :=
  match l[b]? with
  | some dst => if dst.th = 0 ∧ b ∉ suit then suit ++ [b] else suit
  | none => suit

/-- A row of the movement table with its draws, as in `StepInputs.moves`. -/
abbrev MoveRow := Nat × Nat × Int × ClassDraw × List Int × List Int

def moveOp (row : MoveRow) : LandOp :=
  .move row.1 row.2.1 row.2.2.1 row.2.2.2.1 row.2.2.2.2.1 row.2.2.2.2.2

/-- The suitable-cell list threaded through a sequence of host moves (each move sees the
    landscape its predecessors left). -/
def suitAlongMoves : List MoveRow → Land → List Nat → List Nat
  | [], _, s => s
  | row :: rest, l, s =>
    match (moveOp row).apply l with
    | .ok l' => suitAlongMoves rest l' (suitAfterMove s l row.2.1)
    | .error _ => s

/-- The list names every cell whose total-host count is not zero. -/
def SuitCovers (l : Land) (suit : List Nat) : Prop :=
  ∀ k c, l[k]? = some c → c.th ≠ 0 → k ∈ suit

/-- "insert if absent", what a move does to the list when its destination is inside the raster
    and the list covers the landscape. -/
def insertIfAbsent (s : List Nat) (b : Nat) : List Nat := if b ∈ s then s else s ++ [b]

/-- Requested counts are non-negative whenever the source cell exists, along a sequence of moves. -/
def MovesNonNegAlong : List MoveRow → Land → Prop
  | [], _ => True
  | row :: rest, l =>
    (∀ src, l[row.1]? = some src → 0 ≤ row.2.2.1) ∧
    ∀ l', (moveOp row).apply l = .ok l' → MovesNonNegAlong rest l'

end Pops
