/-
  Distance laws of the ten `*_kernel.hpp` classes: pdf / cdf / icdf, written ONCE, generically over
  a record `TF α` of the elementary functions the C++ calls (core Lean only, no Mathlib).

  * `TF.float` (bottom of this file) is what the driver executes and compares with the C++ (relative
    tolerance, see Driver/DetEng.lean, Driver/KernEng.lean);
  * `TF.real` (Analysis/DetReal.lean, Mathlib) is what the theorems are about.
  The same syntax tree serves both: the tie between what is proved and what is run is the shared
  definition.

  Conventions
  * Arguments are the CLASS MEMBERS in the class's own naming and order of meaning:
      CauchyKernel s | ExponentialKernel beta | WeibullKernel a b  (a = shape, b = scale)
      NormalKernel sigma | LogNormalKernel sigma | LogisticKernel s | HyperbolicSecantKernel sigma
      GammaKernel alpha theta | ExponentialPowerKernel alpha beta | PowerLawKernel alpha xmin
  * `xPdf`, `xIcdf` mirror the member functions' arithmetic expression by expression, including the
    `sigma == 1` / `s == 1` special branches. The C++ argument guards (`x < 0`, `x <= 0 || x >= 1`)
    are the `...E` versions returning `Except ErrKind α`.
  * `xCdf` is NOT in the C++ (except `GammaKernel::cdf`, here `gammaCdfOwn`): it is the cumulative
    distribution function of the coded density, and the Analysis files prove `HasDerivAt (xCdf ..)
    (xPdf .. x) x` for the five closed-form laws, which is what makes it "the cdf of the same density".
  * C++ numeric literals: `0.5` is `ofNat 1 / ofNat 2`, `0.140012` is `ofNat 140012 / ofNat 1000000`,
    `0.001` is `ofNat 1 / ofNat 1000` (a correctly rounded quotient of two exactly representable
    integers is the correctly rounded decimal literal).
-/
import PopsModel.Model.Basic
namespace Pops

/-- The elementary operations used by the kernel formulas. -/
structure TF (α : Type) where
  add : α → α → α
  sub : α → α → α
  mul : α → α → α
  div : α → α → α
  pow : α → α → α
  /-- C `fmod`: remainder with the sign of the dividend. -/
  fmod : α → α → α
  neg : α → α
  abs : α → α
  exp : α → α
  log : α → α
  sqrt : α → α
  tan : α → α
  atan : α → α
  acos : α → α
  cosh : α → α
  sin : α → α
  cos : α → α
  tgamma : α → α
  ofNat : Nat → α
  pi : α
  ltb : α → α → Bool
  leb : α → α → Bool
  eqb : α → α → Bool
  /-- C `lround`: nearest integer, halves away from zero. -/
  lround : α → Int
  /-- `static_cast<int>(std::ceil(x))` -/
  ceilI : α → Int

section Laws
variable {α : Type} (T : TF α)

local infixl:65 " +ₜ " => T.add
local infixl:65 " -ₜ " => T.sub
local infixl:70 " *ₜ " => T.mul
local infixl:70 " /ₜ " => T.div
local notation "𝟘" => T.ofNat 0
local notation "𝟙" => T.ofNat 1
local notation "𝟚" => T.ofNat 2

/-- `std::max(a, b)` = `(a < b) ? b : a`. -/
def TF.max (a b : α) : α := if T.ltb a b then b else a
/-- `std::min(a, b)` = `(b < a) ? b : a`. -/
def TF.min (a b : α) : α := if T.ltb b a then b else a

/-- The guard every `icdf` starts with: `if (x <= 0 || x >= 1) throw std::invalid_argument`. -/
def icdfGuard (x : α) : Bool := T.leb x 𝟘 || T.leb 𝟙 x

/-! ### Cauchy (`cauchy_kernel.hpp`) -/

/-- `1 / ((s * M_PI) * (1 + (pow(x / s, 2))))` -/
def cauchyPdf (s x : α) : α := 𝟙 /ₜ ((s *ₜ T.pi) *ₜ (𝟙 +ₜ T.pow (x /ₜ s) 𝟚))
/-- cdf of the Cauchy density (location 0, scale s). -/
def cauchyCdf (s x : α) : α := (𝟙 /ₜ 𝟚) +ₜ T.atan (x /ₜ s) /ₜ T.pi
/-- `s * tan(M_PI * (x - 0.5))` -/
def cauchyIcdf (s x : α) : α := s *ₜ T.tan (T.pi *ₜ (x -ₜ (𝟙 /ₜ 𝟚)))

/-! ### Exponential (`exponential_kernel.hpp`) -/

/-- `(1.0 / beta) * (exp(-x / beta))` -/
def exponentialPdf (beta x : α) : α := (𝟙 /ₜ beta) *ₜ T.exp (T.neg x /ₜ beta)
def exponentialCdf (beta x : α) : α := 𝟙 -ₜ T.exp (T.neg x /ₜ beta)
/-- `-beta * log(1 - x)` -/
def exponentialIcdf (beta x : α) : α := T.neg beta *ₜ T.log (𝟙 -ₜ x)

/-! ### Weibull (`weibull_kernel.hpp`): `a` = shape, `b` = scale -/

/-- `(a / b) * pow(x / b, a - 1) * exp(-pow(x / b, a))` -/
def weibullPdf (a b x : α) : α :=
  ((a /ₜ b) *ₜ T.pow (x /ₜ b) (a -ₜ 𝟙)) *ₜ T.exp (T.neg (T.pow (x /ₜ b) a))
def weibullCdf (a b x : α) : α := 𝟙 -ₜ T.exp (T.neg (T.pow (x /ₜ b) a))
/-- `b * pow(-(log(1 - x)), (1.0 / a))` -/
def weibullIcdf (a b x : α) : α := b *ₜ T.pow (T.neg (T.log (𝟙 -ₜ x))) (𝟙 /ₜ a)

/-! ### Logistic (`logistic_kernel.hpp`) -/

/-- `if (s == 1) exp(-x) / pow(1 + exp(-x), 2); else (exp(-x / s)) / (s * pow(1 + exp(-x / s), 2))` -/
def logisticPdf (s x : α) : α :=
  if T.eqb s 𝟙 then T.exp (T.neg x) /ₜ T.pow (𝟙 +ₜ T.exp (T.neg x)) 𝟚
  else T.exp (T.neg x /ₜ s) /ₜ (s *ₜ T.pow (𝟙 +ₜ T.exp (T.neg x /ₜ s)) 𝟚)
def logisticCdf (s x : α) : α := 𝟙 /ₜ (𝟙 +ₜ T.exp (T.neg x /ₜ s))
/-- `s * log(x / (1.0 - x))` -/
def logisticIcdf (s x : α) : α := s *ₜ T.log (x /ₜ (𝟙 -ₜ x))

/-! ### Hyperbolic secant (`hyperbolic_secant_kernel.hpp`) -/

/-- `if (sigma == 1) 0.5 * (1.0 / cosh((M_PI * x) / 2));
    else (1.0 / (2 * sigma)) * (1 / cosh((M_PI * x) / (2 * sigma)))` -/
def hypsecPdf (sigma x : α) : α :=
  if T.eqb sigma 𝟙 then (𝟙 /ₜ 𝟚) *ₜ (𝟙 /ₜ T.cosh ((T.pi *ₜ x) /ₜ 𝟚))
  else (𝟙 /ₜ (𝟚 *ₜ sigma)) *ₜ (𝟙 /ₜ T.cosh ((T.pi *ₜ x) /ₜ (𝟚 *ₜ sigma)))
def hypsecCdf (sigma x : α) : α := (𝟚 /ₜ T.pi) *ₜ T.atan (T.exp ((T.pi *ₜ x) /ₜ (𝟚 *ₜ sigma)))
/-- `if (sigma == 1) (2.0 / M_PI) * log(tan(M_PI / 2.0 * x));
    else ((log(tan((x * M_PI) / 2.0)) * (2.0 * sigma)) / M_PI)` -/
def hypsecIcdf (sigma x : α) : α :=
  if T.eqb sigma 𝟙 then (𝟚 /ₜ T.pi) *ₜ T.log (T.tan ((T.pi /ₜ 𝟚) *ₜ x))
  else (T.log (T.tan ((x *ₜ T.pi) /ₜ 𝟚)) *ₜ (𝟚 *ₜ sigma)) /ₜ T.pi

/-! ### Normal and log-normal (`normal_kernel.hpp`, `lognormal_kernel.hpp`):
    quantiles use Winitzki's approximation of the inverse error function (approximate by design) -/

/-- `if (sigma == 1) 1.0 / (sqrt(2 * M_PI)) * exp(-0.5 * pow(x, 2));
    else 1.0 / (sigma * sqrt(2 * M_PI)) * exp(-0.5 * pow(x / sigma, 2))` -/
def normalPdf (sigma x : α) : α :=
  if T.eqb sigma 𝟙 then
    (𝟙 /ₜ T.sqrt (𝟚 *ₜ T.pi)) *ₜ T.exp (T.neg (𝟙 /ₜ 𝟚) *ₜ T.pow x 𝟚)
  else
    (𝟙 /ₜ (sigma *ₜ T.sqrt (𝟚 *ₜ T.pi))) *ₜ T.exp (T.neg (𝟙 /ₜ 𝟚) *ₜ T.pow (x /ₜ sigma) 𝟚)

/-- The block shared by `NormalKernel::icdf` and `LogNormalKernel::icdf`:
    `y = 2x - 1; sign = (y < 0) ? -1 : 1; a = 0.140012; t = 2.0 / (M_PI * a); l = log(1 - pow(y, 2));
     inverf = sign * sqrt(sqrt(pow(t + (l / 2.0), 2) - (l / a)) - (t + (l / 2.0)))` -/
def winitzkiInverf (x : α) : α :=
  let y := (𝟚 *ₜ x) -ₜ 𝟙
  let sign := if T.ltb y 𝟘 then T.neg 𝟙 else 𝟙
  let a := T.ofNat 140012 /ₜ T.ofNat 1000000
  let t := 𝟚 /ₜ (T.pi *ₜ a)
  let l := T.log (𝟙 -ₜ T.pow y 𝟚)
  sign *ₜ T.sqrt (T.sqrt (T.pow (t +ₜ (l /ₜ 𝟚)) 𝟚 -ₜ (l /ₜ a)) -ₜ (t +ₜ (l /ₜ 𝟚)))

/-- `sigma * std::sqrt(2) * inverf` -/
def normalIcdf (sigma x : α) : α := (sigma *ₜ T.sqrt 𝟚) *ₜ winitzkiInverf T x

/-- `if (x == 0) 0; else (1 / (x * sigma * sqrt(2 * M_PI))) * exp(-(pow(log(x), 2)) / (2 * pow(sigma, 2)))` -/
def lognormalPdf (sigma x : α) : α :=
  if T.eqb x 𝟘 then 𝟘
  else (𝟙 /ₜ ((x *ₜ sigma) *ₜ T.sqrt (𝟚 *ₜ T.pi))) *ₜ
        T.exp (T.neg (T.pow (T.log x) 𝟚) /ₜ (𝟚 *ₜ T.pow sigma 𝟚))
/-- `exp(sqrt(2 * pow(sigma, 2)) * inverf)` -/
def lognormalIcdf (sigma x : α) : α := T.exp (T.sqrt (𝟚 *ₜ T.pow sigma 𝟚) *ₜ winitzkiInverf T x)

/-! ### Gamma (`gamma_kernel.hpp`): `alpha` = shape, `theta` = scale; Newton quantile -/

/-- `1.0 / (std::tgamma(alpha) * pow(theta, alpha)) * pow(x, (alpha - 1)) * exp(-x / theta)` -/
def gammaPdf (alpha theta x : α) : α :=
  ((𝟙 /ₜ (T.tgamma alpha *ₜ T.pow theta alpha)) *ₜ T.pow x (alpha -ₜ 𝟙)) *ₜ T.exp (T.neg x /ₜ theta)

/-- `GammaKernel::cdf`: `beta = 1/theta; for (int i = 0; i < alpha; i++) sum += (1.0 / tgamma(i + 1)) *
    exp(-beta * x) * pow(beta * x, i); return 1 - sum` (the Erlang formula: the cdf of the density only
    for integer `alpha`). The loop runs while `i < alpha`; the fuel `lround alpha + 2` exceeds
    `ceil alpha`, the number of iterations. -/
def gammaCdfOwn (alpha theta x : α) : α :=
  let beta := 𝟙 /ₜ theta
  let rec go (fuel i : Nat) (sum : α) : α :=
    match fuel with
    | 0 => sum
    | f + 1 =>
      if T.ltb (T.ofNat i) alpha then
        go f (i + 1) (sum +ₜ (((𝟙 /ₜ T.tgamma (T.ofNat (i + 1))) *ₜ T.exp (T.neg beta *ₜ x)) *ₜ
                              T.pow (beta *ₜ x) (T.ofNat i)))
      else sum
  𝟙 -ₜ go ((T.lround alpha).toNat + 2) 0 𝟘

/-- The backtracking `while ((std::abs(dif) < std::abs(check - x)) && run)` of `GammaKernel::icdf`
    (`count > 20` stops it: at most 21 halvings). Returns `(guess, check)`. -/
def gammaBacktrack (alpha theta x dif past : α) : Nat → α → α → α × α
  | 0, guess, check => (guess, check)
  | f + 1, guess, check =>
    if T.ltb (T.abs dif) (T.abs (check -ₜ x)) then
      let guess' := (guess +ₜ past) /ₜ 𝟚
      gammaBacktrack alpha theta x dif past f guess' (gammaCdfOwn T alpha theta guess')
    else (guess, check)

/-- The `for (int i = 0; i < numiterations; i++)` loop of `GammaKernel::icdf`, `precision = 0.001`. -/
def gammaNewton (alpha theta x : α) : Nat → α → α → Except ErrKind α
  | 0, _, _ => .error .invalid_argument          -- "unable to find solution to gamma icdf"
  | f + 1, guess, check =>
    let prec := 𝟙 /ₜ T.ofNat 1000
    if T.ltb check (x -ₜ prec) || T.ltb (x +ₜ prec) check then
      let dif := check -ₜ x
      let past := guess
      let derivative := dif /ₜ gammaPdf T alpha theta guess
      let guess1 := T.max (guess /ₜ T.ofNat 10) (T.min (guess *ₜ T.ofNat 10) (guess -ₜ derivative))
      let check1 := gammaCdfOwn T alpha theta guess1
      let (guess2, check2) := gammaBacktrack T alpha theta x dif past 21 guess1 check1
      gammaNewton alpha theta x f guess2 check2
    else .ok guess

/-- `GammaKernel::icdf` after its argument guard: start from the log-normal(1) quantile. -/
def gammaIcdf (alpha theta x : α) : Except ErrKind α :=
  let guess := lognormalIcdf T 𝟙 x
  gammaNewton T alpha theta x 1000 guess (gammaCdfOwn T alpha theta guess)

/-! ### Exponential power (`exponential_power_kernel.hpp`) -/

/-- `(beta / (2 * alpha * std::tgamma(1.0 / beta))) * exp(-pow(x / alpha, beta))` -/
def exppowerPdf (alpha beta x : α) : α :=
  (beta /ₜ ((𝟚 *ₜ alpha) *ₜ T.tgamma (𝟙 /ₜ beta))) *ₜ T.exp (T.neg (T.pow (x /ₜ alpha) beta))

/-- `sign = ((x - 0.5) > 0) ? 1 : ((x - 0.5) < 0 ? -1 : 0); if (sign == 0) return 0;
    GammaKernel gamma_distribution(1.0 / beta, 1.0 / pow(alpha, beta));
    gamma = gamma_distribution.icdf(2 * std::abs(x - 0.5)); return sign * pow(gamma, 1.0 / beta)`
    (the helper's constructor and icdf guards included). -/
def exppowerIcdf (alpha beta x : α) : Except ErrKind α :=
  let d := x -ₜ (𝟙 /ₜ 𝟚)
  if T.ltb 𝟘 d || T.ltb d 𝟘 then
    let sign := if T.ltb 𝟘 d then 𝟙 else T.neg 𝟙
    let ga := 𝟙 /ₜ beta
    let gt := 𝟙 /ₜ T.pow alpha beta
    if T.leb ga 𝟘 || T.leb gt 𝟘 then .error .invalid_argument
    else
      let q := 𝟚 *ₜ T.abs d
      if icdfGuard T q then .error .invalid_argument
      else do
        let g ← gammaIcdf T ga gt q
        pure (sign *ₜ T.pow g (𝟙 /ₜ beta))
  else .ok 𝟘

/-! ### Power law (`power_law_kernel.hpp`) -/

/-- `x = x + xmin; ((alpha - 1.0) / xmin) * pow(x / xmin, -alpha)`: the density is evaluated at
    the distance shifted by `xmin`. -/
def powerlawPdf (alpha xmin x : α) : α :=
  ((alpha -ₜ 𝟙) /ₜ xmin) *ₜ T.pow ((x +ₜ xmin) /ₜ xmin) (T.neg alpha)
/-- cdf on `[0, ∞)` of the coded (shifted) density: `1 - ((x + xmin) / xmin) ^ (1 - alpha)`. -/
def powerlawCdf (alpha xmin x : α) : α := 𝟙 -ₜ T.pow ((x +ₜ xmin) /ₜ xmin) (𝟙 -ₜ alpha)
/-- cdf of the unshifted Pareto density on `[xmin, ∞)`: `1 - (x / xmin) ^ (1 - alpha)`. -/
def paretoCdf (alpha xmin x : α) : α := 𝟙 -ₜ T.pow (x /ₜ xmin) (𝟙 -ₜ alpha)
/-- `pow(x / xmin, (-alpha + 1.0))` -/
def powerlawIcdf (alpha xmin x : α) : α := T.pow (x /ₜ xmin) (T.neg alpha +ₜ 𝟙)

/-! ### The guarded member functions (`Except` = thrown `std::invalid_argument`) -/

def guardNonneg (x : α) (v : α) : Except ErrKind α :=
  if T.ltb x 𝟘 then .error .invalid_argument else .ok v
def guardUnit (x : α) (v : Except ErrKind α) : Except ErrKind α :=
  if icdfGuard T x then .error .invalid_argument else v

def cauchyPdfE (s x : α) : Except ErrKind α := .ok (cauchyPdf T s x)
def exponentialPdfE (beta x : α) : Except ErrKind α := guardNonneg T x (exponentialPdf T beta x)
def weibullPdfE (a b x : α) : Except ErrKind α := guardNonneg T x (weibullPdf T a b x)
def normalPdfE (sigma x : α) : Except ErrKind α := .ok (normalPdf T sigma x)
def lognormalPdfE (sigma x : α) : Except ErrKind α := guardNonneg T x (lognormalPdf T sigma x)
def logisticPdfE (s x : α) : Except ErrKind α := .ok (logisticPdf T s x)
def hypsecPdfE (sigma x : α) : Except ErrKind α := .ok (hypsecPdf T sigma x)
def gammaPdfE (alpha theta x : α) : Except ErrKind α := guardNonneg T x (gammaPdf T alpha theta x)
def exppowerPdfE (alpha beta x : α) : Except ErrKind α := .ok (exppowerPdf T alpha beta x)
/-- `if (x < 0) throw; x = x + xmin; if (x < xmin) throw; ...` -/
def powerlawPdfE (alpha xmin x : α) : Except ErrKind α :=
  if T.ltb x 𝟘 then .error .invalid_argument
  else if T.ltb (x +ₜ xmin) xmin then .error .invalid_argument
  else .ok (powerlawPdf T alpha xmin x)

def cauchyIcdfE (s x : α) : Except ErrKind α := guardUnit T x (.ok (cauchyIcdf T s x))
def exponentialIcdfE (beta x : α) : Except ErrKind α := guardUnit T x (.ok (exponentialIcdf T beta x))
def weibullIcdfE (a b x : α) : Except ErrKind α := guardUnit T x (.ok (weibullIcdf T a b x))
def normalIcdfE (sigma x : α) : Except ErrKind α := guardUnit T x (.ok (normalIcdf T sigma x))
def lognormalIcdfE (sigma x : α) : Except ErrKind α := guardUnit T x (.ok (lognormalIcdf T sigma x))
def logisticIcdfE (s x : α) : Except ErrKind α := guardUnit T x (.ok (logisticIcdf T s x))
def hypsecIcdfE (sigma x : α) : Except ErrKind α := guardUnit T x (.ok (hypsecIcdf T sigma x))
def gammaIcdfE (alpha theta x : α) : Except ErrKind α := guardUnit T x (gammaIcdf T alpha theta x)
def exppowerIcdfE (alpha beta x : α) : Except ErrKind α := guardUnit T x (exppowerIcdf T alpha beta x)
def powerlawIcdfE (alpha xmin x : α) : Except ErrKind α := guardUnit T x (.ok (powerlawIcdf T alpha xmin x))

end Laws

/-! ### The `Float` instance executed by the driver -/

namespace FloatFn

/-- Lanczos approximation (g = 7, 9 coefficients) of the Gamma function for `x ≥ 1/2`;
    reflection below. Relative error about 1e-15 on the parameter ranges of the harnesses. -/
def lanczosCoeffs : List Float :=
  [0.99999999999980993, 676.5203681218851, -1259.1392167224028, 771.32342877765313,
   -176.61502916214059, 12.507343278686905, -0.13857109526572012, 9.9843695780195716e-6,
   1.5056327351493116e-7]

def piF : Float := 3.14159265358979323846

/-- Lanczos sum for `x ≥ 1/2`. -/
def tgammaPos (x : Float) : Float :=
  let x := x - 1.0
  let t := x + 7.5
  let (a, _) := lanczosCoeffs.foldl (fun (acc : Float × Float) c =>
      let (s, i) := acc
      (if i == 0.0 then s + c else s + c / (x + i), i + 1.0)) (0.0, 0.0)
  Float.sqrt (2.0 * piF) * Float.pow t (x + 0.5) * Float.exp (-t) * a

def tgamma (x : Float) : Float :=
  if x < 0.5 then piF / (Float.sin (piF * x) * tgammaPos (1.0 - x)) else tgammaPos x

/-- Exact value of a finite double as `mantissa * 2 ^ exponent` (`none` for inf / nan). -/
def parts (x : Float) : Option (Int × Int) :=
  let b : Nat := x.toBits.toNat
  let sgn : Int := if b / 2 ^ 63 = 1 then -1 else 1
  let e : Nat := (b / 2 ^ 52) % 2048
  let m : Nat := b % 2 ^ 52
  if e = 2047 then none
  else if e = 0 then some (sgn * (m : Int), -1074)
  else some (sgn * ((m + 2 ^ 52 : Nat) : Int), (e : Int) - 1075)

/-- Exact rational value of a finite double. -/
def toRat? (x : Float) : Option Rat :=
  (parts x).map fun (m, e) => if e ≥ 0 then ((m * 2 ^ e.toNat : Int) : Rat) else mkRat m (2 ^ (-e).toNat)

/-- C `fmod`, computed exactly on the integer mantissas (sign of the dividend). -/
def fmod (x y : Float) : Float :=
  match parts x, parts y with
  | some (mx, ex), some (my, ey) =>
    if my = 0 then 0.0 / 0.0
    else
      let e := min ex ey
      let X := mx * 2 ^ (ex - e).toNat
      let Y := my * 2 ^ (ey - e).toNat
      (Float.ofInt (X.tmod Y)).scaleB e
  | some _, none => if y.isNaN then y else x
  | none, _ => 0.0 / 0.0

def lround (x : Float) : Int := (Float.round x).toInt64.toInt

end FloatFn

/-- IEEE double operations of the C library: what the C++ executes. -/
def TF.float : TF Float where
  add := (· + ·)
  sub := (· - ·)
  mul := (· * ·)
  div := (· / ·)
  pow := Float.pow
  fmod := FloatFn.fmod
  neg := fun x => -x
  abs := Float.abs
  exp := Float.exp
  log := Float.log
  sqrt := Float.sqrt
  tan := Float.tan
  atan := Float.atan
  acos := Float.acos
  cosh := Float.cosh
  sin := Float.sin
  cos := Float.cos
  tgamma := FloatFn.tgamma
  ofNat := Float.ofNat
  pi := FloatFn.piF
  ltb := fun a b => a < b
  leb := fun a b => a ≤ b
  eqb := fun a b => a == b
  lround := FloatFn.lround
  ceilI := fun x => (Float.ceil x).toInt64.toInt

end Pops
