/-
  Property predicates on cells (C01, C02, C03), decidable and executable: the driver evaluates
  them on the implementation's observed states and the theorems in Props/ use the same `def`s.
-/
import PopsModel.Model.Host
namespace Pops

/-- C02: every count of the cell is non-negative. -/
def Cell.nonNeg (c : Cell) : Bool :=
  decide (0 ≤ c.s) && c.e.all (fun x => decide (0 ≤ x)) && decide (0 ≤ c.i) && decide (0 ≤ c.r) &&
  decide (0 ≤ c.te) && c.mort.all (fun x => decide (0 ≤ x)) && decide (0 ≤ c.died) && decide (0 ≤ c.th)

/-- C03: derived totals equal the sum of their parts. -/
def Cell.totalsOK (c : Cell) : Bool :=
  decide (c.th = c.s + sumL c.e + c.i + c.r) && decide (c.te = sumL c.e)

/-- C03: infected equals the sum of the mortality cohorts. -/
def Cell.mortOK (c : Cell) : Bool := decide (c.i = sumL c.mort)

/-- C02: infected never exceeds the cell's total hosts. -/
def Cell.infectedLeTotal (c : Cell) : Bool := decide (c.i ≤ c.th)

/-- A consistent cell: what the generators produce and what every action must preserve. -/
def Cell.consistent (c : Cell) : Bool := c.nonNeg && c.totalsOK && c.mortOK

/-- C01 ledger classes of one action on one cell. -/
inductive Ledger where
  | reclassify                 -- hosts only change class inside the cell
  | removal                    -- a host-removal treatment: hosts may leave, none is created
  | death                      -- mortality: hosts leave and are counted in `died`
deriving DecidableEq, Repr

/-- C01 for one cell and one action of the given class. -/
def ledgerOK (k : Ledger) (pre post : Cell) : Bool :=
  match k with
  | .reclassify => decide (post.hosts = pre.hosts) && decide (post.died = pre.died)
  | .removal => decide (post.hosts ≤ pre.hosts) && decide (post.died = pre.died)
  | .death => decide (post.hosts = pre.hosts - (post.died - pre.died)) && decide (pre.died ≤ post.died)

/-- C01 for a host move between two cells: hosts are only relocated. -/
def moveLedgerOK (src dst src' dst' : Cell) : Bool :=
  decide (src'.hosts + dst'.hosts = src.hosts + dst.hosts) &&
  decide (src'.died = src.died) && decide (dst'.died = dst.died)

/-- F20 region: a ratio treatment whose per-cohort rounding disagrees with the rounding of the
    infected total (then `i = sum mort` cannot be kept while following C10's per-cohort rule). -/
def roundingAgrees (round : Rat → Int) (coef : Rat) (c : Cell) : Bool :=
  decide (sumL (c.mort.map fun (m : Int) => round ((m : Rat) * coef)) = round ((c.i : Rat) * coef))

end Pops

namespace Pops

/-! ### Mechanism specifications (C05, C10, C11, C12, C17), stated on a pre/post pair of cells.
    Evaluated by the driver on the implementation's states; proved of the model in Props/. -/

/-- C10 host removal: each class loses its share rounded up; totals follow. -/
def simpleTreatSpec (coef : Rat) (all : Bool) (pre post : Cell) : Bool :=
  let share (x : Int) : Int := if all then (if coef ≠ 0 then x else 0) else rceil ((x : Rat) * coef)
  decide (post.s = pre.s - rceil ((pre.s : Rat) * coef)) &&
  decide (post.e = pre.e.map fun x => x - share x) &&
  decide (post.i = pre.i - share pre.i) &&
  decide (post.mort = pre.mort.map fun x => x - share x) &&
  decide (post.r = pre.r) && decide (post.died = pre.died)

/-- C10 pesticide: each class moves its share rounded down into the resistant class. -/
def pesticideTreatSpec (coef : Rat) (all : Bool) (pre post : Cell) : Bool :=
  let share (x : Int) : Int := if all then (if coef ≠ 0 then x else 0) else rfloor ((x : Rat) * coef)
  let sShare := rfloor ((pre.s : Rat) * coef)
  decide (post.s = pre.s - sShare) &&
  decide (post.e = pre.e.map fun x => x - share x) &&
  decide (post.i = pre.i - share pre.i) &&
  decide (post.mort = pre.mort.map fun x => x - share x) &&
  decide (post.r = pre.r + sShare + sumL (pre.e.map share) + share pre.i) &&
  decide (post.died = pre.died) && decide (post.th = pre.th)

/-- C10 pesticide expiry: every resistant host of a treated cell returns to susceptible. -/
def pesticideEndSpec (coef : Rat) (pre post : Cell) : Bool :=
  if coef > 0 then post == { pre with s := pre.s + pre.r, r := 0 } else post == pre

/-- C11: cohort `0` dies completely, cohorts `1..maxIndex` lose `floor (rate * size)`, cohorts
    within the lag lose nothing; dead are added to `died`, subtracted from `i` and `th`; then all
    cohorts age by one (rotate). `post` is the state after the whole mortality action. -/
def mortalitySpec (rate : Rat) (lag : Int) (pre post : Cell) : Bool :=
  let maxIndex : Int := (pre.mort.length : Int) - lag - 1
  let killed : List Int := (List.range pre.mort.length).map fun (k : Nat) =>
    let m : Int := pre.mort[k]!
    if rate ≤ 0 then 0
    else if ((k : Nat) : Int) > maxIndex then 0
    else if m ≤ 0 then 0
    else if k = 0 then m else rfloor (rate * m)
  let dead := sumL killed
  decide (post.mort = rotateLeft (subL pre.mort killed)) &&
  decide (post.died = pre.died + dead) && decide (post.i = pre.i - dead) &&
  decide (post.th = pre.th - dead) && decide (post.s = pre.s) && decide (post.e = pre.e) &&
  decide (post.r = pre.r) && decide (post.te = pre.te)

/-- C12 establishment event: the disperser establishes iff a susceptible host is present and
    the tester (uniform draw, or one minus the fixed probability) is below
    susceptible / total population x weather x susceptibility. -/
def establishSpec (c : Cell) (env : EnvCell) (stochastic : Bool) (pEst u : Rat) (result : Int) : Bool :=
  let p := (c.s : Rat) / (env.n : Rat) * env.sus.getD 1 * env.w.getD 1
  let tester := if stochastic then u else 1 - pEst
  decide (result = if c.s > 0 ∧ tester < p then 1 else 0)

/-- C12/C04: what a successful or failed landing does to the cell. -/
def landingSpec (mt : ModelType) (pre post : Cell) (result : Int) : Bool :=
  if result = 1 then
    match mt with
    | .si => post == { pre with s := pre.s - 1, i := pre.i + 1, mort := addLast pre.mort 1 }
    | .sei => post == { pre with s := pre.s - 1, e := addLast pre.e 1, te := pre.te + 1 }
  else post == pre

/-- C05 at a spread step of the SEI model: whatever arrives, no host becomes infected during the
    step, no mortality cohort changes, and only the youngest exposed cohort grows - by exactly the
    susceptible hosts consumed. -/
def arrivalsStayExposed (pre post : Cell) : Bool :=
  decide (post.i = pre.i) && decide (post.mort = pre.mort) && decide (post.e.dropLast = pre.e.dropLast) &&
  decide (post.te - pre.te = pre.s - post.s) && decide (sumL post.e - sumL pre.e = pre.s - post.s)

/-- C05 over a model step that is not a spread step: exposed cohorts do not age (no cohort grows, the
    cohort vector keeps its length) and no host becomes infected - whatever lethal temperature,
    survival rate, treatments and mortality do in that step only takes hosts out of these classes. -/
def exposedFrozen (pre post : Cell) : Bool :=
  decide (post.e.length = pre.e.length) && (List.zip pre.e post.e).all (fun p => decide (p.2 ≤ p.1)) &&
  decide (post.i ≤ pre.i)

def offSeasonFrame (pre post : List Cell) : Bool :=
  decide (post.length = pre.length) && (List.zip pre post).all (fun p => exposedFrozen p.1 p.2)

/-- C12 lethal temperature at one cell: colder than the threshold -> all infected back to
    susceptible (mortality cohorts reduced by a valid draw), exposed untouched; otherwise unchanged. -/
def lethalSpec (cold : Bool) (pre post : Cell) : Bool :=
  if cold then
    decide (post.i = 0) && decide (post.s = pre.s + pre.i) && decide (post.e = pre.e) &&
    decide (post.te = pre.te) && decide (post.r = pre.r) && decide (post.th = pre.th) &&
    decide (post.died = pre.died) &&
    (decide (pre.i ≤ 0) && post.mort == pre.mort || validDrawB pre.mort pre.i (subL pre.mort post.mort))
  else post == pre

/-- C12 survival rate `r < 1`: `round (r * count)` of the infected and of the exposed stay. -/
def survivalSpec (rate : Rat) (pre post : Cell) : Bool :=
  if rate < 1 then
    decide (post.i = lround ((pre.i : Rat) * rate)) && decide (post.te = lround ((pre.te : Rat) * rate)) &&
    decide (post.s = pre.s + (pre.i - post.i) + (pre.te - post.te)) &&
    decide (post.r = pre.r) && decide (post.th = pre.th) && decide (post.died = pre.died)
  else post == pre

/-- C05: one latency step at a cell with `|e| = L + 1`: the front cohort joins the infected and
    the youngest mortality cohort iff `step >= L`; every cohort moves one position to the front. -/
def stepForwardSpec (latency step : Nat) (pre post : Cell) : Bool :=
  match pre.e with
  | [] => post == pre
  | o :: rest =>
    if step ≥ latency then
      post == { pre with i := pre.i + o, mort := addLast pre.mort o, te := pre.te - o, e := rest ++ [0] }
    else post == { pre with e := rest ++ [o] }

end Pops

namespace Pops

/-! ### Host movement (C17, C01, C02), judged on observed pre / post states.
    Added for the driver; the equations are the conclusions of `C17_movement_amount`
    (Props/C17.lean) and of the definition of `moveHosts`. -/

/-- C17 "drawn without replacement from the source cell's classes" / C02 "hosts taken out of a cell
    never exceed what the cell contained": no class and no cohort of the source grows, none loses
    more than it held. -/
def moveDrawnFromSource (src src' : Cell) : Bool :=
  let within (x x' : Int) : Bool := decide (0 ≤ x') && decide (x' ≤ x)
  within src.s src'.s && within src.i src'.i && within src.r src'.r && within src.te src'.te &&
  src'.e.length == src.e.length && (List.zip src.e src'.e).all (fun p => within p.1 p.2) &&
  src'.mort.length == src.mort.length && (List.zip src.mort src'.mort).all (fun p => within p.1 p.2)

/-- C17 "together with their cohort membership, to the destination": what the source loses in each
    class and in each exposed / mortality cohort is what the destination gains (the two cohort
    equations are literally the last two conclusions of `C17_movement_amount`). -/
def moveMembershipOK (src dst src' dst' : Cell) : Bool :=
  decide (src'.s + dst'.s = src.s + dst.s) && decide (src'.i + dst'.i = src.i + dst.i) &&
  decide (src'.r + dst'.r = src.r + dst.r) && decide (src'.te + dst'.te = src.te + dst.te) &&
  addL src'.e dst'.e == addL src.e dst.e && addL src'.mort dst'.mort == addL src.mort dst.mort

/-- One row of the movement table on the per-cell host totals: `min requested present` hosts leave
    the source (flat index `row.1`) and reach the destination (`row.2.1`). -/
def applyMoveTotals (tot : List Int) (row : Nat × Nat × Int) : List Int :=
  let m := min row.2.2 (tot[row.1]!)
  let t1 := tot.set row.1 (tot[row.1]! - m)
  t1.set row.2.1 (t1[row.2.1]! + m)

/-- C17 for several rows due in one step: the rows are applied once each, in table order, each
    moving `min (requested, hosts present)`; the host total of every cell afterwards is therefore
    determined (which classes the hosts come from is not). -/
def movementTotals (tot : List Int) (rows : List (Nat × Nat × Int)) : List Int :=
  rows.foldl applyMoveTotals tot

/-- Destinations (flat indices) of the rows that move at least one host, in table order. -/
def movementArrivals (tot : List Int) (rows : List (Nat × Nat × Int)) : List Nat :=
  (rows.foldl (fun (acc : List Int × List Nat) row =>
    let m := min row.2.2 (acc.1[row.1]!)
    (applyMoveTotals acc.1 row, if m > 0 then acc.2 ++ [row.2.1] else acc.2)) (tot, [])).2

/-- Position-wise sum of cohort vectors. -/
def sumCohorts : List (List Int) → List Int
  | [] => []
  | x :: xs => xs.foldl addL x

/-- C17 / C01 over any number of host moves: hosts are relocated together with their class and
    cohort membership, so every class total and every cohort total over the landscape is kept. -/
def landClassesConserved (pre post : List Cell) : Bool :=
  decide (sumL (post.map (·.s)) = sumL (pre.map (·.s))) && decide (sumL (post.map (·.i)) = sumL (pre.map (·.i))) &&
  decide (sumL (post.map (·.r)) = sumL (pre.map (·.r))) && decide (sumL (post.map (·.te)) = sumL (pre.map (·.te))) &&
  sumCohorts (post.map (·.e)) == sumCohorts (pre.map (·.e)) &&
  sumCohorts (post.map (·.mort)) == sumCohorts (pre.map (·.mort))

end Pops
