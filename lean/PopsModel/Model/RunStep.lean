/-
  `Model::run_step` as a composition (C09): the host rasters after a model step are obtained by
  running, in plan order, the cell operations each action performs. Each action contributes a
  *generator* - a function from the current landscape to the list of operations it performs on it
  (overpopulation decides its departures from the state it finds; the other actions' operations are
  determined by the step's inputs: rasters, tables, kernel results and random draws).
-/
import PopsModel.Model.Actions
namespace Pops

/-- A state-dependent list of operations. -/
abbrev OpGen := Land → List LandOp

/-- Run generators in order; each sees the landscape its predecessors left. -/
def runGens : List OpGen → Land → Except ErrKind Land
  | [], l => .ok l
  | gen :: rest, l => do
    let l' ← runOps (gen l) l
    runGens rest l'

/-- Hosts removed by treatments while running generators. -/
def removedByGens : List OpGen → Land → Int
  | [], _ => 0
  | gen :: rest, l =>
    match runOps (gen l) l with
    | .ok l' => removedAlong (gen l) l + removedByGens rest l'
    | .error _ => 0

/-- Domain hypotheses along a run of generators: each generator's history is in its domain at the
    landscape the generator is applied to (the landscape its predecessors left). -/
def GensDomainAlong : List OpGen → Land → Prop
  | [], _ => True
  | gen :: rest, l => DomainAlong (gen l) l ∧ ∀ l', runOps (gen l) l = .ok l' → GensDomainAlong rest l'

/-- The step's inputs: everything `run_step` reads besides the host rasters, with every random
    outcome made explicit (one entry per suitable cell, in suitable-cell order, where applicable). -/
structure StepInputs where
  g : Grid
  mt : ModelType
  latency : Nat
  suit : List (Int × Int)
  -- lethal temperature
  lethalThreshold : Rat
  temperatures : List Rat
  lethalDraws : List (List Int)
  -- survival rate
  survivalRates : List Rat
  survivalDrawsI : List (List Int)
  survivalDrawsE : List (List Int)
  -- spread: one entry per disperser in kernel-call order (targets inside the study area only matter)
  landings : List (Nat × EnvCell × Rat)
  stochasticEst : Bool
  pEst : Rat
  -- overpopulation
  overThreshold : Rat
  overLeaving : Rat
  overTargets : List (Int × Int)
  -- host movement rows applied at this step, with their draws
  moves : List (Nat × Nat × Int × ClassDraw × List Int × List Int)
  -- treatments due at this step, in list order: (finish?, pesticide?, application, coefficients)
  treatEvents : List (Bool × Bool × TreatApp × List Rat)
  -- mortality (per-host parameters of the pest-host table)
  mortalityRate : Rat
  mortalityLag : Int

def cellOpsOver (inp : StepInputs) (f : Nat → Nat → Option CellOp) : List LandOp :=
  (List.zip (List.range inp.suit.length) inp.suit).filterMap fun (pos, rc) =>
    let k := inp.g.idx rc.1 rc.2
    (f pos k).map (LandOp.at k)

/-- Operations of each action of the documented order. -/
def actionGen (inp : StepInputs) (step : Nat) : ActionKind → OpGen
  | .soilNext => fun _ => []
  | .lethal => fun _ => cellOpsOver inp fun pos k =>
      if inp.temperatures[k]! < inp.lethalThreshold then some (.lethal (inp.lethalDraws.getD pos [])) else none
  | .survival => fun _ => cellOpsOver inp fun pos k =>
      some (.survival inp.survivalRates[k]! (inp.survivalDrawsI.getD pos []) (inp.survivalDrawsE.getD pos []))
  | .spread => fun _ => inp.landings.map fun (k, env, u) => .at k (.dispTo inp.mt env inp.stochasticEst inp.pEst u)
  | .stepForward => fun l => (List.range l.length).map fun k => .at k (.stepForward inp.mt inp.latency step)
  | .overpopulation => fun l =>
      -- departures in suitable-cell order, each taking the next kernel result; arrivals afterwards
      let dep := (inp.suit.filter fun rc => departs inp.overThreshold (l[inp.g.idx rc.1 rc.2]!))
      let pairs := List.zip dep inp.overTargets
      (pairs.map fun (rc, _) =>
          let k := inp.g.idx rc.1 rc.2
          LandOp.at k (.pestsFrom (leavingCount inp.overLeaving (l[k]!)))) ++
      (pairs.filterMap fun (rc, t) =>
          if inp.g.isOutside t.1 t.2 then none
          else some (LandOp.at (inp.g.idx t.1 t.2) (.pestsTo (leavingCount inp.overLeaving (l[inp.g.idx rc.1 rc.2]!)))))
  | .movement => fun _ => inp.moves.map fun (a, b, n, d, dE, dM) => .move a b n d dE dM
  | .treatments => fun _ => inp.treatEvents.flatMap fun (finish, pest, app, coefs) =>
      cellOpsOver inp fun _ k =>
        some (if finish then .pesticideEnd coefs[k]!
              else if pest then .pesticideTreat coefs[k]! app else .simpleTreat coefs[k]! app)
  | .mortality => fun l =>
      -- apply at the suitable cells, then age the cohorts of every cell (rate 0 only ages)
      let suitIdx := inp.suit.map fun rc => inp.g.idx rc.1 rc.2
      (List.range l.length).map fun k =>
        .at k (.mortality (if suitIdx.contains k then inp.mortalityRate else 0) inp.mortalityLag)
  | .spreadRate => fun _ => []
  | .quarantine => fun _ => []

/-- The generators of one model step: the actions of the plan, in order. -/
def stepGens (cfg : StepCfg) (inp : StepInputs) (step : Nat) : List OpGen :=
  (plan cfg step).map fun a => actionGen inp step a.1

/-- The host rasters after `Model::run_step(step)`. -/
def runStepHosts (cfg : StepCfg) (inp : StepInputs) (step : Nat) (l : Land) : Except ErrKind Land :=
  runGens (stepGens cfg inp step) l

end Pops
