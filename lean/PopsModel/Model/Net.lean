/-
  C15 model, part 1: grid geometry, edge geometry (segment) and the loaded network structure of
  `include/pops/network.hpp`, mirrored function by function (core Lean only).

  * `double` -> `Rat` (the harness feeds dyadic values only), `RasterIndex`/`NodeId` -> `Int`.
  * `std::map<pair<NodeId,NodeId>, Segment>` -> key-sorted association list `Net.segs`
    (`insertSeg` = `emplace`: an existing key wins).
  * `nodes_by_row_col_` and `node_matrix_` are functions of `segs`, computed exactly like the loop
    at the end of `load_segments` fills them (`nodePlaces`, `neighbours`, `neighbourProbs`).
-/
import PopsModel.Model.Basic
namespace Pops.Net

abbrev Cell := Int × Int
abbrev NodeId := Int
abbrev Key := NodeId × NodeId

/-- `BBox<double>` plus the two resolutions handed to the `Network` constructor. -/
structure Grid where
  north : Rat
  south : Rat
  east : Rat
  west : Rat
  ewRes : Rat
  nsRes : Rat
deriving DecidableEq, Repr, Inhabited

namespace Grid

/-- `xy_to_row_col(double, double)`: `{floor((north - y) / ns_res), floor((x - west) / ew_res)}`. -/
def xyToRowCol (g : Grid) (x y : Rat) : Cell :=
  (rfloor ((g.north - y) / g.nsRes), rfloor ((x - g.west) / g.ewRes))

/-- Constructor: `std::tie(max_row_, max_col_) = xy_to_row_col(bbox_.east, bbox_.south)`. -/
def maxRow (g : Grid) : Int := (g.xyToRowCol g.east g.south).1
def maxCol (g : Grid) : Int := (g.xyToRowCol g.east g.south).2

/-- `distance_per_cell_((ew_res + ns_res) / 2)`. -/
def distancePerCell (g : Grid) : Rat := (g.ewRes + g.nsRes) / 2

/-- `xy_out_of_bbox`. -/
def xyOut (g : Grid) (x y : Rat) : Bool :=
  decide (x > g.east) || decide (x < g.west) || decide (y > g.north) || decide (y < g.south)

/-- `cell_out_of_bbox` / `row_col_out_of_bbox`. -/
def cellOut (g : Grid) (c : Cell) : Bool :=
  decide (c.1 > g.maxRow) || decide (c.1 < 0) || decide (c.2 > g.maxCol) || decide (c.2 < 0)

end Grid

/-- `EdgeGeometry<Cell>`: the cells plus the three private doubles. -/
structure Segment where
  cells : List Cell
  cpc : Rat := 0      -- cost_per_cell_
  total : Rat := 0    -- total_cost_
  prob : Rat := 0     -- probability_
deriving DecidableEq, Repr, Inhabited

namespace Segment

/-- `size() - 1` (unsigned arithmetic; loaded segments have at least two cells). -/
def steps (s : Segment) : Nat := s.cells.length - 1

/-- `cost()`: the stated total if non-zero, else `(size - 1) * cost_per_cell_`. -/
def cost (s : Segment) : Rat :=
  if s.total ≠ 0 then s.total else (s.steps : Rat) * s.cpc

/-- `cost_per_cell()`. -/
def costPerCell (s : Segment) : Rat :=
  if s.total ≠ 0 then s.total / (s.steps : Rat) else s.cpc

/-- `index_from_cost`: `std::lround(cost / cost_per_cell())`. -/
def indexFromCost (s : Segment) (c : Rat) : Int := lround (c / s.costPerCell)

def front (s : Segment) : Cell := s.cells.headD (0, 0)
def back (s : Segment) : Cell := s.cells.getLastD (0, 0)

end Segment

/-- `EdgeGeometryView`: the cells in travel direction plus the underlying segment for the costs. -/
structure SegView where
  cells : List Cell
  seg : Segment
deriving DecidableEq, Repr, Inhabited

namespace SegView
def cost (v : SegView) : Rat := v.seg.cost
def costPerCell (v : SegView) : Rat := v.seg.costPerCell
def front (v : SegView) : Cell := v.cells.headD (0, 0)
def back (v : SegView) : Cell := v.cells.getLastD (0, 0)
/-- `cell_by_cost`: `operator[](segment_.index_from_cost(cost))`; `none` = read past the end
    (undefined behaviour in the code, shown impossible for loaded networks with positive costs). -/
def cellByCost (v : SegView) (c : Rat) : Option Cell :=
  let i := v.seg.indexFromCost c
  if i < 0 then none else v.cells[i.toNat]?
end SegView

/-- Lexicographic `<` of `std::pair<int,int>`. -/
def keyLt (a b : Key) : Bool := decide (a.1 < b.1) || (decide (a.1 = b.1) && decide (a.2 < b.2))

/-- Ordered insertion into the key-sorted list (the key is known to be absent). -/
def orderedInsert (k : Key) (s : Segment) : List (Key × Segment) → List (Key × Segment)
  | [] => [(k, s)]
  | e :: rest => if keyLt k e.1 then (k, s) :: e :: rest else e :: orderedInsert k s rest

/-- `segments_by_nodes_.emplace(key, segment)`: an existing key is kept, otherwise sorted insert. -/
def insertSeg (k : Key) (s : Segment) (l : List (Key × Segment)) : List (Key × Segment) :=
  if l.any (fun e => e.1 = k) then l else orderedInsert k s l

/-- The loaded network. -/
structure Net where
  grid : Grid
  hasProb : Bool := false
  segs : List (Key × Segment) := []
deriving Repr, Inhabited

namespace Net

/-- `segments_by_nodes_.find(key)`. -/
def findSeg (n : Net) (k : Key) : Option Segment :=
  (n.segs.find? (fun e => e.1 = k)).map (·.2)

/-- The insertions into `nodes_by_row_col_` made by the final loop of `load_segments`:
    `[front].insert(start)`, `[back].insert(end)` for every stored segment. -/
def nodePlaces (n : Net) : List (NodeId × Cell) :=
  n.segs.flatMap fun e => [(e.1.1, e.2.front), (e.1.2, e.2.back)]

/-- `get_nodes_at(row, col)` as a list (set semantics: duplicates are irrelevant). -/
def nodesAt (n : Net) (c : Cell) : List NodeId :=
  (n.nodePlaces.filter (fun p => p.2 = c)).map (·.1)

/-- `has_node_at(row, col)`. -/
def hasNodeAt (n : Net) (c : Cell) : Bool := !(n.nodesAt c).isEmpty

/-- `node_matrix_[id].second`, in the order the final loop of `load_segments` pushes them. -/
def neighbours (n : Net) (id : NodeId) : List NodeId :=
  n.segs.flatMap fun e =>
    (if e.1.1 = id then [e.1.2] else []) ++ (if e.1.2 = id then [e.1.1] else [])

/-- `node_matrix_[id].first` (filled only when the header has a probability column). -/
def neighbourProbs (n : Net) (id : NodeId) : List Rat :=
  if n.hasProb then
    n.segs.flatMap fun e =>
      (if e.1.1 = id then [e.2.prob] else []) ++ (if e.1.2 = id then [e.2.prob] else [])
  else []

/-- Lexicographic order of `std::pair<RasterIndex,RasterIndex>` map keys. -/
def cellLt (a b : Cell) : Bool := decide (a.1 < b.1) || (decide (a.1 = b.1) && decide (a.2 < b.2))

/-- Smallest element of a list of cells in map order. -/
def minCell : List Cell → Option Cell
  | [] => none
  | c :: rest => match minCell rest with
    | none => some c
    | some m => if cellLt m c then some m else some c

/-- `get_node_row_col(node)`: the first cell in map order whose set contains the node. -/
def nodeCell (n : Net) (id : NodeId) : Option Cell :=
  minCell ((n.nodePlaces.filter (fun p => p.1 = id)).map (·.2))

/-- `get_segment(start, end)`: forward view of `(start,end)`, else reversed view of `(end,start)`,
    else `invalid_argument` (`none`). -/
def getSegment (n : Net) (a b : NodeId) : Option SegView :=
  match n.findSeg (a, b) with
  | some s => some ⟨s.cells, s⟩
  | none => match n.findSeg (b, a) with
    | some s => some ⟨s.cells.reverse, s⟩
    | none => none

end Net
end Pops.Net
