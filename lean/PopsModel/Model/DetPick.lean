/-
  C14: the allotment loop of `DeterministicDispersalKernel::operator()` (deterministic_kernel.hpp
  lines 261-286), generic in the number type so that the SAME definitions run on `Float` in the
  driver and are reasoned about on `Rat` in Analysis/DetQuota.lean. Core Lean only.

    double max = (double)-std::numeric_limits<int>::max();
    for (i ..) for (j ..) if (probability_copy(i, j) > max) { max = ...; max_prob_row = i; ... }
    probability_copy(max_prob_row, max_prob_col) -= proportion_of_dispersers;

  The window is a row-major list (`data_[row * cols + col]`), so the double loop is one scan.
-/
import PopsModel.Model.Basic
namespace Pops.Det

/-- The scan: `best` is the index of the first cell strictly above every earlier one and above the
    initial `max`; `none` if no cell exceeds the initial value (then the C++ keeps
    `max_prob_row = max_prob_col = 0` and a zero movement). -/
def argmaxGo {α : Type} (lt : α → α → Bool) : List α → Nat → α → Option Nat → Option Nat
  | [], _, _, best => best
  | x :: xs, i, mx, best =>
    if lt mx x then argmaxGo lt xs (i + 1) x (some i) else argmaxGo lt xs (i + 1) mx best

def argmaxScan {α : Type} (lt : α → α → Bool) (init : α) (l : List α) : Option Nat :=
  argmaxGo lt l 0 init none

/-- Working copy of the window and the number of dispersers each window cell has received. -/
structure Allot (α : Type) where
  copy : List α
  counts : List Nat

/-- One call: find the arg-max, subtract `δ = proportion_of_dispersers` there. When no cell is
    found the C++ decrements cell (0, 0) and the disperser stays in the source cell (no window cell
    is credited). -/
def pickStep {α : Type} (lt : α → α → Bool) (sub : α → α → α) (init δ : α) (s : Allot α) :
    Allot α × Option Nat :=
  match argmaxScan lt init s.copy with
  | some i => ({ copy := s.copy.modify i (sub · δ), counts := s.counts.modify i (· + 1) }, some i)
  | none => ({ s with copy := s.copy.modify 0 (sub · δ) }, none)

/-- `t` consecutive calls for one source cell. -/
def runPicks {α : Type} (lt : α → α → Bool) (sub : α → α → α) (init δ : α) : Nat → Allot α → Allot α
  | 0, s => s
  | t + 1, s => (pickStep lt sub init δ (runPicks lt sub init δ t s)).1

/-- The state right after the reset `probability_copy = probability`. -/
def Allot.fresh {α : Type} (p : List α) : Allot α := { copy := p, counts := List.replicate p.length 0 }

end Pops.Det
