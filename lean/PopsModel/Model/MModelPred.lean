/-
  `Model::run_step` with SEVERAL hosts: the model-level pieces on top of Model/Multi.lean (one cell,
  several hosts) and Model/HostOps.lean / RunStep.lean (one host, whole landscape), and the
  decidable predicates the driver (Driver/MModelEng.lean) evaluates on the implementation's
  observed states. The theorems about them are in Props/C16Model.lean.

  Two views of the same data are used:
  * host-major `MLand` - one `Land` (row-major list of cells) per host pool, in registration
    order: this is how the rasters are stored and how every per-host action works;
  * cell-major `CLand` - per cell the list of its hosts' cells: this is what
    `MultiHostPool::disperser_to`, `infected_at`, `total_hosts_at`, `dispersers_from` look at.
-/
import PopsModel.Model.MultiPred
import PopsModel.Model.HostOps
import PopsModel.Model.RunStep
namespace Pops.MM

/-- Host-major: one landscape per host pool. -/
abbrev MLand := List Land

/-- Cell-major: for every cell the cells of all hosts (in host order). -/
abbrev CLand := List (List Cell)

/-- The cells of all hosts at flat index `k`. -/
def cellsAtM (m : MLand) (k : Nat) : List Cell := m.map fun l => l[k]!

/-- Host-major to cell-major for a raster of `n` cells. -/
def toCellMajor (m : MLand) (n : Nat) : CLand := (List.range n).map (cellsAtM m)

/-- All hosts of all pools and cells. -/
def MLand.hosts (m : MLand) : Int := sumL (m.map Land.hosts)
def MLand.died (m : MLand) : Int := sumL (m.map Land.died)

/-! ### C01 across hosts -/

/-- C01 for one action block of the model over all hosts and cells: a reclassifying action keeps
    the number of hosts, a removal treatment only takes hosts out, mortality takes out exactly what
    it adds to `died`; nothing ever increases the sum over hosts and cells. -/
def modelLedgerOK (k : Ledger) (pre post : MLand) : Bool :=
  match k with
  | .reclassify => decide (post.hosts = pre.hosts) && decide (post.died = pre.died)
  | .removal => decide (post.hosts ≤ pre.hosts) && decide (post.died = pre.died)
  | .death => decide (post.hosts = pre.hosts - (post.died - pre.died)) && decide (pre.died ≤ post.died)

/-- One host's share of a run: its operations, the landscape it started from and ended in. -/
structure HostRun where
  ops : List LandOp
  start : Land
  stop : Land

/-- The run of one host is a valid history (C01_history's hypotheses). -/
def HostRun.valid (r : HostRun) : Prop :=
  r.start.inv ∧ r.start.uniform ∧ DomainAlong r.ops r.start ∧ runOps r.ops r.start = .ok r.stop

/-- Hosts the removal treatments took out of this host. -/
def HostRun.removed (r : HostRun) : Int := removedAlong r.ops r.start

/-- One host's share of a model step as `Model::run_step` is composed (Model/RunStep.lean): the
    operation generators of the actions that ran on this host (lethal temperature, survival rate,
    the landings handed to this host, latency step, its part of the pest moves, host moves for the
    first host, treatments, mortality with its own rate and lag), where it started and ended. -/
structure HostGens where
  gens : List OpGen
  start : Land
  stop : Land

def HostGens.valid (r : HostGens) : Prop :=
  r.start.inv ∧ r.start.uniform ∧ GensDomainAlong r.gens r.start ∧ runGens r.gens r.start = .ok r.stop

def HostGens.removed (r : HostGens) : Int := removedByGens r.gens r.start

/-! ### C16 sums at pool level -/

/-- `MultiHostPool::infected_at` / `total_hosts_at` for every cell of the raster. -/
def poolInfected (m : MLand) (n : Nat) : List Int := (List.range n).map fun k => multiInfectedAt (cellsAtM m k)
def poolTotalHosts (m : MLand) (n : Nat) : List Int := (List.range n).map fun k => multiTotalHostsAt (cellsAtM m k)

/-- C16: what the pool reports per cell (`inf`, `tot`, one entry per cell) are the sums over the
    hosts' values at that cell. -/
def poolSumsOK (m : MLand) (inf tot : List Int) : Bool :=
  inf.length == tot.length &&
  (List.range inf.length).all fun k => sumsSpec (cellsAtM m k) inf[k]! tot[k]!

/-! ### C16 landings in a spread step -/

/-- Susceptible hosts lost / exposed-or-infected hosts gained by one host at one cell. -/
def sLost (pre post : Cell) : Int := pre.s - post.s
def eiGained (pre post : Cell) : Int := (post.i + post.te) - (pre.i + pre.te)

/-- One host at one cell over any number of landings: what it gains in E/I is what it loses in S,
    it never gains more than the susceptible hosts it had (nothing is gained from a non-positive
    stock), and resistant, dead and total hosts stay. Reflexive and transitive. -/
def hostSpreadOK (pre post : Cell) : Bool :=
  (decide (sLost pre post = 0) || (decide (0 < sLost pre post) && decide (sLost pre post ≤ pre.s))) &&
  decide (eiGained pre post = sLost pre post) &&
  decide (post.r = pre.r) && decide (post.died = pre.died) && decide (post.th = pre.th)

/-- The aggregate form at one cell: over the hosts, the susceptible hosts lost equal the E/I
    gained, and every host obeys `hostSpreadOK`. -/
def cellSpreadOK (pre post : List Cell) : Bool :=
  decide (post.length = pre.length) && (List.zip pre post).all (fun p => hostSpreadOK p.1 p.2) &&
  decide (sumL (List.zipWith sLost pre post) = sumL (List.zipWith eiGained pre post))

/-- The aggregate spread predicate over the landscape (cell-major). -/
def landSpreadOK (pre post : CLand) : Bool :=
  decide (post.length = pre.length) && (List.zip pre post).all fun p => cellSpreadOK p.1 p.2

/-- All susceptible hosts consumed between two landscapes. -/
def sLostTotal (pre post : CLand) : Int :=
  sumL (List.zipWith (fun a b => sumL (List.zipWith sLost a b)) pre post)

/-- One observed landing: nothing changes, or exactly one cell changes and at that cell
    `atMostOneSpec` holds with result 1 (one host, by one, and it had a susceptible individual). -/
def landingStepOK (ps : List HostParams) (pre post : CLand) : Bool :=
  post == pre ||
  (List.range pre.length).any fun k => post == pre.set k (post[k]!) && atMostOneSpec ps (pre[k]!) (post[k]!) 1

/-- A chain of landscapes in which every step is one landing. -/
def landingChainOK (ps : List HostParams) : CLand → List CLand → Bool
  | _, [] => true
  | a, b :: rest => landingStepOK ps a b && landingChainOK ps b rest

/-- One disperser of the spread step that lands inside the study area: the cell, what the
    environment holds there, and the two random outcomes (`pick` of `std::discrete_distribution`,
    uniform `u` of the establishment test). -/
structure Landing where
  k : Nat
  env : MEnv
  pick : Nat
  u : Rat

/-- `host_pool.disperser_to(row, col, generator)` of the multi-host pool at cell `k` of the
    landscape: returns the new landscape and 0/1. -/
def landAt (cfg : MultiCfg) (ps : List HostParams) (land : CLand) (ld : Landing) :
    Except ErrKind (CLand × Int) :=
  match land[ld.k]? with
  | none => .ok (land, 0)
  | some cells =>
    match multiDisperserTo cfg ps ld.env cells ld.pick ld.u with
    | .ok (cells', r, _) => .ok (land.set ld.k cells', r)
    | .error e => .error e

/-- The landings of a spread step in kernel-call order; the first rejected landing (combined
    suitability above one) ends the step with its exception. Returns the landscape and the
    number of established dispersers. -/
def runLandings (cfg : MultiCfg) (ps : List HostParams) : List Landing → CLand → Except ErrKind (CLand × Int)
  | [], land => .ok (land, 0)
  | ld :: rest, land =>
    match landAt cfg ps land ld with
    | .error e => .error e
    | .ok (land', r) =>
      match runLandings cfg ps rest land' with
      | .error e => .error e
      | .ok (land'', n) => .ok (land'', r + n)

/-! ### C16 generation -/

/-- Dispersers generated in one suitable cell by all hosts (deterministic generation), and what
    the property prescribes for it. -/
def modelGenerated (env : Nat → MEnv) (ps : List HostParams) (land : CLand) : List Nat → Except ErrKind (List Int)
  | [] => .ok []
  | k :: rest =>
    match multiDispersersFrom (env k) ps (land[k]!) with
    | .error e => .error e
    | .ok v =>
      match modelGenerated env ps land rest with
      | .error e => .error e
      | .ok vs => .ok (v :: vs)

/-- C16: the disperser raster entry of every suitable cell is the sum over the hosts of
    `lround (reproductive rate x weather x competency x infected)` (`none`: a rejected lookup). -/
def generatedSpec (env : Nat → MEnv) (ps : List HostParams) (land : CLand) (suitIdx : List Nat) : List (Option Int) :=
  suitIdx.map fun k => dispersersSpec (env k) ps (land[k]!)

/-! ### C11 / C16 mortality per host at model level -/

/-- The operations the mortality action performs on host `h`'s own landscape: its own rate and lag
    at the cells of the pool's cell list, ageing of the cohorts at every cell (rate 0 only ages). -/
def hostMortalityOps (suitIdx : List Nat) (rate : Rat) (lag : Int) (l : Land) : List LandOp :=
  (List.range l.length).map fun k => .at k (.mortality (if suitIdx.contains k then rate else 0) lag)

/-- `Mortality::action` on the multi-host pool, host by host, each with its own table row. -/
def modelMortality (t : PestHostTable) (suitIdx : List Nat) : Nat → MLand → Except ErrKind MLand
  | _, [] => .ok []
  | h, l :: rest =>
    match t.mortalityRate h, t.mortalityTimeLag h with
    | .ok rate, .ok lag =>
      match runOps (hostMortalityOps suitIdx rate lag l) l with
      | .error e => .error e
      | .ok l' =>
        match modelMortality t suitIdx (h + 1) rest with
        | .error e => .error e
        | .ok rest' => .ok (l' :: rest')
    | .error e, _ => .error e
    | _, .error e => .error e

/-! ### C17 overpopulation over several hosts: the pool as one merged host -/

/-- What `MoveOverpopulatedPests` sees of a cell through the multi-host pool: the sums of
    susceptible and infected hosts. -/
def mergedCell (cells : List Cell) : Cell :=
  { s := sumL (cells.map (·.s)), e := [], i := sumL (cells.map (·.i)), r := 0, te := 0, mort := [], died := 0, th := 0 }

def mergedLand (m : MLand) (n : Nat) : Land := (List.range n).map fun k => mergedCell (cellsAtM m k)

/-- Only susceptible and infected counts matter for the merged view. -/
def mergedSame (a b : Land) : Bool :=
  a.length == b.length && (List.zip a b).all fun p => decide (p.1.s = p.2.s) && decide (p.1.i = p.2.i)

end Pops.MM
