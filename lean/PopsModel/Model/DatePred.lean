/-
  Decidable property predicates for C07/C08, evaluated by the driver on the implementation's
  output and used as conclusions of the theorems in Props/C07.lean, Props/C08.lean.
-/
import PopsModel.Model.Schedule
namespace Pops

/-- A step of valid dates with start not after end. -/
def stepWF (st : Step) : Bool := decide st.s.Valid && decide st.e.Valid && st.s.le st.e

/-- Each further step starts the day after the previous one ends. -/
def chainOK : List Step → Bool
  | [] => true
  | [_] => true
  | a :: b :: rest => (b.s == a.e.addDay) && chainOK (b :: rest)

/-- The day after the last step's end is after the end date (the loop stopped by its condition). -/
def lastEndOK (end_ : Date) : List Step → Bool
  | [] => false
  | [a] => a.e.addDay.gt end_
  | _ :: b :: rest => lastEndOK end_ (b :: rest)

def firstStartOK (start : Date) : List Step → Bool
  | [] => false
  | a :: _ => a.s == start

/-- C07, tiling part: first step starts at `start`; valid dates; contiguous; produced exactly
    while the start is not after `end_`. -/
def TilesCalendar (start end_ : Date) (steps : List Step) : Bool :=
  firstStartOK start steps && steps.all stepWF && chainOK steps &&
  steps.all (fun st => st.s.le end_) && lastEndOK end_ steps

/-- Day of year from the month table. -/
def cumDays (leap : Bool) (m : Int) : Int :=
  if m = 1 then 0 else if m = 2 then 31 else
  let f : Int := if leap then 1 else 0
  if m = 3 then 59 + f else if m = 4 then 90 + f else if m = 5 then 120 + f
  else if m = 6 then 151 + f else if m = 7 then 181 + f else if m = 8 then 212 + f
  else if m = 9 then 243 + f else if m = 10 then 273 + f else if m = 11 then 304 + f
  else if m = 12 then 334 + f else 0

def Date.doy (t : Date) : Int := cumDays (isLeap t.y) t.m + t.d
def yearLen (y : Int) : Int := if isLeap y then 366 else 365

/-- C07, year rule for day steps (`n` days) and one-week steps (`n = 7`): for consecutive starts
    `a`, `b`: either `b` is `n` days after `a` in the same year, or `b` is the next 1 January and
    `a + n` would begin within the last `n` (`n+1` in leap years) days of the year. -/
def dayStepOK (n : Int) (a b : Date) : Bool :=
  let lim := yearLen a.y - n - (if isLeap a.y then 1 else 0)
  if a.doy + n > lim then b == ⟨a.y + 1, 1, 1⟩
  else b.y == a.y && b.doy == a.doy + n

def dayStepsOK (n : Int) (steps : List Step) : Bool :=
  steps.all fun st => dayStepOK n st.s st.e.addDay

/-- C07 ("n months starting on the first of a month"): the start of the calendar month after a date
    that is the first of a month. -/
def nextMonthStart (t : Date) : Date := if t.m = 12 then ⟨t.y + 1, 1, 1⟩ else ⟨t.y, t.m + 1, 1⟩

end Pops
