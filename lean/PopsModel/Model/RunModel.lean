/-
  Whole runs of `Model::run_step`: the steps `first`, `first + 1`, ... are run one after the other,
  each with its own inputs (rasters, kernel results, random draws), each on the host rasters its
  predecessor left. This is what a caller of pops-core does (`for step in 0..n: model.run_step(step, ...)`);
  the per-step model is `runStepHosts` (Model/RunStep.lean).
-/
import PopsModel.Model.RunStep
namespace Pops

/-- A run: step `first`, `first + 1`, ... each with its own inputs (rasters, kernel results,
    draws). An error (the C++ throws) stops the run. -/
def runModel (cfg : StepCfg) : List StepInputs → Nat → Land → Except ErrKind Land
  | [], _, l => .ok l
  | inp :: rest, step, l => do
    let l' ← runStepHosts cfg inp step l
    runModel cfg rest (step + 1) l'

/-- Hosts removed by treatments over the run: the sum, step by step, of what the step's
    generators removed (`removedByGens`) at the landscape that step found. -/
def removedByRun (cfg : StepCfg) : List StepInputs → Nat → Land → Int
  | [], _, _ => 0
  | inp :: rest, step, l =>
    match runStepHosts cfg inp step l with
    | .ok l' => removedByGens (stepGens cfg inp step) l + removedByRun cfg rest (step + 1) l'
    | .error _ => 0

/-- The documented domain along the run: each step's operations are in their domain at the
    landscape that step finds (the landscape its predecessors left). -/
def RunDomainAlong (cfg : StepCfg) : List StepInputs → Nat → Land → Prop
  | [], _, _ => True
  | inp :: rest, step, l =>
    GensDomainAlong (stepGens cfg inp step) l ∧
    ∀ l', runStepHosts cfg inp step l = .ok l' → RunDomainAlong cfg rest (step + 1) l'

end Pops
