/-
  Model of include/pops/date.hpp and the step generation of include/pops/scheduling.hpp.
  Mirrors the C++ statement by statement; `int` is unbounded `Int`.
-/
import PopsModel.Model.Basic
namespace Pops

structure Date where
  y : Int
  m : Int
  d : Int
deriving DecidableEq, Repr, Inhabited

/-- `Date::is_leap_year` (C++ `%` is truncated remainder: `Int.tmod`). -/
def isLeap (y : Int) : Bool :=
  (y.tmod 4 == 0) && ((y.tmod 100 != 0) || (y.tmod 400 == 0))

/-- `day_in_month[leap][m]`; index 0 holds 0 as in the table. Indices outside 0..12 are
    out of bounds in the C++; the model returns 0 there and no theorem relies on it. -/
def dim (leap : Bool) (m : Int) : Int :=
  if m = 1 then 31 else if m = 2 then (if leap then 29 else 28) else if m = 3 then 31
  else if m = 4 then 30 else if m = 5 then 31 else if m = 6 then 30 else if m = 7 then 31
  else if m = 8 then 31 else if m = 9 then 30 else if m = 10 then 31 else if m = 11 then 30
  else if m = 12 then 31 else 0

namespace Date

/-- `operator>` exactly as written. -/
def gt (a b : Date) : Bool :=
  if a.y < b.y then false else if a.y > b.y then true
  else if a.m < b.m then false else if a.m > b.m then true
  else if a.d ≤ b.d then false else true
/-- `operator<` exactly as written. -/
def lt (a b : Date) : Bool :=
  if a.y > b.y then false else if a.y < b.y then true
  else if a.m > b.m then false else if a.m < b.m then true
  else if a.d ≥ b.d then false else true
def le (a b : Date) : Bool := !(gt a b)
def ge (a b : Date) : Bool := !(lt a b)

def isLastDayOfYear (t : Date) : Bool := t.m == 12 && t.d == 31
def isLastDayOfMonth (t : Date) : Bool := t.d == dim (isLeap t.y) t.m

/-- The block `if (day_ > dim) { day_ -= dim; month_++; if (month_ > 12) {year_++; month_ = 1;} ... }`
    followed (inside the block) by the repeated year-end test added by the F9 repair. -/
def rollDays (leap : Bool) (lim : Int) (t : Date) : Date :=
  if t.d > dim leap t.m then
    let d := t.d - dim leap t.m
    let m := t.m + 1
    let t1 : Date := if m > 12 then ⟨t.y + 1, 1, d⟩ else ⟨t.y, m, d⟩
    if t1.m = 12 ∧ t1.d > lim then ⟨t1.y + 1, 1, 1⟩ else t1
  else t

/-- `Date::increased_by_days(num_days)`. -/
def increasedByDays (t : Date) (n : Int) : Date :=
  let leap := isLeap t.y
  let d := t.d + n
  let lim := if leap then 31 - (n + 1) else 31 - n
  let t1 : Date := if t.m = 12 ∧ d > lim then ⟨t.y + 1, 1, 1⟩ else ⟨t.y, t.m, d⟩
  rollDays leap lim t1

/-- The roll-over block of `increased_by_week` (no repeated year-end test there). -/
def rollWeek (leap : Bool) (t : Date) : Date :=
  if t.d > dim leap t.m then
    let d := t.d - dim leap t.m
    let m := t.m + 1
    if m > 12 then ⟨t.y + 1, 1, d⟩ else ⟨t.y, m, d⟩
  else t

/-- `Date::increased_by_week()`. -/
def increasedByWeek (t : Date) : Date :=
  let leap := isLeap t.y
  let d := t.d + 7
  let lim : Int := if leap then 23 else 24
  let t1 : Date := if t.m = 12 ∧ d > lim then ⟨t.y + 1, 1, 1⟩ else ⟨t.y, t.m, d⟩
  rollWeek leap t1

/-- `Date::increased_by_month()`; the leap test is made after the year change. -/
def increasedByMonth (t : Date) : Date :=
  let m := t.m + 1
  let t1 : Date := if m > 12 then ⟨t.y + 1, 1, t.d⟩ else ⟨t.y, m, t.d⟩
  let dm := dim (isLeap t1.y) t1.m
  if t1.d > dm then ⟨t1.y, t1.m, dm⟩ else t1

/-- `Date::add_day()`. -/
def addDay (t : Date) : Date :=
  let d := t.d + 1
  if d > dim (isLeap t.y) t.m then
    let m := t.m + 1
    if m > 12 then ⟨t.y + 1, 1, 1⟩ else ⟨t.y, m, 1⟩
  else ⟨t.y, t.m, d⟩

/-- `Date::subtract_day()`; the leap test is made after the year change. -/
def subtractDay (t : Date) : Date :=
  let d := t.d - 1
  if d = 0 then
    let m := t.m - 1
    let t1 : Date := if m = 0 then ⟨t.y - 1, 12, 0⟩ else ⟨t.y, m, 0⟩
    ⟨t1.y, t1.m, dim (isLeap t1.y) t1.m⟩
  else ⟨t.y, t.m, d⟩

/-- A calendar date. -/
def Valid (t : Date) : Prop := 1 ≤ t.m ∧ t.m ≤ 12 ∧ 1 ≤ t.d ∧ t.d ≤ dim (isLeap t.y) t.m

instance (t : Date) : Decidable t.Valid := by unfold Valid; infer_instance

/-- Lexicographic rank; order-isomorphic to the six comparison operators on valid dates. -/
def ord (t : Date) : Int := (t.y * 12 + (t.m - 1)) * 31 + (t.d - 1)

/-- `Date(std::string)` validation part (after `stoi`): month range and day against the leap table. -/
def ofYMD (y m d : Int) : Except ErrKind Date :=
  if m ≤ 0 ∨ m > 12 ∨ d > dim true m then .error .invalid_argument else .ok ⟨y, m, d⟩

end Date

inductive StepUnit where
  | day | week | month
deriving DecidableEq, Repr, Inhabited

/-- `step_unit_enum_from_string`. -/
def stepUnitFromString (s : String) : Except ErrKind StepUnit :=
  if s = "day" then .ok .day else if s = "week" then .ok .week
  else if s = "month" then .ok .month else .error .invalid_argument

/-- `Scheduler::increase_date`. -/
def increaseDate (u : StepUnit) (n : Nat) (t : Date) : Date :=
  match u with
  | .day => t.increasedByDays n
  | .week => iter Date.increasedByWeek n t
  | .month => iter Date.increasedByMonth n t

structure Step where
  s : Date
  e : Date
deriving DecidableEq, Repr, Inhabited

/-- The `while (date <= end_)` loop of the `Scheduler` constructor, with fuel. -/
def stepsLoop (u : StepUnit) (n : Nat) (end_ : Date) : Nat → Date → List Step
  | 0, _ => []
  | fuel + 1, date =>
    if date.le end_ then
      let nx := increaseDate u n date
      ⟨date, nx.subtractDay⟩ :: stepsLoop u n end_ fuel nx
    else []

/-- Fuel that suffices for valid dates (theorem `stepsLoop_fuel_enough`). -/
def stepsFuel (start end_ : Date) : Nat := (end_.ord - start.ord + 2).toNat

structure Scheduler where
  start : Date
  end_ : Date
  unit : StepUnit
  n : Nat
  steps : List Step
deriving Repr

/-- The `Scheduler` constructor: the four rejections, then the loop. -/
def Scheduler.make (start end_ : Date) (u : StepUnit) (n : Nat) : Except ErrKind Scheduler :=
  if start.ge end_ then .error .invalid_argument
  else if n = 0 then .error .invalid_argument
  else if (increaseDate u n start).gt end_ then .error .invalid_argument
  else if u = .month ∧ start.d ≠ 1 then .error .invalid_argument
  else .ok ⟨start, end_, u, n, stepsLoop u n end_ (stepsFuel start end_) start⟩

/-- `Scheduler::schedule_action_date`: first step containing the date, else `invalid_argument`. -/
def scheduleActionDateAux (date : Date) : List Step → Nat → Except ErrKind Nat
  | [], _ => .error .invalid_argument
  | st :: rest, i =>
    if date.ge st.s && date.le st.e then .ok i else scheduleActionDateAux date rest (i + 1)

def scheduleActionDate (steps : List Step) (date : Date) : Except ErrKind Nat :=
  scheduleActionDateAux date steps 0

def Step.contains (st : Step) (t : Date) : Bool := t.ge st.s && t.le st.e

end Pops
