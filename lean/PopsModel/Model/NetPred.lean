/-
  C15: decidable property predicates. The theorems of Props/C15.lean conclude them for the model;
  the driver evaluates the same definitions on the structure and trip results OBSERVED from the
  implementation.
-/
import PopsModel.Model.NetWalk
namespace Pops.Net

/-- The result cell lies on a loaded segment or is the start cell. -/
def onNetwork (n : Net) (start x : Cell) : Bool :=
  x == start || n.segs.any (fun e => e.2.cells.contains x)

/-- The cell holds an end node of a loaded segment. -/
def isNodeCell (n : Net) (x : Cell) : Bool := n.hasNodeAt x

/-- `x` holds a node adjacent to a node of the start cell (or that node itself if it has no edge). -/
def teleportAdjacent (n : Net) (start x : Cell) : Bool :=
  (n.nodesAt start).any fun a =>
    (n.nodesAt x).any fun m => (n.neighbours a).contains m || ((n.neighbours a).isEmpty && m == a)

/-- No two consecutive equal cells. -/
def noAdjacentDup : List Cell → Bool
  | a :: b :: rest => a != b && noAdjacentDup (b :: rest)
  | _ => true

/-- Cells of a stored segment: consecutive repetitions merged; a segment whose points all fall
    into one cell is that cell twice. -/
def mergedOK (cells : List Cell) : Bool :=
  (decide (2 ≤ cells.length) && noAdjacentDup cells) ||
  (match cells with | [a, b] => a == b | _ => false)

/-- Adjacency is symmetric on the listed nodes. -/
def adjSymmetric (n : Net) (ids : List NodeId) : Bool :=
  ids.all fun a => (n.neighbours a).all fun b => (n.neighbours b).contains a

/-- The ideal clipping rule: both end points inside the study area (`!xy_out_of_bbox`). -/
def Rec.inside (g : Grid) (r : Rec) : Bool :=
  !(g.xyOut r.first.1 r.first.2) && !(g.xyOut r.last.1 r.last.2)

/-- Region of finding F17: the record is kept by the coded rule although an end point is outside
    the study area (necessarily less than one cell beyond the south or east edge). -/
def Rec.f17 (g : Grid) (r : Rec) : Bool := r.kept g && !r.inside g

/-- Specification of a trip as a derivation: from `node` with `visited` behind it and `d` left,
    the trip can end with outcome `o`. `pref = true` restricts each hop to `next_node`'s choices
    (unvisited neighbours first), `pref = false` allows any neighbour. -/
inductive Trip (n : Net) (pref jump : Bool) (start : Cell) :
    NodeId → List NodeId → Rat → Outcome → Prop
  /-- `distance < 0`: the loop is not entered. -/
  | negative {node : NodeId} {visited : List NodeId} {d : Rat} (hd : d < 0) :
      Trip n pref jump start node visited d (.err .invalid_argument)
  /-- `next_node` returned the node itself (no edge, or a self-loop): the start cell is returned. -/
  | home {node : NodeId} {visited : List NodeId} {d : Rat} (hd : 0 ≤ d)
      (hn : node ∈ n.nextNodes pref node visited) :
      Trip n pref jump start node visited d (.at start)
  /-- The remaining distance exceeds the cost of the segment: it is consumed whole. -/
  | pass {node nxt : NodeId} {visited : List NodeId} {d : Rat} {v : SegView} {o : Outcome}
      (hd : 0 ≤ d) (hn : nxt ∈ n.nextNodes pref node visited) (hne : nxt ≠ node)
      (hs : n.getSegment node nxt = some v) (hc : v.cost < d)
      (rest : Trip n pref jump start nxt (node :: visited) (d - v.cost) o) :
      Trip n pref jump start node visited d o
  /-- The trip ends on this segment. -/
  | stop {node nxt : NodeId} {visited : List NodeId} {d : Rat} {v : SegView}
      (hd : 0 ≤ d) (hn : nxt ∈ n.nextNodes pref node visited) (hne : nxt ≠ node)
      (hs : n.getSegment node nxt = some v) (hc : d ≤ v.cost) :
      Trip n pref jump start node visited d (Net.finish jump v d)

/-- Loaded-network invariants used by the trip theorems. -/
structure Net.WF (n : Net) : Prop where
  /-- every stored segment has at least two cells -/
  twoCells : ∀ e ∈ n.segs, 2 ≤ e.2.cells.length
  /-- every stored segment has a positive cost -/
  costPos : ∀ e ∈ n.segs, 0 < e.2.cost

end Pops.Net
