/-
  C14: numeric reference cdfs in `Float`, used ONLY by the driver for the numeric check
  `|cdf (icdf p) - p| ≤ tol` (model validation for the approximate quantiles: normal, log-normal,
  gamma; evidence for the open finding F21: power law, exponential power, gamma with non-integer
  shape). No theorem is about these functions. Core Lean only.

  `gammaP a x` is the regularised lower incomplete gamma function P(a, x) (series for x < a + 1,
  Lentz continued fraction otherwise; Numerical Recipes 6.2), `erf x = sign x * P(1/2, x^2)`.
-/
import PopsModel.Model.Det
namespace Pops.Det.Num
open Pops

def lnGamma (a : Float) : Float := Float.log (FloatFn.tgamma a)

def gserGo (a x : Float) : Nat → Float → Float → Float → Float
  | 0, _, _, sum => sum
  | f + 1, ap, del, sum =>
    let ap := ap + 1.0
    let del := del * x / ap
    let sum := sum + del
    if Float.abs del < Float.abs sum * 1e-16 then sum else gserGo a x f ap del sum

/-- Lentz's algorithm for Q(a, x) = 1 - P(a, x). -/
def gcf (a x : Float) : Float :=
  let tiny : Float := 1e-300
  let rec go (fuel : Nat) (i : Float) (b c d h : Float) : Float :=
    match fuel with
    | 0 => h
    | f + 1 =>
      let an := -i * (i - a)
      let b := b + 2.0
      let d := an * d + b
      let d := if Float.abs d < tiny then tiny else d
      let c := b + an / c
      let c := if Float.abs c < tiny then tiny else c
      let d := 1.0 / d
      let del := d * c
      let h := h * del
      if Float.abs (del - 1.0) < 1e-16 then h else go f (i + 1.0) b c d h
  let b := x + 1.0 - a
  let c := 1.0 / tiny
  let d := 1.0 / b
  Float.exp (-x + a * Float.log x - lnGamma a) * go 2000 1.0 b c d d

def gammaP (a x : Float) : Float :=
  if x ≤ 0.0 then 0.0
  else if x < a + 1.0 then
    gserGo a x 5000 a (1.0 / a) (1.0 / a) * Float.exp (-x + a * Float.log x - lnGamma a)
  else 1.0 - gcf a x

def erf (x : Float) : Float :=
  if x < 0.0 then -(gammaP 0.5 (x * x)) else gammaP 0.5 (x * x)

/-- cdf of the density `lawPdf` evaluates, at a distance `x` (two-sided laws: the two-sided cdf).
    Closed-form laws use the generic definitions of KernLaws at `TF.float`. -/
def lawCdf (law : Law) (scale shape x : Float) : Float :=
  let T := TF.float
  match law with
  | .cauchy => cauchyCdf T scale x
  | .exponential => exponentialCdf T scale x
  | .weibull => weibullCdf T shape scale x
  | .logistic => logisticCdf T scale x
  | .hypsec => hypsecCdf T scale x
  | .powerlaw => powerlawCdf T scale shape x
  | .normal => 0.5 * (1.0 + erf (x / (scale * Float.sqrt 2.0)))
  | .lognormal => if x ≤ 0.0 then 0.0 else 0.5 * (1.0 + erf (Float.log x / (scale * Float.sqrt 2.0)))
  | .gamma => gammaP scale (x / shape)
  | .exppower =>
    let g := gammaP (1.0 / shape) (Float.pow (Float.abs x / scale) shape)
    if x < 0.0 then 0.5 - 0.5 * g else 0.5 + 0.5 * g

end Pops.Det.Num
