/-
  C14: the property predicates, as decidable definitions over exact rationals and counts.
  The theorems of Props/C14.lean conclude with these very definitions (tolerance 0); the driver
  evaluates them on the implementation's observed matrix and pick sequence (tolerance `eps` for the
  floating-point subtraction of 1/N). Core Lean only.
-/
import PopsModel.Model.DetPick
namespace Pops.Det

/-- Two counts differ by at most one. -/
def near1 (a b : Nat) : Bool := a ≤ b + 1 && b ≤ a + 1

/-- `k_c - N * p_c`, the excess of cell `c` over its proportional share. -/
def excess (N : Nat) (p : List Rat) (k : List Nat) (c : Nat) : Rat :=
  ((k.getD c 0 : Nat) : Rat) - (N : Rat) * p.getD c 0

/-- No cell is ahead of its proportional share by a whole disperser (holds at every moment). -/
def QuotaUpperAt (N : Nat) (p : List Rat) (k : List Nat) (eps : Rat) (c : Nat) : Bool :=
  decide (excess N p k c < 1 + eps)

def QuotaUpper (N : Nat) (p : List Rat) (k : List Nat) (eps : Rat) : Bool :=
  (List.range p.length).all (QuotaUpperAt N p k eps)

/-- After all `N` dispersers: `|k_c - N * p_c| ≤ 1` for every window cell. -/
def QuotaBound (N : Nat) (p : List Rat) (k : List Nat) (eps : Rat) : Bool :=
  (List.range p.length).all fun c =>
    decide (excess N p k c ≤ 1 + eps) && decide (-(1 + eps) ≤ excess N p k c)

/-- Cells with equal normalised weight have received the same number up to one disperser. -/
def EqualShareBound (p : List Rat) (k : List Nat) : Bool :=
  (List.range p.length).all fun c => (List.range p.length).all fun d =>
    !(p.getD c 0 == p.getD d 0) || near1 (k.getD c 0) (k.getD d 0)

/-- The three mirror images of window cell `c = i * cols + j`. -/
def mirrorCells (rows cols c : Nat) : List Nat :=
  let i := c / cols
  let j := c % cols
  [(rows - 1 - i) * cols + j, i * cols + (cols - 1 - j), (rows - 1 - i) * cols + (cols - 1 - j)]

def MirrorBoundAt (rows cols : Nat) (k : List Nat) (c : Nat) : Bool :=
  (mirrorCells rows cols c).all fun d => near1 (k.getD c 0) (k.getD d 0)

/-- Mirror-image cells of the window have received the same number up to one disperser. -/
def MirrorBound (rows cols : Nat) (k : List Nat) : Bool :=
  (List.range (rows * cols)).all (MirrorBoundAt rows cols k)

/-- A window centred on the source cell exists. -/
def WindowExists (rows cols : Int) : Bool := decide (1 ≤ rows) && decide (1 ≤ cols)

/-- An axis of `n = 2 h + 1` cells of size `res` reaches the distance `dmax` and not a whole cell
    further: `dmax ≤ h * res` and `(h - 1) * res < dmax` (`lo ≤ dmax ≤ hi` brackets the double). -/
def WindowCovers (lo hi res : Rat) (n : Int) : Bool :=
  let h := (n - 1) / 2
  decide (n = 2 * h + 1) && decide (lo ≤ (h : Rat) * res) && decide (((h : Rat) - 1) * res < hi)

/-- The weights are a probability vector (up to `eps` in the sum). -/
def Normalised (p : List Rat) (eps : Rat) : Bool :=
  p.all (fun x => decide (0 ≤ x)) &&
    decide (p.foldl (· + ·) 0 - 1 ≤ eps) && decide (-eps ≤ p.foldl (· + ·) 0 - 1)

end Pops.Det
