/-
  Model of `spread_rate.hpp` and `statistics.hpp` (core Lean only).

  * rasters: `rows, cols`, row-major `List Int`; `raster(i, j) = data[i * cols + j]`
  * `hosts.suitable_cells()` is an explicit list of `(row, col)` pairs, visited in list order
  * `double` values are exact `Rat`s (the harness feeds dyadic resolutions); NaN is `none`
  * `std::vector::at` -> `Except ErrKind` with `out_of_range`

  C++ -> model, function by function:
    SpreadRateAction::infection_boundary  -> `infectionBoundary`
    SpreadRateAction::is_boundary_valid   -> `Box.valid`
    SpreadRateAction::is_out_of_bounds    -> the `touch` arguments in `ratesOf`
    SpreadRateAction::SpreadRateAction    -> `SpreadRate.new`
    SpreadRateAction::action              -> `SpreadRate.action`
    SpreadRateAction::step_rate           -> `SpreadRate.stepRate`
    average_spread_rate                   -> `averageSpreadRate`
    sum_of_infected / area_of_infected    -> `sumOfInfected` / `areaOfInfected`
-/
import PopsModel.Model.Basic
namespace Pops.Metric

/-- Integer raster, row-major. -/
structure IRaster where
  rows : Int
  cols : Int
  data : List Int
deriving Repr, Inhabited, DecidableEq

/-- `raster(i, j)`: `data_[row * cols_ + col]`. (Reads outside the buffer are UB in C++ and are
    never generated; they read 0 here.) -/
def IRaster.at (r : IRaster) (i j : Int) : Int := r.data.getD (i * r.cols + j).toNat 0

/-- A cell index pair `(row, col)` as stored in `suitable_cells`. -/
abbrev Cell := Int × Int

/-- All cells of a `rows x cols` grid in row-major order (`for i < rows, for j < cols`). -/
def allCells (rows cols : Int) : List Cell :=
  (List.range rows.toNat).flatMap fun (i : Nat) =>
    (List.range cols.toNat).map fun (j : Nat) => ((i : Int), (j : Int))

/-- `BBoxInt`: north, south (rows), east, west (columns). -/
structure Box where
  n : Int
  s : Int
  e : Int
  w : Int
deriving Repr, Inhabited, DecidableEq

/-- The four `if (i < n) n = i; ...` updates shared by `infection_boundary` and
    `quarantine_boundary`. -/
def Box.extend (b : Box) (i j : Int) : Box :=
  ⟨if i < b.n then i else b.n, if i > b.s then i else b.s,
   if j > b.e then j else b.e, if j < b.w then j else b.w⟩

/-- Start value of both scans: `(height - 1, 0, 0, width - 1)`. -/
def initBox (height width : Int) : Box := ⟨height - 1, 0, 0, width - 1⟩

/-- "No infection" sentinel `(-1, -1, -1, -1)`. -/
def noBox : Box := ⟨-1, -1, -1, -1⟩

/-- `is_boundary_valid`: only `n == -1` is tested. -/
def Box.valid (b : Box) : Bool := b.n != -1

/-- One iteration of the loop of `infection_boundary`. -/
def boundaryStep (inf : IRaster) (acc : Box × Bool) (c : Cell) : Box × Bool :=
  if inf.at c.1 c.2 > 0 then (acc.1.extend c.1 c.2, true) else acc

/-- `SpreadRateAction::infection_boundary` with `height_ = height`, `width_ = width`. -/
def infectionBoundary (height width : Int) (inf : IRaster) (cells : List Cell) : Box :=
  let r := cells.foldl (boundaryStep inf) (initBox height width, false)
  if r.2 then r.1 else noBox

/-- `BBoxFloat` of rates; `none` is NaN. -/
structure Rates where
  n : Option Rat
  s : Option Rat
  e : Option Rat
  w : Option Rat
deriving Repr, Inhabited, DecidableEq

def nanRates : Rates := ⟨none, none, none, none⟩

/-- `rate = displacement * resolution; if (rate == 0 && touches) rate = NaN`. -/
def edgeRate (disp : Int) (res : Rat) (touch : Bool) : Option Rat :=
  let r := (disp : Rat) * res
  if r = 0 ∧ touch = true then none else some r

/-- The rate computation of `action` for a previous box `b1` and a valid current box `b2`. -/
def ratesOf (height width : Int) (ns ew : Rat) (b1 b2 : Box) : Rates :=
  { n := edgeRate (b1.n - b2.n) ns (b2.n == 0)
    s := edgeRate (b2.s - b1.s) ns (b2.s == height - 1)
    e := edgeRate (b2.e - b1.e) ew (b2.e == width - 1)
    w := edgeRate (b1.w - b2.w) ew (b2.w == 0) }

/-- What `action` stores for the previous box `b1` and the freshly measured box `b2`. -/
def measuredRates (height width : Int) (ns ew : Rat) (b1 b2 : Box) : Rates :=
  if b2.valid then ratesOf height width ns ew b1 b2 else nanRates

/-- State of a `SpreadRateAction`. -/
structure SpreadRate where
  width : Int
  height : Int
  ew : Rat
  ns : Rat
  numSteps : Nat
  boundaries : List Box     -- `num_steps + 1` entries
  rates : List Rates        -- `num_steps` entries
deriving Repr, Inhabited

/-- Constructor: `width_(cols), height_(rows)`, boundaries all `(0,0,0,0)`, rates all NaN,
    `boundaries_.at(0) = infection_boundary(hosts)`. -/
def SpreadRate.new (inf : IRaster) (cells : List Cell) (rows cols : Int) (ew ns : Rat)
    (numSteps : Nat) : SpreadRate :=
  { width := cols, height := rows, ew := ew, ns := ns, numSteps := numSteps
    boundaries := (List.replicate (numSteps + 1) (⟨0, 0, 0, 0⟩ : Box)).set 0
      (infectionBoundary rows cols inf cells)
    rates := List.replicate numSteps nanRates }

/-- `SpreadRateAction::action(hosts, step)`. `boundaries_.at(step + 1)` is the only access that
    can throw (`rates_` has one entry less than `boundaries_`). The previous box is whatever is
    stored in slot `step`. -/
def SpreadRate.action (sr : SpreadRate) (inf : IRaster) (cells : List Cell) (step : Nat) :
    Except ErrKind SpreadRate :=
  let bbox := infectionBoundary sr.height sr.width inf cells
  if step + 1 < sr.boundaries.length then
    let prev := sr.boundaries.getD step default
    .ok { sr with boundaries := sr.boundaries.set (step + 1) bbox
                  rates := sr.rates.set step (measuredRates sr.height sr.width sr.ns sr.ew prev bbox) }
  else .error .out_of_range

/-- `step_rate(step)` (unchecked `operator[]`; out of range is UB and never generated). -/
def SpreadRate.stepRate (sr : SpreadRate) (step : Nat) : Rates := sr.rates.getD step nanRates

/-- Consecutive measurements: `action(m, k)`, `action(m', k + 1)`, ... -/
def SpreadRate.run (cells : List Cell) : SpreadRate → List IRaster → Nat → Except ErrKind SpreadRate
  | sr, [], _ => .ok sr
  | sr, m :: ms, k =>
    match sr.action m cells k with
    | .ok sr' => SpreadRate.run cells sr' ms (k + 1)
    | .error e => .error e

/-- `if (!isnan(x)) { avg += x; size++; }` -/
def avgStep (acc : Rat × Nat) (x : Option Rat) : Rat × Nat :=
  match x with
  | some v => (acc.1 + v, acc.2 + 1)
  | none => acc

/-- One component of `average_spread_rate`: `size ? avg / size : NaN`. -/
def averageOf (l : List (Option Rat)) : Option Rat :=
  let r := l.foldl avgStep (0, 0)
  if r.2 = 0 then none else some (r.1 / (r.2 : Rat))

/-- `average_spread_rate(rates, step)`. -/
def averageSpreadRate (runs : List SpreadRate) (step : Nat) : Rates :=
  { n := averageOf (runs.map fun r => (r.stepRate step).n)
    s := averageOf (runs.map fun r => (r.stepRate step).s)
    e := averageOf (runs.map fun r => (r.stepRate step).e)
    w := averageOf (runs.map fun r => (r.stepRate step).w) }

/-- `sum_of_infected`: `unsigned sum; sum += infected(i, j)` (arithmetic modulo 2^32). -/
def sumOfInfected (inf : IRaster) (cells : List Cell) : Int :=
  (sumL (cells.map fun c => inf.at c.1 c.2)) % 4294967296

/-- Number of listed cells with `infected(i, j) > 0`. -/
def infectedCount (inf : IRaster) (cells : List Cell) : Nat :=
  cells.countP fun c => inf.at c.1 c.2 > 0

/-- `area_of_infected`: `cells * ew_res * ns_res`. -/
def areaOfInfected (inf : IRaster) (ew ns : Rat) (cells : List Cell) : Rat :=
  (infectedCount inf cells : Rat) * ew * ns

end Pops.Metric
