/-
  C18: the *definitions* the reported metrics are compared with. Nothing here follows the
  control flow of the C++ code: boxes are minima / maxima over a cell list, rates are
  displacement x resolution, distances are taken to the definitional box of the cell's own area.
  The theorems of Props/C18.lean relate the model of the code to these definitions, and the
  driver evaluates the same definitions on the implementation's observed output.
-/
import PopsModel.Model.MetricQuar
namespace Pops.Metric

/-- The listed cells that are infected in the sense of spread_rate.hpp / statistics.hpp. -/
def infectedCells (inf : IRaster) (cells : List Cell) : List Cell :=
  cells.filter fun c => inf.at c.1 c.2 > 0

/-- The listed cells that are infected in the sense of quarantine.hpp (`!infected_at` skips). -/
def presentCells (inf : IRaster) (cells : List Cell) : List Cell :=
  cells.filter fun c => inf.at c.1 c.2 ≠ 0

/-- `b` is the bounding box of the cells `L`: each side is attained and bounds every cell. -/
structure IsBBox (L : List Cell) (b : Box) : Prop where
  n_att : ∃ c ∈ L, c.1 = b.n
  n_le : ∀ c ∈ L, b.n ≤ c.1
  s_att : ∃ c ∈ L, c.1 = b.s
  s_ge : ∀ c ∈ L, c.1 ≤ b.s
  e_att : ∃ c ∈ L, c.2 = b.e
  e_ge : ∀ c ∈ L, c.2 ≤ b.e
  w_att : ∃ c ∈ L, c.2 = b.w
  w_le : ∀ c ∈ L, b.w ≤ c.2

/-- Bounding box by definition: min / max row and column; `none` for no cells. -/
def specBox : List Cell → Option Box
  | [] => none
  | c :: cs =>
    some ⟨(cs.map (·.1)).foldl min c.1, (cs.map (·.1)).foldl max c.1,
          (cs.map (·.2)).foldl max c.2, (cs.map (·.2)).foldl min c.2⟩

/-- The reported box: the definitional one, or the sentinel `(-1,-1,-1,-1)`. -/
def specBoxOr (L : List Cell) : Box := (specBox L).getD noBox

/-- Rate by definition: displacement x resolution; undefined when the box touches that edge and
    did not move. -/
def specRate (disp : Int) (res : Rat) (touches : Bool) : Option Rat :=
  if touches = true ∧ disp = 0 then none else some ((disp : Rat) * res)

/-- Rates between two measurements that both found infection (boxes `b1`, then `b2`). -/
def specRates (rows cols : Int) (ns ew : Rat) (b1 b2 : Box) : Rates :=
  { n := specRate (b1.n - b2.n) ns (b2.n == 0)
    s := specRate (b2.s - b1.s) ns (b2.s == rows - 1)
    e := specRate (b2.e - b1.e) ew (b2.e == cols - 1)
    w := specRate (b1.w - b2.w) ew (b2.w == 0) }

/-- Rates between a previous measurement with box `b1` and the current measurement. -/
def specRatesOpt (rows cols : Int) (ns ew : Rat) (b1 : Box) : Option Box → Rates
  | none => nanRates
  | some b2 => specRates rows cols ns ew b1 b2

/-- Cells of the whole raster that carry area id `v`. -/
def areaCells (areas : IRaster) (v : Int) : List Cell :=
  (allCells areas.rows areas.cols).filter fun c => areas.at c.1 c.2 = v

/-- Bounding box of quarantine area `v` by definition. -/
def specAreaBox (areas : IRaster) (v : Int) : Option Box := specBox (areaCells areas v)

/-- Escape by definition: some infected listed cell lies in no quarantine area. -/
def specEscaped (inf areas : IRaster) (cells : List Cell) : Bool :=
  (presentCells inf cells).any fun c => areas.at c.1 c.2 == 0

/-- Exact distance of cell `c` to side `d` of box `b`: rows x `ns`, columns x `ew`. -/
def sideDist (b : Box) (ns ew : Rat) (c : Cell) : Dir → Rat
  | .N => ((c.1 - b.n : Int) : Rat) * ns
  | .S => ((b.s - c.1 : Int) : Rat) * ns
  | .E => ((b.e - c.2 : Int) : Rat) * ew
  | .W => ((c.2 - b.w : Int) : Rat) * ew
  | .none => 0

def fourDirs : List Dir := [.N, .S, .E, .W]

/-- All (exact distance, side) pairs the report is chosen from: for every infected listed cell, in
    list order, every enabled side (in the order N, S, E, W) of the bounding box of the cell's own
    area. -/
def nearestCandidates (inf areas : IRaster) (cells : List Cell) (dirs : Dirs) (ns ew : Rat) :
    List (Rat × Dir) :=
  (presentCells inf cells).flatMap fun c =>
    match specAreaBox areas (areas.at c.1 c.2) with
    | some b => (fourDirs.filter dirs.enabled).map fun d => (sideDist b ns ew c d, d)
    | none => []

/-- `(d, dir)` is the report of a nearest infected cell, for any resolutions: `dir` is enabled, and
    some infected cell's exact distance `x` to side `dir` of its own area's box is minimal over all
    infected cells and all enabled sides of their own areas' boxes, and `d` is `x` rounded
    (`lround`). -/
def nearestOK (inf areas : IRaster) (cells : List Cell) (dirs : Dirs) (ns ew : Rat) (d : Int)
    (dir : Dir) : Bool :=
  dirs.enabled dir &&
  ((presentCells inf cells).any fun c =>
    match specAreaBox areas (areas.at c.1 c.2) with
    | some b =>
      lround (sideDist b ns ew c dir) == d &&
      ((presentCells inf cells).all fun c' =>
        match specAreaBox areas (areas.at c'.1 c'.2) with
        | some b' => fourDirs.all fun d' =>
            !dirs.enabled d' || decide (sideDist b ns ew c dir ≤ sideDist b' ns ew c' d')
        | none => false)
    | none => false)

/-! #### "Outside every quarantine area" for ANY area ids (finding F30)

  quarantine.hpp: "Different quarantine areas are represented by different integers. 0 in the
  raster means no quarantine area." The areas of a raster are its POSITIVE ids (the only ones
  `quarantine_boundary` registers). A cell whose id is not positive - 0, or a negative value such
  as a nodata marker - or is not the id of any area of the raster lies outside every quarantine
  area. `specEscaped` above is this definition on rasters whose infected cells carry no negative id
  (`C18_escape_iff_infected_nonneg`). -/

/-- The cell lies outside every quarantine area of `areas`. -/
def outsideEveryArea (areas : IRaster) (c : Cell) : Bool :=
  decide (areas.at c.1 c.2 ≤ 0) || (specAreaBox areas (areas.at c.1 c.2)).isNone

/-- Escape by definition, for any area ids: some infected listed cell lies outside every
    quarantine area. -/
def specEscapedFull (inf areas : IRaster) (cells : List Cell) : Bool :=
  (presentCells inf cells).any (outsideEveryArea areas)

/-- Region of the open finding F30 (the negation of hypothesis `hnn` of
    `C18_escape_iff_infected_nonneg` / `C18_nearest_infected_nonneg`): some infected listed cell has
    a negative area id. -/
def negativeIdAtInfected (inf areas : IRaster) (cells : List Cell) : Bool :=
  (presentCells inf cells).any fun c => decide (areas.at c.1 c.2 < 0)

def sumR : List Rat → Rat
  | [] => 0
  | x :: xs => x + sumR xs

/-- Mean over the defined values; undefined when there is none. -/
def meanDefined (l : List (Option Rat)) : Option Rat :=
  let ds := l.filterMap id
  if ds.length = 0 then none else some (sumR ds / (ds.length : Rat))

/-- Plain fraction of `true`; undefined for no runs. -/
def fractionTrue (l : List Bool) : Option Rat :=
  if l.length = 0 then none else some ((l.countP (· = true) : Rat) / (l.length : Rat))

/-- Sum of the raster over all its cells (double loop over indices). -/
def rasterSum (inf : IRaster) (rows cols : Int) : Int :=
  sumL ((allCells rows cols).map fun c => inf.at c.1 c.2)

/-- Number of infected cells of the raster. -/
def rasterCount (inf : IRaster) (rows cols : Int) : Nat :=
  (allCells rows cols).countP fun c => inf.at c.1 c.2 > 0

end Pops.Metric
