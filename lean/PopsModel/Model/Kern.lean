/-
  C13 model, part 1 (core Lean only): everything about the stochastic kernels that is discrete.
  * `Direction`, `DispersalKernelType` and the string -> enum tables
    (radial_kernel.hpp `direction_from_string`, kernel_types.hpp `kernel_type_from_string`)
  * the neighbour kernel (neighbor_kernel.hpp), the uniform kernel (uniform_kernel.hpp, after F16)
  * the natural / anthropogenic decision (natural_anthropogenic_kernel.hpp), the draw `u` explicit
  * the integer step of the radial kernel on exact quotients (`radialStep`), and its rational
    form `radialTargetQ` for angles whose cosine and sine are rational
  * `SwitchDispersalKernel` selection and the factories of natural_kernel.hpp /
    anthropogenic_kernel.hpp / kernel.hpp as a description of the object they build.
  Transcendental parts (von Mises, samplers, densities) are in Model/KernRadial.lean.
-/
import PopsModel.Model.Basic
namespace Pops

/-- Results of the modelled functions are compared by `decide` in the finite-table theorems. -/
instance kernDecEqExcept {ε α : Type} [DecidableEq ε] [DecidableEq α] : DecidableEq (Except ε α)
  | .ok a, .ok b => if h : a = b then isTrue (by rw [h]) else isFalse (by intro h'; injection h' with h'; exact h h')
  | .error a, .error b => if h : a = b then isTrue (by rw [h]) else isFalse (by intro h'; injection h' with h'; exact h h')
  | .ok _, .error _ => isFalse (by intro h; cases h)
  | .error _, .ok _ => isFalse (by intro h; cases h)

/-! ### Directions (utils.hpp `enum class Direction`) -/

inductive Direction where
  | N | NE | E | SE | S | SW | W | NW | none
deriving DecidableEq, Repr, Inhabited

namespace Direction

/-- The enumerator values as coded: degrees clockwise from north; `None` follows `NW = 315`. -/
def degrees : Direction → Int
  | N => 0 | NE => 45 | E => 90 | SE => 135 | S => 180 | SW => 225 | W => 270 | NW => 315
  | none => 316

def all : List Direction := [N, NE, E, SE, S, SW, W, NW, none]
def compass : List Direction := [N, NE, E, SE, S, SW, W, NW]

/-- Canonical (upper-case) name. -/
def name : Direction → String
  | N => "N" | NE => "NE" | E => "E" | SE => "SE" | S => "S" | SW => "SW" | W => "W" | NW => "NW"
  | none => "NONE"

/-- +1 when the direction has a northward component, -1 southward, 0 neither. -/
def northSign : Direction → Int
  | N => 1 | NE => 1 | NW => 1 | S => -1 | SE => -1 | SW => -1 | _ => 0
/-- +1 when the direction has an eastward component, -1 westward, 0 neither. -/
def eastSign : Direction → Int
  | E => 1 | NE => 1 | SE => 1 | W => -1 | NW => -1 | SW => -1 | _ => 0

end Direction

/-- The `std::map` of `direction_from_string`, entry by entry. -/
def directionTable : List (String × Direction) :=
  [("N", .N), ("NE", .NE), ("E", .E), ("SE", .SE), ("S", .S), ("SW", .SW), ("W", .W), ("NW", .NW),
   ("NONE", .none), ("None", .none), ("none", .none), ("", .none)]

/-- `direction_from_string`: `mapping.at(text)`, `out_of_range` rethrown as `invalid_argument`. -/
def directionFromString (s : String) : Except ErrKind Direction :=
  match directionTable.lookup s with
  | some d => .ok d
  | none => .error .invalid_argument

/-! ### Kernel types (kernel_types.hpp) -/

inductive DispersalKernelType where
  | cauchy | exponential | uniform | deterministicNeighbor | powerLaw | hyperbolicSecant | gamma
  | exponentialPower | weibull | normal | logNormal | logistic | network | none
deriving DecidableEq, Repr, Inhabited

namespace DispersalKernelType

def all : List DispersalKernelType :=
  [cauchy, exponential, uniform, deterministicNeighbor, powerLaw, hyperbolicSecant, gamma,
   exponentialPower, weibull, normal, logNormal, logistic, network, none]

/-- Canonical name: lower case, words separated by one blank. -/
def name : DispersalKernelType → String
  | cauchy => "cauchy" | exponential => "exponential" | uniform => "uniform"
  | deterministicNeighbor => "deterministic neighbor" | powerLaw => "power law"
  | hyperbolicSecant => "hyperbolic secant" | gamma => "gamma"
  | exponentialPower => "exponential power" | weibull => "weibull" | normal => "normal"
  | logNormal => "log normal" | logistic => "logistic" | network => "network" | none => "none"

end DispersalKernelType

open DispersalKernelType in
/-- `kernel_type_from_string`: the if-chain as coded, in its order. -/
def kernelTypeFromString (text : String) : Except ErrKind DispersalKernelType :=
  if text = "cauchy" ∨ text = "Cauchy" then .ok cauchy
  else if text = "exponential" ∨ text = "Exponential" then .ok exponential
  else if text = "uniform" ∨ text = "Uniform" then .ok uniform
  else if text = "deterministic neighbor" ∨ text = "deterministic-neighbor"
      ∨ text = "Deterministic-neighbor" ∨ text = "Deterministic-Neighbor"
      ∨ text = "Deterministic neighbor" ∨ text = "Deterministic Neighbor" then .ok deterministicNeighbor
  else if text = "power law" ∨ text = "power-law" ∨ text = "Power-law"
      ∨ text = "Power-Law" ∨ text = "Power Law" ∨ text = "Power law" then .ok powerLaw
  else if text = "hyperbolic secant" ∨ text = "hyperbolic-secant"
      ∨ text = "Hyperbolic-secant" ∨ text = "Hyperbolic-Secant"
      ∨ text = "Hyperbolic secant" ∨ text = "Hyperbolic Secant" then .ok hyperbolicSecant
  else if text = "gamma" ∨ text = "Gamma" then .ok gamma
  else if text = "exponential power" ∨ text = "exponential-power"
      ∨ text = "Exponential-power" ∨ text = "Exponential-Power"
      ∨ text = "Exponential power" ∨ text = "Exponential Power" then .ok exponentialPower
  else if text = "weibull" ∨ text = "Weibull" then .ok weibull
  else if text = "normal" ∨ text = "Normal" then .ok normal
  else if text = "log normal" ∨ text = "log-normal" ∨ text = "Log-normal"
      ∨ text = "Log-Normal" ∨ text = "Log normal" ∨ text = "Log Normal" then .ok logNormal
  else if text = "logistic" ∨ text = "Logistic" then .ok logistic
  else if text = "network" ∨ text = "Network" then .ok network
  else if text = "none" ∨ text = "None" ∨ text = "NONE" ∨ text = "" then .ok none
  else .error .invalid_argument

open DispersalKernelType in
/-- Every accepted spelling with the kernel type it selects (the specification table of
    `C13_names`; the function above is the code). -/
def kernelSpellings : List (String × DispersalKernelType) :=
  [("cauchy", cauchy), ("Cauchy", cauchy), ("exponential", exponential), ("Exponential", exponential),
   ("uniform", uniform), ("Uniform", uniform),
   ("deterministic neighbor", deterministicNeighbor), ("deterministic-neighbor", deterministicNeighbor),
   ("Deterministic-neighbor", deterministicNeighbor), ("Deterministic-Neighbor", deterministicNeighbor),
   ("Deterministic neighbor", deterministicNeighbor), ("Deterministic Neighbor", deterministicNeighbor),
   ("power law", powerLaw), ("power-law", powerLaw), ("Power-law", powerLaw), ("Power-Law", powerLaw),
   ("Power Law", powerLaw), ("Power law", powerLaw),
   ("hyperbolic secant", hyperbolicSecant), ("hyperbolic-secant", hyperbolicSecant),
   ("Hyperbolic-secant", hyperbolicSecant), ("Hyperbolic-Secant", hyperbolicSecant),
   ("Hyperbolic secant", hyperbolicSecant), ("Hyperbolic Secant", hyperbolicSecant),
   ("gamma", gamma), ("Gamma", gamma),
   ("exponential power", exponentialPower), ("exponential-power", exponentialPower),
   ("Exponential-power", exponentialPower), ("Exponential-Power", exponentialPower),
   ("Exponential power", exponentialPower), ("Exponential Power", exponentialPower),
   ("weibull", weibull), ("Weibull", weibull), ("normal", normal), ("Normal", normal),
   ("log normal", logNormal), ("log-normal", logNormal), ("Log-normal", logNormal),
   ("Log-Normal", logNormal), ("Log normal", logNormal), ("Log Normal", logNormal),
   ("logistic", logistic), ("Logistic", logistic), ("network", network), ("Network", network),
   ("none", none), ("None", none), ("NONE", none), ("", none)]

/-- Lower-case, hyphens read as blanks: what a spelling "names". -/
def normalizeKernelName (s : String) : String :=
  String.ofList (s.toList.map fun c => if c = '-' then ' ' else c.toLower)

/-- A spelling names kernel `k` when it normalises to `k`'s canonical name (the empty string names
    `none`, as documented for the C string overload). -/
def NamesKernel (s : String) (k : DispersalKernelType) : Prop :=
  normalizeKernelName s = k.name ∨ (s = "" ∧ k = .none)
instance (s : String) (k : DispersalKernelType) : Decidable (NamesKernel s k) := by
  unfold NamesKernel; exact inferInstance

/-- A spelling names direction `d` when its upper-case form is `d`'s name (empty names `none`). -/
def NamesDirection (s : String) (d : Direction) : Prop :=
  String.ofList (s.toList.map Char.toUpper) = d.name ∨ (s = "" ∧ d = .none)
instance (s : String) (d : Direction) : Decidable (NamesDirection s d) := by
  unfold NamesDirection; exact inferInstance

/-! ### Neighbour kernel (neighbor_kernel.hpp) -/

/-- The `switch` of `DeterministicNeighborDispersalKernel::operator()`: (row offset, column offset). -/
def neighborOffset : Direction → Option (Int × Int)
  | .E => some (0, 1)
  | .N => some (-1, 0)
  | .NE => some (-1, 1)
  | .NW => some (-1, -1)
  | .S => some (1, 0)
  | .SE => some (1, 1)
  | .SW => some (1, -1)
  | .W => some (0, -1)
  | .none => none

def neighborKernel (d : Direction) (row col : Int) : Except ErrKind (Int × Int) :=
  match neighborOffset d with
  | some (dr, dc) => .ok (row + dr, col + dc)
  | none => .error .invalid_argument

/-- Chebyshev distance between two cells. -/
def chebyshev (a b : Int × Int) : Nat := max (a.1 - b.1).natAbs (a.2 - b.2).natAbs

/-- Property predicate of `C13_neighbor`: `t` is the cell one step from `(row, col)` in direction
    `d` (north = smaller row, east = larger column). -/
def NeighborInDirection (d : Direction) (row col : Int) (t : Int × Int) : Prop :=
  chebyshev t (row, col) = 1 ∧ t.1 = row - d.northSign ∧ t.2 = col + d.eastSign
instance (d : Direction) (row col : Int) (t : Int × Int) : Decidable (NeighborInDirection d row col t) := by
  unfold NeighborInDirection; exact inferInstance

/-! ### Uniform kernel (uniform_kernel.hpp) -/

/-- The object state: the two `uniform_int_distribution` ranges (closed intervals). -/
structure UniformKernel where
  rowMax : Int
  colMax : Int
  rowLo : Int
  rowHi : Int
  colLo : Int
  colHi : Int
deriving DecidableEq, Repr, Inhabited

/-- Constructor `UniformDispersalKernel(row_max, col_max)`. -/
def UniformKernel.make (rows cols : Int) : UniformKernel :=
  { rowMax := rows, colMax := cols, rowLo := 0, rowHi := rows - 1, colLo := 0, colHi := cols - 1 }

/-- `dr`, `dc` are the values returned by the two distributions (trusted: each lies in its range,
    uniformly). -/
def UniformKernel.InRange (k : UniformKernel) (dr dc : Int) : Prop :=
  k.rowLo ≤ dr ∧ dr ≤ k.rowHi ∧ k.colLo ≤ dc ∧ dc ≤ k.colHi
instance (k : UniformKernel) (dr dc : Int) : Decidable (k.InRange dr dc) := by
  unfold UniformKernel.InRange; exact inferInstance

/-- `operator()`: the source cell is ignored. -/
def UniformKernel.call (_k : UniformKernel) (_row _col : Int) (dr dc : Int) : Int × Int := (dr, dc)

/-- A cell of a `rows x cols` landscape. -/
def InLandscape (rows cols : Int) (c : Int × Int) : Prop :=
  0 ≤ c.1 ∧ c.1 < rows ∧ 0 ≤ c.2 ∧ c.2 < cols
instance (rows cols : Int) (c : Int × Int) : Decidable (InLandscape rows cols c) := by
  unfold InLandscape; exact inferInstance

/-- libstdc++ 12 `uniform_int_distribution<int>(0, n-1)` on a 64-bit engine value `v` (Lemire's
    multiply-shift; no rejection when the low word is at least `n`). Used by the driver only, to
    replay scripted draws; not part of any theorem. -/
def lemireDraw (n : Nat) (v : Nat) : Int := ((v * n) / 2 ^ 64 : Nat)
def lemireNoReject (n : Nat) (v : Nat) : Bool := decide (n ≤ (v * n) % 2 ^ 64)

/-! ### Natural / anthropogenic mix (natural_anthropogenic_kernel.hpp) -/

/-- The `if` of `operator()`: natural when anthropogenic is disabled, or not eligible at the
    source cell, or the Bernoulli draw with parameter `pNatural` is true (`u < pNatural`). -/
def mixNatural (enabled eligible : Bool) (u pNatural : Rat) : Bool :=
  !enabled || !eligible || decide (u < pNatural)

def mixUsesAnthropogenic (enabled eligible : Bool) (u pNatural : Rat) : Bool :=
  !mixNatural enabled eligible u pNatural

/-- Short-circuit evaluation: eligibility is asked only when enabled, the Bernoulli value is drawn
    (from the anthropogenic stream) only when enabled and eligible. -/
def mixAsksEligibility (enabled : Bool) : Bool := enabled
def mixBernoulliDraws (enabled eligible : Bool) : Nat := if enabled && eligible then 1 else 0

/-- Number of `u = k/n`, `k < n`, for which the anthropogenic kernel is used. -/
def mixAnthroCount (enabled eligible : Bool) (n : Nat) (pNatural : Rat) : Nat :=
  ((List.range n).filter fun (k : Nat) => mixUsesAnthropogenic enabled eligible ((k : Rat) / (n : Rat)) pNatural).length

/-! ### Radial kernel, integer part (radial_kernel.hpp lines `row -= lround(..)`, `col += lround(..)`) -/

/-- `qr = distance * cos(theta) / north_south_resolution`, `qc = distance * sin(theta) /
    east_west_resolution` as exact numbers. -/
def radialStep (row col : Int) (qr qc : Rat) : Int × Int := (row - lround qr, col + lround qc)

/-- Radial target for an angle with rational cosine `c` and sine `s`. -/
def radialTargetQ (row col : Int) (d c s ns ew : Rat) : Int × Int :=
  radialStep row col (d * c / ns) (d * s / ew)

/-- Exact cosine and sine of the four axis directions. -/
def axisCos : Direction → Option Rat
  | .N => some 1 | .E => some 0 | .S => some (-1) | .W => some 0 | _ => none
def axisSin : Direction → Option Rat
  | .N => some 0 | .E => some 1 | .S => some 0 | .W => some (-1) | _ => none

/-- `k` is a correct `lround` of a quotient known only up to `eps` (used by the driver on the
    floating-point quotient: exact unless the fraction is within `eps` of one half). -/
def roundsTo (q : Rat) (k : Int) (eps : Rat) : Bool :=
  decide (lround q = k) || decide (lround (q + eps) = k) || decide (lround (q - eps) = k)

/-! ### Which kernel the radial class supports, and the switch kernel (switch_kernel.hpp) -/

/-- The ten distance laws of `RadialDispersalKernel`. -/
inductive Law where
  | cauchy | exponential | weibull | normal | logNormal | powerLaw | hyperbolicSecant | gamma
  | exponentialPower | logistic
deriving DecidableEq, Repr, Inhabited

def Law.all : List Law :=
  [.cauchy, .exponential, .weibull, .normal, .logNormal, .powerLaw, .hyperbolicSecant, .gamma,
   .exponentialPower, .logistic]

/-- The `if`-chain of `RadialDispersalKernel::operator()`: which distribution member draws the
    distance; `none` = "Unsupported dispersal kernel type" (`invalid_argument`). -/
def DispersalKernelType.law? : DispersalKernelType → Option Law
  | .cauchy => some .cauchy
  | .exponential => some .exponential
  | .weibull => some .weibull
  | .normal => some .normal
  | .logNormal => some .logNormal
  | .powerLaw => some .powerLaw
  | .hyperbolicSecant => some .hyperbolicSecant
  | .gamma => some .gamma
  | .exponentialPower => some .exponentialPower
  | .logistic => some .logistic
  | _ => Option.none

def Law.type : Law → DispersalKernelType
  | .cauchy => .cauchy | .exponential => .exponential | .weibull => .weibull | .normal => .normal
  | .logNormal => .logNormal | .powerLaw => .powerLaw | .hyperbolicSecant => .hyperbolicSecant
  | .gamma => .gamma | .exponentialPower => .exponentialPower | .logistic => .logistic

/-- `RadialDispersalKernel::supports_kernel`. -/
def radialSupports (t : DispersalKernelType) : Bool := t.law?.isSome

/-- The member kernels of `SwitchDispersalKernel`. -/
inductive SwitchTarget where
  | uniform | neighbor | network | deterministic | radial
deriving DecidableEq, Repr, Inhabited

/-- `SwitchDispersalKernel::operator()`: which member is called. -/
def switchSelect (t : DispersalKernelType) (stochastic : Bool) : SwitchTarget :=
  if t = .uniform then .uniform
  else if t = .deterministicNeighbor then .neighbor
  else if t = .network then .network
  else if !stochastic then .deterministic
  else .radial

/-- `SwitchDispersalKernel::is_cell_eligible`: only the network member restricts cells. -/
def switchEligible (t : DispersalKernelType) (networkHasNode : Bool) : Bool :=
  if t = .uniform then true
  else if t = .deterministicNeighbor then true
  else if t = .network then networkHasNode
  else true

/-- `SwitchDispersalKernel::supports_kernel`. -/
def switchSupports (t : DispersalKernelType) : Bool :=
  if t = .uniform then true else if t = .deterministicNeighbor then true else radialSupports t

/-! ### Factories (natural_kernel.hpp, anthropogenic_kernel.hpp, kernel.hpp) -/

/-- The `Config` members the kernel factories read. -/
structure KernelConfig where
  rows : Int
  cols : Int
  ewRes : Rat
  nsRes : Rat
  dispersalStochasticity : Bool
  dispersalPercentage : Rat
  shape : Rat
  naturalKernelType : String
  naturalScale : Rat
  naturalDirection : String
  naturalKappa : Rat
  useAnthropogenicKernel : Bool
  percentNaturalDispersal : Rat
  anthroKernelType : String
  anthroScale : Rat
  anthroDirection : String
  anthroKappa : Rat
  networkMovement : String
  networkMinDistance : Rat
  networkMaxDistance : Rat
deriving Repr, Inhabited

/-- What a factory builds: the class wrapped by `DynamicWrapperKernel` and its constructor
    arguments, in the constructor's parameter order. -/
inductive KernelDesc where
  /-- `UniformDispersalKernel(row_max, col_max)` -/
  | uniform (rows cols : Int)
  /-- `DeterministicNeighborDispersalKernel(direction)` -/
  | neighbor (dir : Direction)
  /-- `DeterministicDispersalKernel(type, dispersers, percentage, ew, ns, scale, shape)` -/
  | deterministic (type : DispersalKernelType) (percentage ew ns scale shape : Rat)
  /-- `RadialDispersalKernel(ew, ns, type, scale, direction, kappa, shape)` -/
  | radial (ew ns : Rat) (type : DispersalKernelType) (scale : Rat) (dir : Direction) (kappa shape : Rat)
  /-- `NetworkDispersalKernel(network)` -/
  | networkTeleport
  /-- `NetworkDispersalKernel(network, min, max, jump)` -/
  | networkWalk (min max : Rat) (jump : Bool)
deriving DecidableEq, Repr, Inhabited

/-- Constructor guards of the ten distribution classes, all of which `RadialDispersalKernel`
    constructs from `(distance_scale, shape)` whatever the selected type:
    Cauchy `scale <= 0`, exponential `<= 0`, Weibull `shape <= 0 || scale <= 0`, normal `== 0`,
    log-normal `<= 0`, power law `xmin(shape) == 0`, hyperbolic secant `== 0`,
    gamma `scale <= 0 || shape <= 0`, exponential power the same, logistic `<= 0`. -/
def radialCtorOk (scale shape : Rat) : Bool := decide (0 < scale) && decide (0 < shape)

/-- `create_natural_kernel`. Argument evaluation inside a `new Kernel(...)` expression can throw
    from `direction_from_string`; the kernel-name lookup comes first. -/
def createNaturalKernel (c : KernelConfig) : Except ErrKind KernelDesc := do
  let t ← kernelTypeFromString c.naturalKernelType
  if t = .uniform then
    return .uniform c.rows c.cols
  else if t = .deterministicNeighbor then
    return .neighbor (← directionFromString c.naturalDirection)
  else if !c.dispersalStochasticity then
    return .deterministic t c.dispersalPercentage c.ewRes c.nsRes c.naturalScale c.shape
  else
    let d ← directionFromString c.naturalDirection
    if radialCtorOk c.naturalScale c.shape then
      return .radial c.ewRes c.nsRes t c.naturalScale d c.naturalKappa c.shape
    else throw .invalid_argument

/-- `create_anthro_kernel`. -/
def createAnthroKernel (c : KernelConfig) : Except ErrKind KernelDesc := do
  let t ← kernelTypeFromString c.anthroKernelType
  if t = .uniform then
    return .uniform c.rows c.cols
  else if t = .deterministicNeighbor then
    return .neighbor (← directionFromString c.anthroDirection)
  else if t = .network then
    if c.networkMovement = "teleport" then return .networkTeleport
    else return .networkWalk c.networkMinDistance c.networkMaxDistance (decide (c.networkMovement = "jump"))
  else if !c.dispersalStochasticity then
    return .deterministic t c.dispersalPercentage c.ewRes c.nsRes c.anthroScale c.shape
  else
    let d ← directionFromString c.anthroDirection
    if radialCtorOk c.anthroScale c.shape then
      return .radial c.ewRes c.nsRes t c.anthroScale d c.anthroKappa c.shape
    else throw .invalid_argument

/-- `create_dynamic_kernel`: both kernels, the enable flag and the natural share. -/
structure DynamicKernelDesc where
  natural : KernelDesc
  anthro : KernelDesc
  useAnthropogenic : Bool
  percentNatural : Rat
deriving DecidableEq, Repr, Inhabited

def createDynamicKernel (c : KernelConfig) : Except ErrKind DynamicKernelDesc := do
  let n ← createNaturalKernel c
  let a ← createAnthroKernel c
  return { natural := n, anthro := a, useAnthropogenic := c.useAnthropogenicKernel,
           percentNatural := c.percentNaturalDispersal }

/-- Effective von Mises concentration of the radial kernel: zero when no direction is set. -/
def effectiveKappa (d : Direction) (kappa : Rat) : Rat := if d = .none then 0 else kappa

/-! ### The kernel `Model` builds for the pest overpopulation move (model.hpp) -/

/-- The members the `Model` constructor derives from the configuration and
    `create_overpopulation_movement_kernel` reads: `natural_kernel`, `anthro_kernel`,
    `uniform_kernel(config.rows, config.cols)`, `natural_neighbor_kernel`, `anthro_neighbor_kernel`.
    Any unknown kernel or direction name is `invalid_argument`. -/
structure ModelKernelMembers where
  naturalKernel : DispersalKernelType
  anthroKernel : DispersalKernelType
  uniformKernel : KernelDesc
  naturalNeighbor : KernelDesc
  anthroNeighbor : KernelDesc
deriving DecidableEq, Repr, Inhabited

def modelKernelMembers (c : KernelConfig) : Except ErrKind ModelKernelMembers := do
  let n ← kernelTypeFromString c.naturalKernelType
  let a ← kernelTypeFromString c.anthroKernelType
  let nd ← directionFromString c.naturalDirection
  let ad ← directionFromString c.anthroDirection
  return { naturalKernel := n, anthroKernel := a, uniformKernel := .uniform c.rows c.cols,
           naturalNeighbor := .neighbor nd, anthroNeighbor := .neighbor ad }

/-- The `SwitchDispersalKernel` returned by `create_overpopulation_movement_kernel`: its selector and
    its five member kernels, each described by its constructor arguments. -/
structure OverpopKernelDesc where
  type : DispersalKernelType
  stochastic : Bool
  radial : KernelDesc
  deterministic : KernelDesc
  uniform : KernelDesc
  network : KernelDesc
  neighbor : KernelDesc
deriving DecidableEq, Repr, Inhabited

/-- The member `SwitchDispersalKernel::operator()` calls. -/
def OverpopKernelDesc.selected (k : OverpopKernelDesc) : KernelDesc :=
  match switchSelect k.type k.stochastic with
  | .uniform => k.uniform
  | .neighbor => k.neighbor
  | .network => k.network
  | .deterministic => k.deterministic
  | .radial => k.radial

/-- `Model::create_overpopulation_movement_kernel` (after the `Model` constructor): the natural
    kernel's parameters, with the scale of the radial and of the deterministic kernel multiplied by
    `leaving_scale_coefficient`. Both are constructed whatever the selected type is, so the radial
    constructor's guards apply to every configuration. (The deterministic constructor additionally
    computes its window, C14; its own failures are not modelled here.) -/
def createOverpopulationKernel (c : KernelConfig) (leavingScaleCoefficient : Rat) :
    Except ErrKind OverpopKernelDesc := do
  let m ← modelKernelMembers c
  let d ← directionFromString c.naturalDirection
  let scale := c.naturalScale * leavingScaleCoefficient
  if radialCtorOk scale c.shape then
    return { type := m.naturalKernel, stochastic := c.dispersalStochasticity,
             radial := .radial c.ewRes c.nsRes m.naturalKernel scale d c.naturalKappa c.shape,
             deterministic := .deterministic m.naturalKernel c.dispersalPercentage c.ewRes c.nsRes scale c.shape,
             uniform := m.uniformKernel,
             network := .networkWalk c.networkMinDistance c.networkMaxDistance false,
             neighbor := m.naturalNeighbor }
  else throw .invalid_argument

/-- The uniform kernel object a description stands for. -/
def KernelDesc.uniformKernel? : KernelDesc → Option UniformKernel
  | .uniform rows cols => some (UniformKernel.make rows cols)
  | _ => none

end Pops
