/-
  C13 model, part 2 (core Lean only): the parts of the stochastic kernels that involve
  transcendental functions, written generically over `TF α` (Model/KernLaws.lean):
  * `RadialDispersalKernel`: which law draws the distance, with which members; von Mises angle;
    `row -= lround(d * cos(theta) / ns)`, `col += lround(d * sin(theta) / ew)`
  * the sampler of each of the ten distribution classes: the `std::` distribution it owns and the
    parameters it is constructed with, or "icdf of a uniform(0,1) value"
  * the densities of the standard distributions as the C++ standard states them ([rand.dist])
  * `VonMisesDistribution::operator()` with the uniform values it consumes as an explicit list.
  Random values are arguments: `draw` is what the owned `std::` distribution returned.
-/
import PopsModel.Model.Kern
import PopsModel.Model.KernLaws
namespace Pops

section Generic
variable {α : Type} (T : TF α)

local infixl:65 " +ₜ " => T.add
local infixl:65 " -ₜ " => T.sub
local infixl:70 " *ₜ " => T.mul
local infixl:70 " /ₜ " => T.div
local notation "𝟘" => T.ofNat 0
local notation "𝟙" => T.ofNat 1
local notation "𝟚" => T.ofNat 2

/-! ### Which members each class gets from `(distance_scale, shape)` (radial_kernel.hpp constructor)

  `cauchy(scale)`, `exponential(scale)`, `weibull(scale, shape)` [class: a = shape, b = scale],
  `normal(scale)`, `lognormal(scale)`, `power_law(scale, shape)` [alpha = scale, xmin = shape],
  `hyperbolic_secant(scale)`, `gamma(scale, shape)` [alpha = scale, theta = shape],
  `exponential_power(scale, shape)` [alpha = scale, beta = shape], `logistic(scale)`. -/

/-- The density member `pdf(x)` of the class selected by `law` (argument guards: `lawPdfE`). -/
def lawPdf (law : Law) (scale shape x : α) : α :=
  match law with
  | .cauchy => cauchyPdf T scale x
  | .exponential => exponentialPdf T scale x
  | .weibull => weibullPdf T shape scale x
  | .normal => normalPdf T scale x
  | .logNormal => lognormalPdf T scale x
  | .powerLaw => powerlawPdf T scale shape x
  | .hyperbolicSecant => hypsecPdf T scale x
  | .gamma => gammaPdf T scale shape x
  | .exponentialPower => exppowerPdf T scale shape x
  | .logistic => logisticPdf T scale x

def lawPdfE (law : Law) (scale shape x : α) : Except ErrKind α :=
  match law with
  | .cauchy => cauchyPdfE T scale x
  | .exponential => exponentialPdfE T scale x
  | .weibull => weibullPdfE T shape scale x
  | .normal => normalPdfE T scale x
  | .logNormal => lognormalPdfE T scale x
  | .powerLaw => powerlawPdfE T scale shape x
  | .hyperbolicSecant => hypsecPdfE T scale x
  | .gamma => gammaPdfE T scale shape x
  | .exponentialPower => exppowerPdfE T scale shape x
  | .logistic => logisticPdfE T scale x

/-- The member `icdf(x)` (with its guard) of the class selected by `law`. -/
def lawIcdfE (law : Law) (scale shape x : α) : Except ErrKind α :=
  match law with
  | .cauchy => cauchyIcdfE T scale x
  | .exponential => exponentialIcdfE T scale x
  | .weibull => weibullIcdfE T shape scale x
  | .normal => normalIcdfE T scale x
  | .logNormal => lognormalIcdfE T scale x
  | .powerLaw => powerlawIcdfE T scale shape x
  | .hyperbolicSecant => hypsecIcdfE T scale x
  | .gamma => gammaIcdfE T scale shape x
  | .exponentialPower => exppowerIcdfE T scale shape x
  | .logistic => logisticIcdfE T scale x

/-- Constructor guard of each class (true = constructed, false = `invalid_argument`). -/
def lawCtorOk (law : Law) (scale shape : α) : Bool :=
  match law with
  | .cauchy => !T.leb scale 𝟘
  | .exponential => !T.leb scale 𝟘
  | .weibull => !(T.leb shape 𝟘 || T.leb scale 𝟘)
  | .normal => !T.eqb scale 𝟘
  | .logNormal => !T.leb scale 𝟘
  | .powerLaw => !T.eqb shape 𝟘
  | .hyperbolicSecant => !T.eqb scale 𝟘
  | .gamma => !(T.leb scale 𝟘 || T.leb shape 𝟘)
  | .exponentialPower => !(T.leb scale 𝟘 || T.leb shape 𝟘)
  | .logistic => !T.leb scale 𝟘

/-! ### Samplers -/

/-- What a distribution class draws from: a standard-library distribution with its constructor
    arguments (named as in [rand.dist]), or the class's own `icdf` applied to a
    `uniform_real_distribution(lo, hi)` value. -/
inductive Sampler (α : Type) where
  | stdCauchy (a b : α)
  | stdExponential (lambda : α)
  | stdWeibull (a b : α)
  | stdNormal (mean stddev : α)
  | stdLognormal (m s : α)
  | stdGamma (alpha beta : α)
  | icdfOfUniform (lo hi : α)
deriving Repr, Inhabited, DecidableEq

/-- The member initialisers: `cauchy_distribution(0, s)`, `exponential_distribution(1.0 / beta)`,
    `weibull_distribution(a, b)`, `normal_distribution(0.0, sigma)`,
    `lognormal_distribution(0.0, sigma)`, `gamma_distribution(alpha, theta)` (after F15),
    `distribution(0.0, 1.0)` for the four inverse-transform classes. -/
def lawSampler (law : Law) (scale shape : α) : Sampler α :=
  match law with
  | .cauchy => .stdCauchy 𝟘 scale
  | .exponential => .stdExponential (𝟙 /ₜ scale)
  | .weibull => .stdWeibull shape scale
  | .normal => .stdNormal 𝟘 scale
  | .logNormal => .stdLognormal 𝟘 scale
  | .gamma => .stdGamma scale shape
  | .powerLaw => .icdfOfUniform 𝟘 𝟙
  | .hyperbolicSecant => .icdfOfUniform 𝟘 𝟙
  | .exponentialPower => .icdfOfUniform 𝟘 𝟙
  | .logistic => .icdfOfUniform 𝟘 𝟙

/-- Densities of the standard distributions, as printed in the C++ standard [rand.dist]:
    cauchy `(pi b (1 + ((x - a) / b)^2))^-1`; exponential `lambda e^(-lambda x)`;
    weibull `(a / b) (x / b)^(a - 1) exp(-(x / b)^a)`;
    normal `1 / (sigma sqrt(2 pi)) exp(-(x - mu)^2 / (2 sigma^2))`;
    lognormal `1 / (s x sqrt(2 pi)) exp(-(ln x - m)^2 / (2 s^2))`;
    gamma `e^(-x / beta) / (beta^alpha Gamma(alpha)) x^(alpha - 1)`. -/
def Sampler.density (s : Sampler α) (x : α) : Option α :=
  match s with
  | .stdCauchy a b => some (𝟙 /ₜ ((T.pi *ₜ b) *ₜ (𝟙 +ₜ T.pow ((x -ₜ a) /ₜ b) 𝟚)))
  | .stdExponential lambda => some (lambda *ₜ T.exp (T.neg (lambda *ₜ x)))
  | .stdWeibull a b => some (((a /ₜ b) *ₜ T.pow (x /ₜ b) (a -ₜ 𝟙)) *ₜ T.exp (T.neg (T.pow (x /ₜ b) a)))
  | .stdNormal mean stddev =>
    some ((𝟙 /ₜ (stddev *ₜ T.sqrt (𝟚 *ₜ T.pi))) *ₜ
          T.exp (T.neg (T.pow (x -ₜ mean) 𝟚) /ₜ (𝟚 *ₜ T.pow stddev 𝟚)))
  | .stdLognormal m s =>
    some ((𝟙 /ₜ ((s *ₜ x) *ₜ T.sqrt (𝟚 *ₜ T.pi))) *ₜ
          T.exp (T.neg (T.pow (T.log x -ₜ m) 𝟚) /ₜ (𝟚 *ₜ T.pow s 𝟚)))
  | .stdGamma alpha beta =>
    some ((T.exp (T.neg x /ₜ beta) /ₜ (T.pow beta alpha *ₜ T.tgamma alpha)) *ₜ T.pow x (alpha -ₜ 𝟙))
  | .icdfOfUniform _ _ => none

/-- The member `random(generator)`: `draw` is the value the owned `std::` distribution returned
    (a value of the standard law for the six library samplers, a uniform(0,1) value for the four
    inverse-transform classes). -/
def lawRandom (law : Law) (scale shape draw : α) : Except ErrKind α :=
  match law with
  | .cauchy => .ok (T.abs draw)
  | .exponential => .ok (T.abs draw)
  | .weibull => .ok (T.abs draw)
  | .normal => .ok (T.abs draw)
  | .logNormal => .ok (T.abs draw)
  | .gamma => .ok (T.abs draw)
  | .powerLaw => powerlawIcdfE T scale shape draw
  | .hyperbolicSecant => hypsecIcdfE T scale draw
  | .exponentialPower => exppowerIcdfE T scale shape draw
  | .logistic => logisticIcdfE T scale draw

/-! ### Von Mises angle (von_mises_distribution.hpp) -/

/-- `static_cast<int>(direction) * PI / 180` -/
def directionMu (d : Direction) : α := (T.ofNat d.degrees.toNat *ₜ T.pi) /ₜ T.ofNat 180

/-- `direction == Direction::None ? 0 : kappa` -/
def directionKappa (d : Direction) (kappa : α) : α := if d = .none then 𝟘 else kappa

/-- `1.e-06` -/
def vonMisesEps : α := 𝟙 /ₜ T.ofNat 1000000

/-- The `while (true)` rejection loop: consumes `u1, u2` per round until accepted; returns the
    accepted `f` and the unused values (`none`: the supplied values ran out). -/
def vonMisesLoop (kappa r : α) : List α → Option (α × List α)
  | u1 :: u2 :: rest =>
    let z := T.cos (T.pi *ₜ u1)
    let f := (𝟙 +ₜ r *ₜ z) /ₜ (r +ₜ z)
    let c := kappa *ₜ (r -ₜ f)
    if T.leb u2 (c *ₜ (𝟚 -ₜ c)) || T.ltb u2 (c *ₜ T.exp (𝟙 -ₜ c)) then some (f, rest)
    else vonMisesLoop kappa r rest
  | _ => none

/-- `a = 1.0 + sqrt(1.0 + 4.0 * kappa * kappa); b = (a - sqrt(2.0 * a)) / (2.0 * kappa);
     r = (1.0 + b * b) / (2.0 * b)` -/
def vonMisesR (kappa : α) : α :=
  let a := 𝟙 +ₜ T.sqrt (𝟙 +ₜ (T.ofNat 4 *ₜ kappa) *ₜ kappa)
  let b := (a -ₜ T.sqrt (𝟚 *ₜ a)) /ₜ (𝟚 *ₜ kappa)
  (𝟙 +ₜ b *ₜ b) /ₜ (𝟚 *ₜ b)

/-- `VonMisesDistribution::operator()`; `us` are the successive `distribution(generator)` values.
    Returns the angle and the unused values. -/
def vonMises (mu kappa : α) (us : List α) : Option (α × List α) :=
  if T.leb kappa (vonMisesEps T) then
    match us with
    | u :: rest => some ((𝟚 *ₜ T.pi) *ₜ u, rest)
    | [] => none
  else
    match vonMisesLoop T kappa (vonMisesR T kappa) us with
    | some (f, u3 :: rest) =>
      if T.ltb (𝟙 /ₜ 𝟚) u3 then some (T.fmod (mu +ₜ T.acos f) (𝟚 *ₜ T.pi), rest)
      else some (T.fmod (mu -ₜ T.acos f) (𝟚 *ₜ T.pi), rest)
    | _ => none

/-! ### Radial kernel (radial_kernel.hpp) -/

/-- The two quotients whose `lround` moves the disperser. -/
def radialQuotients (d theta ns ew : α) : α × α :=
  ((d *ₜ T.cos theta) /ₜ ns, (d *ₜ T.sin theta) /ₜ ew)

/-- `row -= lround(distance * cos(theta) / north_south_resolution);
     col += lround(distance * sin(theta) / east_west_resolution);` -/
def radialTarget (row col : Int) (d theta ns ew : α) : Int × Int :=
  (row - T.lround ((d *ₜ T.cos theta) /ₜ ns), col + T.lround ((d *ₜ T.sin theta) /ₜ ew))

/-- The members of a constructed `RadialDispersalKernel` that `operator()` reads. -/
structure RadialKernel (α : Type) where
  ew : α
  ns : α
  type : DispersalKernelType
  scale : α
  shape : α
  mu : α
  kappa : α

/-- Constructor `RadialDispersalKernel(ew_res, ns_res, type, distance_scale, direction, kappa,
    shape)`: every one of the ten members is constructed (and may throw), whatever `type` is. -/
def RadialKernel.make (ew ns : α) (type : DispersalKernelType) (scale : α) (dir : Direction)
    (kappa shape : α) : Except ErrKind (RadialKernel α) :=
  if Law.all.all fun l => lawCtorOk T l scale shape then
    .ok { ew := ew, ns := ns, type := type, scale := scale, shape := shape,
          mu := directionMu T dir, kappa := directionKappa T dir kappa }
  else .error .invalid_argument

/-- `distance = std::abs(<member>.random(generator))`, or "Unsupported dispersal kernel type". -/
def RadialKernel.distance (k : RadialKernel α) (draw : α) : Except ErrKind α :=
  match k.type.law? with
  | none => .error .invalid_argument
  | some law => (lawRandom T law k.scale k.shape draw).map T.abs

/-- `operator()` with the distance draw and the angle given. -/
def RadialKernel.callWith (k : RadialKernel α) (row col : Int) (draw theta : α) : Except ErrKind (Int × Int) :=
  (k.distance T draw).map fun d => radialTarget T row col d theta k.ns k.ew

/-- `operator()`: distance draw, then the von Mises angle from the uniform values `us`
    (`none`: not enough values supplied). -/
def RadialKernel.call (k : RadialKernel α) (row col : Int) (draw : α) (us : List α) :
    Option (Except ErrKind (Int × Int)) :=
  match k.distance T draw with
  | .error e => some (.error e)
  | .ok d => (vonMises T k.mu k.kappa us).map fun (theta, _) => .ok (radialTarget T row col d theta k.ns k.ew)

end Generic

/-! ### Float helpers for the driver -/

/-- Exact-rounding twin: the `Float` quotient converted to its exact rational value and rounded
    with the same `lround` the theorems use. -/
def floatRadialStep (row col : Int) (qr qc : Float) : Option (Int × Int) := do
  let a ← FloatFn.toRat? qr
  let b ← FloatFn.toRat? qc
  pure (radialStep row col a b)

end Pops
