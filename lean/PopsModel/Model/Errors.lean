/-
  Documented error behaviour (C20) and the weather-from-distribution rule (C12), collected from
  environment.hpp, host_pool.hpp, soils.hpp, config.hpp, treatments.hpp, model_type.hpp.
  Functions that are already modelled elsewhere (names of kernels / directions / frequencies /
  step units, scheduler and date rejections, seeds) are only referenced by the theorems.
-/
import PopsModel.Model.HostOps
import PopsModel.Model.Schedule
namespace Pops

inductive WeatherType where
  | deterministic | probabilistic | none
deriving DecidableEq, Repr, Inhabited

/-- `weather_type_from_string`. -/
def weatherTypeFromString (s : String) : Except ErrKind WeatherType :=
  if s = "deterministic" ∨ s = "Deterministic" then .ok .deterministic
  else if s = "probabilistic" ∨ s = "Probabilistic" then .ok .probabilistic
  else if s = "" ∨ s = "none" ∨ s = "None" ∨ s = "NONE" then .ok .none
  else .error .invalid_argument

/-- `Config::set_arrival_behavior`. -/
def setArrivalBehavior (s : String) : Except ErrKind String :=
  if s ≠ "infect" ∧ s ≠ "land" then .error .invalid_argument else .ok s

/-- The parts of `Environment` that can be missing. -/
structure EnvState where
  weather : Option (List Rat)        -- current weather coefficient raster
  temperature : Option (List Rat)
deriving Repr, Inhabited

/-- `Environment::weather_coefficient_at`: `logic_error` when no weather was provided. -/
def EnvState.weatherAt (e : EnvState) (k : Nat) : Except ErrKind Rat :=
  match e.weather with
  | none => .error .logic_error
  | some w => .ok w[k]!

/-- `Environment::temperature_at`: `logic_error` when no temperature was provided. -/
def EnvState.temperatureAt (e : EnvState) (k : Nat) : Except ErrKind Rat :=
  match e.temperature with
  | none => .error .logic_error
  | some t => .ok t[k]!

/-- `NormalDistributionWithUniformFallback::operator()`: `z` is the normal draw, `u` the uniform
    draw from `[lo, hi)` used when `z` falls outside. -/
def normalWithFallback (lo hi z u : Rat) : Rat := if z < lo ∨ z > hi then u else z

/-- `Environment::update_weather_from_distribution`: shapes must agree, every mean must lie in
    [0,1]; each cell then gets a normal draw with uniform fallback on [0,1]. -/
def updateWeatherFromDistribution (meanRows meanCols sdRows sdCols : Nat) (means : List Rat)
    (zs us : List Rat) : Except ErrKind (List Rat) :=
  if meanRows ≠ sdRows then .error .invalid_argument
  else if meanCols ≠ sdCols then .error .invalid_argument
  else if means.any (fun m => decide (m < 0) || decide (m > 1)) then .error .invalid_argument
  else .ok ((List.range means.length).map fun k => normalWithFallback 0 1 zs[k]! us[k]!)

/-- libstdc++'s `normal_distribution(mean, stddev)` returns `n * stddev + mean` for a standard
    normal draw `n`; only this affine shape is modelled (the law of `n` is trusted). -/
def normalDraw (mean sd n : Rat) : Rat := n * sd + mean

/-- The normal draws of `update_weather_from_distribution`, one per cell, from the mean and
    deviation rasters and the standard normal draws. -/
def weatherZs (means sds ns : List Rat) : List Rat :=
  (List.range means.length).map fun k => normalDraw means[k]! sds[k]! ns[k]!

/-- `HostPool::apply_mortality_at(row, col)` without a pest-host table. -/
def applyMortalityViaTable (table : Option (Rat × Int)) (c : Cell) : Except ErrKind Cell :=
  match table with
  | none => .error .invalid_argument
  | some (rate, lag) => c.applyMortality rate lag

/-- `SoilPool` constructor: at least one cohort raster is required. -/
def soilPoolNew (numRasters : Nat) : Except ErrKind Unit :=
  if numRasters = 0 then .error .logic_error else .ok ()

/-- `Config` schedule accessors: `logic_error` before `create_schedules`, and for the optional
    features when the feature is disabled. -/
def configAccessor (created : Bool) (featureEnabled : Bool) : Except ErrKind Unit :=
  if !featureEnabled then .error .logic_error
  else if !created then .error .logic_error
  else .ok ()

/-- `Treatments::add_treatment`: the start date, and for a pesticide the end date, must lie in
    the schedule. -/
def addTreatment (steps : List Step) (start : Date) (numDays : Nat) : Except ErrKind TreatSpec := do
  let s ← scheduleActionDate steps start
  if numDays = 0 then pure { pesticide := false, start := s, end_ := s }
  else
    let e ← scheduleActionDate steps (iter Date.addDay numDays start)
    pure { pesticide := true, start := s, end_ := e }

end Pops
