/-
  The suitable-cell list the host pool maintains (`HostPool::move_hosts_from_to` appends a cell that
  receives its first hosts) is what `sum_of_infected` / `area_of_infected` (statistics.hpp) iterate
  over.  C18's "infected sum is the sum of infected cells" therefore needs the list to name every
  infected cell exactly once.  Cells are flat indices; `inf k` is the infected count of cell `k`.
-/
import PopsModel.Model.Basic
namespace Pops

/-- What `sum_of_infected(infected, suitable_cells)` adds up. -/
def infectedOverList (inf : Nat → Int) (suit : List Nat) : Int := sumL (suit.map inf)

/-- The sum of the infected raster. -/
def infectedOverRaster (inf : Nat → Int) (n : Nat) : Int := sumL ((List.range n).map inf)

/-- No cell twice, every index inside the raster, every infected cell listed. -/
def suitableListOK (inf : Nat → Int) (n : Nat) (suit : List Nat) : Bool :=
  decide suit.Nodup && suit.all (fun k => decide (k < n)) && (List.range n).all fun k => inf k == 0 || suit.contains k

end Pops
