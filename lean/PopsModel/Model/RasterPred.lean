/-
  Decidable property predicates for C19, evaluated by the driver on the implementation's output
  and used as conclusions of the theorems in Props/C19.lean.
-/
import PopsModel.Model.RasterHeap
namespace Pops
variable {α β γ : Type}

/-- `r` has the shape of `a` and each cell `(i, j)` of `r` is `f` of cell `(i, j)` of `a`. -/
def ElemMapOK [DecidableEq β] (f : α → β) (a : Raster α) (r : Raster β) : Bool :=
  r.rows == a.rows && r.cols == a.cols && r.cells.length == r.rows * r.cols &&
  (List.range a.rows).all fun i => (List.range a.cols).all fun j =>
    r.at? i j == (a.at? i j).map f

def opt2 (f : α → β → γ) : Option α → Option β → Option γ
  | some x, some y => some (f x y)
  | _, _ => none

/-- `r` has the shape of `a` and each cell `(i, j)` of `r` is `f` of the cells `(i, j)` of `a` and `b`. -/
def ElemZipOK [DecidableEq γ] (f : α → β → γ) (a : Raster α) (b : Raster β) (r : Raster γ) : Bool :=
  r.rows == a.rows && r.cols == a.cols && r.cells.length == r.rows * r.cols &&
  (List.range a.rows).all fun i => (List.range a.cols).all fun j =>
    r.at? i j == opt2 f (a.at? i j) (b.at? i j)

/-! ### "The same operation on the corresponding cells": operand order as written, usual arithmetic
    conversions, result stored in the raster's element type (`I` = int, `D` = double; first letter
    = raster / left type) -/

def specRS_II (o : BinOp) (v : Int) (x : Int) : Int := o.int x v
def specRS_ID (o : BinOp) (v : Rat) (x : Int) : Int := d2i (o.dbl (i2d x) v)
def specRS_DI (o : BinOp) (v : Int) (x : Rat) : Rat := o.dbl x (i2d v)
def specRS_DD (o : BinOp) (v : Rat) (x : Rat) : Rat := o.dbl x v
def specSR_II (o : BinOp) (v : Int) (x : Int) : Int := o.int v x
def specSR_ID (o : BinOp) (v : Rat) (x : Int) : Int := d2i (o.dbl v (i2d x))
def specSR_DI (o : BinOp) (v : Int) (x : Rat) : Rat := o.dbl (i2d v) x
def specSR_DD (o : BinOp) (v : Rat) (x : Rat) : Rat := o.dbl v x
def specRR_II (o : BinOp) (x y : Int) : Int := o.int x y
def specRR_ID (o : BinOp) (x : Int) (y : Rat) : Rat := o.dbl (i2d x) y
def specRR_DI (o : BinOp) (x : Rat) (y : Int) : Rat := o.dbl x (i2d y)
def specRR_DD (o : BinOp) (x y : Rat) : Rat := o.dbl x y

/-- Same shape and same cells. -/
def SameRaster [DecidableEq α] (a b : Raster α) : Bool :=
  a.rows == b.rows && a.cols == b.cols && a.cells == b.cells

def sameShape (a : Raster α) (b : Raster β) : Bool := a.rows == b.rows && a.cols == b.cols

/-- What a user of the pool can observe: per variable `none` (no object), `some none` (moved-from:
    null data pointer; shape kept) or `some (some r)`; and the caller's arrays. -/
structure Obs (α : Type) where
  vars : List (Option (Nat × Nat × Option (List α)))
  exts : List (List α)
deriving DecidableEq, Repr

/-- Observation of a model state over `n` variables. -/
def Heap.observe (h : Heap α) (n : Nat) : Obs α :=
  { vars := (List.range n).map fun s =>
      match h.slots s with
      | none => none
      | some o => some (o.rows, o.cols, (h.view s).map (·.cells)),
    exts := (List.range h.nExt).map fun e => (h.ext e).getD [] }

end Pops
