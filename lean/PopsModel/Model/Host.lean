/-
  L1 model of include/pops/host_pool.hpp (single host), per cell.
  A cell carries the values of all host rasters at one (row, col). Every random decision of
  the C++ is an explicit argument (`draw` lists for draw_n_from_cohorts, `u` for the uniform).
  Mirrors the code after the fix: commits F4, F5, F6.
-/
import PopsModel.Model.Basic
namespace Pops

inductive ModelType where
  | si | sei
deriving DecidableEq, Repr, Inhabited

/-- `model_type_from_string` (model_type.hpp). -/
def modelTypeFromString (s : String) : Except ErrKind ModelType :=
  if s = "SI" ∨ s = "SusceptibleInfected" ∨ s = "susceptible-infected" ∨ s = "susceptible_infected" then .ok .si
  else if s = "SEI" ∨ s = "SusceptibleExposedInfected" ∨ s = "susceptible-exposed-infected"
      ∨ s = "susceptible_exposed_infected" then .ok .sei
  else .error .invalid_argument

structure Cell where
  s : Int                -- susceptible
  e : List Int           -- exposed cohorts, oldest first
  i : Int                -- infected
  r : Int                -- resistant
  te : Int               -- total_exposed raster
  mort : List Int        -- mortality cohorts, oldest first
  died : Int
  th : Int               -- total_hosts raster
deriving DecidableEq, Repr, Inhabited

/-- Hosts of all classes in the cell. -/
def Cell.hosts (c : Cell) : Int := c.s + sumL c.e + c.i + c.r

/-! ### list helpers mirroring the vector operations -/

def subL (a b : List Int) : List Int := List.zipWith (· - ·) a b
def addL (a b : List Int) : List Int := List.zipWith (· + ·) a b

/-- `v.back() += k` (no-op on an empty list; the C++ would be undefined there). -/
def addLast : List Int → Int → List Int
  | [], _ => []
  | [x], k => [x + k]
  | x :: y :: rest, k => x :: addLast (y :: rest) k

/-- `rotate_left_by_one`. -/
def rotateLeft {α : Type} : List α → List α
  | [] => []
  | x :: xs => xs ++ [x]

/-- `reset_total_host`. -/
def Cell.resetTotal (c : Cell) : Cell := { c with th := c.s + sumL c.e + c.i + c.r }

/-- What `draw_n_from_cohorts(cohorts, n)` can return: per-cohort counts within the cohorts,
    summing to `min n total` (the draw is a truncated permutation of the category vector). -/
def ValidDraw (cohorts : List Int) (n : Int) (d : List Int) : Prop :=
  d.length = cohorts.length ∧ (∀ k : Nat, k < d.length → 0 ≤ d[k]! ∧ d[k]! ≤ cohorts[k]!) ∧
  sumL d = min n (sumL cohorts)

def validDrawB (cohorts : List Int) (n : Int) (d : List Int) : Bool :=
  d.length == cohorts.length && (List.zip d cohorts).all (fun p => decide (0 ≤ p.1) && decide (p.1 ≤ p.2)) &&
  sumL d == min n (sumL cohorts)

/-! ### establishment -/

/-- `HostPool::add_disperser_at`. -/
def Cell.addDisperserAt (mt : ModelType) (c : Cell) : Cell × Int :=
  if c.s ≤ 0 then (c, 0)
  else match mt with
    | .si => ({ c with s := c.s - 1, i := c.i + 1, mort := addLast c.mort 1 }, 1)
    | .sei => ({ c with s := c.s - 1, e := addLast c.e 1, te := c.te + 1 }, 1)

/-- What the environment and the pest-host table contribute at a cell. -/
structure EnvCell where
  n : Int            -- total population at the cell
  w : Option Rat     -- weather coefficient, when weather is set
  sus : Option Rat   -- susceptibility, when a pest-host table is set
deriving Repr, Inhabited

/-- `HostPool::suitability_at`: (s / N) * susceptibility * weather; outside [0,1] rejected. -/
def Cell.suitability (c : Cell) (env : EnvCell) : Except ErrKind Rat :=
  let v := (c.s : Rat) / (env.n : Rat) * env.sus.getD 1 * env.w.getD 1
  if v < 0 ∨ v > 1 then .error .invalid_argument else .ok v

/-- `HostPool::can_disperser_establish`; `u` is the uniform draw used when stochastic. -/
def canEstablish (p : Rat) (stochastic : Bool) (pEst : Rat) (u : Rat) : Bool :=
  let tester := if stochastic then u else 1 - pEst
  decide (tester < p)

/-- `HostPool::disperser_to`. Returns the new cell, 0/1, and the number of uniforms consumed. -/
def Cell.disperserTo (mt : ModelType) (c : Cell) (env : EnvCell) (stochastic : Bool) (pEst u : Rat) :
    Except ErrKind (Cell × Int × Nat) :=
  if c.s ≤ 0 then .ok (c, 0, 0)
  else do
    let p ← c.suitability env
    let used := if stochastic then 1 else 0
    if canEstablish p stochastic pEst u then
      let (c', k) := c.addDisperserAt mt
      pure (c', k, used)
    else pure (c, 0, used)

/-- `HostPool::dispersers_from`, deterministic generation: `lround (lambda * infected)`,
    `lambda = reproductive_rate * weather * competency`. -/
def Cell.dispersersFromDet (c : Cell) (lambda : Rat) : Int :=
  if c.i ≤ 0 then 0 else lround (lambda * c.i)

/-! ### pests leaving / arriving (overpopulation) -/

def Cell.pestsFrom (c : Cell) (k : Int) : Cell × Int :=
  ({ c with s := c.s + k, i := c.i - k }, k)

def Cell.pestsTo (c : Cell) (k : Int) : Cell × Int :=
  if c.s ≥ k then ({ c with s := c.s - k, i := c.i + k }, k)
  else
    let k' := c.s
    ({ c with s := c.s - k', i := c.i + k' }, k')

/-! ### removals -/

/-- `HostPool::completely_remove_hosts_at`. -/
def Cell.completelyRemove (c : Cell) (sRem : Int) (eRem : List Int) (iRem : Int) (mRem : List Int) :
    Except ErrKind Cell :=
  let c1 := if sRem > 0 then { c with s := c.s - sRem } else c
  if eRem.length ≠ c1.e.length then .error .invalid_argument
  else
    let c2 := { c1 with e := subL c1.e eRem, te := c1.te - sumL eRem }
    if iRem ≤ 0 then .ok c2.resetTotal
    else if c2.mort.length ≠ mRem.length then .error .invalid_argument
    else if (List.zip c2.mort mRem).any (fun p => decide (p.1 < p.2)) then .error .invalid_argument
    else .ok ({ c2 with mort := subL c2.mort mRem, i := c2.i - iRem }).resetTotal

/-- `HostPool::remove_infected_at`; `draw` is the result of draw_n_from_cohorts on the
    mortality cohorts (used only when `count > 0`). -/
def Cell.removeInfected (c : Cell) (count : Int) (draw : List Int) : Cell :=
  let m := if count > 0 then subL c.mort draw else c.mort
  { c with i := c.i - count, mort := m, s := c.s + count }

/-- `HostPool::remove_exposed_at`. -/
def Cell.removeExposed (c : Cell) (count : Int) (draw : List Int) : Cell :=
  let e := if count > 0 then subL c.e draw else c.e
  { c with te := c.te - count, e := e, s := c.s + count }

/-- Requests computed by `remove_infection_by_ratio_at`. -/
def Cell.ratioRemovedInfected (c : Cell) (ratio : Rat) : Int := c.i - lround (c.i * ratio)
def Cell.ratioRemovedExposed (c : Cell) (ratio : Rat) : Int := c.te - lround (c.te * ratio)

/-- `HostPool::remove_infection_by_ratio_at`. -/
def Cell.removeByRatio (c : Cell) (ratio : Rat) (drawI drawE : List Int) : Cell :=
  let c1 := c.removeInfected (c.ratioRemovedInfected ratio) drawI
  c1.removeExposed (c1.ratioRemovedExposed ratio) drawE

/-- `HostPool::remove_all_infected_at`. -/
def Cell.removeAllInfected (c : Cell) (draw : List Int) : Cell := c.removeInfected c.i draw

/-! ### resistance -/

/-- `HostPool::make_resistant_at`. -/
def Cell.makeResistant (c : Cell) (sR : Int) (eR : List Int) (iR : Int) (mR : List Int) :
    Except ErrKind Cell :=
  if c.s < sR then .error .invalid_argument
  else if eR.length ≠ c.e.length then .error .invalid_argument
  else if c.mort.length ≠ mR.length then .error .invalid_argument
  else .ok { c with s := c.s - sR, e := subL c.e eR, te := c.te - sumL eR, i := c.i - iR,
                     mort := subL c.mort mR, r := c.r + (sR + sumL eR + iR) }

/-- `HostPool::remove_resistance_at`. -/
def Cell.removeResistance (c : Cell) : Cell := { c with s := c.s + c.r, r := 0 }

/-! ### mortality -/

/-- One iteration of the loop of `apply_mortality_at` at cohort `index` (value `m`). -/
def mortalityAtIndex (rate : Rat) (index : Nat) (c : Cell) : Except ErrKind Cell :=
  let m := c.mort[index]!
  if m > 0 then
    let k : Int := if index = 0 then m else rfloor (rate * m)
    let c1 := { c with mort := c.mort.set index (m - k), died := c.died + k }
    if k > c1.i then .error .runtime_error
    else if k > c1.th then .error .runtime_error
    else
      let c2 := if c1.i > 0 then { c1 with i := c1.i - k } else c1
      let c3 := if c2.th > 0 then { c2 with th := c2.th - k } else c2
      .ok c3
  else .ok c

/-- `HostPool::apply_mortality_at(row, col, rate, lag)`. -/
def Cell.applyMortality (c : Cell) (rate : Rat) (lag : Int) : Except ErrKind Cell :=
  if rate ≤ 0 then .ok c
  else
    let maxIndex : Int := (c.mort.length : Int) - lag - 1
    (List.range (maxIndex + 1).toNat).foldlM (fun c idx => mortalityAtIndex rate idx c) c

/-- `HostPool::step_forward_mortality` at one cell. -/
def Cell.stepForwardMortality (c : Cell) : Cell := { c with mort := rotateLeft c.mort }

/-! ### latency -/

/-- `HostPool::step_forward(step)` at one cell (the C++ does this with whole-raster operations). -/
def Cell.stepForward (mt : ModelType) (latency : Nat) (step : Nat) (c : Cell) : Cell :=
  match mt with
  | .si => c
  | .sei =>
    let c1 :=
      if step ≥ latency then
        match c.e with
        | [] => c
        | o :: rest => { c with i := c.i + o, mort := addLast c.mort o, te := c.te - o, e := 0 :: rest }
      else c
    { c1 with e := rotateLeft c1.e }

/-! ### host movement between two cells -/

/-- Class counts drawn by `move_hosts_from_to` (infected, susceptible, exposed, resistant). -/
structure ClassDraw where
  i : Int
  s : Int
  e : Int
  r : Int
deriving Repr, Inhabited, DecidableEq

def hostsMoved (src : Cell) (count : Int) : Int := if count > src.th then src.th else count

/-- What the class draw can be: within the four category counts, summing to
    `min moved (i + s + te + r)`. -/
def validClassDrawB (src : Cell) (count : Int) (d : ClassDraw) : Bool :=
  decide (0 ≤ d.i) && decide (d.i ≤ src.i) && decide (0 ≤ d.s) && decide (d.s ≤ src.s) &&
  decide (0 ≤ d.e) && decide (d.e ≤ src.te) && decide (0 ≤ d.r) && decide (d.r ≤ src.r) &&
  decide (d.i + d.s + d.e + d.r = min (hostsMoved src count) (src.i + src.s + src.te + src.r))

/-- `HostPool::move_hosts_from_to` for two different cells: returns (source, target, moved). -/
def moveHosts (src dst : Cell) (count : Int) (d : ClassDraw) (drawE drawM : List Int) :
    Cell × Cell × Int :=
  let moved := hostsMoved src count
  let eDelta := if d.e > 0 then drawE else src.e.map (fun _ => 0)
  let mDelta := if d.i > 0 then drawM else src.mort.map (fun _ => 0)
  let src' := { src with e := subL src.e eDelta, mort := subL src.mort mDelta, i := src.i - d.i,
                          s := src.s - d.s, th := src.th - moved, te := src.te - d.e, r := src.r - d.r }
  let dst' := { dst with e := addL dst.e eDelta, mort := addL dst.mort mDelta, i := dst.i + d.i,
                          s := dst.s + d.s, th := dst.th + moved, te := dst.te + d.e, r := dst.r + d.r }
  (src', dst', moved)

end Pops
