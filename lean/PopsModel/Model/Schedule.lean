/-
  Model of the schedule builders in include/pops/scheduling.hpp (after the F10 repair).
-/
import PopsModel.Model.Date
namespace Pops

/-- `Season::month_in_season`. -/
def monthInSeason (s e : Int) (m : Int) : Bool := decide (s ≤ m) && decide (m ≤ e)

def scheduleSpread (steps : List Step) (s e : Int) : List Bool :=
  steps.map fun st => monthInSeason s e st.s.m || monthInSeason s e st.e.m

/-- `schedule_action_yearly` (tests the date in the start year and in the end year). -/
def yearlyFires (mo da : Int) (st : Step) : Bool :=
  let t1 : Date := ⟨st.s.y, mo, da⟩
  let t2 : Date := ⟨st.e.y, mo, da⟩
  (t1.ge st.s && t1.le st.e) || (t2.ge st.s && t2.le st.e)

def scheduleYearly (steps : List Step) (mo da : Int) : List Bool := steps.map (yearlyFires mo da)

def endOfYearFires (st : Step) : Bool := (st.s.y != st.e.y) || st.e.isLastDayOfYear
def scheduleEndOfYear (steps : List Step) : List Bool := steps.map endOfYearFires

def scheduleEndOfSimulation (steps : List Step) : List Bool :=
  (List.range steps.length).map fun i => decide (i + 1 = steps.length)

/-- `schedule_action_nsteps(n)`; `n = 0` is a division by zero in the C++ (not in the domain). -/
def scheduleNSteps (steps : List Step) (n : Nat) : List Bool :=
  (List.range steps.length).map fun i => decide ((i + 1) % n = 0)

def monthlyFires (st : Step) : Bool :=
  (st.s.m != st.e.m) || (st.s.y != st.e.y) || st.e.isLastDayOfMonth
def scheduleMonthly (steps : List Step) : List Bool := steps.map monthlyFires

/-- `schedule_weather`. -/
def scheduleWeather (numSteps : Nat) (size : Nat) : Except ErrKind (List Nat) :=
  if size = 0 then .error .invalid_argument
  else .ok ((List.range numSteps).map fun i => i % size)

/-- `simulation_step_to_action_step`: number of `true` strictly before `step`;
    `indices.at(step)` throws `out_of_range` past the end. -/
def countTrue (l : List Bool) : Nat := (l.filter id).length

def simulationStepToActionStep (sched : List Bool) (step : Nat) : Except ErrKind Nat :=
  if step < sched.length then .ok (countTrue (sched.take step)) else .error .out_of_range

def numberOfScheduledActions (sched : List Bool) : Nat := countTrue sched

/-- `schedule_from_string`. -/
def scheduleFromString (sc : Scheduler) (freq : String) (n : Nat) : Except ErrKind (List Bool) :=
  if freq = "" then .ok (List.replicate sc.steps.length false)
  else if freq = "final_step" then .ok (scheduleEndOfSimulation sc.steps)
  else if freq = "year" ∨ freq = "yearly" then .ok (scheduleEndOfYear sc.steps)
  else if freq = "month" ∨ freq = "monthly" then .ok (scheduleMonthly sc.steps)
  else if freq = "week" ∨ freq = "weekly" then
    match sc.unit with
    | .day => if sc.n = 1 then .ok (scheduleNSteps sc.steps 7)
              else if sc.n = 7 then .ok (scheduleNSteps sc.steps 1)
              else .error .invalid_argument
    | .week => if sc.n = 1 then .ok (scheduleNSteps sc.steps 1) else .error .invalid_argument
    | .month => .error .invalid_argument
  else if freq = "day" ∨ freq = "daily" then
    if sc.unit = .day ∧ sc.n = 1 then .ok (scheduleNSteps sc.steps 1) else .error .invalid_argument
  else if freq = "every_n_steps" ∧ n > 0 then .ok (scheduleNSteps sc.steps n)
  else if freq = "every_step" ∨ freq = "time_step" then .ok (scheduleNSteps sc.steps 1)
  else .error .invalid_argument

/-- The calendar and frequency part of `Config`. -/
structure CalCfg where
  start : Date
  end_ : Date
  unit : StepUnit
  n : Nat
  seasonStart : Int
  seasonEnd : Int
  outFreq : String
  outN : Nat
  useMortality : Bool
  mortFreq : String
  mortN : Nat
  useLethal : Bool
  lethalMonth : Int
  useSurvival : Bool
  survMonth : Int
  survDay : Int
  useRates : Bool
  ratesFreq : String
  ratesN : Nat
  useQuarantine : Bool
  quarFreq : String
  quarN : Nat
  weatherSize : Nat
deriving Repr, Inhabited

/-- What `Config::create_schedules` produces (optional schedules only for enabled features). -/
structure Schedules where
  steps : List Step
  spread : List Bool
  output : List Bool
  mortality : Option (List Bool)
  lethal : Option (List Bool)
  survival : Option (List Bool)
  rates : Option (List Bool)
  quarantine : Option (List Bool)
  weather : Option (List Nat)
deriving Repr, Inhabited

def optSched (use : Bool) (x : Except ErrKind (List Bool)) : Except ErrKind (Option (List Bool)) :=
  if use then x.map some else .ok none

/-- `Config::create_schedules`: which builder every feature gets, in the code's order. -/
def createSchedules (c : CalCfg) : Except ErrKind Schedules := do
  let sc ← Scheduler.make c.start c.end_ c.unit c.n
  let spread := scheduleSpread sc.steps c.seasonStart c.seasonEnd
  let output ← scheduleFromString sc c.outFreq c.outN
  let mortality ← optSched c.useMortality (scheduleFromString sc c.mortFreq c.mortN)
  let lethal := if c.useLethal then some (scheduleYearly sc.steps c.lethalMonth 1) else none
  let survival := if c.useSurvival then some (scheduleYearly sc.steps c.survMonth c.survDay) else none
  let rates ← optSched c.useRates (scheduleFromString sc c.ratesFreq c.ratesN)
  let quarantine ← optSched c.useQuarantine (scheduleFromString sc c.quarFreq c.quarN)
  let weather ← if c.weatherSize ≠ 0 then (scheduleWeather sc.steps.length c.weatherSize).map some else .ok none
  pure { steps := sc.steps, spread, output, mortality, lethal, survival, rates, quarantine, weather }

end Pops
