/-
  Model of `read_key_value_pairs` and `Config::read_seeds(text, record_separator,
  key_value_separator)` (include/pops/config.hpp).

  The code splits the text with `std::getline(stream, line, record_separator)` and applies
  `regex_search` with `\s*([^= ]+)[\s]*=[\s]*([^ ]+)` (where `=` is replaced by the key-value
  separator) to every record; the value goes through `std::stoul` and is stored as `unsigned`.

  Domain of the model (the harness generates only such texts): the only white-space character in
  the text is the blank, the two separators are different, not blank, not digits or signs and not
  special in regular expressions. On that domain the leftmost match of the expression is: the
  first separator that has a word (maximal run of characters other than blank and separator)
  before it and a non-blank character after it, blanks around the separator ignored; the key is
  that whole word, the value the maximal run of non-blank characters.
-/
import PopsModel.Model.Stream
namespace Pops

/-- `std::getline(stream, line, sep)` until it fails: records end at `sep`; an empty final piece
    (text ending in `sep`, or empty text) is not a record, an empty piece elsewhere is. -/
def splitRecordsAux (sep : Char) : List Char → List Char → List (List Char)
  | [], acc => if acc.isEmpty then [] else [acc.reverse]
  | c :: cs, acc =>
    if c == sep then acc.reverse :: splitRecordsAux sep cs []
    else splitRecordsAux sep cs (c :: acc)

def splitRecords (sep : Char) (text : List Char) : List (List Char) := splitRecordsAux sep text []

/-- The word that ends (blanks skipped) where the reversed prefix `pre` starts. -/
def wordBefore (kv : Char) (pre : List Char) : List Char :=
  ((pre.dropWhile (· == ' ')).takeWhile (fun c => c != ' ' && c != kv)).reverse

/-- The run of non-blank characters that starts (blanks skipped) at `rest`. -/
def valueAfter (rest : List Char) : List Char :=
  (rest.dropWhile (· == ' ')).takeWhile (· != ' ')

/-- Leftmost match of the key-value expression in one record: `pre` is the reversed part already
    scanned. -/
def findKV (kv : Char) : List Char → List Char → Option (List Char × List Char)
  | _, [] => none
  | pre, c :: rest =>
    if c == kv then
      let w := wordBefore kv pre
      let v := valueAfter rest
      if !w.isEmpty && !v.isEmpty then some (w, v) else findKV kv (c :: pre) rest
    else findKV kv (c :: pre) rest

def isDigitC (c : Char) : Bool := decide ('0'.toNat ≤ c.toNat) && decide (c.toNat ≤ '9'.toNat)
def digitVal (c : Char) : Nat := c.toNat - 48

/-- Value of a digit string, most significant first. -/
def digitsValue (ds : List Char) : Nat := ds.foldl (fun a c => a * 10 + digitVal c) 0

/-- Does the number start with a minus sign? -/
def stoulNeg : List Char → Bool
  | '-' :: _ => true
  | _ => false

/-- The number without its optional sign. -/
def stoulBody : List Char → List Char
  | '-' :: r => r
  | '+' :: r => r
  | s => s

/-- `std::stoul(text)` (base 10, `unsigned long` of 64 bits): optional sign, the longest digit
    prefix; no digit: `std::invalid_argument`; magnitude above 2^64-1: `std::out_of_range`;
    a minus sign negates modulo 2^64. -/
def stoul (s : List Char) : Except ErrKind Nat :=
  let s := s.dropWhile (· == ' ')
  let ds := (stoulBody s).takeWhile isDigitC
  if ds.isEmpty then .error .invalid_argument
  else
    let v := digitsValue ds
    if v > 18446744073709551615 then .error .out_of_range
    else .ok (if stoulNeg s then (18446744073709551616 - v) % 18446744073709551616 else v)

/-- One record: the match, then the conversion to `unsigned`. -/
def parseRecord (kv : Char) (line : List Char) : Except ErrKind (String × Nat) :=
  match findKV kv [] line with
  | none => .error .invalid_argument
  | some (k, v) =>
    match stoul v with
    | .error e => .error e
    | .ok x => .ok (String.ofList k, u32 x)

/-- The record loop of `read_key_value_pairs`: `config[key] = value` per record, the first
    malformed record throws. -/
def readRecords (kv : Char) : List (List Char) → SeedMap → Except ErrKind SeedMap
  | [], m => .ok m
  | r :: rs, m =>
    match parseRecord kv r with
    | .error e => .error e
    | .ok (k, v) => readRecords kv rs (m.insert k v)

def readKeyValuePairs (sep kv : Char) (text : List Char) : Except ErrKind SeedMap :=
  readRecords kv (splitRecords sep text) []

/-- `Config::read_seeds(text, record_separator, key_value_separator)`: the parsed map replaces
    `random_seeds` (nothing is assigned when parsing throws); sets `multiple_random_seeds`. -/
def readSeedsText (c : SeedCfg) (sep kv : Char) (text : List Char) : Except ErrKind SeedCfg :=
  match readKeyValuePairs sep kv text with
  | .error e => .error e
  | .ok m => .ok { c with randomSeeds := m, multipleRandomSeeds := true }

/-! ### Rendering (for the round-trip theorem) -/

def digitChar (d : Nat) : Char := Char.ofNat (48 + d)

/-- Decimal digits of `n`, most significant first. -/
def digits10 (n : Nat) : List Char :=
  if n < 10 then [digitChar n] else digits10 (n / 10) ++ [digitChar (n % 10)]
termination_by n
decreasing_by omega

/-- `key<kv>value` records joined by `sep`. -/
def renderPairs (sep kv : Char) : List (List Char × Nat) → List Char
  | [] => []
  | [(k, v)] => k ++ kv :: digits10 v
  | (k, v) :: rest => k ++ kv :: digits10 v ++ sep :: renderPairs sep kv rest

end Pops
