/-
  L1 model of the landscape-level actions of include/pops/actions.hpp and of the step plan of
  Model::run_step (include/pops/model.hpp). Kernel results (`targets`) and uniform draws are
  explicit arguments.
-/
import PopsModel.Model.HostOps
import PopsModel.Model.Schedule
namespace Pops

structure Grid where
  rows : Int
  cols : Int
deriving Repr, Inhabited, DecidableEq

def Grid.isOutside (g : Grid) (r c : Int) : Bool :=
  decide (r < 0) || decide (r ≥ g.rows) || decide (c < 0) || decide (c ≥ g.cols)

def Grid.idx (g : Grid) (r c : Int) : Nat := (r * g.cols + c).toNat

/-- Pest pool rasters. -/
structure PestState where
  disp : List Int
  est : List Int
  outside : List (Int × Int)
deriving Repr, Inhabited, DecidableEq

/-- Soil share of `x` generated dispersers. -/
def soilShare (soilPct : Option Rat) (x : Int) : Int :=
  match soilPct with | some pct => lround (pct * x) | none => 0

/-- Loop of `SpreadAction::generate` over the suitable cells. -/
def generateGo (g : Grid) (soilPct : Option Rat) : List (Int × Int) → List Int → PestState → List Int → PestState × List Int
  | (r, c) :: rest, x :: xs, p, acc =>
    let k := g.idx r c
    if x > 0 then
      let toSoil := soilShare soilPct x
      generateGo g soilPct rest xs { p with disp := p.disp.set k (x - toSoil), est := p.est.set k 0 } (acc ++ [toSoil])
    else generateGo g soilPct rest xs { p with disp := p.disp.set k 0, est := p.est.set k 0 } (acc ++ [0])
  | _, _, p, acc => (p, acc)

/-- `SpreadAction::generate` with the generated counts `gen` (one per suitable cell, in order;
    for deterministic generation `gen` is `dispersersFromDet`). With soils, `lround (pct * g)`
    of each positive count go to the soil. Returns the pest rasters and the soil shares. -/
def generateStep (g : Grid) (suit : List (Int × Int)) (gen : List Int) (soilPct : Option Rat)
    (p : PestState) : PestState × List Int :=
  generateGo g soilPct suit gen p []

/-- Deterministic generation counts: `lround (i * reproductive_rate * weather)` per suitable cell. -/
def detGenerated (g : Grid) (suit : List (Int × Int)) (cells : List Cell) (rr : Rat) (w : Option (List Rat)) : List Int :=
  suit.map fun (r, c) =>
    let k := g.idx r c
    let lam := match w with | some ws => rr * ws[k]! | none => rr
    (cells[k]!).dispersersFromDet lam

structure DisperseEnv where
  mt : ModelType
  stochastic : Bool
  pEst : Rat
  npop : List Int            -- total population raster
  w : Option (List Rat)      -- weather coefficient raster

/-- A landing as `Model::run_step` performs it: through `MultiHostPool::disperser_to` over the
    single host with arrival behaviour "infect": the suitability is evaluated first (and may be
    rejected), a non-positive suitability returns without any draw, otherwise the host's own
    `disperser_to` runs. -/
def Cell.landViaWrapper (mt : ModelType) (c : Cell) (env : EnvCell) (stochastic : Bool) (pEst u : Rat) :
    Except ErrKind (Cell × Int × Nat) := do
  let p ← c.suitability env
  if p ≤ 0 then pure (c, 0, 0) else c.disperserTo mt env stochastic pEst u

/-- One disperser: kernel target, outside test, establishment. Returns the new state, whether it
    established, and the uniforms left. -/
def landOne (g : Grid) (env : DisperseEnv) (cells : List Cell) (p : PestState) (target : Int × Int)
    (us : List Rat) : Except ErrKind (List Cell × PestState × Bool × List Rat) :=
  let (tr, tc) := target
  if g.isOutside tr tc then .ok (cells, { p with outside := p.outside ++ [(tr, tc)] }, false, us)
  else
    let k := g.idx tr tc
    let cell := cells[k]!
    let ec : EnvCell := { n := env.npop[k]!, w := env.w.map (·[k]!), sus := none }
    let u := us.headD 0
    match cell.landViaWrapper env.mt ec env.stochastic env.pEst u with
    | .error e => .error e
    | .ok (c', res, used) => .ok (cells.set k c', p, res == 1, if used = 0 then us else us.drop 1)

/-- The dispersers of one origin cell: one kernel result each; the established counter of the
    origin is incremented per success. -/
def disperseCell (g : Grid) (env : DisperseEnv) (origin : Nat) : Nat → List Cell → PestState → List (Int × Int) → List Rat →
    Except ErrKind (List Cell × PestState × List (Int × Int) × List Rat)
  | 0, cells, p, ts, us => .ok (cells, p, ts, us)
  | n + 1, cells, p, ts, us =>
    match ts with
    | [] => .ok (cells, p, ts, us)
    | t :: ts' =>
      match landOne g env cells p t us with
      | .error e => .error e
      | .ok (cells', p', ok, us') =>
        let p'' := if ok then { p' with est := p'.est.set origin (p'.est[origin]! + 1) } else p'
        disperseCell g env origin n cells' p'' ts' us'

/-- Loop of `SpreadAction::disperse` over the suitable cells (without soils). -/
def disperseGo (g : Grid) (env : DisperseEnv) : List (Int × Int) → List Cell → PestState → List (Int × Int) → List Rat →
    Except ErrKind (List Cell × PestState × List (Int × Int) × List Rat)
  | [], cells, p, ts, us => .ok (cells, p, ts, us)
  | (r, c) :: rest, cells, p, ts, us =>
    let k := g.idx r c
    match disperseCell g env k (p.disp[k]!).toNat cells p ts us with
    | .error e => .error e
    | .ok (cells', p', ts', us') => disperseGo g env rest cells' p' ts' us'

/-- `SpreadAction::disperse` without soils: for each suitable cell in order, one kernel call per
    disperser of that cell. -/
def disperseStep (g : Grid) (env : DisperseEnv) (suit : List (Int × Int)) (cells : List Cell) (p : PestState)
    (targets : List (Int × Int)) (us : List Rat) :
    Except ErrKind (List Cell × PestState × List (Int × Int) × List Rat) :=
  disperseGo g env suit cells p targets us

/-- `SoilPool::next_step`: the cohorts age by one position and the youngest is cleared. -/
def soilNext (cohorts : List Int) : List Int :=
  match rotateLeft cohorts with
  | [] => []
  | r => r.dropLast ++ [0]

/-! ### Overpopulation -/

/-- `SoilPool::disperser_to`: one disperser is stored in the youngest cohort iff the tester
    (uniform draw, or 1 - fixed probability) is below the weather coefficient. -/
def soilDisperserTo (cohorts : List Int) (w : Rat) (stochastic : Bool) (pEst u : Rat) : List Int :=
  if (if stochastic then u else 1 - pEst) < w then addLast cohorts 1 else cohorts

/-- `SoilPool::dispersers_from` with deterministic release: `floor (weather * stored)`. -/
def soilReleaseDet (cohorts : List Int) (w : Rat) : Int := rfloor (w * sumL cohorts)

/-- The cohorts after releasing according to `draw` (the result of draw_n_from_cohorts). -/
def soilRelease (cohorts : List Int) (draw : List Int) : List Int := subL cohorts draw

/-- The overpopulation rule at one cell: at least two infected hosts and
    infected / (susceptible + infected) >= threshold. -/
def departs (threshold : Rat) (c : Cell) : Bool :=
  decide (c.i > 1) && decide ((c.i : Rat) / ((c.s + c.i : Int) : Rat) ≥ threshold)

/-- Number of pests leaving a departing cell: `lround (infected * leaving share)`. -/
def leavingCount (leaving : Rat) (c : Cell) : Int := lround ((c.i : Rat) * leaving)

/-- First phase of `MoveOverpopulatedPests::action`: departures, in suitable-cell order. Every
    departing cell takes the next kernel result; pests sent outside are recorded, the others are
    collected as pending moves. -/
def departGo (g : Grid) (threshold leaving : Rat) : List (Int × Int) → List Cell → PestState → List (Int × Int) →
    List (Int × Int × Int) → List Cell × PestState × List (Int × Int) × List (Int × Int × Int)
  | [], cells, p, ts, moves => (cells, p, ts, moves)
  | (r, c) :: rest, cells, p, ts, moves =>
    let k := g.idx r c
    let cell := cells[k]!
    if departs threshold cell then
      match ts with
      | [] => (cells, p, ts, moves)
      | (tr, tc) :: ts' =>
        let (cell', left) := cell.pestsFrom (leavingCount leaving cell)
        let cells' := cells.set k cell'
        if g.isOutside tr tc then
          departGo g threshold leaving rest cells' { p with outside := p.outside ++ List.replicate left.toNat (tr, tc) } ts' moves
        else departGo g threshold leaving rest cells' p ts' (moves ++ [(tr, tc, left)])
    else departGo g threshold leaving rest cells p ts moves

/-- Second phase: arrivals, in the order the moves were collected. -/
def arriveAll (g : Grid) (moves : List (Int × Int × Int)) (cells : List Cell) : List Cell :=
  moves.foldl (fun cs (m : Int × Int × Int) =>
    let k := g.idx m.1 m.2.1
    cs.set k ((cs[k]!).pestsTo m.2.2).1) cells

/-- `MoveOverpopulatedPests::action` (single host): all departures are decided before any
    arrival. `targets` holds one kernel result per departing cell. -/
def overpopulationStep (g : Grid) (suit : List (Int × Int)) (cells : List Cell) (p : PestState)
    (threshold leaving : Rat) (targets : List (Int × Int)) :
    List Cell × PestState × List (Int × Int) :=
  let r := departGo g threshold leaving suit cells p targets []
  (arriveAll g r.2.2.2 r.1, r.2.1, r.2.2.1)

/-! ### Host movement cursor -/

/-- Loop of `HostMovement::action`: from row `i`, rows are applied while their scheduled step
    equals `step`; returns the applied rows and the new cursor. -/
def movementGo (schedule : List Nat) (step : Nat) : Nat → Nat → List Nat → List Nat × Nat
  | 0, i, acc => (acc, i)
  | fuel + 1, i, acc =>
    if i < schedule.length then
      if schedule[i]! ≠ step then (acc, i) else movementGo schedule step fuel (i + 1) (acc ++ [i])
    else (acc, schedule.length)

/-- `HostMovement::action`: rows from `last` on are applied while their scheduled step equals
    `step`; returns the rows to apply and the new cursor. -/
def movementRows (schedule : List Nat) (last step : Nat) : List Nat × Nat :=
  movementGo schedule step (schedule.length + 1) last []

/-- The cursor threaded through the steps at which host movement is invoked (the spread steps
    of the run, in increasing order): rows applied at each of them. -/
def movementRunOn (schedule : List Nat) : List Nat → Nat → List (Nat × List Nat)
  | [], _ => []
  | step :: rest, last =>
    let r := movementRows schedule last step
    (step, r.1) :: movementRunOn schedule rest r.2

/-! ### Step plan (C09) -/

inductive ActionKind where
  | soilNext | lethal | survival | spread | stepForward | overpopulation | movement
  | treatments | mortality | spreadRate | quarantine
deriving DecidableEq, Repr, Inhabited

def ActionKind.name : ActionKind → String
  | .soilNext => "soil_next_step" | .lethal => "lethal_temperature" | .survival => "survival_rate"
  | .spread => "spread" | .stepForward => "step_forward" | .overpopulation => "overpopulation"
  | .movement => "movement" | .treatments => "treatments" | .mortality => "mortality"
  | .spreadRate => "spread_rate" | .quarantine => "quarantine"

/-- The documented order of a model step. -/
def documentedOrder : List ActionKind :=
  [.soilNext, .lethal, .survival, .spread, .stepForward, .overpopulation, .movement,
   .treatments, .mortality, .spreadRate, .quarantine]

structure StepCfg where
  soils : Bool
  useLethal : Bool
  lethalSched : List Bool
  useSurvival : Bool
  survivalSched : List Bool
  spreadSched : List Bool
  useOverpop : Bool
  useMovements : Bool
  useTreatments : Bool
  useMortality : Bool
  mortalitySched : List Bool
  useSpreadRates : Bool
  rateSched : List Bool
  useQuarantine : Bool
  quarantineSched : List Bool
deriving Repr, Inhabited

def schedAt (s : List Bool) (step : Nat) : Bool := s.getD step false

/-- Is the action enabled and scheduled at `step`? -/
def StepCfg.runs (cfg : StepCfg) (step : Nat) : ActionKind → Bool
  | .soilNext => cfg.soils
  | .lethal => cfg.useLethal && schedAt cfg.lethalSched step
  | .survival => cfg.useSurvival && schedAt cfg.survivalSched step
  | .spread => schedAt cfg.spreadSched step
  | .stepForward => schedAt cfg.spreadSched step
  | .overpopulation => schedAt cfg.spreadSched step && cfg.useOverpop
  | .movement => schedAt cfg.spreadSched step && cfg.useMovements
  | .treatments => cfg.useTreatments
  | .mortality => cfg.useMortality && schedAt cfg.mortalitySched step
  | .spreadRate => cfg.useSpreadRates && schedAt cfg.rateSched step
  | .quarantine => cfg.useQuarantine && schedAt cfg.quarantineSched step

/-- The input index an action uses at `step`: number of earlier firings of its schedule. -/
def StepCfg.inputIndex (cfg : StepCfg) (step : Nat) : ActionKind → Option Nat
  | .lethal => some (countTrue (cfg.lethalSched.take step))
  | .survival => some (countTrue (cfg.survivalSched.take step))
  | .spreadRate => some (countTrue (cfg.rateSched.take step))
  | .quarantine => some (countTrue (cfg.quarantineSched.take step))
  | _ => none

/-- What `Model::run_step(step)` executes, in order. -/
def plan (cfg : StepCfg) (step : Nat) : List (ActionKind × Option Nat) :=
  (documentedOrder.filter (cfg.runs step)).map fun a => (a, cfg.inputIndex step a)

end Pops
