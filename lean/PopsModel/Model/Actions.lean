/-
  L1 model of the landscape-level actions of include/pops/actions.hpp and of the step plan of
  Model::run_step (include/pops/model.hpp). Kernel results (`targets`) and uniform draws are
  explicit arguments.
-/
import PopsModel.Model.HostOps
import PopsModel.Model.Schedule
namespace Pops

structure Grid where
  rows : Int
  cols : Int
deriving Repr, Inhabited, DecidableEq

def Grid.isOutside (g : Grid) (r c : Int) : Bool :=
  decide (r < 0) || decide (r ≥ g.rows) || decide (c < 0) || decide (c ≥ g.cols)

def Grid.idx (g : Grid) (r c : Int) : Nat := (r * g.cols + c).toNat

/-- Pest pool rasters. -/
structure PestState where
  disp : List Int
  est : List Int
  outside : List (Int × Int)
deriving Repr, Inhabited, DecidableEq

/-- `SpreadAction::generate` with the generated counts `gen` (one per suitable cell, in order;
    for deterministic generation `gen` is `dispersersFromDet`). With soils, `lround (pct * g)`
    of each positive count go to the soil. Returns the pest rasters and the soil shares. -/
def generateStep (g : Grid) (suit : List (Int × Int)) (gen : List Int) (soilPct : Option Rat)
    (p : PestState) : PestState × List Int :=
  let rec go : List (Int × Int) → List Int → PestState → List Int → PestState × List Int
    | (r, c) :: rest, x :: xs, p, acc =>
      let k := g.idx r c
      if x > 0 then
        let toSoil := match soilPct with | some pct => lround (pct * x) | none => 0
        go rest xs { p with disp := p.disp.set k (x - toSoil), est := p.est.set k 0 } (acc ++ [toSoil])
      else go rest xs { p with disp := p.disp.set k 0, est := p.est.set k 0 } (acc ++ [0])
    | _, _, p, acc => (p, acc)
  go suit gen p []

/-- Deterministic generation counts: `lround (i * reproductive_rate * weather)` per suitable cell. -/
def detGenerated (g : Grid) (suit : List (Int × Int)) (cells : List Cell) (rr : Rat) (w : Option (List Rat)) : List Int :=
  suit.map fun (r, c) =>
    let k := g.idx r c
    let lam := match w with | some ws => rr * ws[k]! | none => rr
    (cells[k]!).dispersersFromDet lam

structure DisperseEnv where
  mt : ModelType
  stochastic : Bool
  pEst : Rat
  npop : List Int            -- total population raster
  w : Option (List Rat)      -- weather coefficient raster

/-- A landing as `Model::run_step` performs it: through `MultiHostPool::disperser_to` over the
    single host with arrival behaviour "infect": the suitability is evaluated first (and may be
    rejected), a non-positive suitability returns without any draw, otherwise the host's own
    `disperser_to` runs. -/
def Cell.landViaWrapper (mt : ModelType) (c : Cell) (env : EnvCell) (stochastic : Bool) (pEst u : Rat) :
    Except ErrKind (Cell × Int × Nat) := do
  let p ← c.suitability env
  if p ≤ 0 then pure (c, 0, 0) else c.disperserTo mt env stochastic pEst u

/-- One disperser: kernel target, outside test, establishment. Returns the new state, whether it
    established, and the uniforms left. -/
def landOne (g : Grid) (env : DisperseEnv) (cells : List Cell) (p : PestState) (target : Int × Int)
    (us : List Rat) : Except ErrKind (List Cell × PestState × Bool × List Rat) :=
  let (tr, tc) := target
  if g.isOutside tr tc then .ok (cells, { p with outside := p.outside ++ [(tr, tc)] }, false, us)
  else
    let k := g.idx tr tc
    let cell := cells[k]!
    let ec : EnvCell := { n := env.npop[k]!, w := env.w.map (·[k]!), sus := none }
    let u := us.headD 0
    match cell.landViaWrapper env.mt ec env.stochastic env.pEst u with
    | .error e => .error e
    | .ok (c', res, used) => .ok (cells.set k c', p, res == 1, if used = 0 then us else us.drop 1)

/-- `SpreadAction::disperse` without soils: for each suitable cell in order, one kernel call per
    disperser of that cell; the established counter of the origin is incremented per success. -/
def disperseStep (g : Grid) (env : DisperseEnv) (suit : List (Int × Int)) (cells : List Cell) (p : PestState)
    (targets : List (Int × Int)) (us : List Rat) :
    Except ErrKind (List Cell × PestState × List (Int × Int) × List Rat) :=
  let rec cellLoop (origin : Nat) : Nat → List Cell → PestState → List (Int × Int) → List Rat →
      Except ErrKind (List Cell × PestState × List (Int × Int) × List Rat)
    | 0, cells, p, ts, us => .ok (cells, p, ts, us)
    | n + 1, cells, p, ts, us =>
      match ts with
      | [] => .ok (cells, p, ts, us)
      | t :: ts' =>
        match landOne g env cells p t us with
        | .error e => .error e
        | .ok (cells', p', ok, us') =>
          let p'' := if ok then { p' with est := p'.est.set origin (p'.est[origin]! + 1) } else p'
          cellLoop origin n cells' p'' ts' us'
  let rec go : List (Int × Int) → List Cell → PestState → List (Int × Int) → List Rat →
      Except ErrKind (List Cell × PestState × List (Int × Int) × List Rat)
    | [], cells, p, ts, us => .ok (cells, p, ts, us)
    | (r, c) :: rest, cells, p, ts, us =>
      let k := g.idx r c
      let n := p.disp[k]!
      match cellLoop k n.toNat cells p ts us with
      | .error e => .error e
      | .ok (cells', p', ts', us') => go rest cells' p' ts' us'
  go suit cells p targets us

/-! ### Overpopulation -/

/-- `MoveOverpopulatedPests::action` (single host): departures are decided for every suitable cell
    from the running state (a source is only reduced by its own departure), arrivals are applied
    afterwards in source order. `targets` holds one kernel result per departing cell. -/
def overpopulationStep (g : Grid) (suit : List (Int × Int)) (cells : List Cell) (p : PestState)
    (threshold leaving : Rat) (targets : List (Int × Int)) :
    List Cell × PestState × List (Int × Int) :=
  let rec depart : List (Int × Int) → List Cell → PestState → List (Int × Int) → List (Int × Int × Int) →
      List Cell × PestState × List (Int × Int) × List (Int × Int × Int)
    | [], cells, p, ts, moves => (cells, p, ts, moves)
    | (r, c) :: rest, cells, p, ts, moves =>
      let k := g.idx r c
      let cell := cells[k]!
      let orig := cell.i
      if orig ≤ 1 then depart rest cells p ts moves
      else
        let ratio : Rat := (orig : Rat) / ((cell.s + cell.i : Int) : Rat)
        if ratio ≥ threshold then
          match ts with
          | [] => (cells, p, ts, moves)
          | (tr, tc) :: ts' =>
            let leavingCount := lround ((orig : Rat) * leaving)
            let (cell', left) := cell.pestsFrom leavingCount
            let cells' := cells.set k cell'
            if g.isOutside tr tc then
              depart rest cells' { p with outside := p.outside ++ List.replicate left.toNat (tr, tc) } ts' moves
            else depart rest cells' p ts' (moves ++ [(tr, tc, left)])
        else depart rest cells p ts moves
  let (cells1, p1, ts1, moves) := depart suit cells p targets []
  let cells2 := moves.foldl (fun cs (tr, tc, n) =>
    let k := g.idx tr tc
    cs.set k ((cs[k]!).pestsTo n).1) cells1
  (cells2, p1, ts1)

/-! ### Host movement cursor -/

/-- `HostMovement::action`: rows from `last` on are applied while their scheduled step equals
    `step`; returns the rows to apply and the new cursor. -/
def movementRows (schedule : List Nat) (last step : Nat) : List Nat × Nat :=
  let rec go (i : Nat) (fuel : Nat) (acc : List Nat) : List Nat × Nat :=
    match fuel with
    | 0 => (acc, i)
    | fuel + 1 =>
      if i < schedule.length then
        if schedule[i]! ≠ step then (acc, i) else go (i + 1) fuel (acc ++ [i])
      else (acc, schedule.length)
  go last (schedule.length + 1) []

/-! ### Step plan (C09) -/

inductive ActionKind where
  | soilNext | lethal | survival | spread | stepForward | overpopulation | movement
  | treatments | mortality | spreadRate | quarantine
deriving DecidableEq, Repr, Inhabited

def ActionKind.name : ActionKind → String
  | .soilNext => "soil_next_step" | .lethal => "lethal_temperature" | .survival => "survival_rate"
  | .spread => "spread" | .stepForward => "step_forward" | .overpopulation => "overpopulation"
  | .movement => "movement" | .treatments => "treatments" | .mortality => "mortality"
  | .spreadRate => "spread_rate" | .quarantine => "quarantine"

/-- The documented order of a model step. -/
def documentedOrder : List ActionKind :=
  [.soilNext, .lethal, .survival, .spread, .stepForward, .overpopulation, .movement,
   .treatments, .mortality, .spreadRate, .quarantine]

structure StepCfg where
  soils : Bool
  useLethal : Bool
  lethalSched : List Bool
  useSurvival : Bool
  survivalSched : List Bool
  spreadSched : List Bool
  useOverpop : Bool
  useMovements : Bool
  useTreatments : Bool
  useMortality : Bool
  mortalitySched : List Bool
  useSpreadRates : Bool
  rateSched : List Bool
  useQuarantine : Bool
  quarantineSched : List Bool
deriving Repr, Inhabited

def schedAt (s : List Bool) (step : Nat) : Bool := s.getD step false

/-- Is the action enabled and scheduled at `step`? -/
def StepCfg.runs (cfg : StepCfg) (step : Nat) : ActionKind → Bool
  | .soilNext => cfg.soils
  | .lethal => cfg.useLethal && schedAt cfg.lethalSched step
  | .survival => cfg.useSurvival && schedAt cfg.survivalSched step
  | .spread => schedAt cfg.spreadSched step
  | .stepForward => schedAt cfg.spreadSched step
  | .overpopulation => schedAt cfg.spreadSched step && cfg.useOverpop
  | .movement => schedAt cfg.spreadSched step && cfg.useMovements
  | .treatments => cfg.useTreatments
  | .mortality => cfg.useMortality && schedAt cfg.mortalitySched step
  | .spreadRate => cfg.useSpreadRates && schedAt cfg.rateSched step
  | .quarantine => cfg.useQuarantine && schedAt cfg.quarantineSched step

/-- The input index an action uses at `step`: number of earlier firings of its schedule. -/
def StepCfg.inputIndex (cfg : StepCfg) (step : Nat) : ActionKind → Option Nat
  | .lethal => some (countTrue (cfg.lethalSched.take step))
  | .survival => some (countTrue (cfg.survivalSched.take step))
  | .spreadRate => some (countTrue (cfg.rateSched.take step))
  | .quarantine => some (countTrue (cfg.quarantineSched.take step))
  | _ => none

/-- What `Model::run_step(step)` executes, in order. -/
def plan (cfg : StepCfg) (step : Nat) : List (ActionKind × Option Nat) :=
  (documentedOrder.filter (cfg.runs step)).map fun a => (a, cfg.inputIndex step a)

end Pops
