/-
  C15 model, part 2: `Network::load` - the text format of `include/pops/network.hpp`
  (`stream_has_columns`, `load_segments`, `node_id_from_text`, `probability_from_text`,
  `cost_from_text`, `xy_to_row_col(string, string)`), on `List Char` so that everything is
  structurally recursive and evaluates in the kernel.

  `std::getline(stream, s, delim)` repeated until it fails is `getlines delim`: the pieces between
  delimiters, without a final empty piece (getline fails at end of input).
  `std::stoi` / `std::stod` are modelled on the decimal grammar (optional blanks, sign, digits,
  fraction, exponent; the unparsed rest is ignored as `strtol`/`strtod` do). Hexadecimal, `inf` and
  `nan` spellings are outside the model (`Num.unmodelled`); the harness never writes them.
-/
import PopsModel.Model.Net
namespace Pops.Net

/-- Decidable equality of results (for evaluating concrete instances in the kernel). -/
instance instDecEqExcept {ε α : Type} [DecidableEq ε] [DecidableEq α] : DecidableEq (Except ε α) :=
  fun a b => match a, b with
    | .ok x, .ok y => if h : x = y then isTrue (by rw [h]) else isFalse (by intro h'; cases h'; exact h rfl)
    | .error x, .error y => if h : x = y then isTrue (by rw [h]) else isFalse (by intro h'; cases h'; exact h rfl)
    | .ok _, .error _ => isFalse (by intro h; cases h)
    | .error _, .ok _ => isFalse (by intro h; cases h)

/-! ### Splitting -/

/-- Pieces between occurrences of `c` (always at least one piece). -/
def splitOnChar (c : Char) : List Char → List (List Char)
  | [] => [[]]
  | x :: xs =>
    if x = c then [] :: splitOnChar c xs
    else match splitOnChar c xs with
      | h :: t => (x :: h) :: t
      | [] => [[x]]

/-- What a `while (std::getline(stream, piece, c))` loop sees. -/
def getlines (c : Char) (s : List Char) : List (List Char) :=
  let p := splitOnChar c s
  if p.getLast? = some [] then p.dropLast else p

/-! ### Numbers -/

def isSpace (c : Char) : Bool :=
  c = ' ' || c = '\t' || c = '\n' || c = '\r' || c.toNat = 11 || c.toNat = 12

def digitVal (c : Char) : Nat := c.toNat - '0'.toNat
def natOfDigits (ds : List Char) : Nat := ds.foldl (fun acc c => acc * 10 + digitVal c) 0

/-- Optional sign: `(negative, rest)`. -/
def takeSign : List Char → Bool × List Char
  | '-' :: r => (true, r)
  | '+' :: r => (false, r)
  | s => (false, s)

/-- `std::stoi(text)`: `invalid_argument` without digits, `out_of_range` beyond `int`. -/
def stoi (s : List Char) : Except ErrKind Int :=
  let (neg, r) := takeSign (s.dropWhile isSpace)
  let ds := r.takeWhile Char.isDigit
  if ds = [] then .error .invalid_argument
  else
    let m : Int := natOfDigits ds
    let v : Int := if neg then -m else m
    if v < -2147483648 ∨ 2147483647 < v then .error .out_of_range else .ok v

/-- Result of the `strtod` model. -/
inductive Num where
  | val (q : Rat)
  | noConversion
  | range
  | unmodelled
deriving DecidableEq, Repr

def startsWithCI (p : List Char) (s : List Char) : Bool :=
  p.length ≤ s.length && (s.take p.length).map Char.toLower == p

/-- The magnitude limits of `double` (overflow to `HUGE_VAL` / underflow set `ERANGE`, which
    `std::stod` turns into `out_of_range`). -/
def dblMax : Rat := (2 : Rat) ^ (1024 : Nat)
def dblMinInv : Rat := (2 : Rat) ^ (1022 : Nat)

def strtod (s : List Char) : Num :=
  let (neg, r) := takeSign (s.dropWhile isSpace)
  if startsWithCI ['i', 'n', 'f'] r || startsWithCI ['n', 'a', 'n'] r || startsWithCI ['0', 'x'] r then
    .unmodelled
  else
    let ip := r.takeWhile Char.isDigit
    let r1 := r.dropWhile Char.isDigit
    let (fp, r2) := match r1 with
      | '.' :: t => (t.takeWhile Char.isDigit, t.dropWhile Char.isDigit)
      | _ => ([], r1)
    if ip = [] ∧ fp = [] then .noConversion
    else
      let mant : Rat := (natOfDigits (ip ++ fp) : Rat) / ((10 : Rat) ^ fp.length)
      let ex : Int := match r2 with
        | e :: t =>
          if e = 'e' ∨ e = 'E' then
            let (eneg, t') := takeSign t
            let ed := t'.takeWhile Char.isDigit
            if ed = [] then 0 else (if eneg then -(natOfDigits ed : Int) else (natOfDigits ed : Int))
          else 0
        | [] => 0
      let mag : Rat :=
        if ex < 0 then mant / ((10 : Rat) ^ (-ex).toNat) else mant * ((10 : Rat) ^ ex.toNat)
      if mag ≥ dblMax then .range
      else if mag ≠ 0 ∧ mag * dblMinInv < 1 then .range
      else .val (if neg then -mag else mag)

/-- `std::stod(text)`; an unmodelled spelling is reported as `logic_error` so that the driver
    can never silently agree on it. -/
def stod (s : List Char) : Except ErrKind Rat :=
  match strtod s with
  | .val q => .ok q
  | .noConversion => .error .invalid_argument
  | .range => .error .out_of_range
  | .unmodelled => .error .logic_error

/-- `node_id_from_text`: same exception classes as `stoi` (only the messages differ). -/
def nodeIdFromText (s : List Char) : Except ErrKind Int := stoi s

/-- `probability_from_text`: `stod`, then negative values are `invalid_argument`. -/
def probabilityFromText (s : List Char) : Except ErrKind Rat := do
  let v ← stod s
  if v < 0 then .error .invalid_argument else .ok v

/-- `cost_from_text`. -/
def costFromText (s : List Char) : Except ErrKind Rat := stod s

/-- `xy_to_row_col(string, string)`: both conversion failures keep their class. (If both texts are
    malformed with different classes the C++ result depends on argument evaluation order; the
    harness never does that. The model converts `x` first.) -/
def xyFromText (x y : List Char) : Except ErrKind (Rat × Rat) := do
  let xv ← stod x
  let yv ← stod y
  .ok (xv, yv)

/-! ### Header -/

structure Header where
  isHeader : Bool
  hasCost : Bool
  hasProb : Bool
deriving DecidableEq, Repr

/-- The label loop of `stream_has_columns` (`col` = `column_number` after the increment). -/
def headerLoop : Nat → Bool → Bool → List (List Char) → Except ErrKind Header
  | _, hc, hp, [] => .ok ⟨true, hc, hp⟩
  | col, hc, hp, l :: rest =>
    if col = 1 ∧ l ≠ "node_1".toList then .ok ⟨false, hc, hp⟩
    else if l = "probability".toList then
      if hc then .error .runtime_error
      else if col ≠ 3 then .error .runtime_error
      else headerLoop (col + 1) hc true rest
    else if l = "cost".toList then
      if ¬ (col = 3 ∨ col = 4) then .error .runtime_error
      else headerLoop (col + 1) true hp rest
    else headerLoop (col + 1) hc hp rest

/-- `stream_has_columns` on the first line. `isHeader = false` means the stream was rewound. -/
def headerColumns (line : List Char) : Except ErrKind Header :=
  headerLoop 1 false false (getlines ',' line)

/-! ### One record -/

/-- A parsed input line before clipping. -/
structure Rec where
  key : Key
  seg : Segment
  first : Rat × Rat     -- coordinates of the first point (node 1)
  last : Rat × Rat      -- coordinates of the last point (node 2)
deriving DecidableEq, Repr

/-- The coordinate loop, reading part: pairs of `;`-separated texts while two can be read (a
    dangling last text is ignored); stops at the first text that does not convert. -/
def parsePoints : List (List Char) → Except ErrKind (List (Rat × Rat))
  | x :: y :: rest => do
    let p ← xyFromText x y
    let ps ← parsePoints rest
    .ok (p :: ps)
  | _ => .ok []

/-- The coordinate loop, storing part: `if (segment.empty() || segment.back() != new_point)
    segment.emplace_back(new_point)` - consecutive points falling into one cell are stored once. -/
def mergeCells : List Cell → List Cell
  | [] => []
  | [c] => [c]
  | a :: b :: rest => if a = b then mergeCells (b :: rest) else a :: mergeCells (b :: rest)

/-- Second half of the line loop body: the cells of the segment from the points read, the two
    `runtime_error`s about missing coordinates, completion of a one-cell segment. -/
def buildRec (g : Grid) (id1 id2 : Int) (prob total cpc : Rat) (pts : List (Rat × Rat)) :
    Except ErrKind Rec :=
  let cells := mergeCells (pts.map fun p => g.xyToRowCol p.1 p.2)
  if cells = [] then .error .runtime_error
  else if pts.length < 2 then .error .runtime_error
  else
    let cells := if cells.length = 1 then cells ++ cells else cells
    .ok ⟨(id1, id2), ⟨cells, cpc, total, prob⟩, pts.headD (0, 0), pts.getLastD (0, 0)⟩

/-- `if (has_probability) { ... probability_from_text ... }` (0 = the member's default). -/
def optProbability (hasProb : Bool) (t : List Char) : Except ErrKind Rat :=
  if hasProb then probabilityFromText t else .ok 0

/-- `if (has_cost) { ... cost_from_text ... }` (0 = `total_cost_` not set). -/
def optCost (hasCost : Bool) (t : List Char) : Except ErrKind Rat :=
  if hasCost then costFromText t else .ok 0

/-- Body of the line loop of `load_segments` up to (not including) the clipping test. -/
def parseRecord (g : Grid) (hasCost hasProb : Bool) (line : List Char) : Except ErrKind Rec := do
  let f := getlines ',' line
  let id1 ← nodeIdFromText (f.getD 0 [])
  let id2 ← nodeIdFromText (f.getD 1 [])
  if id1 < 1 ∨ id2 < 1 then .error .runtime_error
  else
    let prob ← optProbability hasProb (f.getD 2 [])
    let i := if hasProb then 3 else 2
    let total ← optCost hasCost (f.getD i [])
    let cpc : Rat := if hasCost then 0 else g.distancePerCell
    let j := if hasCost then i + 1 else i
    let pts ← parsePoints (getlines ';' (f.getD j []))
    buildRec g id1 id2 prob total cpc pts

/-- The clipping test: `cell_out_of_bbox(front) || cell_out_of_bbox(back)` skips the record. -/
def Rec.kept (g : Grid) (r : Rec) : Bool := !(g.cellOut r.seg.front || g.cellOut r.seg.back)

/-! ### Whole input -/

/-- The data lines: parse each, stop at the first malformed one. -/
def parseRecords (g : Grid) (hasCost hasProb : Bool) : List (List Char) → Except ErrKind (List Rec)
  | [] => .ok []
  | l :: rest => do
    let r ← parseRecord g hasCost hasProb l
    let rs ← parseRecords g hasCost hasProb rest
    .ok (r :: rs)

/-- Store the kept records in file order (`emplace`: first record of a key wins). -/
def storeRecords (g : Grid) (rs : List Rec) : List (Key × Segment) :=
  rs.foldl (fun acc r => if r.kept g then insertSeg r.key r.seg acc else acc) []

/-- Header line and data lines of an input. -/
def splitHeader (lines : List (List Char)) : Except ErrKind (Header × List (List Char)) :=
  match lines with
  | [] => .ok (⟨false, false, false⟩, [])
  | first :: rest => do
    let h ← headerColumns first
    .ok (h, if h.isHeader then rest else lines)

/-- `load_segments`. -/
def loadSegments (g : Grid) (text : List Char) : Except ErrKind Net := do
  let (h, data) ← splitHeader (getlines '\n' text)
  let rs ← parseRecords g h.hasCost h.hasProb data
  .ok { grid := g, hasProb := h.hasProb, segs := storeRecords g rs }

/-- `load(stream, allow_empty)`. -/
def load (g : Grid) (text : List Char) (allowEmpty : Bool := false) : Except ErrKind Net := do
  let net ← loadSegments g text
  if net.segs.isEmpty ∧ ¬ allowEmpty then .error .runtime_error else .ok net

end Pops.Net
