/-
  Core helpers shared by all model files (core Lean only, no Mathlib).
  * `ErrKind`: the four standard exception classes the library documents.
  * `Rat` rounding: `rceil`, `rfloor`, `lround` (half away from zero, as C `lround`).
-/
namespace Pops

/-- The exception classes the correspondence distinguishes (messages are never compared). -/
inductive ErrKind where
  | invalid_argument
  | logic_error
  | runtime_error
  | out_of_range
deriving DecidableEq, Repr, Inhabited

def ErrKind.name : ErrKind → String
  | .invalid_argument => "invalid_argument"
  | .logic_error => "logic_error"
  | .runtime_error => "runtime_error"
  | .out_of_range => "out_of_range"

/-- `std::ceil` on an exact rational. -/
def rceil (q : Rat) : Int := q.ceil
/-- `std::floor` on an exact rational. -/
def rfloor (q : Rat) : Int := q.floor
/-- `std::lround` / `std::round`: nearest integer, halves away from zero. -/
def lround (q : Rat) : Int :=
  if 0 ≤ q then (q + 1/2).floor else -((-q + 1/2).floor)

/-- `f` applied `n` times. -/
def iter {α : Type} (f : α → α) : Nat → α → α
  | 0, a => a
  | n+1, a => iter f n (f a)

theorem iter_succ_outer {α : Type} (f : α → α) (n : Nat) (a : α) :
    iter f (n+1) a = f (iter f n a) := by
  induction n generalizing a with
  | zero => rfl
  | succ k ih => simp only [iter] at *; exact ih (f a)

def sumL (l : List Int) : Int := l.foldl (· + ·) 0

theorem foldl_add_init (l : List Int) (a : Int) : l.foldl (· + ·) a = a + l.foldl (· + ·) 0 := by
  induction l generalizing a with
  | nil => simp
  | cons x xs ih => simp only [List.foldl_cons]; rw [ih (a + x), ih (0 + x)]; omega

@[simp] theorem sumL_nil : sumL [] = 0 := rfl
@[simp] theorem sumL_cons (x : Int) (xs : List Int) : sumL (x :: xs) = x + sumL xs := by
  unfold sumL; simp only [List.foldl_cons]; rw [foldl_add_init]; omega
@[simp] theorem sumL_append (a b : List Int) : sumL (a ++ b) = sumL a + sumL b := by
  induction a with
  | nil => simp
  | cons x xs ih => simp [ih]; omega

end Pops
