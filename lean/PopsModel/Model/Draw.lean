/-
  L1 model of the pops draw helpers in include/pops/utils.hpp and of the label vectors their
  callers build:

    draw_n_from_v(std::vector<int> v, unsigned n, gen)
        if (n > v.size()) n = v.size();  std::shuffle(v);  v.erase(v.begin() + n, v.end());  return v;
    draw_n_from_cohorts(cohorts, int n, row, col, gen)
        categories := for each cohort `index` : `raster(row, col)` copies of `index`
        draw := draw_n_from_v(categories, n, gen)          -- `int n` converted to `unsigned`
        return [ std::count(draw, index) | index < cohorts.size() ]
    HostPool::move_hosts_from_to      categories := i x 1 ++ s x 2 ++ total_exposed x 3 ++ r x 4
                                      draw := draw_n_from_v(categories, total_hosts_moved, gen)
                                      counts of 1, 2, 3, 4
    MultiHostPool::pests_from / pests_to   vector := infected (susceptible) of host h copies of h
                                      draw := draw_n_from_v(vector, count, gen); count of h per host

  The ONLY trusted component is `std::shuffle`: it is taken to leave a permutation of its input,
  and that permutation is an ARGUMENT (`perm`, with hypothesis `perm.Perm v` in the lemmas). All
  the rest (clamping, the unsigned conversion of the request, truncation, counting labels) is
  pops code and is modelled here.

  Negative cohort contents: `categories.insert(end, raster(row, col), index)` resolves to
  `vector::insert(const_iterator, size_type count, const int& value)`; a negative `int` becomes a
  `size_type` of at least 2^64 - 2^31 > max_size(), so libstdc++ throws `std::length_error`
  ("vector::_M_fill_insert") - likewise `std::vector<int> categories(total_infecteds, 1)` in
  `move_hosts_from_to` ("cannot create std::vector larger than max_size()"). The model
  (`Int.toNat`) inserts nothing for a negative content; the lemmas keep negative contents out by
  hypothesis.
-/
import PopsModel.Model.Host
import PopsModel.Model.Multi
namespace Pops

/-- The label vector built by the loop of `draw_n_from_cohorts` / `pests_from` / `pests_to`:
    `contents[0]` copies of `start`, then `contents[1]` copies of `start + 1`, ... -/
def labelsFrom (start : Nat) : List Int → List Nat
  | [] => []
  | c :: rest => List.replicate c.toNat start ++ labelsFrom (start + 1) rest

/-- One label per individual, the label being the cohort (host) index. -/
def cohortLabels (cohorts : List Int) : List Nat := labelsFrom 0 cohorts

/-- `draw_n_from_v(v, n, generator)`: `perm` is what `std::shuffle` left in `v`; the request is
    converted to `unsigned` (`toUnsigned`), clamped to the size, and the tail is erased. -/
def drawNFromV (v : List Nat) (n : Int) (perm : List Nat) : List Nat :=
  perm.take (min (toUnsigned n).toNat v.length)

/-- `std::count(draw.begin(), draw.end(), index)` for `index = start, start + 1, ...`, one per
    entry of `contents`. -/
def countLabels (start : Nat) (contents : List Int) (draw : List Nat) : List Int :=
  (List.range contents.length).map (fun k => ((draw.count (start + k) : Nat) : Int))

/-- `draw_n_from_cohorts(cohorts, n, row, col, generator)` at one cell. -/
def drawNFromCohorts (cohorts : List Int) (n : Int) (perm : List Nat) : List Int :=
  countLabels 0 cohorts (drawNFromV (cohortLabels cohorts) n perm)

/-- The category vector of `HostPool::move_hosts_from_to`. -/
def classCategories (src : Cell) : List Nat :=
  List.replicate src.i.toNat 1 ++ List.replicate src.s.toNat 2 ++
    List.replicate src.te.toNat 3 ++ List.replicate src.r.toNat 4

/-- The class draw of `HostPool::move_hosts_from_to`: `draw_n_from_v(categories,
    total_hosts_moved)` and the four `std::count`s. -/
def classDrawOf (src : Cell) (count : Int) (perm : List Nat) : ClassDraw :=
  let draw := drawNFromV (classCategories src) (hostsMoved src count) perm
  { i := (draw.count 1 : Nat), s := (draw.count 2 : Nat), e := (draw.count 3 : Nat), r := (draw.count 4 : Nat) }

/-- The per-host counts of `MultiHostPool::pests_from` (`avail` = infected of each host) and
    `pests_to` (`avail` = susceptible of each host). -/
def splitOf (avail : List Int) (count : Int) (perm : List Nat) : List Int :=
  countLabels 0 avail (drawNFromV (cohortLabels avail) count perm)

/-- `move_hosts_from_to` with its three draws made explicit: the class draw, then (only when
    exposed hosts move) the exposed-cohort draw, then (only when infected hosts move) the
    mortality-cohort draw - in this order, each with its own shuffle. -/
def moveHostsDrawn (src dst : Cell) (count : Int) (permC permE permM : List Nat) : Cell × Cell × Int :=
  let d := classDrawOf src count permC
  moveHosts src dst count d (drawNFromCohorts src.e d.e permE) (drawNFromCohorts src.mort d.i permM)

end Pops
