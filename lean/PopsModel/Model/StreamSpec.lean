/-
  What the property C06 ALLOWS a configuration to depend on, next to what the code uses.

  `usesRun c` (Model/StreamUses.lean) is the model of the code: the streams a run with the
  features `c` may draw from. `specUses c` is the reading of the sentence "results do not depend
  on the seed of a process that is disabled or made deterministic": the stream of a process is
  allowed to matter only when the process takes part in the run and the flag that makes it
  deterministic (if it has one) is not switched to deterministic.

  Flags (config.hpp:152-156, "Reduced stochasticity"): `generate_stochasticity` (disperser
  generation), `establishment_stochasticity` (establishment), `movement_stochasticity`
  (movement), `dispersal_stochasticity` (natural and anthropogenic dispersal). Weather, lethal
  temperature, survival rate, overpopulation and soil have no such flag: they can only be left
  out of the run.

  Where the two sets differ the code violates the sentence; these are open findings:
    F28  establishment: deterministic, two or more hosts - the receiving host is still drawn
    F29  movement: `movement_stochasticity = false` is read nowhere
    F32  anthropogenic dispersal: deterministic dispersal with the anthropogenic kernel on - the
         natural-or-anthropogenic choice per disperser is still drawn
-/
import PopsModel.Model.StreamUses
namespace Pops

/-- Has a kernel of this kind a deterministic form that `dispersal_stochasticity = false` selects?
    Only the radial types (served by `DeterministicDispersalKernel`). The uniform and network
    kernels are random by definition of the type the user chose, and the factories select by type
    before they look at the flag (natural_kernel.hpp:46-57, anthropogenic_kernel.hpp): for them the
    flag is no claim of determinism. The neighbour kernel never draws. -/
def KernelKind.randomByType : KernelKind → Bool
  | .uniform => true
  | .network => true
  | .radial => false
  | .detNeighbor => false

/-- A client-supplied kernel factory: the accessors its kernel declares. What a client kernel draws
    from is the client's business, not a process of the library that a flag could make
    deterministic. -/
def clientDeclares (c : UseCfg) (n : StreamName) : Bool :=
  match c.injectedKernel with
  | some l => l.contains n
  | none => false

/-- Does the process that owns stream `n` take part in a run with the features `c` without its
    flag saying deterministic? -/
def processStochastic (c : UseCfg) : StreamName → Bool
  | .disperserGeneration => c.generateStochastic
  -- the library kernels exist only without a client factory
  | .naturalDispersal => c.injectedKernel.isNone && kernelDraws c.naturalKernel c.dispersalStochastic
  | .anthropogenicDispersal =>
    c.injectedKernel.isNone && c.useAnthro && (c.dispersalStochastic || c.anthroKernel.randomByType)
  | .establishment => c.establishmentStochastic
  | .weather => c.weatherFromDistribution
  | .lethalTemperature => c.useLethal
  | .movement => c.useMovements && c.movementStochastic
  | .overpopulation => c.useOverpopulation
  | .survivalRate => c.useSurvival
  -- no flag names the soil process: it is on (`Model::activate_soils`) or off
  | .soil => c.soils

/-- May the results of a run with the features `c` depend on the seed of stream `n`, by the
    sentence of the property? -/
def specAllows (c : UseCfg) (n : StreamName) : Bool := clientDeclares c n || processStochastic c n

/-- The streams the property allows a run to depend on. -/
def specUses (c : UseCfg) : List StreamName := StreamName.all.filter (specAllows c)

/-! ### Regions of the open findings

Each is the negation of one extra hypothesis of `C06_deterministic_mode_partial`. -/

/-- F28: establishment made deterministic, two or more hosts. -/
def f28Region (c : UseCfg) : Bool := !c.establishmentStochastic && decide (2 ≤ c.hosts)

/-- F29: host movements take part, `movement_stochasticity = false`. -/
def f29Region (c : UseCfg) : Bool := c.useMovements && !c.movementStochastic

/-- F32: library kernel with the anthropogenic kernel on, dispersal made deterministic, and an
    anthropogenic kernel type that has a deterministic form. -/
def f32Region (c : UseCfg) : Bool :=
  c.injectedKernel.isNone && c.useAnthro && !c.dispersalStochastic && !c.anthroKernel.randomByType

/-- The open finding, if any, that explains why the code uses stream `n` although the property
    does not allow the run to depend on it. -/
def knownRegion (c : UseCfg) : StreamName → Option String
  | .establishment => if f28Region c then some "F28" else none
  | .movement => if f29Region c then some "F29" else none
  | .anthropogenicDispersal => if f32Region c then some "F32" else none
  | _ => none

/-! ### The processes of the model

The code-shaped skeletons of Model/StreamUses.lean, with arbitrary non-random logic, as the
computations the sentence of the property quantifies over. -/

/-- `ModelProcess c P α a`: `a` is a computation of process `P` of the model under the features
    `c` - one of the skeletons (loops, flags and draw sites of the code), its non-random parts
    arbitrary. The library kernel and one landing are listed on their own (they are the bodies of
    the loops of `disperse`); `disperse` takes the library kernel or a client kernel that stays
    within the accessors it declares. -/
inductive ModelProcess {σ : Type} (c : UseCfg) : Proc → (α : Type) → Act σ α → Prop where
  | weather {W : Type} (cells : List (Int × Int)) (normal : Int × Int → Dist σ) (store : W → Int × Int → Nat → W) (w : W) :
      ModelProcess c .weather W (weatherAct cells normal store w)
  | lethal {W : Type} (suitable : W → List (Int × Int)) (below : W → Int × Int → Bool) (hosts : List Nat)
      (count : Int × Int → Nat → W → Nat) (shuffle : Int × Int → Nat → W → Dist σ)
      (apply : Int × Int → Nat → W → Option Nat → W) (w : W) :
      ModelProcess c .lethal W (lethalAct suitable below hosts count shuffle apply w)
  | survival {W : Type} (suitable : W → List (Int × Int)) (partial_ : W → Int × Int → Bool) (hosts : List Nat)
      (countI countE : Int × Int → Nat → W → Nat) (shuffleI shuffleE : Int × Int → Nat → W → Dist σ)
      (applyI applyE : Int × Int → Nat → W → Option Nat → W) (w : W) :
      ModelProcess c .survival W (survivalAct suitable partial_ hosts countI countE shuffleI shuffleE applyI applyE w)
  | generate {W : Type} (suitable : W → List (Int × Int)) (infected : W → Int × Int → Nat)
      (poisson : W → Int × Int → Dist σ) (generated : W → Int × Int → List Nat → Int)
      (toSoil : W → Int × Int → Int → Nat) (uniform : Dist σ)
      (store : W → Int × Int → Int → List Nat → W) (w : W) :
      ModelProcess c .generate W (generateAct c suitable infected poisson generated toSoil uniform store w)
  | kernel (hinj : c.injectedKernel = none) (eligible : Bool) (coin natural anthro : Dist σ)
      (pureNatural pureAnthro : Nat) :
      ModelProcess c .disperse Nat (libraryKernelAct c eligible coin natural anthro pureNatural pureAnthro)
  | land {W : Type} (positive hasSusceptible : W → Nat → Bool) (pick uniform : Dist σ)
      (apply : W → Nat → Nat → Option Nat → W) (target : Nat) (w : W) :
      ModelProcess c .disperse W (landAct c positive hasSusceptible pick uniform apply target w)
  | disperse {W : Type} (kernel : W → Int × Int → Act σ Nat)
      (hk : ∀ w cell, (kernel w cell).Within (kernelUses c))
      (suitable : W → List (Int × Int)) (dispersers : W → Int × Int → Nat) (inside : W → Nat → Bool)
      (outside : W → Nat → W) (positive hasSusceptible : W → Nat → Bool) (pick uniform : Dist σ)
      (apply : W → Nat → Nat → Option Nat → W)
      (soilCount : W → Int × Int → Nat) (poisson shuffle : W → Int × Int → Dist σ)
      (released : W → Int × Int → List Nat → Nat → Nat) (afterRelease : W → Int × Int → List Nat → Nat → W)
      (cellIndex : Int × Int → Nat) (w : W) :
      ModelProcess c .disperse W
        (disperseAct c kernel suitable dispersers inside outside
          (landAct c positive hasSusceptible pick uniform apply) soilCount poisson shuffle released
          afterRelease cellIndex w)
  | spread {W : Type} (gen disp : W → Act σ W) (hg : ∀ w, ModelProcess c .generate W (gen w))
      (hd : ∀ w, ModelProcess c .disperse W (disp w)) (w : W) :
      ModelProcess c .spread W ((gen w).bind disp)
  | overpopulation {W : Type} (suitable : W → List (Int × Int)) (over : W → Int × Int → Bool)
      (kernel shuffleFrom : W → Int × Int → Dist σ) (leave : W → Int × Int → Nat → Nat → W)
      (moves : W → List Nat) (shuffleTo : W → Nat → Dist σ) (arrive : W → Nat → Nat → W) (w : W) :
      ModelProcess c .overpopulation W (overpopulationAct suitable over kernel shuffleFrom leave moves shuffleTo arrive w)
  | movement {W : Type} (rows : W → List Nat) (shuffle shuffleE shuffleM : W → Nat → Dist σ)
      (exposedMoved infectedMoved : W → Nat → Nat → Nat)
      (apply : W → Nat → Nat → Option Nat → Option Nat → W) (w : W) :
      ModelProcess c .movement W (movementAct rows shuffle shuffleE shuffleM exposedMoved infectedMoved apply w)

/-- With named seeds `f`, replacing the seed of stream `n` by any `v` does not change the result
    of `a` (for a process: the world state it returns). -/
def SeedIrrelevant {σ α : Type} (E : Engine σ) (a : Act σ α) (n : StreamName) : Prop :=
  ∀ (f : StreamName → Nat) (v : Nat),
    (a.run (.multi (Streams.ofFn fun m => E.seed (f m)))).1 =
    (a.run (.multi (Streams.ofFn fun m => E.seed (if m = n then v else f m)))).1

end Pops
