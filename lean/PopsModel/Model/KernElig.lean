/-
  C13 model, part 3 (core Lean only): `is_cell_eligible(row, col)` and `supports_kernel(type)` of
  every kernel class, the documented spelling tables as predicates, and the network-kernel wiring
  of `create_anthro_kernel` (C15).

  * `KernelClass`        the kernel classes (and two instantiations of the natural/anthropogenic mix)
  * `classSupports`      `K::supports_kernel(type)` as coded, class by class
  * `ServesType`         specification: the class's call operator serves that kernel type
  * `classEligible`      `K::is_cell_eligible(row, col)` as coded; `hasNode` = the network has a node
                         in that cell (the only thing any class looks at)
  * `KernelDesc.cls`, `SwitchTarget.cls`
  * `builtMustSupport`   for which named types the kernel a factory builds must support its name
  * `DocumentedKernelName`, `DocumentedDirectionName`   membership in the documented tables
  * `NetworkWiring`, `networkWiringOf`   the flags / distances of a network kernel against the configuration
-/
import PopsModel.Model.Kern
namespace Pops

inductive KernelClass where
  | uniform | neighbor | network | radial | deterministic | switch
  /-- `NaturalAnthropogenicDispersalKernel<RadialDispersalKernel, NetworkDispersalKernel>` -/
  | mixRadialNetwork
  /-- `NaturalAnthropogenicDispersalKernel<RadialDispersalKernel, RadialDispersalKernel>` -/
  | mixRadialRadial
deriving DecidableEq, Repr, Inhabited

namespace KernelClass

def all : List KernelClass :=
  [uniform, neighbor, network, radial, deterministic, switch, mixRadialNetwork, mixRadialRadial]

def name : KernelClass → String
  | uniform => "uniform" | neighbor => "neighbor" | network => "network" | radial => "radial"
  | deterministic => "deterministic" | switch => "switch" | mixRadialNetwork => "mix-radial-network"
  | mixRadialRadial => "mix-radial-radial"

def ofName? (s : String) : Option KernelClass := all.find? (·.name == s)

end KernelClass

/-- `K::supports_kernel(type)`:
    uniform_kernel.hpp `type == Uniform`; neighbor_kernel.hpp `type == DeterministicNeighbor`;
    network_kernel.hpp `type == Network`; radial_kernel.hpp / deterministic_kernel.hpp membership in
    the array of the ten laws; switch_kernel.hpp uniform, neighbour, else the radial answer (so NOT
    `Network`, although `operator()` dispatches it); natural_anthropogenic_kernel.hpp the natural
    class's answer when both classes are the same, else the disjunction. -/
def classSupports : KernelClass → DispersalKernelType → Bool
  | .uniform, t => t == .uniform
  | .neighbor, t => t == .deterministicNeighbor
  | .network, t => t == .network
  | .radial, t => radialSupports t
  | .deterministic, t => radialSupports t
  | .switch, t => switchSupports t
  | .mixRadialNetwork, t => radialSupports t || t == .network
  | .mixRadialRadial, t => radialSupports t

/-- Specification for the five concrete kernel classes: the call operator of the class serves
    kernel type `t` - the uniform / neighbour / network class implements exactly the type of its
    name, the radial and the deterministic class draw a distance for exactly the types with a law
    (`DispersalKernelType.law?`, the if-chain of their `operator()`; any other type throws). -/
def ServesType : KernelClass → DispersalKernelType → Prop
  | .uniform, t => t = .uniform
  | .neighbor, t => t = .deterministicNeighbor
  | .network, t => t = .network
  | .radial, t => ∃ l, t.law? = some l
  | .deterministic, t => ∃ l, t.law? = some l
  | .switch, t => t = .uniform ∨ t = .deterministicNeighbor ∨ ∃ l, t.law? = some l
  | .mixRadialNetwork, t => (∃ l, t.law? = some l) ∨ t = .network
  | .mixRadialRadial, t => ∃ l, t.law? = some l

/-- `K::is_cell_eligible(row, col)`: only the network kernel looks at the cell (`has_node_at`). For
    the switch kernel see `switchEligible`; for the mix the question is put to the anthropogenic kernel. -/
def classEligible : KernelClass → Bool → Bool
  | .network, hasNode => hasNode
  | _, _ => true

def KernelDesc.cls : KernelDesc → KernelClass
  | .uniform .. => .uniform
  | .neighbor .. => .neighbor
  | .deterministic .. => .deterministic
  | .radial .. => .radial
  | .networkTeleport => .network
  | .networkWalk .. => .network

def SwitchTarget.cls : SwitchTarget → KernelClass
  | .uniform => .uniform | .neighbor => .neighbor | .network => .network
  | .deterministic => .deterministic | .radial => .radial

/-- Eligibility of a source cell for a built kernel. -/
def KernelDesc.eligible (d : KernelDesc) (hasNode : Bool) : Bool := classEligible d.cls hasNode

/-- The kernel a factory builds for a name of type `t` must support `t` unless `t` is a type no
    class serves there: `none` (no spread), and `network` as a NATURAL kernel (the natural factory
    has no network and builds a radial / deterministic kernel that rejects every call). -/
def builtMustSupport (anthro : Bool) (t : DispersalKernelType) : Bool :=
  t != .none && (anthro || t != .network)

/-! ### Documented spellings -/

/-- The spelling is in the documented list of kernel names, for kernel `k`. -/
def DocumentedKernelName (s : String) (k : DispersalKernelType) : Prop := (s, k) ∈ kernelSpellings
instance (s : String) (k : DispersalKernelType) : Decidable (DocumentedKernelName s k) := by
  unfold DocumentedKernelName; exact inferInstance

/-- What the documented list says about a spelling. -/
def documentedKernel? (s : String) : Option DispersalKernelType := kernelSpellings.lookup s

def DocumentedDirectionName (s : String) (d : Direction) : Prop := (s, d) ∈ directionTable
instance (s : String) (d : Direction) : Decidable (DocumentedDirectionName s d) := by
  unfold DocumentedDirectionName; exact inferInstance

def documentedDirection? (s : String) : Option Direction := directionTable.lookup s

/-! ### Network kernel wiring (anthropogenic_kernel.hpp:60-69; property C15) -/

/-- What a `NetworkDispersalKernel` object holds. `min` / `max` are the bounds of its distance
    distribution (`uniform_real_distribution` default `(0, 1)` for the teleporting constructor). -/
structure NetworkWiring where
  teleport : Bool
  jump : Bool
  min : Rat
  max : Rat
deriving DecidableEq, Repr, Inhabited

/-- The wiring the configuration asks for: `network_movement` "teleport" teleports (distances unused),
    "jump" walks and snaps to the nearer node, anything else walks; a walking kernel draws its
    distance between `network_min_distance` and `network_max_distance`. -/
def ConfigWiring (c : KernelConfig) (w : NetworkWiring) : Prop :=
  (w.teleport = true ↔ c.networkMovement = "teleport") ∧
  (w.teleport = false →
    (w.jump = true ↔ c.networkMovement = "jump") ∧ w.min = c.networkMinDistance ∧ w.max = c.networkMaxDistance)
instance (c : KernelConfig) (w : NetworkWiring) : Decidable (ConfigWiring c w) := by
  unfold ConfigWiring; exact inferInstance

/-- The wiring of the kernel the model's factory describes. -/
def KernelDesc.wiring? : KernelDesc → Option NetworkWiring
  | .networkTeleport => some { teleport := true, jump := false, min := 0, max := 1 }
  | .networkWalk mn mx jump => some { teleport := false, jump := jump, min := mn, max := mx }
  | _ => none

end Pops
