/-
  C15 model, part 3: trips - `next_node`, `walk`, `next_probable_node`, `teleport`,
  `NetworkDispersalKernel::operator()`.

  Random choices (`pick_random_item`, `discrete_distribution`) are not replayed: every function
  returns the list of ALL results reachable under some choice. The `while` loop of `walk` is
  fuelled; `Outcome.diverge` marks exhausted fuel and is proved unreachable for positive costs
  (`C15_terminates`). `pref = true` is the code (`next_node` prefers unvisited neighbours);
  `pref = false` is the relaxed walk used as the cost-accounting specification.
-/
import PopsModel.Model.NetParse
namespace Pops.Net

inductive Outcome where
  | at (c : Cell)            -- returned (row, col)
  | err (e : ErrKind)        -- exception
  | oob                      -- `cell_by_cost` index past the end (undefined behaviour)
  | diverge                  -- fuel exhausted (never, see C15_terminates)
deriving DecidableEq, Repr, Inhabited

namespace Net

/-- `next_node(node, ignore, generator)`: all values it can return. -/
def nextNodes (pref : Bool) (n : Net) (node : NodeId) (ignore : List NodeId) : List NodeId :=
  match n.neighbours node with
  | [] => [node]
  | [m] => [m]
  | all =>
    if pref then
      let f := all.filter (fun m => !ignore.contains m)
      if f.isEmpty then all else f
    else all

/-- What happens on the segment where the trip ends. -/
def finish (jump : Bool) (v : SegView) (d : Rat) : Outcome :=
  if jump then
    if d < v.cost / 2 then .at v.front else .at v.back
  else match v.cellByCost d with
    | some c => .at c
    | none => .oob

/-- The `while (distance >= 0)` loop of `walk`. `visited` = `visited_nodes`. -/
def walkFrom (n : Net) (pref jump : Bool) (start : Cell) :
    Nat → NodeId → List NodeId → Rat → List Outcome
  | 0, _, _, d => if d < 0 then [.err .invalid_argument] else [.diverge]
  | fuel + 1, node, visited, d =>
    if d < 0 then [.err .invalid_argument]
    else (n.nextNodes pref node visited).flatMap fun nxt =>
      if nxt = node then [.at start]
      else match n.getSegment node nxt with
        | none => [.err .invalid_argument]
        | some v =>
          if d > v.cost then walkFrom n pref jump start fuel nxt (node :: visited) (d - v.cost)
          else [finish jump v d]

/-- Smallest segment cost of the network (1 for an empty network). -/
def minCost (n : Net) : Rat :=
  match n.segs with
  | [] => 1
  | e :: rest => rest.foldl (fun m e' => if e'.2.cost < m then e'.2.cost else m) e.2.cost

/-- Loop iterations that suffice: `floor(distance / mincost) + 1`. -/
def walkFuel (n : Net) (d : Rat) : Nat := (d / n.minCost).floor.toNat + 1

/-- `walk(row, col, distance, generator, jump)`: every reachable result. -/
def walkG (n : Net) (pref : Bool) (c : Cell) (d : Rat) (jump : Bool) : List Outcome :=
  match n.nodesAt c with
  | [] => [.err .invalid_argument]
  | nodes => nodes.flatMap fun nd => walkFrom n pref jump c (n.walkFuel d) nd [] d

def walk (n : Net) (c : Cell) (d : Rat) (jump : Bool := false) : List Outcome := n.walkG true c d jump

/-- The relaxed walk: same cost accounting, any neighbour at each node. -/
def walkRelaxed (n : Net) (c : Cell) (d : Rat) (jump : Bool := false) : List Outcome :=
  n.walkG false c d jump

/-- Membership test for `walkFrom` with early exit (used by the driver; equal to
    `(walkFrom ..).contains t`, lemma `walkHas_eq`). -/
def walkHas (n : Net) (pref jump : Bool) (start : Cell) (t : Outcome) :
    Nat → NodeId → List NodeId → Rat → Bool
  | 0, _, _, d => if d < 0 then [Outcome.err .invalid_argument].contains t else [Outcome.diverge].contains t
  | fuel + 1, node, visited, d =>
    if d < 0 then [Outcome.err .invalid_argument].contains t
    else (n.nextNodes pref node visited).any fun nxt =>
      if nxt = node then [Outcome.at start].contains t
      else match n.getSegment node nxt with
        | none => [Outcome.err .invalid_argument].contains t
        | some v =>
          if d > v.cost then walkHas n pref jump start t fuel nxt (node :: visited) (d - v.cost)
          else [finish jump v d].contains t

/-- Membership test for `walkG`. -/
def walkGHas (n : Net) (pref : Bool) (c : Cell) (d : Rat) (jump : Bool) (t : Outcome) : Bool :=
  match n.nodesAt c with
  | [] => [Outcome.err .invalid_argument].contains t
  | nodes => nodes.any fun nd => walkHas n pref jump c t (n.walkFuel d) nd [] d

/-- `next_probable_node`: every node it can return (a zero weight is never drawn by
    `discrete_distribution` while some weight is positive). -/
def teleportTargets (n : Net) (node : NodeId) : List NodeId :=
  match n.neighbours node with
  | [] => [node]
  | [m] => [m]
  | nb =>
    let ps := n.neighbourProbs node
    if ps.isEmpty then nb
    else
      let pos := ((nb.zip ps).filter (fun x => decide (0 < x.2))).map (·.1)
      if pos.isEmpty then nb else pos

def teleportNodes (n : Net) : Nat → NodeId → List NodeId
  | 0, x => [x]
  | k + 1, x => (n.teleportTargets x).flatMap (teleportNodes n k)

/-- `teleport(row, col, generator, num_steps)`. -/
def teleport (n : Net) (c : Cell) (steps : Nat := 1) : List Outcome :=
  match n.nodesAt c with
  | [] => [.err .invalid_argument]
  | nodes => nodes.flatMap fun nd =>
      (n.teleportNodes steps nd).map fun m =>
        match n.nodeCell m with
        | some x => .at x
        | none => .err .invalid_argument

/-- `NetworkDispersalKernel::operator()` with the distance already drawn. -/
def kernelCall (n : Net) (teleportMode jump : Bool) (c : Cell) (d : Rat) : List Outcome :=
  if teleportMode then n.teleport c 1 else n.walk c d jump

/-- `NetworkDispersalKernel::is_cell_eligible`. -/
def isCellEligible (n : Net) (c : Cell) : Bool := n.hasNodeAt c

end Net
end Pops.Net
