/-
  The treatments a run sees, derived from the registered list (`Treatments::treatments`,
  treatments.hpp 300) instead of being a free input: `Treatments::manage(current)` (354-368) walks
  the list in order and, for each treatment, applies it (`should_start`), ends it (`should_end`) or
  does nothing. `StepInputs.treatEvents` (Model/RunStep.lean) is that list of due events.
  New definitions only.
-/
import PopsModel.Model.RunModel
import PopsModel.Model.Errors
namespace Pops

/-- A registered treatment: its schedule, its application mode and its coefficient raster. -/
abbrev Treatment := TreatSpec × TreatApp × List Rat

/-- The event `manage(step)` raises for one treatment, in the format of `StepInputs.treatEvents`:
    (finish?, pesticide?, application, coefficients). -/
def Treatment.eventOf (t : Treatment) (step : Nat) : Option (Bool × Bool × TreatApp × List Rat) :=
  match t.1.eventAt step with
  | .apply => some (false, t.1.pesticide, t.2.1, t.2.2)
  | .finish => some (true, t.1.pesticide, t.2.1, t.2.2)
  | .nothing => none

/-- The events of `manage(step)`: those of the treatments whose `eventAt step` is not `.nothing`,
    in list order. -/
def eventsAt (ts : List Treatment) (step : Nat) : List (Bool × Bool × TreatApp × List Rat) :=
  ts.filterMap (·.eventOf step)

/-- The cell operations of one event: one per suitable cell, in suitable-cell order (what
    `actionGen _ _ .treatments` generates for it). -/
def eventOps (inp : StepInputs) (ev : Bool × Bool × TreatApp × List Rat) : List LandOp :=
  cellOpsOver inp fun _ k =>
    some (if ev.1 then .pesticideEnd ev.2.2.2[k]!
          else if ev.2.1 then .pesticideTreat ev.2.2.2[k]! ev.2.2.1 else .simpleTreat ev.2.2.2[k]! ev.2.2.1)

/-- The application operations of a treatment (`apply_treatment`). -/
def Treatment.applyOps (t : Treatment) (inp : StepInputs) : List LandOp := eventOps inp (false, t.1.pesticide, t.2.1, t.2.2)
/-- The end operations of a treatment (`end_treatment`). -/
def Treatment.endOps (t : Treatment) (inp : StepInputs) : List LandOp := eventOps inp (true, t.1.pesticide, t.2.1, t.2.2)

/-- What one treatment contributes to `manage(step)`. -/
def Treatment.opsAt (t : Treatment) (inp : StepInputs) (step : Nat) : List LandOp :=
  match t.1.eventAt step with
  | .apply => t.applyOps inp
  | .finish => t.endOps inp
  | .nothing => []

/-- A tag for one execution of one treatment: (step, index in the registered list, finish?). -/
abbrev TreatTag := Nat × Nat × Bool

def tagsOf (step i : Nat) : TreatEvent → List TreatTag
  | .apply => [(step, i, false)]
  | .finish => [(step, i, true)]
  | .nothing => []

/-- What `manage(step)` executes, tagged, in list order. -/
def treatTagsAt (ts : List Treatment) (step : Nat) : List TreatTag :=
  (List.range ts.length).flatMap fun i => tagsOf step i ((ts[i]!).1.eventAt step)

/-- What the treatments action executes during a run of `n` steps from step `first`, tagged, in
    execution order. -/
def treatTrace (ts : List Treatment) (first n : Nat) : List TreatTag :=
  (List.range n).flatMap fun k => treatTagsAt ts (first + k)

/-- The inputs of step `s` in the run `runModel cfg inps first`. -/
def stepInputAt (inps : List StepInputs) (first s : Nat) : Option StepInputs :=
  if first ≤ s then inps[s - first]? else none

/-- The operations a tag stands for, given the inputs of each step. -/
def tagOps (ts : List Treatment) (inputAt : Nat → Option StepInputs) (tag : TreatTag) : List LandOp :=
  match inputAt tag.1 with
  | some inp => eventOps inp (tag.2.2, (ts[tag.2.1]!).1.pesticide, (ts[tag.2.1]!).2.1, (ts[tag.2.1]!).2.2)
  | none => []

/-- The concatenated output of the treatments generator over the run `runModel cfg inps first`
    (same recursion): step `step` runs the generators `stepGens cfg inp step`, the plan's actions
    mapped by `actionGen`; the treatments generator does not depend on the landscape. -/
def treatOpsOfRun (cfg : StepCfg) : List StepInputs → Nat → List LandOp
  | [], _ => []
  | inp :: rest, step =>
    (if cfg.runs step .treatments then actionGen inp step .treatments [] else []) ++ treatOpsOfRun cfg rest (step + 1)

/-- `Treatments::clear_after_step` on registered treatments. -/
def clearAfter (ts : List Treatment) (step : Nat) : List Treatment :=
  ts.filter fun t => !(decide (t.1.start > step))

end Pops
