/-
  Driver engine for C18 (prefix `metric.`): recomputes every reported metric from the observed
  input rasters with the model (MISMATCH) and evaluates the definitions of
  Model/MetricSpec.lean on the implementation's observed output (PROPFAIL C18 ..., or
  KNOWN C18 F30 ... inside the region of the open finding: an infected cell with a negative area id).
  Line formats: see harness/h_metric.cpp.
-/
import PopsModel.Driver.Util
import PopsModel.Model.MetricSpec
namespace Pops.Driver.MetricEng
open Pops Pops.Driver Pops.Metric

structure SrRun where
  model : SpreadRate := default
  slots : List (Option IRaster) := []     -- raster measured into boundary slot k (observed inputs)
deriving Inhabited

structure State where
  rows : Int := 0
  cols : Int := 0
  ew : Rat := 1
  ns : Rat := 1
  cells : List Cell := []
  sr : List (Nat × SrRun) := []
  qAreas : IRaster := default
  qDirs : Dirs := Dirs.all
  q : List Quarantine := []
  /-- what each run's action REPORTED (observed `distance(step)`, direction code), by (run, step) -/
  qObs : List ((Nat × Nat) × (String × String)) := []
deriving Inhabited

/-! ### parsing / printing -/

def optRat? (s : String) : Option (Option Rat) :=
  if s = "nan" then some none else (parseRat? s).map some

def showRat (q : Rat) : String := if q.den = 1 then toString q.num else s!"{q.num}/{q.den}"
def showOptRat : Option Rat → String
  | none => "nan"
  | some q => showRat q
def showBox (b : Box) : String := s!"{b.n} {b.s} {b.e} {b.w}"
def showRates (r : Rates) : String :=
  s!"{showOptRat r.n} {showOptRat r.s} {showOptRat r.e} {showOptRat r.w}"

def box? : List String → Option Box
  | [a, b, c, d] => do
    let n ← parseInt? a; let s ← parseInt? b; let e ← parseInt? c; let w ← parseInt? d
    some ⟨n, s, e, w⟩
  | _ => none

def rates? : List String → Option Rates
  | [a, b, c, d] => do
    let n ← optRat? a; let s ← optRat? b; let e ← optRat? c; let w ← optRat? d
    some ⟨n, s, e, w⟩
  | _ => none

def cells? : List String → Option (List Cell)
  | [] => some []
  | a :: b :: rest => do
    let i ← parseInt? a; let j ← parseInt? b
    let r ← cells? rest
    some ((i, j) :: r)
  | _ => none

def raster? (st : State) (toks : List String) : Option IRaster := do
  let d ← parseInts? toks
  if (d.length : Int) = st.rows * st.cols then some ⟨st.rows, st.cols, d⟩ else none

def dist? (s : String) : Option Dist :=
  if s = "nan" then some .nan else if s = "max" then some .max else (parseInt? s).map .val

def showDist : Dist → String
  | .nan => "nan"
  | .max => "max"
  | .val d => toString d

def assocGet {α : Type} (l : List (Nat × α)) (k : Nat) : Option α := (l.find? (·.1 == k)).map (·.2)
def assocSet {α : Type} (l : List (Nat × α)) (k : Nat) (v : α) : List (Nat × α) :=
  (k, v) :: l.filter (·.1 != k)

/-- Doubles that are not exact (a quotient by the number of runs): agreement up to 2^-40. -/
def closeRat (a b : Rat) : Bool :=
  let d := if a < b then b - a else a - b
  let m := if b < 0 then -b else b
  decide (d * 1099511627776 ≤ (if m < 1 then 1 else m))

def closeOpt : Option Rat → Option Rat → Bool
  | none, none => true
  | some a, some b => closeRat a b
  | _, _ => false

def closeRates (a b : Rates) : Bool :=
  closeOpt a.n b.n && closeOpt a.s b.s && closeOpt a.e b.e && closeOpt a.w b.w

/-! ### definitions evaluated by brute force over the whole raster -/

/-- Infected listed cells found by scanning every cell of the raster. -/
def scanInfected (st : State) (inf : IRaster) : List Cell :=
  (allCells st.rows st.cols).filter fun c => st.cells.contains c && decide (inf.at c.1 c.2 > 0)

def nonneg (r : IRaster) : Bool := r.data.all (· ≥ 0)

/-! ### handlers -/

def errOr (model : String) (obs : List String) (what : String) : String :=
  if " ".intercalate obs = model then "ok" else s!"MISMATCH {what} model={model}"

def handleGrid (st : State) (inp : List String) : State × String :=
  match inp with
  | r :: c :: ew :: ns :: k :: rest =>
    match parseInt? r, parseInt? c, parseRat? ew, parseRat? ns, parseNat? k, cells? rest with
    | some r, some c, some ew, some ns, some k, some cs =>
      if cs.length = k then ({ rows := r, cols := c, ew := ew, ns := ns, cells := cs }, "ok")
      else (st, "BADLINE")
    | _, _, _, _, _, _ => (st, "BADLINE")
  | _ => (st, "BADLINE")

def handleSrNew (st : State) (inp obs : List String) : State × String :=
  match inp with
  | run :: k :: rest =>
    match parseNat? run, parseNat? k, raster? st rest, box? obs with
    | some run, some k, some inf, some ob =>
      let m := SpreadRate.new inf st.cells st.rows st.cols st.ew st.ns k
      let slots := (List.replicate (k + 1) (none : Option IRaster)).set 0 (some inf)
      let st' := { st with sr := assocSet st.sr run { model := m, slots := slots } }
      if ob ≠ specBoxOr (scanInfected st inf) then
        (st', s!"PROPFAIL C18 bbox expected={showBox (specBoxOr (scanInfected st inf))}")
      else if m.boundaries.head? ≠ some ob then
        (st', s!"MISMATCH metric.sr.new model={showBox (m.boundaries.headD default)}")
      else (st', "ok")
    | _, _, _, _ => (st, "BADLINE")
  | _ => (st, "BADLINE")

def handleSrAct (st : State) (inp obs : List String) : State × String :=
  match inp with
  | run :: step :: rest =>
    match parseNat? run, parseNat? step, raster? st rest with
    | some run, some step, some inf =>
      match assocGet st.sr run with
      | none => (st, "BADLINE")
      | some r =>
        match r.model.action inf st.cells step, obs with
        | .error e, [o] => (st, if o = errTok e then "ok" else s!"MISMATCH metric.sr.act model={errTok e}")
        | .error e, _ => (st, s!"MISMATCH metric.sr.act model={errTok e}")
        | .ok m, _ =>
          match box? (obs.take 4), rates? (obs.drop 4) with
          | some ob, some orates =>
            let prevR := (r.slots.getD step none)
            let st' := { st with sr := assocSet st.sr run { model := m, slots := r.slots.set (step + 1) (some inf) } }
            let cur := scanInfected st inf
            if ob ≠ specBoxOr cur then (st', s!"PROPFAIL C18 bbox expected={showBox (specBoxOr cur)}")
            else
              -- the rate definition applies when the previous measurement found infection
              let rateFail : Option String :=
                match prevR with
                | none => none
                | some p =>
                  match specBox (scanInfected st p) with
                  | none => none
                  | some b1 =>
                    if st.ns = 0 || st.ew = 0 then none
                    else
                      let want := specRatesOpt st.rows st.cols st.ns st.ew b1 (specBox cur)
                      if want = orates then none else some (showRates want)
              match rateFail with
              | some w => (st', s!"PROPFAIL C18 rate expected={w}")
              | none =>
                if m.boundaries.getD (step + 1) default ≠ ob ∨ m.stepRate step ≠ orates then
                  (st', s!"MISMATCH metric.sr.act model={showBox (m.boundaries.getD (step + 1) default)} {showRates (m.stepRate step)}")
                else (st', "ok")
          | _, _ =>
            (st, s!"MISMATCH metric.sr.act model={showBox (m.boundaries.getD (step + 1) default)} {showRates (m.stepRate step)}")
    | _, _, _ => (st, "BADLINE")
  | _ => (st, "BADLINE")

partial def ratesList? (k : Nat) (toks : List String) : Option (List Rates) :=
  if k = 0 then (if toks.isEmpty then some [] else none) else do
    let r ← rates? (toks.take 4)
    let rest ← ratesList? (k - 1) (toks.drop 4)
    some (r :: rest)

def handleSrAvg (st : State) (inp obs : List String) : State × String :=
  match inp with
  | step :: n :: rest =>
    match parseNat? step, parseNat? n, rates? obs with
    | some step, some n, some o =>
      match ratesList? n rest with
      | none => (st, "BADLINE")
      | some rl =>
        let runs := (List.range n).filterMap fun i => (assocGet st.sr i).map (·.model)
        let want : Rates := ⟨meanDefined (rl.map (·.n)), meanDefined (rl.map (·.s)),
                            meanDefined (rl.map (·.e)), meanDefined (rl.map (·.w))⟩
        if !closeRates o want then (st, s!"PROPFAIL C18 average-rate expected={showRates want}")
        else if runs.length ≠ n then (st, "BADLINE")
        else if runs.map (·.stepRate step) ≠ rl then (st, "MISMATCH metric.sr.avg step-rates differ from model")
        else
          let m := averageSpreadRate runs step
          (st, if closeRates o m then "ok" else s!"MISMATCH metric.sr.avg model={showRates m}")
    | _, _, _ => (st, "BADLINE")
  | _ => (st, "BADLINE")

partial def table? (k : Nat) (toks : List String) : Option (List (Int × Box)) :=
  if k = 0 then (if toks.isEmpty then some [] else none) else
    match toks with
    | id :: rest => do
      let v ← parseInt? id
      let b ← box? (rest.take 4)
      let more ← table? (k - 1) (rest.drop 4)
      some ((v, b) :: more)
    | [] => none

def showTable (t : List (Int × Box)) : String :=
  " ".intercalate (toString t.length :: t.map fun e => s!"{e.1} {showBox e.2}")

def handleQNew (st : State) (inp obs : List String) : State × String :=
  match inp with
  | n :: dirs :: k :: rest =>
    match parseNat? n, parseNat? k, raster? st rest with
    | some n, some k, some areas =>
      let text := if dirs = "<empty>" then "" else dirs
      match Quarantine.new areas st.ew st.ns k text, obs with
      | .error e, [o] =>
        ({ st with q := [] }, if o = errTok e then "ok" else s!"MISMATCH metric.q.new model={errTok e}")
      | .error e, _ => ({ st with q := [] }, s!"MISMATCH metric.q.new model={errTok e}")
      | .ok q, "ok" :: cnt :: more =>
        let st' := { st with q := List.replicate n q, qAreas := areas, qDirs := q.dirs }
        match parseNat? cnt with
        | none => (st', "BADLINE")
        | some cnt =>
          match table? cnt more with
          | none => (st', "BADLINE")
          | some tbl =>
            -- definition: one entry per positive id present, each with its min/max box
            let ids := (areas.data.filter (· > 0)).eraseDups
            let idsOK := tbl.all (fun e => ids.contains e.1) && ids.all (fun v => (tbl.filter (·.1 == v)).length == 1)
            let boxesOK := tbl.all fun e => specAreaBox areas e.1 == some e.2
            if !(idsOK && boxesOK) then (st', "PROPFAIL C18 area-bbox table differs from min/max over the area's cells")
            else if tbl ≠ q.table then (st', s!"MISMATCH metric.q.new model=ok {showTable q.table}")
            else (st', "ok")
      | .ok q, _ => ({ st with q := [] }, s!"MISMATCH metric.q.new model=ok {showTable q.table}")
    | _, _, _ => (st, "BADLINE")
  | _ => (st, "BADLINE")

def showInfo (x : EscapeInfo) : String :=
  s!"ok {if x.escaped then 1 else 0} {showDist x.dist} {x.dir.name} {x.dir.code}"

def dirOfName? (s : String) : Option Dir :=
  [Dir.N, Dir.S, Dir.E, Dir.W, Dir.none].find? (·.name == s)

/-- `metric.q.act`. Domain of the property predicates: the area raster given to `action` is the one
    given to the constructor (`same`). Area ids are NOT restricted: an infected listed cell whose id
    is not positive lies outside every quarantine area (`specEscapedFull`), so escape must be
    reported. Region of the open finding F30 (`negativeIdAtInfected`): some infected listed cell has
    a NEGATIVE id - there a failing predicate is printed as `KNOWN C18 F30 ...` (never hiding a
    disagreement with the model); everywhere else, including rasters with negative ids at
    non-infected cells only, a failing predicate is a `PROPFAIL`. -/
def handleQAct (st : State) (inp obs : List String) : State × String :=
  match inp with
  | run :: step :: flag :: rest =>
    let ncell := (st.rows * st.cols).toNat
    match parseNat? run, parseNat? step, raster? st (rest.take ncell) with
    | some run, some step, some inf =>
      let areas2? : Option IRaster := if flag = "same" then (if rest.length = ncell then some st.qAreas else none)
        else raster? st (rest.drop ncell)
      match areas2?, st.q[run]? with
      | some areas2, some q =>
        let inDomain := flag = "same"
        let region := inDomain && negativeIdAtInfected inf st.qAreas st.cells
        let modelR := q.action st.cells inf areas2 step
        let modelS := match modelR with
          | .error e => errTok e
          | .ok q' => showInfo (q'.infos.getD step default)
        match obs with
        | [o] =>
          -- the call threw
          if !o.startsWith "err:" then (st, s!"MISMATCH metric.q.act model={modelS}")
          else if inDomain && decide (step < q.infos.length) then
            -- a valid step on the constructor's raster: the property demands a report
            if region then
              (st, if o = modelS then s!"KNOWN C18 F30 negative area id at an infected cell: escape must be reported, action threw {o}"
                   else s!"MISMATCH metric.q.act model={modelS}")
            else (st, s!"PROPFAIL C18 escape-iff action threw {o} expected={specEscapedFull inf st.qAreas st.cells}")
          else (st, if o = modelS then "ok" else s!"MISMATCH metric.q.act model={modelS}")
        | ["ok", esc, dist, dname, dcode] =>
          match modelR with
          | .error _ => (st, s!"MISMATCH metric.q.act model={modelS}")
          | .ok q' =>
          let st' := { st with q := st.q.set run q',
                               qObs := ((run, step), (dist, dcode)) :: st.qObs.filter (·.1 != (run, step)) }
          let mi := (q'.infos.getD step default)
          match dist? dist, dirOfName? dname with
          | some od, some odir =>
            let oesc := esc == "1"
            let agrees := toString odir.code = dcode && decide ((⟨oesc, od, odir⟩ : EscapeInfo) = mi)
            let want := specEscapedFull inf st.qAreas st.cells
            if inDomain && oesc != want then
              if region then
                (st', if agrees then s!"KNOWN C18 F30 negative area id at an infected cell: escape must be reported, reported escaped={esc} distance={showDist od} direction={odir.name}"
                      else s!"MISMATCH metric.q.act model={showInfo mi}")
              else (st', s!"PROPFAIL C18 escape-iff expected={want}")
            else
              -- every resolution (integer or not): the direction must be that of a pair (infected cell,
              -- enabled side) whose EXACT distance is minimal, the distance its `lround`. Here no
              -- infected cell lies outside every area, so each has a positive id and its own box.
              let nearestFail : Bool :=
                inDomain && !oesc && !(presentCells inf st.cells).isEmpty &&
                decide (0 ≤ st.ns) && decide (0 ≤ st.ew) &&
                (match od with
                 | .val d => !nearestOK inf st.qAreas st.cells st.qDirs st.ns st.ew d odir
                 | _ => true)
              if nearestFail then (st', s!"PROPFAIL C18 nearest reported (distance, direction) = ({showDist od}, {odir.name}) is not (lround of the exact distance, side) of a nearest (infected cell, enabled side) pair")
              else if toString odir.code ≠ dcode then (st', "MISMATCH metric.q.act direction code")
              else if (⟨oesc, od, odir⟩ : EscapeInfo) ≠ mi then (st', s!"MISMATCH metric.q.act model={showInfo mi}")
              else (st', "ok")
          | _, _ => (st', "BADLINE")
        | _ => (st, s!"MISMATCH metric.q.act model={modelS}")
      | _, _ => (st, "BADLINE")
    | _, _, _ => (st, "BADLINE")
  | _ => (st, "BADLINE")

def handleQProb (st : State) (inp obs : List String) : State × String :=
  match inp with
  | step :: n :: flags =>
    match parseNat? step, parseNat? n with
    | some step, some n =>
      let runs := st.q.take n
      match escapeProbability runs step, obs with
      | .error e, [o] => (st, if o = errTok e then "ok" else s!"MISMATCH metric.q.prob model={errTok e}")
      | .error e, _ => (st, s!"MISMATCH metric.q.prob model={errTok e}")
      | .ok p, [o] =>
        match optRat? o with
        | none => (st, s!"MISMATCH metric.q.prob model={showOptRat p}")
        | some op =>
          let fl := flags.map (· == "1")
          if fl.length ≠ n then (st, "BADLINE")
          else if !closeOpt op (fractionTrue fl) then
            (st, s!"PROPFAIL C18 escape-probability expected={showOptRat (fractionTrue fl)}")
          else if (runs.map fun q => (q.infos.getD step default).escaped) ≠ fl then
            (st, "MISMATCH metric.q.prob escape flags differ from model")
          else (st, if closeOpt op p then "ok" else s!"MISMATCH metric.q.prob model={showOptRat p}")
      | _, _ => (st, "BADLINE")
    | _, _ => (st, "BADLINE")
  | _ => (st, "BADLINE")

/-- `distance_direction_to_quarantine`: the per-run report of the property's "reported distance and
    direction". Predicate on observed values: entry `i` is the (distance, direction) that run `i`'s
    own action reported for that step (judged there by `nearest` / `escape-iff`); then the model. -/
def handleQDd (st : State) (inp obs : List String) : State × String :=
  match inp with
  | [step, n] =>
    match parseNat? step, parseNat? n with
    | some step, some n =>
      let m := match distanceDirection (st.q.take n) step with
        | .error e => errTok e
        | .ok l => " ".intercalate (l.map fun x => s!"{showDist x.1} {x.2.code}")
      let reported : Option (List String) :=
        ((List.range n).mapM fun i => (st.qObs.find? (·.1 == (i, step))).map fun e => [e.2.1, e.2.2]).map List.flatten
      match reported with
      | some want =>
        if !(obs.any (·.startsWith "err:")) && obs != want then
          (st, s!"PROPFAIL C18 nearest distance_direction_to_quarantine differs from what the runs' actions reported: expected={" ".intercalate want}")
        else (st, errOr m obs "metric.q.dd")
      | none => (st, errOr m obs "metric.q.dd")
    | _, _ => (st, "BADLINE")
  | _ => (st, "BADLINE")

def handleQCsv (st : State) (inp obs : List String) : State × String :=
  match inp with
  | [k, n] =>
    match parseNat? k, parseNat? n with
    | some k, some n =>
      let m := match writeQuarantineEscape (st.q.take n) k with
        | .error e => errTok e
        | .ok s => s.replace "\n" "|"
      (st, if " ".intercalate obs = m then "ok" else "MISMATCH metric.q.csv model=" ++ (m.take 300).toString)
    | _, _ => (st, "BADLINE")
  | _ => (st, "BADLINE")

def handleStat (st : State) (inp obs : List String) : State × String :=
  match raster? st inp, obs with
  | some inf, [s, a] =>
    match parseInt? s, parseRat? a with
    | some os, some oa =>
      -- definitions over all index pairs of the raster; they apply when every infected cell is listed once
      let covered := nonneg inf && st.cells.eraseDups.length == st.cells.length &&
        (allCells st.rows st.cols).all fun c => inf.at c.1 c.2 == 0 || st.cells.contains c
      let total := rasterSum inf st.rows st.cols
      let count := rasterCount inf st.rows st.cols
      if covered && decide (total < 4294967296) && os ≠ total then
        (st, s!"PROPFAIL C18 sum expected={total}")
      else if covered && oa ≠ (count : Rat) * st.ew * st.ns then
        (st, s!"PROPFAIL C18 area expected={showRat ((count : Rat) * st.ew * st.ns)}")
      else
        let ms := sumOfInfected inf st.cells
        let ma := areaOfInfected inf st.ew st.ns st.cells
        (st, if ms = os ∧ ma = oa then "ok" else s!"MISMATCH metric.stat model={ms} {showRat ma}")
    | _, _ => (st, "BADLINE")
  | _, _ => (st, "BADLINE")

def handle (st : State) (cmd : String) (inp obs : List String) : State × String :=
  match cmd with
  | "metric.grid" => handleGrid st inp
  | "metric.sr.new" => handleSrNew st inp obs
  | "metric.sr.act" => handleSrAct st inp obs
  | "metric.sr.avg" => handleSrAvg st inp obs
  | "metric.q.new" => let (s, r) := handleQNew st inp obs; ({ s with qObs := [] }, r)
  | "metric.q.act" => handleQAct st inp obs
  | "metric.q.prob" => handleQProb st inp obs
  | "metric.q.dd" => handleQDd st inp obs
  | "metric.q.csv" => handleQCsv st inp obs
  | "metric.stat" => handleStat st inp obs
  | _ => (st, "BADLINE")

end Pops.Driver.MetricEng
