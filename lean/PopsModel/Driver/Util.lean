/-
  Line-protocol helpers shared by the driver engines (core Lean only).
-/
import PopsModel.Model.Basic
namespace Pops.Driver

def parseInt? (s : String) : Option Int := s.toInt?
def parseNat? (s : String) : Option Nat := s.toNat?

/-- `num/den` or a plain integer. -/
def parseRat? (s : String) : Option Rat :=
  match s.splitOn "/" with
  | [a] => (a.toInt?).map (fun (n : Int) => (n : Rat))
  | [a, b] => do
    let n ← a.toInt?
    let d ← b.toNat?
    if d = 0 then none else some (mkRat n d)
  | _ => none

def parseInts? (l : List String) : Option (List Int) := l.mapM parseInt?
def parseRats? (l : List String) : Option (List Rat) := l.mapM parseRat?

/-- Split a protocol line into the input tokens and the observed tokens (after `=>`). -/
def splitLine (line : String) : List String × List String :=
  let toks := (line.trimAscii.toString.splitOn " ").filter (· ≠ "")
  let rec go (acc : List String) : List String → List String × List String
    | [] => (acc.reverse, [])
    | "=>" :: rest => (acc.reverse, rest)
    | t :: rest => go (t :: acc) rest
  go [] toks

def showInts (l : List Int) : String := " ".intercalate (l.map toString)
def showBits (l : List Bool) : String := String.ofList (l.map fun b => if b then '1' else '0')
def parseBits (s : String) : List Bool := s.toList.map (· == '1')

def errTok (e : Pops.ErrKind) : String := "err:" ++ e.name

/-- Take `n` elements; `none` if there are fewer. -/
def takeN? {α : Type} (n : Nat) (l : List α) : Option (List α × List α) :=
  if l.length < n then none else some (l.take n, l.drop n)

end Pops.Driver
