/-
  Model driver: one protocol line in, one verdict line out.
  Verdicts: ok | MISMATCH ... | PROPFAIL <property> ... | KNOWN <finding> ... | BADLINE | skip
-/
import PopsModel.Driver.DateEng
import PopsModel.Driver.RasterEng
import PopsModel.Driver.MetricEng
import PopsModel.Driver.NetEng
import PopsModel.Driver.KernEng
import PopsModel.Driver.DetEng
import PopsModel.Driver.HostEng
import PopsModel.Driver.MultiEng
import PopsModel.Driver.StreamEng
import PopsModel.Driver.ErrEng
import PopsModel.Driver.MModelEng
namespace Pops.Driver

structure DState where
  date : DateEng.State := {}
  raster : RasterEng.State := {}
  metric : MetricEng.State := {}
  net : NetEng.State := {}
  kern : KernEng.State := {}
  det : DetEng.State := {}
  host : HostEng.State := {}
  multi : MultiEng.State := {}
  stream : StreamEng.State := {}
  err : ErrEng.State := {}
  mmodel : MModelEng.State := {}

def dateCmds : List String :=
  ["sched", "lookup", "yearly", "eoy", "monthly", "nsteps", "final", "spread", "fromstring",
   "weather", "actionstep", "count", "unit", "cfgsched"]

def step (st : DState) (line : String) : DState × String :=
  let (inp, obs) := splitLine line
  match inp with
  | [] => (st, "skip")
  | cmd :: args =>
    if cmd.startsWith "#" then (st, "skip")
    else if cmd.startsWith "date." || dateCmds.contains cmd then
      let (s', out) := DateEng.handle st.date cmd args obs
      ({ st with date := s' }, out)
    else if cmd.startsWith "raster." then
      let (s', out) := RasterEng.handle st.raster cmd args obs
      ({ st with raster := s' }, out)
    else if cmd.startsWith "metric." then
      let (s', out) := MetricEng.handle st.metric cmd args obs
      ({ st with metric := s' }, out)
    else if cmd.startsWith "net." then
      let (s', out) := NetEng.handle st.net cmd args obs
      ({ st with net := s' }, out)
    else if cmd.startsWith "kern." then
      let (s', out) := KernEng.handle st.kern cmd args obs
      ({ st with kern := s' }, out)
    else if cmd.startsWith "det." then
      let (s', out) := DetEng.handle st.det cmd args obs
      ({ st with det := s' }, out)
    else if cmd.startsWith "hp." then
      let (s', out) := HostEng.handle st.host cmd args obs
      ({ st with host := s' }, out)
    else if cmd.startsWith "mh." then
      let (s', out) := MultiEng.handle st.multi cmd args obs
      ({ st with multi := s' }, out)
    else if cmd.startsWith "rng." then
      let (s', out) := StreamEng.handle st.stream cmd args obs
      ({ st with stream := s' }, out)
    else if cmd.startsWith "err." then
      let (s', out) := ErrEng.handle st.err cmd args obs
      ({ st with err := s' }, out)
    else if cmd.startsWith "mm." then
      let (s', out) := MModelEng.handle st.mmodel cmd args obs
      ({ st with mmodel := s' }, out)
    else (st, "BADLINE")

partial def loop (h : IO.FS.Stream) (out : IO.FS.Stream) (st : DState) (case_ : String) : IO Unit := do
  let line ← h.getLine
  if line.isEmpty then return ()
  let l := line.trimAscii.toString
  let case' := if l.startsWith "# case " then l else case_
  let (st', o) := step st line
  -- a non-ok verdict carries the case header and the offending line, so the orchestrator
  -- can replay exactly that case against the real code
  if o = "ok" || o = "skip" then out.putStrLn o
  else out.putStrLn (o ++ " || " ++ case' ++ " || " ++ l)
  loop h out st' case'

end Pops.Driver

def main : IO Unit := do
  let stdin ← IO.getStdin
  let stdout ← IO.getStdout
  Pops.Driver.loop stdin stdout {} "# case none"
