/-
  Model driver: one protocol line in, one verdict line out.
  Verdicts: ok | MISMATCH ... | PROPFAIL <property> ... | KNOWN <finding> ... | BADLINE | skip
-/
import PopsModel.Driver.DateEng
namespace Pops.Driver

structure DState where
  date : DateEng.State := {}

def dateCmds : List String :=
  ["sched", "lookup", "yearly", "eoy", "monthly", "nsteps", "final", "spread", "fromstring",
   "weather", "actionstep", "count", "unit"]

def step (st : DState) (line : String) : DState × String :=
  let (inp, obs) := splitLine line
  match inp with
  | [] => (st, "skip")
  | cmd :: args =>
    if cmd.startsWith "#" then (st, "skip")
    else if cmd.startsWith "date." || dateCmds.contains cmd then
      let (s', out) := DateEng.handle st.date cmd args obs
      ({ st with date := s' }, out)
    else (st, "BADLINE")

partial def loop (h : IO.FS.Stream) (out : IO.FS.Stream) (st : DState) (case_ : String) : IO Unit := do
  let line ← h.getLine
  if line.isEmpty then return ()
  let l := line.trimAscii.toString
  let case' := if l.startsWith "# case " then l else case_
  let (st', o) := step st line
  -- a non-ok verdict carries the case header and the offending line, so the orchestrator
  -- can replay exactly that case against the real code
  if o = "ok" || o = "skip" then out.putStrLn o
  else out.putStrLn (o ++ " || " ++ case' ++ " || " ++ l)
  loop h out st' case'

end Pops.Driver

def main : IO Unit := do
  let stdin ← IO.getStdin
  let stdout ← IO.getStdout
  Pops.Driver.loop stdin stdout {} "# case none"
