/-
  Driver engine for Model::run_step with several hosts (prefix `mm.`). Stub; see harness/h_mmodel.cpp.
-/
import PopsModel.Driver.Util
namespace Pops.Driver.MModelEng
open Pops Pops.Driver

structure State where
  dummy : Nat := 0
deriving Inhabited

def handle (st : State) (_cmd : String) (_inp _obs : List String) : State × String := (st, "BADLINE")

end Pops.Driver.MModelEng
